(* Driver entry points for C02 (string entry points: raw-string prefilter and glue). *)
From Verif Require Import Base.Prelude Base.Utf8 Base.Wire Model.Entry.

Definition d_fdset : dec en_fdset :=
  dlet chars <- d_zlist ; dlet neg <- d_bool ; dlet has_range <- d_bool ; dlet first <- d_z ; dlet last <- d_z ;
  dlet dist <- d_z ;
  d_ret {| fs_chars := chars; fs_negated := neg;
           fs_range := if has_range then Some (first, last) else None; fs_distance := dist |}.

Definition d_lal : dec (option en_lal) :=
  dlet has <- d_bool ;
  if has then
    dlet s <- d_zlist ; dlet ci <- d_bool ; dlet ch <- d_z ; dlet chars <- d_zlist ; dlet loop_set <- d_bool ;
    d_ret (Some {| la_string := s; la_string_ci := ci; la_char := ch; la_chars := chars; la_loop_set := loop_set |})
  else d_ret None.

Definition d_opts : dec (option en_opts) :=
  dlet has <- d_bool ;
  if has then
    dlet mode <- d_z ; dlet mn <- d_z ; dlet prefix <- d_zlist ; dlet prefixes <- d_list d_zlist ;
    dlet lit_s <- d_zlist ; dlet lit_c <- d_z ; dlet lit_dist <- d_z ; dlet sets <- d_list d_fdset ;
    dlet lal <- d_lal ;
    d_ret (Some {| fo_mode := mode; fo_min := mn; fo_prefix := prefix; fo_prefixes := prefixes;
                   fo_lit_s := lit_s; fo_lit_c := lit_c; fo_lit_dist := lit_dist; fo_sets := sets;
                   fo_lal := lal |})
  else d_ret None.

Definition d_code : dec en_code :=
  dlet rtl <- d_bool ; dlet codes <- d_zlist ; dlet opts <- d_opts ;
  d_ret {| cd_rtl := rtl; cd_codes := codes; cd_opts := opts |}.

(* 201: program data -> was a filter built? *)
Definition run_has_filter (args : list Z) : list Z :=
  match d_code args with
  | Some (c, []) => e_res (fun o => match o with Some _ => [1] | None => [0] end) (en_new_filter c)
  | _ => bad_case
  end.

(* one filter answer as one integer: candidate byte index when ok, -1 - index when not;
   -2000 - k for a model fault (k = 1 Err, 2 Crash, 3 Fuel) *)
Definition e_answer (r : res (Z * bool)) : Z :=
  match r with
  | Ok (i, true) => i
  | Ok (i, false) => -1 - i
  | Err _ => -2001
  | Crash _ => -2002
  | Fuel => -2003
  end.

Definition starts_of (s : list Z) : list Z := map (fun k => Z.of_nat k - 1) (seq 0 (length s + 3)).

(* 202: program data, strings -> for every string and every startAt in -1 .. len+1 the filter's answer
   (-1000 everywhere when no filter is built) *)
Definition run_filter_table (args : list Z) : list Z :=
  match (dlet c <- d_code ; dlet ss <- d_list d_zlist ; d_ret (c, ss)) args with
  | Some ((c, ss), []) =>
    match en_new_filter c with
    | Ok (Some f) => flat_map (fun s => map (fun st => e_answer (en_run_filter f s st)) (starts_of s)) ss
    | Ok None => flat_map (fun s => map (fun _ => -1000) (starts_of s)) ss
    | _ => [-2000]
    end
  | _ => bad_case
  end.

(* 203: program data -> kind of the filter (0 none, 1..9 Entry.en_kind, -1 fault) *)
Definition run_filter_kind (args : list Z) : list Z :=
  match d_code args with
  | Some (c, []) =>
    match en_new_filter c with
    | Ok (Some f) => [en_kind f]
    | Ok None => [0]
    | _ => [-1]
    end
  | _ => bad_case
  end.

(* 204: the glue.  Program data, input bytes, table of the engine's answers for every rune start
   0..n (entry: 0 = no match | 1 index length) -> FindStringMatch, MatchString,
   FindStringMatchStartingAt for startAt = -2 .. len+1. *)
Definition d_entry : dec (option (Z * Z)) :=
  dlet has <- d_bool ; if has then dlet i <- d_z ; dlet l <- d_z ; d_ret (Some (i, l)) else d_ret None.

Definition e_found (r : res (option (Z * Z))) : list Z :=
  e_res (fun o => match o with Some (i, l) => [1; i; l] | None => [0] end) r.

Definition run_glue (args : list Z) : list Z :=
  match (dlet c <- d_code ; dlet s <- d_zlist ; dlet tbl <- d_list d_entry ; d_ret (c, s, tbl)) args with
  | Some ((c, s, tbl), []) =>
    match en_new_filter c with
    | Ok flt =>
      let search := fun (_ : list Z) (start : Z) => nth (Z.to_nat start) tbl None in
      let quick := fun (r : list Z) (start : Z) => match search r start with Some _ => true | None => false end in
      let rtl := cd_rtl c in
      e_found (en_find_string_match (Z * Z) search rtl flt s)
      ++ e_res e_bool (en_match_string quick rtl flt s)
      ++ flat_map (fun st => e_found (en_find_string_match_starting_at (Z * Z) search rtl flt s st))
                  (map (fun k => Z.of_nat k - 2) (seq 0 (length s + 4)))
    | _ => [-2000]
    end
  | _ => bad_case
  end.

Definition run02 (leg : Z) (args : list Z) : list Z :=
  if leg =? 201 then run_has_filter args
  else if leg =? 202 then run_filter_table args
  else if leg =? 203 then run_filter_kind args
  else if leg =? 204 then run_glue args
  else bad_case.
