(* Driver entry points for C10: the pattern-parser model (Model/Parser.v). *)
From Coq Require Import FMapPositive.
From Verif Require Import Base.Prelude Base.Wire Model.Options Model.ParseLit Model.GroupMap Model.CharClass Model.Parser Extract.Drv16.

(* ---- oracle tables shipped with each case
   rune rows:  (rune, IsWordChar, ToLower, SimpleFold, participatesInCaseConversion)
   categories: list of category ids, then (rune, mask) pairs: bit j of mask = membership in ids[j]
   names:      (spelling, canonical category id | -1 unknown | -2 outside the model)
   A question outside the tables is answered by a default that depends on [dflt]; the case is evaluated
   with both defaults and the answers must agree, otherwise the driver reports "oracle incomplete". *)
Record rrow := { rr_word : Z; rr_lower : Z; rr_fold : Z; rr_part : Z }.
Definition d_rrow : dec (Z * rrow) :=
  dlet c <- d_z ; dlet a <- d_z ; dlet b <- d_z ; dlet d <- d_z ; dlet e <- d_z ;
  d_ret (c, {| rr_word := a; rr_lower := b; rr_fold := d; rr_part := e |}).

Definition build_rmap (l : list (Z * rrow)) : PositiveMap.t rrow :=
  fold_left (fun m p => PositiveMap.add (rkey (fst p)) (snd p) m) l (PositiveMap.empty rrow).

Definition rr_find (m : PositiveMap.t rrow) (r : Z) : option rrow :=
  if r <? -1 then None else PositiveMap.find (rkey r) m.

Fixpoint name_lookup (t : list (list Z * Z)) (s : list Z) (d : Z) : Z :=
  match t with
  | [] => d
  | (k, v) :: t' => if zlist_eqb s k then v else name_lookup t' s d
  end.

(* ---- result encoding: preorder, every node = [T; opts; ch; M; N; len str; str..; has set; set..; nkids; kids..] *)
Fixpoint e_rnode (x : rnode) : list Z :=
  match x with
  | RN t o ch m n str st kids =>
      [t; o; ch; m; n] ++ e_zlist str
      ++ (match st with Some c => 1 :: e_cls c | None => [0] end)
      ++ Z.of_nat (length kids)
      :: (fix go (ks : list rnode) : list Z := match ks with [] => [] | k :: ks' => e_rnode k ++ go ks' end) kids
  end.

(* ---- two facts checked on every tree the model produces (and so, through the equality test of the leg, on every
   real tree inside the fragment):
   nums_okb: every group number of a Capture / Ref / BackRefCond node is a key of the capture table (for a balancing
             group the popped number is, and the pushed one is -1 or is) - what the writer's remap assumes;
   dir_okb:  a node runs in the direction of its parent unless it is a lookaround node, the (unwrapped) condition of
             an expression conditional, a loop made by quantifying a lookaround (makeQuantifier gives it the unit's options),
             or an Empty / Nothing leaf (what is left of an empty lookaround): the
             RightToLeft bit set by "(?<=" / "(?<!" is carried by the whole body *)
Fixpoint nums_okb (caps : list Z) (x : rnode) : bool :=
  match x with
  | RN t _ _ m n _ _ kids =>
      (if t =? T_Capture then (if n =? -1 then zmem m caps else zmem n caps && ((m =? -1) || zmem m caps))
       else if (t =? T_Ref) || (t =? T_BackRefCond) then zmem m caps else true)
      && (fix go (ks : list rnode) : bool := match ks with [] => true | k :: ks' => nums_okb caps k && go ks' end) kids
  end.

Fixpoint dir_okb (x : rnode) : bool :=
  match x with
  | RN t o _ _ _ _ _ kids =>
      (fix go (first : bool) (ks : list rnode) : bool :=
         match ks with
         | [] => true
         | k :: ks' =>
             (Bool.eqb (useRTL (n_o k)) (useRTL o)
              || (n_t k =? T_PosLook) || (n_t k =? T_NegLook)
              || (((n_t k =? T_Loop) || (n_t k =? T_Lazyloop)) &&
                  match n_kids k with k2 :: _ => (n_t k2 =? T_PosLook) || (n_t k2 =? T_NegLook) | [] => false end)
              || (first && (t =? T_ExprCond))
              || (((n_t k =? T_Empty) || (n_t k =? T_Nothing)) && match n_kids k with [] => true | _ => false end))
             && dir_okb k && go false ks'
         end) true kids
  end.

Definition e_presult (r : presult) : list Z :=
  match r with
  | PR_Tree t caps captop => 0 :: e_rnode t ++ e_zlist caps ++ [captop] ++ e_bool (nums_okb caps t) ++ e_bool (dir_okb t)
  | PR_Err c => [1; c]
  | PR_Outside => [2]
  end.

(* 1001: options, MaintainCaptureOrder, rune rows, category table, name table, pattern -> parse result *)
Definition run_parse_d (dflt : bool) (args : list Z) : list Z :=
  match (dlet o <- d_z ; dlet mco <- d_bool ;
         dlet rows <- d_list d_rrow ;
         dlet ids <- d_zlist ; dlet ct <- d_list (d_pair d_z d_z) ;
         dlet names <- d_list (d_pair d_zlist d_z) ;
         dlet p <- d_zlist ;
         d_ret (o, mco, rows, ids, ct, names, p)) args with
  | Some ((o, mco, rows, ids, ct, names, p), []) =>
      let rm := build_rmap rows in
      let cm := build_map ct in
      let nz := fun x => negb (x =? 0) in
      let miss_b := dflt in
      let miss_z := fun r : Z => if dflt then r else -7 in
      e_res e_presult
        (parse (fun c => match rr_find rm c with Some r => nz (rr_word r) | None => miss_b end)
               (fun c => match rr_find rm c with Some r => rr_lower r | None => miss_z c end)
               (fun c => match rr_find rm c with Some r => rr_fold r | None => miss_z c end)
               (fun c => match rr_find rm c with Some r => nz (rr_part r) | None => miss_b end)
               (cat_in_tbl dflt ids cm)
               (fun s => name_lookup names s (if dflt then -1 else -2))
               o mco p)
  | _ => bad_case
  end.

Definition run_parse (args : list Z) : list Z :=
  let a := run_parse_d false args in
  if zlist_eqb a (run_parse_d true args) then a else oracle_incomplete.

Definition run10 (leg : Z) (args : list Z) : list Z :=
  if leg =? 1001 then run_parse args
  else bad_case.
