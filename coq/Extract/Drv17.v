(* Driver entry points for C17 (group numbering) — decodes the flat integer case and runs Model/GroupMap.v.
   The token decoder [d_toks] is shared with Drv18. *)
From Verif Require Import Base.Prelude Base.Wire Model.GroupMap.

Definition d_name : dec name := d_zlist.

Definition d_ochar : dec ochar :=
  dlet x <- d_z ; d_ret (if x =? -1 then OMinus else if x =? -2 then OPlus else OBit x).

Definition kind_of (k : Z) : gkind :=
  if k =? 0 then GNonCap else if k =? 1 then GAtomic else if k =? 2 then GAheadPos
  else if k =? 3 then GAheadNeg else if k =? 4 then GBehindPos else GBehindNeg.

Definition d_tok : dec gtok :=
  dlet tag <- d_z ;
  if tag =? 0 then dlet c <- d_z ; d_ret (TLit c)
  else if tag =? 1 then d_ret TOpen
  else if tag =? 2 then dlet s <- d_name ; d_ret (TNamed s)
  else if tag =? 3 then dlet n <- d_z ; d_ret (TNumbered n)
  else if tag =? 4 then dlet k <- d_z ; d_ret (TGroup (kind_of k))
  else if tag =? 5 then dlet cs <- d_list d_ochar ; d_ret (TOptGroup cs)
  else if tag =? 6 then dlet cs <- d_list d_ochar ; d_ret (TOptSet cs)
  else if tag =? 7 then d_ret TClose
  else if tag =? 8 then d_ret TCondHead
  else if tag =? 9 then dlet n <- d_z ; d_ret (TCondNum n)
  else if tag =? 10 then dlet s <- d_name ; d_ret (TCondName s)
  else if tag =? 11 then dlet a <- d_bool ; dlet n <- d_z ; d_ret (TBackNum a n)
  else if tag =? 12 then dlet s <- d_name ; d_ret (TBackName s)
  else if tag =? 13 then d_ret TComment
  else if tag =? 14 then d_ret THash
  else if tag =? 15 then d_ret TNewline
  else fun _ => None.

(* a token list is sent as: number of tokens, then the tokens (variable width) *)
Definition d_toks : dec (list gtok) :=
  fun l => match l with
           | n :: l' => if n <? 0 then None else d_rep (Z.to_nat n) d_tok l'
           | [] => None
           end.

(* ---- encoders ---- *)
Definition e_name (s : name) : list Z := e_zlist s.
Definition e_names (l : list name) : list Z := e_list e_name l.
Definition e_opt {A} (e : A -> list Z) (o : option A) : list Z :=
  match o with None => [-1] | Some a => 1 :: e a end.
Definition e_optz (o : option Z) : list Z := match o with None => [-1] | Some v => [v] end.
Definition e_pairs (l : list (Z * Z)) : list Z := e_list (fun p => [fst p; snd p]) l.

(* the sequence of Capture / Ref / BackRefCond nodes the main pass creates, in pattern order *)
Definition e_item (i : item) : list Z :=
  match i with
  | ICapture k => [1; k]
  | IRef k => [2; k]
  | ICondRef k => [3; k]
  | _ => []
  end.

Definition item_pair (i : item) : list (Z * Z) :=
  match i with
  | ICapture k => [(1, k)]
  | IRef k => [(2, k)]
  | ICondRef k => [(3, k)]
  | _ => []
  end.
Fixpoint is_subseq (a b : list (Z * Z)) : bool :=
  match a, b with
  | [], _ => true
  | _ :: _, [] => false
  | (x1, x2) :: a', (y1, y2) :: b' => if (x1 =? y1) && (x2 =? y2) then is_subseq a' b' else is_subseq a b'
  end.

(* [imode] 1: the node sequence itself; 2: the tree optimizer may have deleted dead branches, so only
   check that the nodes found in the real tree (sent along in [impl_items]) are a subsequence *)
Definition e_items (imode : Z) (impl_items : list (Z * Z)) (its : list item) : list Z :=
  if imode =? 1 then flat_map e_item its
  else if imode =? 2 then
    (if is_subseq impl_items (flat_map item_pair its) then [1] else 0 :: flat_map e_item its)
  else [].

Definition e_static (imode : Z) (impl_items : list (Z * Z)) (numkeys : list Z) (namekeys dollarkeys : list name) (x : ptree * list pmark * list item) : list Z :=
  let '(t, _, its) := x in
  let r := compile_maps t in
  e_zlist (t_caps t) ++ e_opt e_zlist (t_capnumlist t) ++ [t_captop t]
  ++ [match t_capnames t with None => -1 | Some m => zlen m end]
  ++ e_opt e_names (t_caplist t)
  ++ e_opt e_pairs (r_caps r) ++ [r_capsize r]
  ++ e_names (get_group_names r) ++ e_res e_zlist (get_group_numbers r)
  ++ flat_map (fun k => e_name (group_name_from_number r k) ++ e_optz (dollar_num r k)) numkeys
  ++ map (group_number_from_name r) namekeys
  ++ flat_map (fun s => e_optz (dollar_name r s)) dollarkeys
  ++ e_items imode impl_items its.

Definition e_dynamic (ecma : bool) (numkeys : list Z) (namekeys : list name) (x : ptree * list pmark * list item) : list Z :=
  let '(t, _, _) := x in
  let r := compile_maps t in
  e_names (groups_names ecma r)
  ++ flat_map (fun k => e_optz (group_by_number r k)) numkeys
  ++ flat_map (fun s => e_optz (group_by_name r s)) namekeys.

(* case: MaintainCaptureOrder flag, option word, tokens, number keys, name keys (arbitrary strings),
   names usable inside "${...}" *)
Definition d_case17 : dec (bool * Z * list gtok * list Z * list name * list name * Z * list (Z * Z)) :=
  dlet mco <- d_bool ; dlet o <- d_z ; dlet ts <- d_toks ;
  dlet nk <- d_zlist ; dlet sk <- d_list d_name ; dlet dk <- d_list d_name ;
  dlet imode <- d_z ; dlet ii <- d_list (d_pair d_z d_z) ; d_ret (mco, o, ts, nk, sk, dk, imode, ii).

(* 1701: Parse + Write + the Regexp-level lookups.  1702: the Match-level lookups. *)
Definition run17 (leg : Z) (args : list Z) : list Z :=
  match d_case17 args with
  | Some ((mco, o, ts, nk, sk, dk, imode, ii), []) =>
      if leg =? 1701 then e_res (e_static imode ii nk sk dk) (parse mco o ts)
      else if leg =? 1702 then e_res (e_dynamic (has o opt_e) nk sk) (parse mco o ts)
      else bad_case
  | _ => bad_case
  end.
