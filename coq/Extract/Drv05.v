(* Driver entry points for C05: the model of the optional tree rewrites (Model/FinalOpt.v). *)
From Coq Require Import FMapPositive.
From Verif Require Import Base.Prelude Base.Wire Model.CharClass Model.Parser Model.FinalOpt Model.FinalOptParse Extract.Drv16 Extract.Drv10.

(* ---- the tree in the encoding of Drv10.e_rnode:
   preorder, every node = [T; opts; ch; M; N; len str; str..; has set; set..; nkids; kids..] *)
Fixpoint d_rnode (fuel : nat) : dec rnode :=
  match fuel with
  | O => fun _ => None
  | S f =>
    dlet t <- d_z ; dlet o <- d_z ; dlet ch <- d_z ; dlet m <- d_z ; dlet n <- d_z ;
    dlet str <- d_zlist ;
    dlet hs <- d_z ;
    dlet st <- (if hs =? 0 then d_ret None else dlet c <- d_cls ; d_ret (Some c)) ;
    dlet nk <- d_z ;
    dlet kids <- (if nk <? 0 then (fun _ => None) else d_rep (Z.to_nat nk) (d_rnode f)) ;
    d_ret (RN t o ch m n str st kids)
  end.
Definition d_rtree : dec rnode := fun l => d_rnode (S (length l)) l.

Fixpoint rnode_size (x : rnode) : nat :=
  match x with
  | RN _ _ _ _ _ _ _ kids => S ((fix go (ks : list rnode) : nat := match ks with [] => O | k :: ks' => (rnode_size k + go ks')%nat end) kids)
  end.

Definition rnode_eqb (a b : rnode) : bool := zlist_eqb (e_rnode a) (e_rnode b).
Definition res_rnode_eqb (a b : res rnode) : bool :=
  match a, b with
  | Ok x, Ok y => rnode_eqb x y
  | _, _ => false
  end.

(* rune rows: (rune, IsWordChar, IsECMAWordChar) *)
Definition d_wrow : dec (Z * (Z * Z)) := d_pair d_z (d_pair d_z d_z).

(* 0501: gates, want-flags, cond-look, rune rows, category table, tree  ->  the tree under that gate mask;
   with want-flags also: the model with strict 1 / 2 / 4 / 8 / lite gives the same tree, fo_wf of the input tree,
   the model with strict 15 and lite (the one the theorem is about) gives the same tree *)
Definition run_fo_d (dflt : bool) (args : list Z) : list Z :=
  match (dlet g <- d_z ; dlet want <- d_bool ; dlet cl <- d_bool ;
         dlet rows <- d_list d_wrow ;
         dlet ids <- d_zlist ; dlet ct <- d_list (d_pair d_z d_z) ;
         dlet t <- d_rtree ;
         d_ret (g, want, cl, rows, ids, ct, t)) args with
  | Some ((g, want, cl, rows, ids, ct, t), []) =>
      let wm := build_map (map (fun r => (fst r, fst (snd r))) rows) in
      let em := build_map (map (fun r => (fst r, snd (snd r))) rows) in
      let cm := build_map ct in
      let look (m : PositiveMap.t Z) (c : Z) : bool :=
        if c <? -1 then dflt else match PositiveMap.find (rkey c) m with Some v => negb (v =? 0) | None => dflt end in
      let fuel := (20 + 4 * rnode_size t)%nat in
      let run (strict : Z) (lite : bool) :=
        fo_final_optimize (cat_in_tbl dflt ids cm) (look wm) (look em) fuel g strict lite cl t in
      let r := run 0 false in
      e_res e_rnode r ++
      (if want then e_bool (res_rnode_eqb r (run 1 false)) ++ e_bool (res_rnode_eqb r (run 2 false)) ++
                    e_bool (res_rnode_eqb r (run 4 false)) ++ e_bool (res_rnode_eqb r (run 8 false)) ++
                    e_bool (res_rnode_eqb r (run 0 true)) ++ e_bool (fo_wf t) ++ e_bool (res_rnode_eqb r (run 15 true))
       else [])
  | _ => bad_case
  end.

Definition run_fo (args : list Z) : list Z :=
  let a := run_fo_d false args in
  if zlist_eqb a (run_fo_d true args) then a else oracle_incomplete.

(* 0502: gate mask, (rune, IsECMAWordChar) pairs, then the input of leg 1001 (options, MaintainCaptureOrder, rune
   rows, category table, name table, pattern)  ->  0 tree | 1 error code | 2 outside the parser model's fragment *)
Definition run_gparse_d (dflt : bool) (args : list Z) : list Z :=
  match (dlet g <- d_z ; dlet ew <- d_list (d_pair d_z d_z) ;
         dlet o <- d_z ; dlet mco <- d_bool ;
         dlet rows <- d_list d_rrow ;
         dlet ids <- d_zlist ; dlet ct <- d_list (d_pair d_z d_z) ;
         dlet names <- d_list (d_pair d_zlist d_z) ;
         dlet p <- d_zlist ;
         d_ret (g, ew, o, mco, rows, ids, ct, names, p)) args with
  | Some ((g, ew, o, mco, rows, ids, ct, names, p), []) =>
      let rm := build_rmap rows in
      let cm := build_map ct in
      let em := build_map ew in
      let nz := fun x => negb (x =? 0) in
      let miss_z := fun r : Z => if dflt then r else -7 in
      let fuel := (40 + 8 * length p)%nat in
      e_res (fun r => match r with
                      | PR_Tree t _ _ => 0 :: e_rnode t
                      | PR_Err c => [1; c]
                      | PR_Outside => [2]
                      end)
        (fo_parse (fun c => match rr_find rm c with Some r => nz (rr_word r) | None => dflt end)
                  (fun c => match rr_find rm c with Some r => rr_lower r | None => miss_z c end)
                  (fun c => match rr_find rm c with Some r => rr_fold r | None => miss_z c end)
                  (fun c => match rr_find rm c with Some r => nz (rr_part r) | None => dflt end)
                  (cat_in_tbl dflt ids cm)
                  (fun s => name_lookup names s (if dflt then -1 else -2))
                  (fun c => if c <? -1 then dflt else match PositiveMap.find (rkey c) em with Some v => nz v | None => dflt end)
                  fuel g o mco p)
  | _ => bad_case
  end.
Definition run_gparse (args : list Z) : list Z :=
  let a := run_gparse_d false args in
  if zlist_eqb a (run_gparse_d true args) then a else oracle_incomplete.

Definition run05 (leg : Z) (args : list Z) : list Z :=
  if leg =? 502 then run_gparse args else
  if leg =? 501 then run_fo args
  else bad_case.
