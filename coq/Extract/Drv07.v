(* Driver entry points for C07 (iteration).  The anchored matcher is shipped as a table. *)
From Verif Require Import Base.Prelude Base.Wire Model.Iter.

(* one table entry: pos, has, index, length, textpos, groups (flag, index, length)* *)
Definition d_group : dec (option (Z * Z)) :=
  dlet f <- d_z ; dlet i <- d_z ; dlet l <- d_z ; d_ret (if f =? 0 then None else Some (i, l)).
Definition d_entry : dec (Z * option mt) :=
  dlet p <- d_z ; dlet has <- d_z ; dlet i <- d_z ; dlet l <- d_z ; dlet t <- d_z ;
  dlet gs <- d_list d_group ;
  d_ret (p, if has =? 0 then None else Some (MkM i l t gs)).
Definition d_attempts : dec (list (Z * option mt)) := d_list d_entry.

Fixpoint lookup_attempt (tbl : list (Z * option mt)) (p : Z) : option mt :=
  match tbl with
  | [] => None
  | (q, r) :: tbl' => if p =? q then r else lookup_attempt tbl' p
  end.
(* \G-free matcher: the table does not depend on textstart *)
Definition tbl_attempt (tbl : list (Z * option mt)) (_ p : Z) : option mt := lookup_attempt tbl p.

Definition e_mt (m : mt) : list Z := [m_index m; m_length m; m_textpos m].
Definition e_pair (p : Z * Z) : list Z := [fst p; snd p].
Definition e_slice {A} (e : A -> list Z) (s : slice A) : list Z :=
  match s with
  | None => [-1]
  | Some l => e_list e l
  end.

(* 0701: rtl len start n table -> iteration from start ; FindAllRunesIndex n *)
Definition run_iter (args : list Z) : list Z :=
  match (dlet rtl <- d_bool ; dlet len <- d_z ; dlet start <- d_z ; dlet n <- d_z ; dlet t <- d_attempts ;
         d_ret (rtl, len, start, n, t)) args with
  | Some ((rtl, len, start, n, t), []) =>
      let a := tbl_attempt t in
      let f := dflt_fuel len in
      e_res (e_list e_mt) (iteration rtl len a f f start)
      ++ e_res (e_slice e_pair) (find_all_runes_index rtl len a f f n)
  | _ => bad_case
  end.

(* matcher with a \G origin: the table is keyed by textstart * (len+1) + pos *)
Definition tbl_attempt2 (len : Z) (tbl : list (Z * option mt)) (ts p : Z) : option mt :=
  lookup_attempt tbl (ts * (len + 1) + p).

(* 0702: as 0701, for patterns that test \G *)
Definition run_iter_g (args : list Z) : list Z :=
  match (dlet rtl <- d_bool ; dlet len <- d_z ; dlet start <- d_z ; dlet n <- d_z ; dlet t <- d_attempts ;
         d_ret (rtl, len, start, n, t)) args with
  | Some ((rtl, len, start, n, t), []) =>
      let a := tbl_attempt2 len t in
      let f := dflt_fuel len in
      e_res (e_list e_mt) (iteration rtl len a f f start)
      ++ e_res (e_slice e_pair) (find_all_runes_index rtl len a f f n)
  | _ => bad_case
  end.

Definition run07 (leg : Z) (args : list Z) : list Z :=
  if leg =? 701 then run_iter args
  else if leg =? 702 then run_iter_g args
  else bad_case.
