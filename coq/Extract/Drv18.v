(* Driver entry point for C18 (inline options): the option word the main pass stamps on the nodes
   it creates, computed by Model/Options.v (otrace) alongside Model/GroupMap.v's main pass. *)
From Verif Require Import Base.Prelude Base.Wire Model.GroupMap Extract.Drv17.

(* one entry per node whose Options field the harness can read back from the exported tree:
   a literal token (spelled as a boundary assertion) that is not inside a comment -> [0; stamp],
   a capturing group -> [1; stamp; number] (the number depends on the PRE-SCAN's tracking of n and x),
   a back-reference -> [2; stamp].
   RegexNode.reduce (tree.go:474-477) clears IgnoreCase on every node except back-references, so
   that bit is only compared on those. *)
Definition no_i (o : Z) : Z := Z.ldiff o opt_i.
Fixpoint e_stamps (ts : list gtok) (sts : list ostate) (its : list item) : list Z :=
  match ts, sts, its with
  | tok :: ts', st :: sts', it :: its' =>
      (match tok, it with
       | TLit _, INone => [0; no_i (o_opts st)]
       | _, ICapture k => [1; no_i (o_opts st); k]
       | _, IRef _ => [2; o_opts st]
       | _, _ => []
       end) ++ e_stamps ts' sts' its'
  | _, _, _ => []
  end.

Definition run_stamps (args : list Z) : list Z :=
  match (dlet mco <- d_bool ; dlet o <- d_z ; dlet ts <- d_toks ; d_ret (mco, o, ts)) args with
  | Some ((mco, o, ts), []) =>
      e_res (fun x => let '(_, _, its) := x in e_stamps ts (fst (otrace MainPass (o_init o) ts)) its)
            (parse mco o ts)
  | _ => bad_case
  end.

Definition run18 (leg : Z) (args : list Z) : list Z :=
  if leg =? 1801 then run_stamps args else bad_case.
