(* Driver entry points for C12 / C11 (Model/Pool.v).
   1201: replay one call history on the pool/cache model; per step print the result summary and the observable
         bookkeeping (cache order, state of the runner just pooled, capacity of the buffer at the head of every
         size class).  The interpreter, the prefilter and the UTF-8 facts are oracle rows shipped with the case
         (computed by the harness on FRESHLY compiled Regexps).
   1202: pool_index of bufferpool.go on a list of (needed, max) pairs. *)
From Verif Require Import Base.Prelude Base.Wire Model.Pool.

(* ---------- oracle table: rows [tag; k1..k5; v1..v4] ---------- *)
Definition row := list Z.
Fixpoint lookup (tag : Z) (ks : list Z) (rows : list row) : option (list Z) :=
  match rows with
  | [] => None
  | r :: rest =>
    match r with
    | t :: body => if (t =? tag) && zlist_eqb (firstn 5 body) ks then Some (skipn 5 body) else lookup tag ks rest
    | [] => lookup tag ks rest
    end
  end.
Definition val (o : option (list Z)) (i : nat) : Z := match o with Some l => nth i l (-777) | None => -777 end.

(* ---------- texts: a string is [token * 2^20 + runes; 0; 0; ...] (len(s) elements), its decoding is
   [token; 0; ...] (runes elements); equal contents get equal tokens, the empty text has token 0 ---------- *)
Definition two20 : Z := 1048576.
Definition mk_text (token n : Z) : list Z := if n <=? 0 then [] else token :: repeat 0 (Z.to_nat (n - 1)).
Definition mk_str (token slen n : Z) : list Z :=
  if slen <=? 0 then [] else (token * two20 + n) :: repeat 0 (Z.to_nat (slen - 1)).
Definition skey (s : list Z) : Z := hd 0 s.
Definition drv_decode (s : list Z) : list Z := let h := hd 0 s in mk_text (h / two20) (h mod two20).

Definition code_z (c : code_sel) : Z := match c with Full => 0 | Quick => 1 end.

Definition empty_junk : junk :=
  {| j_track := [13]; j_tpos := 1; j_stack := [17]; j_spos := 1; j_crawl := [19]; j_cpos := 1; j_crawl_len := 64;
     j_matchcount := [2; 2; 2; 2]; j_matches := [[5; 5]]; j_balancing := true; j_textpos := 77; j_misc := [1; 1] |}.

Definition drv_interp (rows : list row) (limit : nat -> Z) (re : nat) (v : view) : trace :=
  let o := lookup 0 [Z.of_nat re; code_z (v_code v); hd 0 (v_text v); v_textstart v; v_textpos v] rows in
  let kind := val o 0 in
  {| tr_segs := if kind =? 2 then [{| sg_td := limit re + 1; sg_tmax := limit re + 1; sg_sd := 0; sg_smax := 0 |}] else [];
     tr_term := if kind =? 0 then TNone
                else if kind =? 3 then TTimeout
                else TMatch {| md_index := val o 1; md_length := val o 2; md_textpos := val o 3; md_caps := [];
                               md_balancing := false |};
     tr_junk := empty_junk |}.

Definition res_of (kind v : Z) : res (option Z) :=
  if kind =? 0 then Ok None else if kind =? 1 then Ok (Some v) else if kind =? 2 then Err v else Crash v.

Definition drv_env (cfgs : list re_cfg) (rows : list row) : env :=
  let cfg re := nth re cfgs (nth 0 cfgs {| cfg_has_quick := false; cfg_rtl := false; cfg_tc := fun _ => 0;
                      cfg_capsize := 1; cfg_limit := -1; cfg_max_rune := 0; cfg_max_byte := 0; cfg_cache_max := 0;
                      cfg_cache_bytes := 0; cfg_timeout := max_int64; cfg_debug := false |}) in
  {| e_cfg := cfg;
     e_interp := drv_interp rows (fun re => cfg_limit (cfg re));
     e_decode := drv_decode;
     e_rune_start := fun s a => val (lookup 1 [skey s; a; 0; 0; 0] rows) 0;
     e_ms_cand := fun re s => let o := lookup 2 [Z.of_nat re; skey s; 0; 0; 0] rows in
                              if val o 0 =? 0 then None else Some (val o 1);
     e_str_start := fun re s a v =>
       let o := lookup 3 [Z.of_nat re; skey s; a; if v then 1 else 0; 0] rows in res_of (val o 0) (val o 1);
     e_fa_start := fun re s => let o := lookup 4 [Z.of_nat re; skey s; 0; 0; 0] rows in res_of (val o 0) (val o 1);
     e_fa_index := fun s i => i;
     (* regexp.go:369-377 as it stands in the working tree *)
     e_fa_emit := fun pe m => negb (md_length m =? 0) || negb (md_index m =? pe);
     e_fa_edge := fun m => md_textpos m;    (* = index+length left-to-right; the harness's right-to-left pattern
                                               never matches empty, so the edge is never consulted there *)
     e_parse_repl := fun re k => if val (lookup 5 [Z.of_nat re; hd 0 k; 0; 0; 0] rows) 0 =? 0 then Err 6 else Ok [hd 0 k];
     e_repl_out := fun rtl d t ms => [-5; zlen ms];
     e_replf_out := fun ev rtl t ms => [-5; zlen ms];
     e_split_out := fun t ms => [[-5; zlen ms]];
     e_blen := fun l => zlen l;
     e_bytes_grow := fun c n => n;
     e_deadline := fun d => d |}.

(* ---------- decoding a case ---------- *)
Definition d_cfg : dec re_cfg :=
  dlet hq <- d_bool ; dlet rtl <- d_bool ; dlet tcf <- d_z ; dlet tcq <- d_z ; dlet cs <- d_z ; dlet lim <- d_z ;
  dlet mr <- d_z ; dlet mb <- d_z ; dlet cm <- d_z ; dlet cb <- d_z ; dlet tmo <- d_bool ;
  d_ret {| cfg_has_quick := hq; cfg_rtl := rtl; cfg_tc := fun c => match c with Full => tcf | Quick => tcq end;
           cfg_capsize := cs; cfg_limit := lim; cfg_max_rune := mr; cfg_max_byte := mb; cfg_cache_max := cm;
           cfg_cache_bytes := cb; cfg_timeout := if tmo then 5 else max_int64; cfg_debug := false |}.

Definition arg (l : list Z) (i : nat) : Z := nth i l 0.

(* step = [opcode; re; token; slen; n; a1..a5; mask] *)
Definition step_op (st : list Z) : option op :=
  let re := Z.to_nat (arg st 1) in
  let token := arg st 2 in let slen := arg st 3 in let n := arg st 4 in
  let s := mk_str token slen n in let t := mk_text token n in
  let a1 := arg st 5 in let a2 := arg st 6 in let a3 := arg st 7 in let a4 := arg st 8 in
  match arg st 0 with
  | 1 => Some (OMatchString re s)
  | 2 => Some (OMatchRunes re t)
  | 3 => Some (OFindStringMatch re s)
  | 4 => Some (OFindRunesMatch re t)
  | 5 => Some (OFindNextMatch re (if a1 =? 0 then None else Some (t, a2, a3)))
  | 6 => Some (OFindAllStringIndex re s a1)
  | 7 => Some (OFindAllRunesIndex re t a1)
  | 8 => Some (OReplace re s (mk_text a1 a2) a3 a4)
  | 9 => Some (OReplaceFunc re s O a1 a2)
  | 10 => Some (OSplit re s a1)
  | 11 => Some (OFindStringMatchAt re s a1)
  | _ => None
  end.

(* ---------- printing ---------- *)
Definition e_value (v : value) : list Z :=
  match v with
  | VBool b => [0; if b then 1 else 0]
  | VMatch None => [1; 0]
  | VMatch (Some m) => [1; 1; md_index m; md_length m]
  | VIndexes l => 2 :: Z.of_nat (length l) :: flat_map (fun p => [fst p; snd p]) l
  | VText t => [3; match t with -5 :: k :: _ => k | _ => -1 end]
  | VTexts l => [4; match l with [] => -2 | (-5 :: k :: _) :: _ => k | _ => -1 end]
  end.
Definition e_result (r : result) : list Z :=
  match r with Ok v => e_value v | Err c => [9; c] | Crash w => [8; w] | Fuel => [7] end.

Definition bit (mask : Z) (i : Z) : bool := Z.testbit mask i.

(* observable bookkeeping after a step; items the harness could not observe (mask bit clear) print as -9 *)
Definition e_book (g : gstate) (re : nat) (mask : Z) : list Z :=
  let rs := get_rs g re in
  let caps (bp : bufpools) (base : Z) :=
    map (fun p => if bit mask (base + Z.of_nat (fst p))
                  then match snd p with b :: _ => b_cap b | [] => -1 end else -9)
        (combine (seq 0 (length (bp_pools bp))) (bp_pools bp)) in
  e_zlist (map (fun kd => hd 0 (fst kd)) (rs_cache rs))
  ++ (if bit mask 0
      then match rs_pool rs with
           | r :: _ => [match r_match r with Some _ => 1 | None => 0 end;
                        match r_code r with Full => 1 | Quick => 0 end;
                        match r_text r with None => 1 | Some _ => 0 end]
           | [] => [-1; -1; -1]
           end
      else [-9; -9; -9])
  ++ e_zlist (caps (g_rune g) 8) ++ e_zlist (caps (g_byte g) 16).

Fixpoint replay (E : env) (fuel : nat) (steps : list (list Z)) (g : gstate) : list Z :=
  match steps with
  | [] => []
  | st :: rest =>
    match step_op st with
    | None => bad_case
    | Some o =>
      let '(g1, v) := call E fuel o g [Some O; Some O; Some O; Some O; Some O; Some O] in
      e_result v ++ e_book g1 (Z.to_nat (arg st 1)) (arg st 10) ++ replay E fuel rest g1
    end
  end.

Definition run_history_case (args : list Z) : list Z :=
  match (dlet cfgs <- d_list d_cfg ; dlet rs <- d_zlist ; dlet bs <- d_zlist ;
         dlet rows <- d_list d_zlist ; dlet steps <- d_list d_zlist ; d_ret (cfgs, rs, bs, rows, steps)) args with
  | Some ((cfgs, rs, bs, rows, steps), []) =>
    replay (drv_env cfgs rows) (Z.to_nat 100000) steps (gstate0 (length cfgs) rs bs)
  | _ => bad_case
  end.

(* 1202: sizes, then pairs (needed, max): class index or -1 *)
Definition run_pool_index (args : list Z) : list Z :=
  match (dlet sizes <- d_zlist ; dlet qs <- d_list (d_pair d_z d_z) ; d_ret (sizes, qs)) args with
  | Some ((sizes, qs), []) =>
    map (fun q => match pool_index sizes (fst q) (snd q) with Some i => Z.of_nat i | None => -1 end) qs
  | _ => bad_case
  end.

Definition run12 (leg : Z) (args : list Z) : list Z :=
  if leg =? 1201 then run_history_case args
  else if leg =? 1202 then run_pool_index args
  else bad_case.
