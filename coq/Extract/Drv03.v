(* Driver entry points for C03 (the scan loop of runner.go over recorded finder / matcher tables). *)
From Verif Require Import Base.Prelude Base.Wire Model.Scan.

(* tables are indexed by position 0..n; outside the table the components answer as a position that
   is never legitimately reached: finder gives up where it stands, matcher fails where it stands *)
Definition tbl_finder (t : list (Z * Z)) (p : Z) : bool * Z :=
  match znth t p with
  | Some (f, q) => (negb (f =? 0), q)
  | None => (false, p)
  end.
(* matcher table entry: (m, q) with m = -1 for "no match", otherwise the match identity *)
Definition tbl_exec (t : list (Z * Z)) (p : Z) : option Z * Z :=
  match znth t p with
  | Some (m, q) => (if m <? 0 then None else Some m, q)
  | None => (None, p)
  end.

Record scan_case := { sc_n : Z; sc_rtl : bool; sc_min : Z; sc_ft : list (Z * Z); sc_et : list (Z * Z) }.

Definition d_scan_case : dec scan_case :=
  dlet n <- d_z ; dlet rtl <- d_bool ; dlet mn <- d_z ;
  dlet ft <- d_list (d_pair d_z d_z) ; dlet et <- d_list (d_pair d_z d_z) ;
  d_ret {| sc_n := n; sc_rtl := rtl; sc_min := mn; sc_ft := ft; sc_et := et |}.

Definition e_opt (o : option Z) : list Z := match o with None => [0] | Some m => [1; m] end.

(* 301: case, start, prevlen -> result of the accelerated loop, result of the naive loop *)
Definition run_scan (args : list Z) : list Z :=
  match (dlet c <- d_scan_case ; dlet start <- d_z ; dlet prevlen <- d_z ; d_ret (c, start, prevlen)) args with
  | Some ((c, start, prevlen), []) =>
      e_res e_opt (scan (sc_n c) (sc_rtl c) (sc_min c) (tbl_finder (sc_ft c)) (tbl_exec (sc_et c)) start prevlen)
      ++ e_res e_opt (naive_scan (sc_n c) (sc_rtl c) (tbl_exec (sc_et c)) start prevlen)
  | _ => bad_case
  end.

(* 302: case -> the three hypothesis checkers (H1, H2, H3) on the tables *)
Definition run_scan_hyps (args : list Z) : list Z :=
  match d_scan_case args with
  | Some (c, []) =>
      let f := tbl_finder (sc_ft c) in let x := tbl_exec (sc_et c) in
      e_bool (sc_chk_H1 Z (sc_n c) (sc_rtl c) f x)
      ++ e_bool (sc_chk_H2 Z (sc_n c) (sc_rtl c) (sc_min c) x)
      ++ e_bool (sc_chk_H3 Z (sc_n c) (sc_rtl c) x)
  | _ => bad_case
  end.

(* 303: the anchor part of findFirstCharDefault.
   args: text, rtl, anchors, Runtextstart, has BmPrefix?, BmPrefix.IsMatch per position 0..n,
   mask per position 0..n (1 = report this position) -> (found, Runtextpos) for every reported position.
   Only used for programs with one of the four anchor bits set, so [rest] is never consulted. *)
Definition run_ffc_anchor (args : list Z) : list Z :=
  match (dlet text <- d_zlist ; dlet rtl <- d_bool ; dlet anchors <- d_z ; dlet ts <- d_z ;
         dlet hasbm <- d_bool ; dlet bmt <- d_zlist ; dlet mask <- d_zlist ;
         d_ret (text, rtl, anchors, ts, hasbm, bmt, mask)) args with
  | Some ((text, rtl, anchors, ts, hasbm, bmt, mask), []) =>
      let bm := if hasbm then Some (fun q => match znth bmt q with Some b => negb (b =? 0) | None => false end)
                else None in
      let rest := fun p : Z => (false, -1) in
      (fix go (ms : list Z) (p : Z) : list Z :=
         match ms with
         | [] => []
         | m :: ms' =>
             (if m =? 0 then []
              else let '(f, q) := ffc_default text rtl anchors ts bm rest p in e_bool f ++ [q])
             ++ go ms' (p + 1)
         end) mask 0
  | _ => bad_case
  end.

Definition run03 (leg : Z) (args : list Z) : list Z :=
  if leg =? 301 then run_scan args
  else if leg =? 302 then run_scan_hyps args
  else if leg =? 303 then run_ffc_anchor args
  else bad_case.
