(* Driver entry points for C03 (the scan loop of runner.go over recorded finder / matcher tables). *)
From Verif Require Import Base.Prelude Base.Wire Model.Scan.

(* tables are indexed by position 0..n; outside the table the components answer as a position that
   is never legitimately reached: finder gives up where it stands, matcher fails where it stands *)
Definition tbl_finder (t : list (Z * Z)) (p : Z) : bool * Z :=
  match znth t p with
  | Some (f, q) => (negb (f =? 0), q)
  | None => (false, p)
  end.
(* matcher table entry: (m, q) with m = -1 for "no match", otherwise the match identity *)
Definition tbl_exec (t : list (Z * Z)) (p : Z) : option Z * Z :=
  match znth t p with
  | Some (m, q) => (if m <? 0 then None else Some m, q)
  | None => (None, p)
  end.

Record scan_case := { sc_n : Z; sc_rtl : bool; sc_min : Z; sc_ft : list (Z * Z); sc_et : list (Z * Z) }.

Definition d_scan_case : dec scan_case :=
  dlet n <- d_z ; dlet rtl <- d_bool ; dlet mn <- d_z ;
  dlet ft <- d_list (d_pair d_z d_z) ; dlet et <- d_list (d_pair d_z d_z) ;
  d_ret {| sc_n := n; sc_rtl := rtl; sc_min := mn; sc_ft := ft; sc_et := et |}.

Definition e_opt (o : option Z) : list Z := match o with None => [0] | Some m => [1; m] end.

(* 301: case, start, prevlen -> result of the accelerated loop, result of the naive loop *)
Definition run_scan (args : list Z) : list Z :=
  match (dlet c <- d_scan_case ; dlet start <- d_z ; dlet prevlen <- d_z ; d_ret (c, start, prevlen)) args with
  | Some ((c, start, prevlen), []) =>
      e_res e_opt (scan (sc_n c) (sc_rtl c) (sc_min c) (tbl_finder (sc_ft c)) (tbl_exec (sc_et c)) start prevlen)
      ++ e_res e_opt (naive_scan (sc_n c) (sc_rtl c) (tbl_exec (sc_et c)) start prevlen)
  | _ => bad_case
  end.

(* 302: case -> the three hypothesis checkers (H1, H2, H3) on the tables *)
Definition run_scan_hyps (args : list Z) : list Z :=
  match d_scan_case args with
  | Some (c, []) =>
      let f := tbl_finder (sc_ft c) in let x := tbl_exec (sc_et c) in
      e_bool (sc_chk_H1 Z (sc_n c) (sc_rtl c) f x)
      ++ e_bool (sc_chk_H2 Z (sc_n c) (sc_rtl c) (sc_min c) x)
      ++ e_bool (sc_chk_H3 Z (sc_n c) (sc_rtl c) x)
  | _ => bad_case
  end.

Definition run03 (leg : Z) (args : list Z) : list Z :=
  if leg =? 301 then run_scan args
  else if leg =? 302 then run_scan_hyps args
  else bad_case.
