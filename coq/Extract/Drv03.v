(* Driver entry points for C03 (the scan loop of runner.go over recorded finder / matcher tables). *)
From Verif Require Import Base.Prelude Base.Wire Model.Scan Model.Finder Model.BM.

(* tables are indexed by position 0..n; outside the table the components answer as a position that
   is never legitimately reached: finder gives up where it stands, matcher fails where it stands *)
Definition tbl_finder (t : list (Z * Z)) (p : Z) : bool * Z :=
  match znth t p with
  | Some (f, q) => (negb (f =? 0), q)
  | None => (false, p)
  end.
(* matcher table entry: (m, q) with m = -1 for "no match", otherwise the match identity *)
Definition tbl_exec (t : list (Z * Z)) (p : Z) : option Z * Z :=
  match znth t p with
  | Some (m, q) => (if m <? 0 then None else Some m, q)
  | None => (None, p)
  end.

Record scan_case := { sc_n : Z; sc_rtl : bool; sc_min : Z; sc_ft : list (Z * Z); sc_et : list (Z * Z) }.

Definition d_scan_case : dec scan_case :=
  dlet n <- d_z ; dlet rtl <- d_bool ; dlet mn <- d_z ;
  dlet ft <- d_list (d_pair d_z d_z) ; dlet et <- d_list (d_pair d_z d_z) ;
  d_ret {| sc_n := n; sc_rtl := rtl; sc_min := mn; sc_ft := ft; sc_et := et |}.

Definition e_opt (o : option Z) : list Z := match o with None => [0] | Some m => [1; m] end.

(* 301: case, start, prevlen -> result of the accelerated loop, result of the naive loop *)
Definition run_scan (args : list Z) : list Z :=
  match (dlet c <- d_scan_case ; dlet start <- d_z ; dlet prevlen <- d_z ; d_ret (c, start, prevlen)) args with
  | Some ((c, start, prevlen), []) =>
      e_res e_opt (scan (sc_n c) (sc_rtl c) (sc_min c) (tbl_finder (sc_ft c)) (tbl_exec (sc_et c)) start prevlen)
      ++ e_res e_opt (naive_scan (sc_n c) (sc_rtl c) (tbl_exec (sc_et c)) start prevlen)
  | _ => bad_case
  end.

(* 302: case -> the three hypothesis checkers (H1, H2, H3) on the tables *)
Definition run_scan_hyps (args : list Z) : list Z :=
  match d_scan_case args with
  | Some (c, []) =>
      let f := tbl_finder (sc_ft c) in let x := tbl_exec (sc_et c) in
      e_bool (sc_chk_H1 Z (sc_n c) (sc_rtl c) f x)
      ++ e_bool (sc_chk_H2 Z (sc_n c) (sc_rtl c) (sc_min c) x)
      ++ e_bool (sc_chk_H3 Z (sc_n c) (sc_rtl c) x)
  | _ => bad_case
  end.

(* 303: the anchor part of findFirstCharDefault.
   args: text, rtl, anchors, Runtextstart, has BmPrefix?, BmPrefix.IsMatch per position 0..n,
   mask per position 0..n (1 = report this position) -> (found, Runtextpos) for every reported position.
   Only used for programs with one of the four anchor bits set, so [rest] is never consulted. *)
Definition run_ffc_anchor (args : list Z) : list Z :=
  match (dlet text <- d_zlist ; dlet rtl <- d_bool ; dlet anchors <- d_z ; dlet ts <- d_z ;
         dlet hasbm <- d_bool ; dlet bmt <- d_zlist ; dlet mask <- d_zlist ;
         d_ret (text, rtl, anchors, ts, hasbm, bmt, mask)) args with
  | Some ((text, rtl, anchors, ts, hasbm, bmt, mask), []) =>
      let bm := if hasbm then Some (fun q => match znth bmt q with Some b => negb (b =? 0) | None => false end)
                else None in
      let rest := fun p : Z => (false, -1) in
      (fix go (ms : list Z) (p : Z) : list Z :=
         match ms with
         | [] => []
         | m :: ms' =>
             (if m =? 0 then []
              else let '(f, q) := ffc_default text rtl anchors ts bm rest p in e_bool f ++ [q])
             ++ go ms' (p + 1)
         end) mask 0
  | _ => bad_case
  end.

(* ---- 304 / 305: the optimized candidate finders (Model/Finder.v) ----------------------------- *)
Definition d03_opt {A} (d : dec A) : dec (option A) :=
  dlet has <- d_bool ; if has then (dlet a <- d ; d_ret (Some a)) else d_ret None.

Definition d03_fdset : dec fdset :=
  dlet st <- d03_opt d_z ; dlet chars <- d_zlist ; dlet neg <- d_bool ;
  dlet rg <- d03_opt (d_pair d_z d_z) ; dlet dist <- d_z ;
  d_ret {| fs_set := st; fs_chars := chars; fs_negated := neg; fs_range := rg; fs_distance := dist |}.

Definition d03_lal : dec fdlal :=
  dlet s <- d_zlist ; dlet ic <- d_bool ; dlet ch <- d_z ; dlet chars <- d_zlist ; dlet ls <- d03_opt d_z ;
  d_ret {| lal_string := s; lal_string_ic := ic; lal_char := ch; lal_chars := chars; lal_loop_set := ls |}.

Definition d03_alt : dec fdalt :=
  dlet lit <- d_zlist ; dlet st <- d03_opt d_z ; dlet lw <- d03_opt d_z ; dlet tw <- d03_opt d_z ;
  dlet mn <- d_z ; dlet mx <- d_z ; dlet rb <- d_bool ; dlet ra <- d_bool ;
  d_ret {| la_literal := lit; la_set := st; la_lead_ws := lw; la_trail_ws := tw; la_min := mn; la_max := mx;
           la_req_before := rb; la_req_after := ra |}.

Definition d03_chain : dec fdchain :=
  dlet ls <- d03_opt d_z ; dlet lms <- d_list (d_list d03_alt) ;
  d_ret {| lc_loop_set := ls; lc_landmarks := lms |}.

Definition d03_fdopts : dec fdopts :=
  dlet mode <- d_z ; dlet mr <- d_z ; dlet prefix <- d_zlist ; dlet prefixes <- d_list d_zlist ;
  dlet firsts <- d_zlist ; dlet c <- d_z ; dlet s <- d_zlist ; dlet dist <- d_z ;
  dlet sets <- d_list d03_fdset ; dlet lal <- d03_opt d03_lal ; dlet chain <- d03_opt d03_chain ;
  d_ret {| fo_mode := mode; fo_minreq := mr; fo_prefix := prefix; fo_prefixes := prefixes;
           fo_first_runes := firsts; fo_fdl_c := c; fo_fdl_s := s; fo_fdl_distance := dist;
           fo_sets := sets; fo_lal := lal; fo_chain := chain |}.

Definition d03_fc : dec fdfc :=
  dlet sg <- d03_opt d_z ; dlet st <- d_z ; d_ret {| fc_singleton := sg; fc_set := st |}.

(* the oracles travel with the case: ToLower as an association list over the runes of the text
   (identity elsewhere), set membership as one list of member runes per set id *)
Record fd_case := {
  fdc_text : list Z; fdc_lower : list (Z * Z); fdc_sets : list (list Z);
  fdc_rtl : bool; fdc_anchors : Z; fdc_ts : Z;
  fdc_bm : option (list Z * list Z);            (* BmPrefix.IsMatch / BmPrefix.Scan per position 0..n *)
  fdc_opts : option fdopts; fdc_fc : option fdfc }.

Definition d03_case : dec fd_case :=
  dlet text <- d_zlist ; dlet low <- d_list (d_pair d_z d_z) ; dlet sets <- d_list d_zlist ;
  dlet rtl <- d_bool ; dlet anchors <- d_z ; dlet ts <- d_z ;
  dlet bm <- d03_opt (d_pair d_zlist d_zlist) ; dlet o <- d03_opt d03_fdopts ; dlet fc <- d03_opt d03_fc ;
  d_ret {| fdc_text := text; fdc_lower := low; fdc_sets := sets; fdc_rtl := rtl; fdc_anchors := anchors;
           fdc_ts := ts; fdc_bm := bm; fdc_opts := o; fdc_fc := fc |}.

Definition fdc_set_in (c : fd_case) (id x : Z) : bool :=
  match znth (fdc_sets c) id with Some l => zmem x l | None => false end.
Definition fdc_lower_f (c : fd_case) (x : Z) : Z := zassoc x (fdc_lower c) x.

Fixpoint fd_positions (k : nat) (p : Z) : list Z :=
  match k with O => [] | S k' => p :: fd_positions k' (p + 1) end.

(* 304: VerifFindFirstChar at every position 0..n: per position [0; cut; found; newpos] or [2;0;0;0] (fault) *)
Definition run_fd_default (args : list Z) : list Z :=
  match d03_case args with
  | Some (c, []) =>
      let bm := match fdc_bm c with
                | Some (t, _) => Some (fun q => match znth t q with Some b => negb (b =? 0) | None => false end)
                | None => None end in
      let bms := match fdc_bm c with
                 | Some (_, t) => Some (fun q => match znth t q with Some x => x | None => -1 end)
                 | None => None end in
      flat_map (fun p =>
        match fd_verif_find_first_char (fdc_text c) (fdc_set_in c) (fdc_lower_f c) (fdc_rtl c)
                (fdc_anchors c) (fdc_ts c) bm bms (fdc_opts c) (fdc_fc c) p with
        | Ok (cut, found, q) => [0] ++ e_bool cut ++ e_bool found ++ [q]
        | Fuel => [3; 0; 0; 0]
        | _ => [2; 0; 0; 0]
        end) (fd_positions (S (length (fdc_text c))) 0)
  | _ => bad_case
  end.

(* 305: VerifFindFirstCharOptimized at every position: [0; should; handled; found; newpos] or [2;0;0;0;0] *)
Definition run_fd_optimized (args : list Z) : list Z :=
  match d03_case args with
  | Some (c, []) =>
      match fdc_opts c with
      | Some o =>
          flat_map (fun p =>
            match fd_find_first_char_optimized (fdc_text c) (fdc_set_in c) (fdc_lower_f c) o p with
            | Ok (handled, found, q) => [0] ++ e_bool (fd_should_use_optimized o) ++ e_bool handled ++ e_bool found ++ [q]
            | Fuel => [3; 0; 0; 0; 0]
            | _ => [2; 0; 0; 0; 0]
            end) (fd_positions (S (length (fdc_text c))) 0)
      | None => bad_case
      end
  | _ => bad_case
  end.

(* 306: leadingPrefixFirstRunes (optimizations.go:593) *)
Definition run_fd_first_runes (args : list Z) : list Z :=
  match d_list d_zlist args with
  | Some (prefixes, []) => e_zlist (fd_leading_prefix_first_runes prefixes)
  | _ => bad_case
  end.

(* 307: helpers/indexof.go called directly.  args: function number, ToLower table, in, find, a, b
   -> [0; result] or [2; 0] (fault); booleans as 0/1 *)
Definition run_fd_helper (args : list Z) : list Z :=
  match (dlet fn <- d_z ; dlet low <- d_list (d_pair d_z d_z) ; dlet l <- d_zlist ; dlet find <- d_zlist ;
         dlet a <- d_z ; dlet b <- d_z ; d_ret (fn, low, l, find, a, b)) args with
  | Some ((fn, low, l, find, a, b), []) =>
      let lower := fun x => zassoc x low x in
      let ok (z : Z) := [0; z] in
      let okr (r : res Z) := match r with Ok z => [0; z] | _ => [2; 0] end in
      let okb (r : res bool) := match r with Ok z => [0; if z then 1 else 0] | _ => [2; 0] end in
      if fn =? 1 then ok (fd_index_of_any l find)
      else if fn =? 2 then ok (fd_index_of_any1 l a)
      else if fn =? 3 then ok (fd_index_of_any2 l a b)
      else if fn =? 4 then ok (fd_index_of_any3 l a b (nth 0 find 0))
      else if fn =? 5 then ok (fd_index_of_any_in_range l a b)
      else if fn =? 6 then ok (fd_index_of_any_except l find)
      else if fn =? 7 then ok (fd_index_of_any_except_in_range l a b)
      else if fn =? 8 then okr (fd_index_of l find)
      else if fn =? 9 then okr (fd_index_of_ic lower l find)
      else if fn =? 10 then okr (fd_index_of_ic_ascii l find)
      else if fn =? 11 then okb (fd_starts_with l find)
      else if fn =? 12 then okb (Ok (fd_starts_with_ic lower l find))
      else if fn =? 13 then ok (fd_index_of_any_runes l find)
      else if fn =? 14 then ok (if fd_is_ascii_runes find then 1 else 0)
      else bad_case
  | _ => bad_case
  end.

(* ---- 310 / 311: the Boyer-Moore machine (Model/BM.v) ----------------------------------------- *)
(* 310: newBmPrefix.  args: pattern, caseInsensitive, rightToLeft, ToLower table (pairs; identity elsewhere)
   -> [2] fault | [3] fuel | [0;0] nil | [0;1] ++ pattern (lower-cased) ++ positive ++ negativeASCII
      ++ [negativeUnicode != nil] ++ non-nil rows in ascending order (count, then row number :: row) ++ [lowASCII; highASCII] *)
Definition d03_bm_head : dec (list Z * bool * bool * list (Z * Z)) :=
  dlet pat <- d_zlist ; dlet ci <- d_bool ; dlet rtl <- d_bool ; dlet low <- d_list (d_pair d_z d_z) ;
  d_ret (pat, ci, rtl, low).

Definition e03_bm_rows (f : Z -> option (list Z)) : list Z :=
  let rows := flat_map (fun i => match f i with Some r => [(i, r)] | None => [] end) (fd_positions 256 0) in
  e_list (fun ir => fst ir :: e_zlist (snd ir)) rows.

Definition run_bm_tables (args : list Z) : list Z :=
  match d03_bm_head args with
  | Some ((pat, ci, rtl, low), []) =>
      match bm_new (fun x => zassoc x low x) pat ci rtl with
      | Ok None => [0; 0]
      | Ok (Some t) =>
          [0; 1] ++ e_zlist (bm_pattern t) ++ e_zlist (bm_positive t) ++ e_zlist (bm_negascii t)
          ++ e_bool (bm_has_uni t) ++ e03_bm_rows (bm_uni t) ++ [bm_low t; bm_high t]
      | Fuel => [3]
      | _ => [2]
      end
  | _ => bad_case
  end.

(* 311: Scan and IsMatch at every index 0..n of a text, for each window (beglimit, endlimit).
   args: as 310, then text, windows -> [9] when newBmPrefix gives no machine, else per window, per index:
   Scan as [0; r] | [2; 0] (fault) | [3; 0], then IsMatch likewise (booleans 0/1) *)
Definition run_bm_scan (args : list Z) : list Z :=
  match (dlet h <- d03_bm_head ; dlet text <- d_zlist ; dlet ws <- d_list (d_pair d_z d_z) ; d_ret (h, text, ws)) args with
  | Some (((pat, ci, rtl, low), text, ws), []) =>
      let lower := fun x => zassoc x low x in
      match bm_new lower pat ci rtl with
      | Ok (Some t) =>
          flat_map (fun w =>
            flat_map (fun p =>
              (match bm_scan lower t text (S (length text)) p (fst w) (snd w) with
               | Ok r => [0; r] | Fuel => [3; 0] | _ => [2; 0] end)
              ++ (match bm_is_match lower t text p (fst w) (snd w) with
                  | Ok b => [0; if b then 1 else 0] | Fuel => [3; 0] | _ => [2; 0] end))
              (fd_positions (S (length text)) 0)) ws
      | _ => [9]
      end
  | _ => bad_case
  end.

Definition run03 (leg : Z) (args : list Z) : list Z :=
  if leg =? 301 then run_scan args
  else if leg =? 302 then run_scan_hyps args
  else if leg =? 303 then run_ffc_anchor args
  else if leg =? 304 then run_fd_default args
  else if leg =? 305 then run_fd_optimized args
  else if leg =? 306 then run_fd_first_runes args
  else if leg =? 307 then run_fd_helper args
  else if leg =? 310 then run_bm_tables args
  else if leg =? 311 then run_bm_scan args
  else bad_case.
