(* Flat integer wire format between the Go harness and the extracted model.
   A case is a list of integers; composite values are length-prefixed.
   The decoders are plain Gallina so the OCaml glue stays constant-size. *)
From Verif Require Import Base.Prelude.

Definition dec (A : Type) := list Z -> option (A * list Z).

Definition d_ret {A} (a : A) : dec A := fun l => Some (a, l).
Definition d_bind {A B} (d : dec A) (f : A -> dec B) : dec B :=
  fun l => match d l with Some (a, l') => f a l' | None => None end.

Notation "'dlet' x <- d ; k" := (d_bind d (fun x => k))
  (at level 200, x pattern, d at level 100, k at level 200, right associativity).

Definition d_z : dec Z := fun l => match l with x :: l' => Some (x, l') | [] => None end.
Definition d_bool : dec bool := dlet x <- d_z ; d_ret (negb (x =? 0)).
Definition d_nat : dec nat := dlet x <- d_z ; d_ret (Z.to_nat x).

Fixpoint d_rep {A} (n : nat) (d : dec A) : dec (list A) :=
  match n with
  | O => d_ret []
  | S n' => dlet a <- d ; dlet r <- d_rep n' d ; d_ret (a :: r)
  end.

(* length-prefixed list *)
Definition d_list {A} (d : dec A) : dec (list A) :=
  fun l => match l with
           | n :: l' => if n <? 0 then None else
                        if Z.of_nat (length l') <? n then None else d_rep (Z.to_nat n) d l'
           | [] => None
           end.

Definition d_zlist : dec (list Z) := d_list d_z.
Definition d_pair {A B} (da : dec A) (db : dec B) : dec (A * B) :=
  dlet a <- da ; dlet b <- db ; d_ret (a, b).

(* encoders *)
Definition e_list {A} (e : A -> list Z) (l : list A) : list Z :=
  Z.of_nat (length l) :: flat_map e l.
Definition e_zlist (l : list Z) : list Z := e_list (fun x => [x]) l.
Definition e_bool (b : bool) : list Z := [if b then 1 else 0].

Definition e_res {A} (e : A -> list Z) (r : res A) : list Z :=
  match r with
  | Ok a => 0 :: e a
  | Err c => [1; c]
  | Crash w => [2; w]
  | Fuel => [3]
  end.

(* wrong-shaped input *)
Definition bad_case : list Z := [-999].
