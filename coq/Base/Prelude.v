(* Common imports and small utilities shared by every model file.
   No proofs about the code live here. *)
From Coq Require Export List ZArith Bool Lia.
Export ListNotations.
Open Scope Z_scope.

(* Result type used by every fuelled / partial model function.
   [Crash] stands for a Go run-time fault (index out of range, nil map, explicit panic);
   [Fuel] is the model's own fuel running out and is always excluded by theorem statements. *)
Inductive res (A : Type) : Type :=
| Ok (a : A)
| Err (code : Z)
| Crash (why : Z)
| Fuel.
Arguments Ok {A} a.
Arguments Err {A} code.
Arguments Crash {A} why.
Arguments Fuel {A}.

Definition bind {A B} (r : res A) (f : A -> res B) : res B :=
  match r with
  | Ok a => f a
  | Err c => Err c
  | Crash w => Crash w
  | Fuel => Fuel
  end.

Notation "'do' x <- r ; k" := (bind r (fun x => k))
  (at level 200, x pattern, r at level 100, k at level 200, right associativity).

Definition zlen {A} (l : list A) : Z := Z.of_nat (length l).

(* n-th element with Z index; None when out of range (a Go index fault). *)
Definition znth {A} (l : list A) (i : Z) : option A :=
  if i <? 0 then None else nth_error l (Z.to_nat i).

Definition zmem (x : Z) (l : list Z) : bool := existsb (Z.eqb x) l.

Fixpoint zlist_eqb (a b : list Z) : bool :=
  match a, b with
  | [], [] => true
  | x :: a', y :: b' => (x =? y) && zlist_eqb a' b'
  | _, _ => false
  end.

(* association list lookup used for oracle tables shipped with each case *)
Fixpoint zassoc (k : Z) (l : list (Z * Z)) (d : Z) : Z :=
  match l with
  | [] => d
  | (k', v) :: l' => if k =? k' then v else zassoc k l' d
  end.
