(* Go's string -> rune view (DESIGN §3.1).

   A Go string is a sequence of bytes ([list Z], every element meant to be in 0..255).
   [decode] is what [for i, r := range s] enumerates and what utf8.DecodeRune /
   utf8.DecodeRuneInString return position by position: a list of (rune, width) pairs.
   * a well-formed sequence (shortest form, not a surrogate, <= U+10FFFF) of k bytes
     yields (scalar, k);
   * any other byte yields (U+FFFD, 1): the decoder re-synchronises one byte later
     (so "each invalid byte counts as one rune").
   Written from the definition of UTF-8 (decode the payload bits, then reject overlong /
   surrogate / out-of-range values), not from Go's first[]/acceptRanges tables; the
   correspondence leg c08-utf8 compares it with the running Go toolchain.

   [rune_len] is utf8.RuneLen (with its -1), [encode] is utf8.AppendRune / string(rune)
   (invalid runes are written as U+FFFD), [encode_string] is string([]rune).

   No proofs here; see Proofs/Utf8Proofs.v. *)
From Verif Require Import Base.Prelude.

Definition rune_error : Z := 65533.      (* utf8.RuneError = U+FFFD *)
Definition max_rune : Z := 1114111.      (* utf8.MaxRune   = U+10FFFF *)

Definition is_byte (b : Z) : Prop := 0 <= b < 256.

(* surrogate half: U+D800..U+DFFF *)
Definition is_surrogate (r : Z) : bool := (55296 <=? r) && (r <=? 57343).

(* utf8.ValidRune *)
Definition valid_rune (r : Z) : bool :=
  (0 <=? r) && (r <=? max_rune) && negb (is_surrogate r).

(* utf8.RuneLen: number of bytes of the encoding, -1 if r is not a valid scalar *)
Definition rune_len (r : Z) : Z :=
  if r <? 0 then -1
  else if r <=? 127 then 1
  else if r <=? 2047 then 2
  else if is_surrogate r then -1
  else if r <=? 65535 then 3
  else if r <=? max_rune then 4
  else -1.

(* continuation byte 10xxxxxx *)
Definition is_cont (b : Z) : bool := (128 <=? b) && (b <=? 191).

Definition invalid1 : Z * nat := (rune_error, 1%nat).

(* utf8.DecodeRune(p) / utf8.DecodeRuneInString(s): first rune of p and its width.
   Empty input: (RuneError, 0).  Anything malformed: (RuneError, 1). *)
Definition decode_rune (p : list Z) : Z * nat :=
  match p with
  | [] => (rune_error, 0%nat)
  | b0 :: t =>
    if b0 <? 0 then invalid1                                    (* not a byte *)
    else if b0 <? 128 then (b0, 1%nat)                           (* 0xxxxxxx *)
    else if b0 <? 192 then invalid1                              (* stray continuation byte *)
    else if b0 <? 224 then                                       (* 110xxxxx 10xxxxxx *)
      match t with
      | b1 :: _ =>
        if is_cont b1 then
          let r := (b0 - 192) * 64 + (b1 - 128) in
          if r <? 128 then invalid1                              (* overlong (C0, C1) *)
          else (r, 2%nat)
        else invalid1
      | _ => invalid1                                            (* truncated *)
      end
    else if b0 <? 240 then                                       (* 1110xxxx 10xxxxxx 10xxxxxx *)
      match t with
      | b1 :: b2 :: _ =>
        if is_cont b1 && is_cont b2 then
          let r := (b0 - 224) * 4096 + (b1 - 128) * 64 + (b2 - 128) in
          if r <? 2048 then invalid1                             (* overlong (E0 80..9F) *)
          else if is_surrogate r then invalid1                   (* ED A0..BF *)
          else (r, 3%nat)
        else invalid1
      | _ => invalid1
      end
    else if b0 <? 248 then                                       (* 11110xxx 10xxxxxx 10xxxxxx 10xxxxxx *)
      match t with
      | b1 :: b2 :: b3 :: _ =>
        if is_cont b1 && is_cont b2 && is_cont b3 then
          let r := (b0 - 240) * 262144 + (b1 - 128) * 4096 + (b2 - 128) * 64 + (b3 - 128) in
          if r <? 65536 then invalid1                            (* overlong (F0 80..8F) *)
          else if max_rune <? r then invalid1                    (* F4 90.., F5..F7 *)
          else (r, 4%nat)
        else invalid1
      | _ => invalid1
      end
    else invalid1                                                (* F8..FF *)
  end.

(* The whole string.  [skip] = bytes of the current rune still to be stepped over, so the
   recursion is structural on the byte list (no fuel): at skip = 0 a rune starts here. *)
Fixpoint decode_aux (skip : nat) (s : list Z) : list (Z * nat) :=
  match s with
  | [] => []
  | _ :: t =>
    match skip with
    | S k => decode_aux k t
    | O => let rw := decode_rune s in rw :: decode_aux (pred (snd rw)) t
    end
  end.

(* [for i, r := range s]: the runes with their widths, in order.
   (Proofs/Utf8Proofs.decode_unfold: decode s = decode_rune s :: decode (skipn width s).) *)
Definition decode (s : list Z) : list (Z * nat) := decode_aux 0 s.

Definition runes_of (s : list Z) : list Z := map fst (decode s).             (* []rune(s) *)
Definition widths_of (s : list Z) : list Z := map (fun p => Z.of_nat (snd p)) (decode s).

(* utf8.AppendRune(nil, r) = []byte(string(r)) *)
Definition encode_error : list Z := [239; 191; 189].                         (* EF BF BD *)
Definition encode (r : Z) : list Z :=
  if r <? 0 then encode_error
  else if r <=? 127 then [r]
  else if r <=? 2047 then [192 + r / 64; 128 + r mod 64]
  else if is_surrogate r then encode_error
  else if r <=? 65535 then [224 + r / 4096; 128 + (r / 64) mod 64; 128 + r mod 64]
  else if r <=? max_rune then
    [240 + r / 262144; 128 + (r / 4096) mod 64; 128 + (r / 64) mod 64; 128 + r mod 64]
  else encode_error.

(* bytes written for r: RuneLen with the -1 of invalid runes mapped to len(U+FFFD) = 3,
   as match.go:144-147 and string([]rune) do *)
Definition encode_len (r : Z) : Z := if rune_len r <? 0 then 3 else rune_len r.

(* what an invalid rune becomes when it goes through a string *)
Definition sanitize (r : Z) : Z := if valid_rune r then r else rune_error.

Definition encode_string (rs : list Z) : list Z := flat_map encode rs.        (* string([]rune) *)

(* utf8.Valid / utf8.ValidString: no position decodes to the width-1 error rune.
   Equivalent formulation used in the theorems: every decoded pair has the width RuneLen says. *)
Definition valid_pair (p : Z * nat) : bool := Z.of_nat (snd p) =? rune_len (fst p).
Definition valid_utf8 (s : list Z) : bool := forallb valid_pair (decode s).
