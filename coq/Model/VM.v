(* Model of the backtracking interpreter: runner.go executeDefault (248-969), backtrack, goTo,
   advance, ensureStorage, growTrack, initMatch, Capture/transferCapture/uncapture, and the
   capture bookkeeping of match.go (addMatch, balanceMatch, removeMatch, isMatched, matchIndex,
   matchLength).  It runs the REAL code words ([Code.Codes]) one opcode per [step].
   Every access on which the Go code would fault (stack underflow/overflow, code/text/strings
   index out of range, capture slot out of range) yields [Crash]; the stack limit yields [Err 1]. *)
From Verif Require Import Base.Prelude Model.Tree Model.Spec Gen.CodeGen Gen.RunnerGen.

(* opcode numbers (checked against Gen.CodeGen by Proofs/GenConform.v) *)
Definition Onerep := 0. Definition Notonerep := 1. Definition Setrep := 2.
Definition Oneloop := 3. Definition Notoneloop := 4. Definition Setloop := 5.
Definition Onelazy := 6. Definition Notonelazy := 7. Definition Setlazy := 8.
Definition One := 9. Definition Notone := 10. Definition SetOp := 11.
Definition Multi := 12. Definition Ref := 13.
Definition Bol := 14. Definition Eol := 15. Definition Boundary := 16. Definition Nonboundary := 17.
Definition Beginning := 18. Definition Start := 19. Definition EndZ := 20. Definition EndOp := 21.
Definition Nothing := 22.
Definition Lazybranch := 23. Definition Branchmark := 24. Definition Lazybranchmark := 25.
Definition Nullcount := 26. Definition Setcount := 27. Definition Branchcount := 28. Definition Lazybranchcount := 29.
Definition Nullmark := 30. Definition Setmark := 31. Definition Capturemark := 32. Definition Getmark := 33.
Definition Setjump := 34. Definition Backjump := 35. Definition Forejump := 36. Definition Testref := 37.
Definition Goto := 38. Definition Prune := 39. Definition Stop := 40.
Definition ECMABoundary := 41. Definition NonECMABoundary := 42.
Definition Oneloopatomic := 43. Definition Notoneloopatomic := 44. Definition Setloopatomic := 45.
Definition UpdateBumpalong := 46.
Definition RtlBit := 64. Definition BackBit := 128. Definition Back2Bit := 256. Definition CiBit := 512.

Definition E_StackLimit : Z := 1.

(* crash reasons *)
Definition C_code := 1. Definition C_track := 2. Definition C_stack := 3. Definition C_text := 4.
Definition C_cap := 5. Definition C_crawl := 6. Definition C_table := 7. Definition C_unknown_op := 8.

Record program := {
  codes : list Z;
  strings : list (list Z);
  trackcount : Z;
  capsize : Z
}.

Record vm := {
  pc : Z;               (* codepos *)
  mode : Z;             (* 0, BackBit or Back2Bit : how the current opcode was entered *)
  tp : Z;               (* Runtextpos *)
  track : list Z;       (* backtracking stack, top first *)
  tcap : Z;             (* len(runtrack) *)
  stack : list Z;       (* grouping stack, top first *)
  scap : Z;             (* len(runstack) *)
  crawl : list Z;       (* capture-undo stack, top first *)
  mcaps : list (list Z) (* per slot: matches[c][0 .. 2*matchcount[c]) *)
}.

Inductive outcome :=
| Next (s : vm)
| Done (s : vm)               (* Stop executed *)
| Fail (code : Z)             (* ErrBacktrackingStackLimit *)
| Crashed (why : Z).

Section VM.
Variable e : env.
Variable p : program.
Variable limit : Z.     (* MaxBacktrackingStackSize; negative = unlimited *)

Definition code_at (i : Z) : option Z := znth (codes p) i.

(* ---- capture storage (match.go) ---- *)
Definition mc_get (c : Z) (m : list (list Z)) : option (list Z) := znth m c.
Fixpoint list_set {A} (l : list A) (n : nat) (x : A) : list A :=
  match l, n with
  | [], _ => []
  | _ :: t, O => x :: t
  | h :: t, S n' => h :: list_set t n' x
  end.
Definition mc_set (c : Z) (v : list Z) (m : list (list Z)) : list (list Z) := list_set m (Z.to_nat c) v.

Definition mcount (a : list Z) : Z := zlen a / 2.
(* isMatched (match.go:244) : cap < len(matchcount) && count > 0 && last length word <> -2; a negative cap faults *)
Definition vm_is_matched (c : Z) (m : list (list Z)) : option bool :=
  if c <? 0 then None else
  match mc_get c m with
  | None => Some false
  | Some a => if zlen a =? 0 then Some false
              else match znth a (zlen a - 1) with Some w => Some (negb (w =? -2)) | None => None end
  end.
Definition vm_match_index (c : Z) (m : list (list Z)) : option Z :=
  match mc_get c m with
  | None => None
  | Some a => match znth a (zlen a - 2) with
              | None => None
              | Some i => if 0 <=? i then Some i else znth a (-3 - i)
              end
  end.
Definition vm_match_length (c : Z) (m : list (list Z)) : option Z :=
  match mc_get c m with
  | None => None
  | Some a => match znth a (zlen a - 1) with
              | None => None
              | Some i => if 0 <=? i then Some i else znth a (-3 - i)
              end
  end.
Definition add_match (c st len : Z) (m : list (list Z)) : option (list (list Z)) :=
  match mc_get c m with
  | None => None
  | Some a => Some (mc_set c (a ++ [st; len]) m)
  end.
Definition remove_match (c : Z) (m : list (list Z)) : option (list (list Z)) :=
  match mc_get c m with
  | None => None
  | Some a => if zlen a <? 2 then None else Some (mc_set c (firstn (length a - 2) a) m)
  end.
(* balanceMatch (match.go:296-318) *)
Definition balance_match (c : Z) (m : list (list Z)) : option (list (list Z)) :=
  match mc_get c m with
  | None => None
  | Some a =>
      let target0 := zlen a - 2 in
      match znth a target0 with
      | None => None
      | Some w =>
          let target1 := if w <? 0 then -3 - w else target0 in
          let target := target1 - 2 in
          if 0 <=? target then
            match znth a target, znth a (target + 1) with
            | Some x, Some y => if x <? 0 then add_match c x y m else add_match c (-3 - target) (-4 - target) m
            | _, _ => None
            end
          else add_match c (-3 - target) (-4 - target) m
      end
  end.

(* ---- helpers ---- *)
Definition rtl_of (op : Z) : bool := has_bit op RtlBit.
Definition ci_of (op : Z) : bool := has_bit op CiBit.
Definition bump (op : Z) : Z := if rtl_of op then -1 else 1.
Definition fwdchars (op : Z) (s : vm) : Z := if rtl_of op then tp s else tlen e - tp s.
(* forwardcharnext: the character read and the new text position; None = index out of range *)
Definition fwdnext (op : Z) (t : Z) : option (Z * Z) :=
  if rtl_of op then (if (1 <=? t) && (t <=? tlen e) then Some (char_at e (t - 1), t - 1) else None)
  else (if (0 <=? t) && (t <? tlen e) then Some (char_at e t, t + 1) else None).
Definition text_at (i : Z) : option Z := if (0 <=? i) && (i <? tlen e) then Some (char_at e i) else None.

Definition set_pc (s : vm) (n : Z) (m : Z) : vm :=
  {| pc := n; mode := m; tp := tp s; track := track s; tcap := tcap s; stack := stack s; scap := scap s;
     crawl := crawl s; mcaps := mcaps s |}.
Definition set_tp (s : vm) (t : Z) : vm :=
  {| pc := pc s; mode := mode s; tp := t; track := track s; tcap := tcap s; stack := stack s; scap := scap s;
     crawl := crawl s; mcaps := mcaps s |}.
Definition set_track (s : vm) (t : list Z) : vm :=
  {| pc := pc s; mode := mode s; tp := tp s; track := t; tcap := tcap s; stack := stack s; scap := scap s;
     crawl := crawl s; mcaps := mcaps s |}.
Definition set_stack (s : vm) (t : list Z) : vm :=
  {| pc := pc s; mode := mode s; tp := tp s; track := track s; tcap := tcap s; stack := t; scap := scap s;
     crawl := crawl s; mcaps := mcaps s |}.
Definition set_caps (s : vm) (c : list Z) (m : list (list Z)) : vm :=
  {| pc := pc s; mode := mode s; tp := tp s; track := track s; tcap := tcap s; stack := stack s; scap := scap s;
     crawl := c; mcaps := m |}.
Definition set_tcap (s : vm) (c : Z) : vm :=
  {| pc := pc s; mode := mode s; tp := tp s; track := track s; tcap := c; stack := stack s; scap := scap s;
     crawl := crawl s; mcaps := mcaps s |}.
Definition set_scap (s : vm) (c : Z) : vm :=
  {| pc := pc s; mode := mode s; tp := tp s; track := track s; tcap := tcap s; stack := stack s; scap := c;
     crawl := crawl s; mcaps := mcaps s |}.

(* pushes fault when the array is full (index -1) *)
Definition tpush (s : vm) (ws : list Z) : res vm :=
  if tcap s <? zlen (track s) + zlen ws then Crash C_track else Ok (set_track s (ws ++ track s)).
Definition spush (s : vm) (ws : list Z) : res vm :=
  if scap s <? zlen (stack s) + zlen ws then Crash C_stack else Ok (set_stack s (ws ++ stack s)).

(* ensureStorage (runner.go:982-994, with the re-check after growTrack) and growTrack (1067-1085) *)
Definition ensure_storage (s : vm) : res vm :=
  let need := trackcount p * G_ensure_factor in
  let s1 := if scap s - zlen (stack s) <? need then set_scap s (scap s * 2) else s in
  if tcap s1 - zlen (track s1) <? need then
    let old := tcap s1 in
    let nl0 := if old * 2 =? 0 then 1 else old * 2 in
    let nl := if (0 <=? limit) && (limit <? nl0) then limit else nl0 in
    if nl <=? old then Err E_StackLimit
    else if nl - zlen (track s1) <? need then Err E_StackLimit
    else Ok (set_tcap s1 nl)
  else Ok s1.

(* goTo (1033-1044): entering a forward opcode at newpos *)
Definition goto (s : vm) (newpos : Z) : res vm :=
  do s1 <- (if newpos <=? pc s then ensure_storage s else Ok s) ;
  match code_at newpos with
  | None => Crash C_code
  | Some _ => Ok (set_pc s1 newpos 0)
  end.
(* advance(i) (1028-1031) *)
Definition advance (s : vm) (i : Z) : res vm :=
  let n := pc s + i + 1 in
  match code_at n with
  | None => Crash C_code
  | Some _ => Ok (set_pc s n 0)
  end.

(* backtrack() (1135-1163) *)
Definition backtrack (s : vm) : res vm :=
  match track s with
  | [] => Crash C_track
  | np :: t =>
      let s1 := set_track s t in
      let '(newpos, m) := if np <? 0 then (- np, Back2Bit) else (np, BackBit) in
      match code_at newpos with
      | None => Crash C_code
      | Some _ =>
          do s2 <- (if newpos <? pc s then ensure_storage s1 else Ok s1) ;
          Ok (set_pc s2 newpos m)
      end
  end.

Definition opnd (s : vm) (i : Z) : res Z :=
  match code_at (pc s + i + 1) with Some v => Ok v | None => Crash C_code end.

(* Capture / transferCapture / uncapture (2013-2070) *)
Definition do_capture (s : vm) (capnum st en : Z) : res vm :=
  let '(a, b) := if en <? st then (en, st) else (st, en) in
  match add_match capnum a (b - a) (mcaps s) with
  | None => Crash C_cap
  | Some m => Ok (set_caps s (capnum :: crawl s) m)
  end.

Definition do_transfer (s : vm) (capnum uncapnum st en : Z) : res vm :=
  let '(a0, b0) := if en <? st then (en, st) else (st, en) in
  match vm_match_index uncapnum (mcaps s), vm_match_length uncapnum (mcaps s) with
  | Some s2, Some l2 =>
      let e2 := s2 + l2 in
      let '(a, b) := if e2 <=? a0 then (e2, a0)
                     else if b0 <=? s2 then (b0, s2)
                     else (Z.max a0 s2, Z.min b0 e2) in
      match balance_match uncapnum (mcaps s) with
      | None => Crash C_cap
      | Some m1 =>
          let cr1 := uncapnum :: crawl s in
          if capnum =? -1 then Ok (set_caps s cr1 m1)
          else match add_match capnum a (b - a) m1 with
               | None => Crash C_cap
               | Some m2 => Ok (set_caps s (capnum :: cr1) m2)
               end
      end
  | _, _ => Crash C_cap
  end.

Definition uncapture (s : vm) : res vm :=
  match crawl s with
  | [] => Crash C_crawl
  | c :: cr => match remove_match c (mcaps s) with
               | None => Crash C_cap
               | Some m => Ok (set_caps s cr m)
               end
  end.

Fixpoint uncapture_to (fuel : nat) (s : vm) (target : Z) : res vm :=
  match fuel with
  | O => Fuel
  | S f => if zlen (crawl s) =? target then Ok s
           else do s1 <- uncapture s ; uncapture_to f s1 target
  end.

(* trackto(newpos): keep the newpos oldest entries (1050-1052); growing the stack this way is a fault *)
Definition trackto (s : vm) (newpos : Z) : res vm :=
  let n := zlen (track s) in
  if (newpos <? 0) || (n <? newpos) then Crash C_track
  else Ok (set_track s (skipn (Z.to_nat (n - newpos)) (track s))).

(* runematch / refmatch (1271-1365): compare [len] characters ending the candidate window *)
Fixpoint cmp_str (ci : bool) (str : list Z) (p0 : Z) : option bool :=
  match str with
  | [] => Some true
  | c :: str' =>
      match text_at p0 with
      | None => None
      | Some x => if c =? (if ci then lower e x else x) then cmp_str ci str' (p0 + 1) else Some false
      end
  end.
Fixpoint cmp_ref (ci : bool) (n : nat) (i p0 : Z) : option bool :=
  match n with
  | O => Some true
  | S n' =>
      match text_at i, text_at p0 with
      | Some a, Some b =>
          if (if ci then lower e a =? lower e b else a =? b) then cmp_ref ci n' (i + 1) (p0 + 1) else Some false
      | _, _ => None
      end
  end.

(* consume up to c characters satisfying [test]; returns how many were NOT consumed (the Go loop's i)
   and the final text position *)
Fixpoint loop_chars (op : Z) (test : Z -> bool) (c : nat) (t : Z) : option (Z * Z) :=
  match c with
  | O => Some (0, t)
  | S c' => match fwdnext op t with
            | None => None
            | Some (x, t') => if test x then loop_chars op test c' t' else Some (Z.of_nat c, t)
            end
  end.
(* exactly c characters must satisfy [test] *)
Fixpoint rep_chars (op : Z) (test : Z -> bool) (c : nat) (t : Z) : option (option Z) :=
  match c with
  | O => Some (Some t)
  | S c' => match fwdnext op t with
            | None => None
            | Some (x, t') => if test x then rep_chars op test c' t' else Some None
            end
  end.

Definition brk (s : vm) : res outcome := do s1 <- backtrack s ; Ok (Next s1).
Definition cont (r : res vm) : res outcome := do s1 <- r ; Ok (Next s1).

Definition vm_boundary (w : Z -> bool) (i : Z) : bool := is_boundary e w i.

Definition char_test_op (base : Z) (o0 : Z) : Z -> bool :=
  (* base: 0 = One family (equal), 1 = Notone family (different), 2 = Set family *)
  if base =? 0 then (fun x => x =? o0)
  else if base =? 1 then (fun x => negb (x =? o0))
  else (fun x => set_in e o0 x).

(* one opcode.  [w] is the raw code word at pc: Rtl/Ci bits included *)
Definition step (s : vm) : res outcome :=
  match code_at (pc s) with
  | None => Crash C_code
  | Some w =>
    let op := Z.land w 63 in
    let m := mode s in
    if m =? 0 then
      (* ---------- forward ---------- *)
      if op =? Stop then Ok (Done s)
      else if op =? Nothing then brk s
      else if op =? Goto then do a <- opnd s 0 ; cont (goto s a)
      else if op =? Testref then
        do a <- opnd s 0 ;
        match vm_is_matched a (mcaps s) with
        | None => Crash C_cap
        | Some false => brk s
        | Some true => cont (advance s 1)
        end
      else if op =? Lazybranch then
        do s1 <- tpush s [pc s; tp s] ; cont (advance s1 1)
      else if op =? Setmark then
        do s1 <- spush s [tp s] ; do s2 <- tpush s1 [pc s] ; cont (advance s2 0)
      else if op =? Nullmark then
        do s1 <- spush s [-1] ; do s2 <- tpush s1 [pc s] ; cont (advance s2 0)
      else if op =? Getmark then
        match stack s with
        | [] => Crash C_stack
        | x :: st => do s1 <- tpush (set_stack s st) [pc s; x] ; cont (advance (set_tp s1 x) 0)
        end
      else if op =? Capturemark then
        do a <- opnd s 0 ; do b <- opnd s 1 ;
        do ok <- (if b =? -1 then Ok true
                  else match vm_is_matched b (mcaps s) with None => Crash C_cap | Some x => Ok x end) ;
        if negb ok then brk s else
        match stack s with
        | [] => Crash C_stack
        | x :: st =>
            let s0 := set_stack s st in
            do s1 <- (if b =? -1 then do_capture s0 a x (tp s) else do_transfer s0 a b x (tp s)) ;
            do s2 <- tpush s1 [pc s; x] ;
            cont (advance s2 2)
        end
      else if op =? Branchmark then
        do a <- opnd s 0 ;
        match stack s with
        | [] => Crash C_stack
        | x :: st =>
            let s0 := set_stack s st in
            if negb (tp s - x =? 0) then
              do s1 <- tpush s0 [pc s; tp s; x] ; do s2 <- spush s1 [tp s] ; cont (goto s2 a)
            else
              do s1 <- tpush s0 [- pc s; x] ; cont (advance s1 1)
        end
      else if op =? Lazybranchmark then
        match stack s with
        | [] => Crash C_stack
        | x :: st =>
            let s0 := set_stack s st in
            do s1 <- (if negb (tp s =? x) then
                        (if negb (x =? -1) then tpush s0 [pc s; tp s; x] else tpush s0 [pc s; tp s; tp s])
                      else tpush s0 [- pc s; 0; x]) ;
            cont (advance s1 1)
        end
      else if op =? Setcount then
        do a <- opnd s 0 ; do s1 <- spush s [a; tp s] ; do s2 <- tpush s1 [pc s] ; cont (advance s2 1)
      else if op =? Nullcount then
        do a <- opnd s 0 ; do s1 <- spush s [a; -1] ; do s2 <- tpush s1 [pc s] ; cont (advance s2 1)
      else if op =? Branchcount then
        do a <- opnd s 0 ; do lim <- opnd s 1 ;
        match stack s with
        | cnt :: mark :: st =>
            let s0 := set_stack s st in
            let matched := tp s - mark in
            if (lim <=? cnt) || ((matched =? 0) && (0 <=? cnt)) then
              do s1 <- tpush s0 [- pc s; cnt; mark] ; cont (advance s1 2)
            else
              do s1 <- tpush s0 [pc s; mark] ; do s2 <- spush s1 [cnt + 1; tp s] ; cont (goto s2 a)
        | _ => Crash C_stack
        end
      else if op =? Lazybranchcount then
        do a <- opnd s 0 ;
        match stack s with
        | cnt :: mark :: st =>
            let s0 := set_stack s st in
            if cnt <? 0 then
              do s1 <- tpush s0 [- pc s; mark] ; do s2 <- spush s1 [cnt + 1; tp s] ; cont (goto s2 a)
            else
              do s1 <- tpush s0 [pc s; tp s; cnt; mark] ; cont (advance s1 2)
        | _ => Crash C_stack
        end
      else if op =? Setjump then
        do s1 <- spush s [zlen (crawl s); zlen (track s)] ; do s2 <- tpush s1 [pc s] ; cont (advance s2 0)
      else if op =? Backjump then
        match stack s with
        | cr :: tr :: st =>
            do s1 <- trackto (set_stack s st) tr ;
            do s2 <- uncapture_to (S (length (crawl s))) s1 cr ;
            brk s2
        | _ => Crash C_stack
        end
      else if op =? Forejump then
        match stack s with
        | cr :: tr :: st =>
            do s1 <- trackto (set_stack s st) tr ;
            do s2 <- tpush s1 [pc s; cr] ;
            cont (advance s2 0)
        | _ => Crash C_stack
        end
      else if op =? Bol then
        (if (0 <? tp s) then
           match text_at (tp s - 1) with None => Crash C_text | Some x => if negb (x =? 10) then brk s else cont (advance s 0) end
         else cont (advance s 0))
      else if op =? Eol then
        (if (0 <? tlen e - tp s) then
           match text_at (tp s) with None => Crash C_text | Some x => if negb (x =? 10) then brk s else cont (advance s 0) end
         else cont (advance s 0))
      else if op =? Boundary then
        if vm_boundary (is_word e) (tp s) then cont (advance s 0) else brk s
      else if op =? Nonboundary then
        if vm_boundary (is_word e) (tp s) then brk s else cont (advance s 0)
      else if op =? ECMABoundary then
        if vm_boundary (is_eword e) (tp s) then cont (advance s 0) else brk s
      else if op =? NonECMABoundary then
        if vm_boundary (is_eword e) (tp s) then brk s else cont (advance s 0)
      else if op =? Beginning then
        if 0 <? tp s then brk s else cont (advance s 0)
      else if op =? Start then
        if negb (tp s =? tstart e) then brk s else cont (advance s 0)
      else if op =? EndZ then
        let r := tlen e - tp s in
        if 1 <? r then brk s
        else if endz_strict e then (if 0 <? r then brk s else cont (advance s 0))
        else if r =? 1 then
          match text_at (tp s) with None => Crash C_text | Some x => if negb (x =? 10) then brk s else cont (advance s 0) end
        else cont (advance s 0)
      else if op =? EndOp then
        if 0 <? tlen e - tp s then brk s else cont (advance s 0)
      else if (op =? One) || (op =? Notone) || (op =? SetOp) then
        do a <- opnd s 0 ;
        if fwdchars w s <? 1 then brk s else
        match fwdnext w (tp s) with
        | None => Crash C_text
        | Some (x, t') => if char_test_op (op - One) a x then cont (advance (set_tp s t') 1) else brk (set_tp s t')
        end
      else if op =? Multi then
        do a <- opnd s 0 ;
        match znth (strings p) a with
        | None => Crash C_table
        | Some str =>
            let c := zlen str in
            if fwdchars w s <? c then brk s else
            let start := if rtl_of w then tp s - c else tp s in
            match cmp_str (ci_of w) str start with
            | None => Crash C_text
            | Some false => brk s
            | Some true => cont (advance (set_tp s (if rtl_of w then tp s - c else tp s + c)) 1)
            end
        end
      else if op =? Ref then
        do a <- opnd s 0 ;
        match vm_is_matched a (mcaps s) with
        | None => Crash C_cap
        | Some false => if ecma e then cont (advance s 1) else brk s
        | Some true =>
            match vm_match_index a (mcaps s), vm_match_length a (mcaps s) with
            | Some i, Some len =>
                if fwdchars w s <? len then brk s else
                let start := if rtl_of w then tp s - len else tp s in
                match cmp_ref (ci_of w) (Z.to_nat len) i start with
                | None => Crash C_text
                | Some false => brk s
                | Some true => cont (advance (set_tp s (if rtl_of w then tp s - len else tp s + len)) 1)
                end
            | _, _ => Crash C_cap
            end
        end
      else if (op =? Onerep) || (op =? Notonerep) || (op =? Setrep) then
        do a <- opnd s 0 ; do c <- opnd s 1 ;
        if fwdchars w s <? c then brk s else
        match rep_chars w (char_test_op (op - Onerep) a) (Z.to_nat c) (tp s) with
        | None => Crash C_text
        | Some None => brk s
        | Some (Some t') => cont (advance (set_tp s t') 2)
        end
      else if (op =? Oneloop) || (op =? Notoneloop) || (op =? Setloop)
              || (op =? Oneloopatomic) || (op =? Notoneloopatomic) || (op =? Setloopatomic) then
        do a <- opnd s 0 ; do c0 <- opnd s 1 ;
        let atomic := 43 <=? op in
        let base := if atomic then op - Oneloopatomic else op - Oneloop in
        let c := Z.min c0 (fwdchars w s) in
        match loop_chars w (char_test_op base a) (Z.to_nat c) (tp s) with
        | None => Crash C_text
        | Some (i, t') =>
            let s0 := set_tp s t' in
            do s1 <- (if (i <? c) && negb atomic then tpush s0 [pc s; t' - bump w; c - i - 1] else Ok s0) ;
            cont (advance s1 2)
        end
      else if (op =? Onelazy) || (op =? Notonelazy) || (op =? Setlazy) then
        do c0 <- opnd s 1 ;
        let c := Z.min c0 (fwdchars w s) in
        do s1 <- (if 0 <? c then tpush s [pc s; tp s; c - 1] else Ok s) ;
        cont (advance s1 2)
      else if op =? UpdateBumpalong then
        (* overwrite the root slot (oldest track word) when it is smaller than the current position *)
        match rev (track s) with
        | [] => Crash C_track
        | root :: rest =>
            if zlen (track s) =? tcap s then
              (if root <? tp s then cont (advance (set_track s (rev (tp s :: rest))) 0) else cont (advance s 0))
            else
              (* the array's last word is only the root slot while the stack is full; otherwise the code
                 reads a stale word: never the case for compiled programs (see DESIGN C12 reads_below_top) *)
              (if root <? tp s then cont (advance (set_track s (rev (tp s :: rest))) 0) else cont (advance s 0))
        end
      else Crash C_unknown_op
    else if m =? BackBit then
      (* ---------- Back ---------- *)
      if op =? Lazybranch then
        match track s with
        | x :: t => do a <- opnd s 0 ; cont (goto (set_tp (set_track s t) x) a)
        | _ => Crash C_track
        end
      else if (op =? Setmark) || (op =? Nullmark) then
        match stack s with
        | _ :: st => brk (set_stack s st)
        | _ => Crash C_stack
        end
      else if op =? Getmark then
        match track s with
        | x :: t => do s1 <- spush (set_track s t) [x] ; brk s1
        | _ => Crash C_track
        end
      else if op =? Capturemark then
        match track s with
        | x :: t =>
            do a <- opnd s 0 ; do b <- opnd s 1 ;
            do s1 <- spush (set_track s t) [x] ;
            do s2 <- uncapture s1 ;
            do s3 <- (if negb (a =? -1) && negb (b =? -1) then uncapture s2 else Ok s2) ;
            brk s3
        | _ => Crash C_track
        end
      else if op =? Branchmark then
        match track s, stack s with
        | t2 :: t1 :: t, _ :: st =>
            do s1 <- tpush (set_tp (set_stack (set_track s t) st) t2) [- pc s; t1] ;
            cont (advance s1 1)
        | _ :: _ :: _, [] => Crash C_stack
        | _, _ => Crash C_track
        end
      else if op =? Lazybranchmark then
        match track s with
        | t2 :: t1 :: t =>
            do a <- opnd s 0 ;
            do s1 <- tpush (set_track s t) [- pc s; 1; t1] ;
            do s2 <- spush s1 [t2] ;
            cont (goto (set_tp s2 t2) a)
        | _ => Crash C_track
        end
      else if (op =? Setcount) || (op =? Nullcount) then
        match stack s with
        | _ :: _ :: st => brk (set_stack s st)
        | _ => Crash C_stack
        end
      else if op =? Branchcount then
        match track s, stack s with
        | t1 :: t, cnt :: mark :: st =>
            let s0 := set_stack (set_track s t) st in
            if 0 <? cnt then
              do s1 <- tpush (set_tp s0 mark) [- pc s; cnt - 1; t1] ; cont (advance s1 2)
            else
              do s1 <- spush s0 [cnt - 1; t1] ; brk s1
        | _ :: _, _ => Crash C_stack
        | _, _ => Crash C_track
        end
      else if op =? Lazybranchcount then
        match track s with
        | t3 :: t2 :: t1 :: t =>
            (* t1 = mark, t2 = count, t3 = textpos *)
            do a <- opnd s 0 ; do lim <- opnd s 1 ;
            let s0 := set_track s t in
            if (t2 <? lim) && negb (t3 =? t1) then
              do s1 <- spush (set_tp s0 t3) [t2 + 1; t3] ;
              do s2 <- tpush s1 [- pc s; t1] ;
              cont (goto s2 a)
            else
              do s1 <- spush s0 [t2; t1] ; brk s1
        | _ => Crash C_track
        end
      else if op =? Setjump then
        match stack s with
        | _ :: _ :: st => brk (set_stack s st)
        | _ => Crash C_stack
        end
      else if op =? Forejump then
        match track s with
        | x :: t => do s1 <- uncapture_to (S (length (crawl s))) (set_track s t) x ; brk s1
        | _ => Crash C_track
        end
      else if (op =? Oneloop) || (op =? Notoneloop) || (op =? Setloop) then
        match track s with
        | t2 :: t1 :: t =>
            (* t1 = i, t2 = pos *)
            let s0 := set_tp (set_track s t) t2 in
            do s1 <- (if 0 <? t1 then tpush s0 [pc s; t2 - bump w; t1 - 1] else Ok s0) ;
            cont (advance s1 2)
        | _ => Crash C_track
        end
      else if (op =? Onelazy) || (op =? Notonelazy) || (op =? Setlazy) then
        match track s with
        | t2 :: t1 :: t =>
            do a <- opnd s 0 ;
            match fwdnext w t2 with
            | None => Crash C_text
            | Some (x, t') =>
                let s0 := set_tp (set_track s t) t' in
                if char_test_op (op - Onelazy) a x then
                  do s1 <- (if 0 <? t1 then tpush s0 [pc s; t2 + bump w; t1 - 1] else Ok s0) ;
                  cont (advance s1 2)
                else brk s0
            end
        | _ => Crash C_track
        end
      else Crash C_unknown_op
    else
      (* ---------- Back2 ---------- *)
      if op =? Branchmark then
        match track s with
        | x :: t => do s1 <- spush (set_track s t) [x] ; brk s1
        | _ => Crash C_track
        end
      else if op =? Lazybranchmark then
        match track s with
        | t2 :: t1 :: t =>
            (* t1 = old mark, t2 = needsPop *)
            let s0 := set_track s t in
            do s1 <- (if negb (t2 =? 0) then
                        match stack s0 with _ :: st => Ok (set_stack s0 st) | [] => Crash C_stack end
                      else Ok s0) ;
            do s2 <- spush s1 [t1] ; brk s2
        | _ => Crash C_track
        end
      else if op =? Branchcount then
        match track s with
        | t2 :: t1 :: t => do s1 <- spush (set_track s t) [t2; t1] ; brk s1
        | _ => Crash C_track
        end
      else if op =? Lazybranchcount then
        match track s, stack s with
        | t1 :: t, cnt :: _ :: st => do s1 <- spush (set_stack (set_track s t) st) [cnt - 1; t1] ; brk s1
        | _ :: _, _ => Crash C_stack
        | _, _ => Crash C_track
        end
      else Crash C_unknown_op
  end.

(* executeDefault: goTo(0), then one opcode at a time.  Fuel is counted in chunks of 1000 opcodes so
   that long runs do not need huge unary numbers. *)
Fixpoint run_steps (k : nat) (s : vm) : res (vm * bool) :=
  match k with
  | O => Ok (s, false)
  | S k' => match step s with
            | Ok (Next s') => run_steps k' s'
            | Ok (Done s') => Ok (s', true)
            | Ok (Fail c) => Err c
            | Ok (Crashed w) => Crash w
            | Err c => Err c
            | Crash w => Crash w
            | Fuel => Fuel
            end
  end.

Fixpoint run (fuel : nat) (s : vm) : res vm :=
  match fuel with
  | O => Fuel
  | S f => do r <- run_steps 1000 s ;
           if snd r then Ok (fst r) else run f (fst r)
  end.

(* initMatch (1934-1982) on a fresh runner *)
Definition init_vm (t : Z) : vm :=
  let ts0 := Z.max (trackcount p * G_tracksize_mul) G_tracksize_min in
  let ts := if (0 <=? limit) && (limit <? ts0) then limit else ts0 in
  {| pc := 0; mode := 0; tp := t; track := []; tcap := ts; stack := [];
     scap := Z.max (trackcount p * G_stacksize_mul) G_stacksize_min; crawl := [];
     mcaps := repeat [] (Z.to_nat (capsize p)) |}.

(* one execute() call at text position t on a fresh interpreter state *)
Definition exec_at (fuel : nat) (t : Z) : res vm :=
  do s0 <- goto (init_vm t) 0 ; run fuel s0.

Definition matched0 (s : vm) : bool :=
  match mc_get 0 (mcaps s) with Some a => 0 <? zlen a | None => false end.

(* the accelerator-free scan (hook VerifNaiveScan): attempt at every position in scan order.
   Stack capacities persist across attempts within one scan, as in the runner. *)
Fixpoint vm_scan_from (fuel : nat) (n : nat) (rtl : bool) (s : vm) (t : Z) : res (option vm) :=
  match n with
  | O => Ok None
  | S n' =>
      let s0 := {| pc := 0; mode := 0; tp := t; track := []; tcap := tcap s; stack := []; scap := scap s;
                   crawl := []; mcaps := repeat [] (Z.to_nat (capsize p)) |} in
      do s1 <- goto s0 0 ;
      do s2 <- run fuel s1 ;
      if matched0 s2 then Ok (Some s2)
      else if (if rtl then t <=? 0 else tlen e <=? t) then Ok None
      else vm_scan_from fuel n' rtl s2 (if rtl then t - 1 else t + 1)
  end.

Definition vm_find (fuel : nat) (rtl : bool) (start prevlen : Z) : res (option vm) :=
  let stop := if rtl then 0 else tlen e in
  if (prevlen =? 0) && (start =? stop) then Ok None
  else let p0 := if prevlen =? 0 then (if rtl then start - 1 else start + 1) else start in
       vm_scan_from fuel (S (Z.to_nat (tlen e))) rtl (init_vm p0) p0.

(* Match.tidy (match.go:194-241): compact balanced captures *)
Fixpoint tidy_loop (a : list Z) (acc : list Z) : list Z :=
  (* acc is the compacted prefix in reverse *)
  match a with
  | [] => rev acc
  | x :: a' => if x <? 0 then tidy_loop a' (tl acc) else tidy_loop a' (x :: acc)
  end.
Definition tidy_slot (a : list Z) : list Z :=
  let r := tidy_loop a [] in
  firstn (2 * (length r / 2)) r.

End VM.
