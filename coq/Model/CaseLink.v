(* C20, link parser -> ci_closed.  Executable definitions only (no proofs in this file).

   1. The single-character unit under IgnoreCase: parser.addUnitOne / addUnitNotone
      (/repo/syntax/parser.go:2313-2321) call newRegexNodeCh (tree.go:140-146), i.e.
      nodeWithCaseConversion (tree.go:180-229) on a node that carries a rune; RegexNode.reduce
      (tree.go:485-490, reduceSet tree.go:1850-1866) then clears the IgnoreCase bit and turns a
      singleton class back into One / Notone.  Modelled as the code is AFTER repair e0fcd53: the
      test that decides whether the rune becomes a case-equivalence class is
      unicode.SimpleFold(ch) != ch.  (Before the repair it was IsLower(ch) || IsUpper(ch), which left
      titlecase letters, Roman numerals and circled letters as One nodes: `(?i)\u01C5` did not match
      "\u01C6"; kept as Example C20_old_titlecase_unit_not_closed.)
   2. ci_first_open: which leaf of an exported tree fails the proved checker [ci_closedb]
      (Proofs/CaseProofs.v); used by the per-instance leg c20-closed for its replay text only -
      the verdict itself is [ci_closedb]. *)
From Verif Require Import Base.Prelude Model.Tree Model.Spec Model.CharClass Proofs.CaseProofs.

Section UnitOne.
  Variable cat_in : Z -> Z -> bool.
  Variable simple_fold : Z -> Z.

  (* what the unit is after construction / after reduce: a One or Notone node with its option word,
     or a Set node with its option word and class.  (The loop variants Oneloop/Setloop... made by
     makeQuantifier carry the same three fields; the model does not distinguish them.) *)
  Inductive uleaf : Type :=
  | UCh (notone : bool) (o : Z) (ch : Z)
  | USet (o : Z) (c : cls).

  (* nodeWithCaseConversion, tree.go:180-219, for a node with n.Set = nil:
       if n.Options&IgnoreCase == 0 { return n }
       if n.Ch > 0 { if unicode.SimpleFold(ch) != ch { set := {}; set.addChar(ch); set.addCaseEquivalences();
                                                      set.negate = n.IsNotoneFamily();
                                                      return {T: Set.., Options: n.Options &^ IgnoreCase, Set: set} } }
       return n *)
  Definition case_conversion_ch (fuel : nat) (notone : bool) (o ch : Z) : res uleaf :=
    if negb (is_ci o) then Ok (UCh notone o ch)
    else if (0 <? ch) && negb (simple_fold ch =? ch) then
      do s <- add_case_equivalences cat_in simple_fold fuel (add_char cat_in empty_cls ch) ;
      Ok (USet (Z.ldiff o OPT_CI) (set_neg s notone))
    else Ok (UCh notone o ch).

  (* parser.go:2313-2321 *)
  Definition add_unit_one (fuel : nat) (o ch : Z) : res uleaf := case_conversion_ch fuel false o ch.
  Definition add_unit_notone (fuel : nat) (o ch : Z) : res uleaf := case_conversion_ch fuel true o ch.

  (* RegexNode.reduce on such a leaf: tree.go:487-490 (IgnoreCase cleared on everything but a
     back-reference), then reduceSet for the Set family *)
  Definition reduce_uleaf (l : uleaf) : res uleaf :=
    match l with
    | UCh notone o ch => Ok (UCh notone (Z.ldiff o OPT_CI) ch)
    | USet o c =>
      do r <- reduce_set c ;
      Ok (match r with
          | ROne x => UCh false (Z.ldiff o OPT_CI) x
          | RNotone x => UCh true (Z.ldiff o OPT_CI) x
          | RSet c' => USet (Z.ldiff o OPT_CI) c'
          end)
    end.

  (* the leaf found in the optimised tree for a one-letter unit *)
  Definition unit_leaf (fuel : nat) (notone : bool) (o ch : Z) : res uleaf :=
    do l <- case_conversion_ch fuel notone o ch ; reduce_uleaf l.

  Definition e_uleaf (l : uleaf) : list Z :=
    match l with
    | UCh notone o ch => [if notone then 1 else 0; o; ch]
    | USet o c => 2 :: o :: e_cls c
    end.
End UnitOne.

(* ------------------------------------------------------------------------------------------ *)
(* first leaf (preorder, the order of the wire format = the order exportNode writes the nodes)   *)
(* that the checker rejects:  [preorder index; node type number; payload (rune / set id / group)]; *)
(* [] when every leaf passes.                                                                     *)
Section FirstOpen.
  Variable pairs : list (Z * Z).
  Variable e : env.

  Definition ck_code (k : ckind) : Z := match k with COne => 9 | CNotone => 10 | CSet => 11 end.
  Definition loop_code (k : ckind) (l : lkind) : Z :=
    match l, k with
    | LGreedy, COne => 3 | LGreedy, CNotone => 4 | LGreedy, CSet => 5
    | LLazy, COne => 6 | LLazy, CNotone => 7 | LLazy, CSet => 8
    | LAtomic, COne => 43 | LAtomic, CNotone => 44 | LAtomic, CSet => 45
    end.

  (* run [k] on the next index unless an open leaf was already found *)
  Definition fo_then (r : list Z * Z) (k : Z -> list Z * Z) : list Z * Z :=
    match fst r with [] => k (snd r) | _ => r end.

  (* returns (description of the first open leaf or [], preorder index after the subtree) *)
  Fixpoint ci_first_open_at (t : node) (i : Z) : list Z * Z :=
    let leaf (ok : bool) (code payload : Z) := (if ok then [] else [i; code; payload], i + 1) in
    match t with
    | NChar k _ c => leaf (ci_leafb pairs e k c) (ck_code k) c
    | NCharLoop k l _ c _ _ => leaf (ci_leafb pairs e k c) (loop_code k l) c
    | NMulti o str => leaf (ci_closedb pairs e t) 12 (hd 0 (filter (fun c => negb (caselessb pairs c)) str))
    | NRef _ g => leaf (ci_closedb pairs e t) 13 g
    | NAnchor a => leaf (ci_anchorb pairs e a) (anchor_code a) 0
    | NNothing | NEmpty | NBump => ([], i + 1)
    | NConcat _ l | NAlternate _ l =>
        (fix seq (l : list node) (j : Z) : list Z * Z :=
           match l with
           | [] => ([], j)
           | x :: l' => fo_then (ci_first_open_at x j) (seq l')
           end) l (i + 1)
    | NLoop _ _ _ _ r | NCapture _ _ _ r | NGroup r | NPosLook _ r | NNegLook _ r | NAtomic r =>
        ci_first_open_at r (i + 1)
    | NBackRefCond _ _ yes no =>
        fo_then (ci_first_open_at yes (i + 1))
                (fun j => match no with Some n => ci_first_open_at n j | None => ([], j) end)
    | NExprCond _ c yes no =>
        fo_then (ci_first_open_at c (i + 1))
                (fun j => fo_then (ci_first_open_at yes j)
                                  (fun j' => match no with Some n => ci_first_open_at n j' | None => ([], j') end))
    end.

  Definition ci_first_open (t : node) : list Z := fst (ci_first_open_at t 0).
End FirstOpen.
