(* C08 — rune index -> byte index maps and the match/group/capture accessors, as coded.

   Four independent implementations of "byte offset of rune number k" exist in /repo:
     * match.go:110-135   stringByteOffsets   (lazy table behind Capture.ByteRange, string input)
     * match.go:137-161   runeByteOffsets     (same, []rune input)
     * regexp.go:385-420  stringByteMapper    (sparse table + sort.Search, FindAllStringIndex)
     * compat/regexp.go:377-399 bytesToRunesAndOffsets, 355-369 readRunes (adapter)
   They are transcribed loop by loop.  Go slices of int are [list Z]; a write or read outside
   the slice is [Crash] (Go: index out of range).  [make([]int, n)] is [repeat 0 n].
   A Go string is a [list Z] of bytes, [for strIdx, ch := range s] enumerates [go_range s]
   (Base/Utf8.decode with the running byte index).

   Also here: the parts of Match that do not need the interpreter: newGroup (match.go:395-409),
   Groups()/populateOtherGroups (361-377), Capture.Runes/String (62-70), byteRange (91-101).
   No proofs in this file. *)
From Verif Require Import Base.Prelude Base.Utf8.

(* ---------- Go slices ---------- *)

(* a[i] = v *)
Definition aset (a : list Z) (i v : Z) : res (list Z) :=
  if (0 <=? i) && (i <? zlen a)
  then Ok (firstn (Z.to_nat i) a ++ v :: skipn (S (Z.to_nat i)) a)
  else Crash 1.

(* a[i] *)
Definition aget {A} (a : list A) (i : Z) : res A :=
  match znth a i with Some v => Ok v | None => Crash 1 end.

(* a[i:j] (capacity = length) *)
Definition go_slice {A} (a : list A) (i j : Z) : res (list A) :=
  if (0 <=? i) && (i <=? j) && (j <=? zlen a)
  then Ok (firstn (Z.to_nat (j - i)) (skipn (Z.to_nat i) a))
  else Crash 1.

Fixpoint foldM {S A} (f : S -> A -> res S) (l : list A) (st : S) : res S :=
  match l with
  | [] => Ok st
  | x :: l' => do st' <- f st x ; foldM f l' st'
  end.

(* for i := 0; i < n; i++ { a[i] = i }   (match.go:123-125, 150-152) *)
Fixpoint fill_identity (a : list Z) (i : Z) (n : nat) : res (list Z) :=
  match n with
  | O => Ok a
  | S n' => do a' <- aset a i i ; fill_identity a' (i + 1) n'
  end.

Definition iota (n : nat) : list Z := map Z.of_nat (seq 0 n).

(* ---------- for strIdx, ch := range s ---------- *)

Fixpoint range_items (i : Z) (d : list (Z * nat)) : list (Z * Z) :=
  match d with
  | [] => []
  | (r, w) :: d' => (i, r) :: range_items (i + Z.of_nat w) d'
  end.
Definition go_range (s : list Z) : list (Z * Z) := range_items 0 (decode s).

(* match.go:117-120 = regexp.go:395-398:
     runeLen := utf8.RuneLen(ch)
     if ch == utf8.RuneError { _, runeLen = utf8.DecodeRuneInString(s[strIdx:]) } *)
Definition range_rune_len (s : list Z) (strIdx ch : Z) : Z :=
  if ch =? rune_error
  then Z.of_nat (snd (decode_rune (skipn (Z.to_nat strIdx) s)))
  else rune_len ch.

(* ---------- match.go:110-135 stringByteOffsets ---------- *)

Definition sbo_step (s : list Z) (st : option (list Z) * Z) (it : Z * Z)
  : res (option (list Z) * Z) :=
  let '(bo, runeIndex) := st in
  let '(strIdx, ch) := it in
  (* 114-116 *)
  do bo1 <- match bo with
            | Some a => do a' <- aset a runeIndex strIdx ; Ok (Some a')
            | None => Ok None
            end ;
  let runeLen := range_rune_len s strIdx ch in
  (* 121-127 *)
  do bo2 <- match bo1 with
            | None =>
              if negb (strIdx =? runeIndex) || negb (runeLen =? 1) then
                do a <- fill_identity (repeat 0 (S (length s))) 0 (Z.to_nat runeIndex) ;
                do a' <- aset a runeIndex strIdx ;
                Ok (Some a')
              else Ok None
            | Some a => Ok (Some a)
            end ;
  Ok (bo2, runeIndex + 1).

Definition string_byte_offsets (s : list Z) : res (option (list Z)) :=
  do st <- foldM (sbo_step s) (go_range s) (None, 0) ;
  let '(bo, runeIndex) := st in
  match bo with
  | Some a =>                                                     (* 130-133 *)
    do a' <- aset a runeIndex (zlen s) ;
    do r <- go_slice a' 0 (runeIndex + 1) ;
    Ok (Some r)
  | None => Ok None
  end.

(* ---------- match.go:137-161 runeByteOffsets ---------- *)

Definition rbo_rune_len (ch : Z) : Z :=
  let l := rune_len ch in if l <? 0 then rune_len rune_error else l.   (* 144-147 *)

Definition rbo_step (n : nat) (st : option (list Z) * Z * Z) (ch : Z)
  : res (option (list Z) * Z * Z) :=
  let '(bo, i, bytePos) := st in
  do bo1 <- match bo with
            | Some a => do a' <- aset a i bytePos ; Ok (Some a')
            | None => Ok None
            end ;
  let runeLen := rbo_rune_len ch in
  do bo2 <- match bo1 with
            | None =>
              if negb (runeLen =? 1) then
                do a <- fill_identity (repeat 0 (S n)) 0 (Z.to_nat i) ;
                do a' <- aset a i bytePos ;
                Ok (Some a')
              else Ok None
            | Some a => Ok (Some a)
            end ;
  Ok (bo2, i + 1, bytePos + runeLen).

Definition rune_byte_offsets (runes : list Z) : res (option (list Z)) :=
  do st <- foldM (rbo_step (length runes)) runes (None, 0, 0) ;
  let '(bo, _, bytePos) := st in
  match bo with
  | Some a => do a' <- aset a (zlen runes) bytePos ; Ok (Some a')   (* 157-159 *)
  | None => Ok None
  end.

(* ---------- regexp.go:385-420 stringByteMapper ---------- *)

Record mapper := { m_idx : list Z; m_delta : list Z }.   (* runeIndexes, deltas *)

Definition bm_step (s : list Z) (st : option mapper * Z * Z) (it : Z * Z)
  : option mapper * Z * Z :=
  let '(m, runeIndex, delta) := st in
  let '(strIdx, ch) := it in
  let runeLen := range_rune_len s strIdx ch in
  if negb (runeLen =? 1) then
    let m0 := match m with Some m0 => m0 | None => {| m_idx := []; m_delta := [] |} end in
    let delta' := delta + (runeLen - 1) in
    (Some {| m_idx := m_idx m0 ++ [runeIndex + 1]; m_delta := m_delta m0 ++ [delta'] |},
     runeIndex + 1, delta')
  else (m, runeIndex + 1, delta).

Definition new_byte_mapper (s : list Z) : option mapper :=
  fst (fst (fold_left (bm_step s) (go_range s) (None, 0, 0))).

(* sort.Search(n, f):  i, j := 0, n; for i < j { h := int(uint(i+j) >> 1); if !f(h) { i = h+1 } else { j = h } }; return i *)
Fixpoint go_search (fuel : nat) (f : Z -> res bool) (i j : Z) : res Z :=
  match fuel with
  | O => Fuel
  | S fu =>
    if i <? j then
      let h := (i + j) / 2 in
      do b <- f h ;
      if negb b then go_search fu f (h + 1) j else go_search fu f i h
    else Ok i
  end.

(* regexp.go:412-420 *)
Definition byte_index (fuel : nat) (m : mapper) (runeIndex : Z) : res Z :=
  do k <- go_search fuel (fun i => do v <- aget (m_idx m) i ; Ok (runeIndex <? v)) 0 (zlen (m_idx m)) ;
  let i := k - 1 in
  if i <? 0 then Ok runeIndex
  else do d <- aget (m_delta m) i ; Ok (runeIndex + d).

(* the index pair FindAllStringIndex reports for a match (regexp.go:320-325) *)
Definition find_all_pair (fuel : nat) (m : option mapper) (runeIndex runeLength : Z) : res (Z * Z) :=
  match m with
  | None => Ok (runeIndex, runeIndex + runeLength)
  | Some m =>
    do a <- byte_index fuel m runeIndex ;
    do b <- byte_index fuel m (runeIndex + runeLength) ;
    Ok (a, b)
  end.

(* ---------- compat/regexp.go:377-399 bytesToRunesAndOffsets ---------- *)

Fixpoint b2r_loop (fuel : nat) (b : list Z) (byteIndex : Z) (runes : list Z) (bo : option (list Z))
  : res (list Z * option (list Z)) :=
  match fuel with
  | O => Fuel
  | S fu =>
    if byteIndex <? zlen b then
      let '(ch, runeLen) := decode_rune (skipn (Z.to_nat byteIndex) b) in
      let bo1 := match bo with Some a => Some (a ++ [byteIndex]) | None => None end in
      let bo2 := match bo1 with
                 | None =>
                   if negb (byteIndex =? zlen runes) || negb (Z.of_nat runeLen =? 1)
                   then Some (iota (length runes) ++ [byteIndex])
                   else None
                 | Some a => Some a
                 end in
      b2r_loop fu b (byteIndex + Z.of_nat runeLen) (runes ++ [ch]) bo2
    else
      Ok (runes, match bo with Some a => Some (a ++ [zlen b]) | None => None end)
  end.

Definition bytes_to_runes_and_offsets (fuel : nat) (b : list Z) : res (list Z * option (list Z)) :=
  b2r_loop fuel b 0 [] None.

(* compat/regexp.go:355-369 readRunes: the reader hands out (rune, size) pairs until EOF *)
Definition read_runes (items : list (Z * Z)) : list Z * list Z :=
  fold_left (fun st it => let '(text, offs) := st in
                          (text ++ [fst it], offs ++ [last offs 0 + snd it]))
            items ([], [0]).

(* the index pair the adapter reports from an offsets table
   (compat/regexp.go:195-201 FindAllIndex, 351-353 runeCaptureIndex) *)
Definition compat_pair (offs : option (list Z)) (runeIndex runeLength : Z) : res (Z * Z) :=
  match offs with
  | None => Ok (runeIndex, runeIndex + runeLength)
  | Some a => do x <- aget a runeIndex ; do y <- aget a (runeIndex + runeLength) ; Ok (x, y)
  end.

(* ---------- match.go:54-108 matchText, Capture accessors ---------- *)

Record match_text := { mt_runes : list Z; mt_input : list Z; mt_has_string : bool }.

Definition new_match_text (r : list Z) : match_text :=
  {| mt_runes := r; mt_input := []; mt_has_string := false |}.
Definition new_string_match_text (input r : list Z) : match_text :=
  {| mt_runes := r; mt_input := input; mt_has_string := true |}.

(* 103-108 *)
Definition build_byte_offsets (t : match_text) : res (option (list Z)) :=
  if mt_has_string t then string_byte_offsets (mt_input t) else rune_byte_offsets (mt_runes t).

(* 91-101; the byteOffsetsReady cache only memoises build_byte_offsets *)
Definition byte_range (t : match_text) (runeIndex runeLength : Z) : res (Z * Z) :=
  do bo <- build_byte_offsets t ;
  match bo with
  | None => Ok (runeIndex, runeLength)
  | Some a =>
    do bi <- aget a runeIndex ;
    do e <- aget a (runeIndex + runeLength) ;
    Ok (bi, e - bi)
  end.

(* 68-70 Runes(), 63-65 String() *)
Definition capture_runes (t : match_text) (runeIndex runeLength : Z) : res (list Z) :=
  go_slice (mt_runes t) runeIndex (runeIndex + runeLength).
Definition capture_string (t : match_text) (runeIndex runeLength : Z) : res (list Z) :=
  do r <- capture_runes t runeIndex runeLength ; Ok (encode_string r).

(* ---------- match.go:361-420 Groups, newGroup ---------- *)

Record group := { g_index : Z; g_length : Z; g_caps : list (Z * Z) }.

Fixpoint new_group_caps (caps : list Z) (i : Z) (n : nat) : res (list (Z * Z)) :=
  match n with
  | O => Ok []
  | S n' =>
    do a <- aget caps (i * 2) ;
    do b <- aget caps (i * 2 + 1) ;
    do rest <- new_group_caps caps (i + 1) n' ;
    Ok ((a, b) :: rest)
  end.

(* 395-409 *)
Definition new_group (caps : list Z) (capcount : Z) : res group :=
  do emb <- (if 0 <? capcount
             then do a <- aget caps ((capcount - 1) * 2) ;
                  do b <- aget caps (capcount * 2 - 1) ;
                  Ok (a, b)
             else Ok (0, 0)) ;
  if capcount <? 0 then Crash 3                       (* make([]Capture, capcount) *)
  else
    do cs <- new_group_caps caps 0 (Z.to_nat capcount) ;
    Ok {| g_index := fst emb; g_length := snd emb; g_caps := cs |}.

Fixpoint populate (matches : list (list Z)) (matchcount : list Z) (i : Z) (n : nat) : res (list group) :=
  match n with
  | O => Ok []
  | S n' =>
    do caps <- aget matches i ;
    do cnt <- aget matchcount i ;
    do g <- new_group caps cnt ;
    do rest <- populate matches matchcount (i + 1) n' ;
    Ok (g :: rest)
  end.

(* 361-377: g[0] is the embedded group 0 (filled by tidy: Captures = [Capture]), the others are
   built from matches[i+1], matchcount[i+1] *)
Definition groups_of (g0 : group) (matches : list (list Z)) (matchcount : list Z) : res (list group) :=
  if zlen matchcount <? 1 then Crash 3                (* make([]Group, len(matchcount)-1) *)
  else
    do others <- populate matches matchcount 1 (length matchcount - 1) ;
    Ok (g0 :: others).

(* group 0 as tidy leaves it (match.go:196-201): one capture, equal to the embedded one *)
Definition group0 (index length : Z) : group :=
  {| g_index := index; g_length := length; g_caps := [(index, length)] |}.
