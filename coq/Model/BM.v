(* The Boyer-Moore prefix machine of syntax/prefix.go (C03): executable model, written line by line from
   the Go code (line numbers: syntax/prefix.go at /repo commit 463bb2a, i.e. AFTER the repair d3ed698
   "chTest <= 0xffff" in Scan; before it Scan used the default advance for the rune U+FFFF although
   newBmPrefix stores a shorter one, and skipped an occurrence: Properties/C03.v
   [C03_bm_scan_before_repair_skips]).

     bm_new               prefix.go:412-586   newBmPrefix
       bm_positive_table            444-513   PART I, the good-suffix-like table [positive]
         bm_pos_outer               460-497   Outerloop (the "find an internal char" loop is its skip turn)
         bm_pos_match               478-494   "find the length of the match"
         bm_pos_fix                 499-513   chars without a recorded shift get [bump]
       bm_neg_loop / bm_neg_step    515-583   PART II, the bad-character tables negativeASCII / negativeUnicode,
                                              lowASCII / highASCII
     bm_scan              prefix.go:622-726   Scan
       bm_scan_loop                 647-725   the outer loop
       bm_scan_match                677-723   the inner (right-to-left compare) loop
       bm_neg_lookup                659-670 / 697-710  the table consulted for the reject character
     bm_is_match          prefix.go:729-743   IsMatch
     bm_match_pattern     prefix.go:745-766   matchPattern

   Conventions: runes / ints are [Z]; slices are [list Z]; an index outside a slice is [Crash] (Go: index
   out of range - e.g. the empty pattern at :456, a negative rune at :549/:660).  [negativeUnicode] is
   [bm_has_uni] (the outer slice is non-nil, then it has 256 rows) and a function row number -> row
   ([None] = nil row).  After :566-570 (a pattern rune in U+0080..U+00FF) negativeASCII and
   negativeUnicode[0] are THE SAME 256-element array in Go: the model keeps the two equal by writing
   both.  unicode.ToLower is the Section variable [lower].  Loops take fuel; [bm_new] supplies its own
   (len(pattern)+1 turns always suffice, Proofs/BMProofs.v), [bm_scan] takes it as an argument
   (len(text)+1 suffices).  No proofs in this file. *)
From Verif Require Import Base.Prelude.

Definition bm_at (l : list Z) (i : Z) : res Z :=
  match znth l i with Some x => Ok x | None => Crash 1 end.

Fixpoint bm_set_nat (l : list Z) (k : nat) (v : Z) : list Z :=
  match l with
  | [] => []
  | x :: l' => match k with O => v :: l' | S k' => x :: bm_set_nat l' k' v end
  end.
Definition bm_set (l : list Z) (i v : Z) : res (list Z) :=
  if (0 <=? i) && (i <? zlen l) then Ok (bm_set_nat l (Z.to_nat i) v) else Crash 1.

(* copy(dst, src): min(len) elements *)
Definition bm_copy (dst src : list Z) : list Z :=
  firstn (length dst) src ++ skipn (length src) dst.

Record bmtab := {
  bm_pattern : list Z;              (* b.pattern (lower-cased when caseInsensitive) *)
  bm_positive : list Z;             (* b.positive *)
  bm_negascii : list Z;             (* b.negativeASCII *)
  bm_has_uni : bool;                (* b.negativeUnicode != nil *)
  bm_uni : Z -> option (list Z);    (* b.negativeUnicode[i]; None = nil *)
  bm_low : Z;                       (* b.lowASCII *)
  bm_high : Z;                      (* b.highASCII *)
  bm_rtl : bool;                    (* b.rightToLeft *)
  bm_ci : bool                      (* b.caseInsensitive *)
}.

(* :434-442 *)
Definition bm_last (rtl : bool) (m : Z) : Z := if rtl then 0 else m - 1.
Definition bm_bf (rtl : bool) (m : Z) : Z := if rtl then m else -1.        (* beforefirst *)
Definition bm_bump (rtl : bool) : Z := if rtl then -1 else 1.

(* ====================================================================================
   PART I - positive
   ==================================================================================== *)
Section Positive.
Variable pat : list Z.
Variable last bf bump : Z.

(* :478-494; [mtch] = match, [scn] = scan *)
Fixpoint bm_pos_match (fuel : nat) (mtch scn : Z) (pos : list Z) : res (list Z) :=
  match fuel with
  | O => Fuel
  | S f =>
      do stop <- (if scn =? bf then Ok true                                      (* :479 *)
                  else do a <- bm_at pat mtch ; do b <- bm_at pat scn ; Ok (negb (a =? b))) ;
      if stop then
        do v <- bm_at pos mtch ;
        if v =? 0 then bm_set pos mtch (mtch - scn) else Ok pos                  (* :483-485 *)
      else bm_pos_match f (mtch - bump) (scn - bump) pos                         (* :492-493 *)
  end.

(* :460-497.  One turn = one value of [examine]: either the "find an internal char" loop steps over it
   (:464-472) or it is compared with the tail (:474-494); then examine -= bump (:496 / :471). *)
Fixpoint bm_pos_outer (ch : Z) (fuel : nat) (examine : Z) (pos : list Z) : res (list Z) :=
  match fuel with
  | O => Fuel
  | S f =>
      if examine =? bf then Ok pos                                               (* :465-467 *)
      else
        do c <- bm_at pat examine ;
        if c =? ch then                                                          (* :468 *)
          do pos' <- bm_pos_match (S (length pat)) last examine pos ;
          bm_pos_outer ch f (examine - bump) pos'
        else bm_pos_outer ch f (examine - bump) pos
  end.

(* :499-513 *)
Fixpoint bm_pos_fix (fuel : nat) (mtch : Z) (pos : list Z) : res (list Z) :=
  match fuel with
  | O => Fuel
  | S f =>
      if mtch =? bf then Ok pos
      else
        do v <- bm_at pos mtch ;
        do pos' <- (if v =? 0 then bm_set pos mtch bump else Ok pos) ;
        bm_pos_fix f (mtch - bump) pos'
  end.

End Positive.

Definition bm_positive_table (pat : list Z) (rtl : bool) : res (list Z) :=
  let m := zlen pat in
  let last := bm_last rtl m in let bf := bm_bf rtl m in let bump := bm_bump rtl in
  let pos0 := repeat 0 (length pat) in                                           (* :453 *)
  do ch <- bm_at pat last ;                                                      (* :456 *)
  do pos1 <- bm_set pos0 last bump ;                                             (* :457 *)
  do pos2 <- bm_pos_outer pat last bf bump ch (S (length pat)) (last - bump) pos1 ;
  bm_pos_fix bf bump (S (length pat)) (last - bump) pos2.

(* ====================================================================================
   PART II - negativeASCII / negativeUnicode / lowASCII / highASCII
   ==================================================================================== *)
Record bmneg := {
  ng_ascii : list Z; ng_has : bool; ng_uni : Z -> option (list Z); ng_low : Z; ng_high : Z }.

Definition bm_upd (f : Z -> option (list Z)) (i : Z) (v : option (list Z)) : Z -> option (list Z) :=
  fun k => if k =? i then v else f k.

(* one turn of :536-583 for the rune [ch] at pattern index [examine]; [full] = last - beforefirst.
   None = "return nil" (:578-581) *)
Definition bm_neg_step (full last : Z) (st : bmneg) (examine ch : Z) : res (option bmneg) :=
  if ch <? 128 then                                                              (* :540 *)
    let low := if ch <? ng_low st then ch else ng_low st in                      (* :541-543 *)
    let high := if ng_high st <? ch then ch else ng_high st in                   (* :545-547 *)
    do v <- bm_at (ng_ascii st) ch ;                                             (* :549 *)
    do a' <- (if v =? full then bm_set (ng_ascii st) ch (last - examine) else Ok (ng_ascii st)) ;
    (* same array as row 0 once :569 ran *)
    let uni' := match ng_uni st 0 with Some _ => bm_upd (ng_uni st) 0 (Some a') | None => ng_uni st end in
    Ok (Some {| ng_ascii := a'; ng_has := ng_has st; ng_uni := uni'; ng_low := low; ng_high := high |})
  else if ch <=? 65535 then                                                      (* :552 *)
    let i := Z.shiftr ch 8 in let j := Z.land ch 255 in                          (* :553 *)
    let '(row, ascii1) :=
      match ng_uni st i with
      | Some r => (r, ng_ascii st)
      | None =>                                                                  (* :559-573 *)
          let newarray := repeat full 256 in
          if i =? 0 then let na := bm_copy newarray (ng_ascii st) in (na, na)    (* :566-570 *)
          else (newarray, ng_ascii st)
      end in
    do v <- bm_at row j ;                                                        (* :575 *)
    do row' <- (if v =? full then bm_set row j (last - examine) else Ok row) ;   (* :576 *)
    Ok (Some {| ng_ascii := if i =? 0 then row' else ascii1; ng_has := true;
                ng_uni := bm_upd (ng_uni st) i (Some row'); ng_low := ng_low st; ng_high := ng_high st |})
  else Ok None.                                                                  (* :578-581 *)

(* :536 for examine = last; examine != beforefirst; examine -= bump *)
Fixpoint bm_neg_loop (pat : list Z) (full last bf bump : Z) (fuel : nat) (examine : Z) (st : bmneg)
  : res (option bmneg) :=
  match fuel with
  | O => Fuel
  | S f =>
      if examine =? bf then Ok (Some st)
      else
        do ch <- bm_at pat examine ;
        do r <- bm_neg_step full last st examine ch ;
        match r with
        | None => Ok None
        | Some st' => bm_neg_loop pat full last bf bump f (examine - bump) st'
        end
  end.

Section BM.
Variable lower : Z -> Z.                 (* unicode.ToLower *)

Definition bm_fold (ci : bool) (x : Z) : Z := if ci then lower x else x.

(* newBmPrefix; Ok None = nil (a rune beyond U+FFFF) *)
Definition bm_new (pattern : list Z) (ci rtl : bool) : res (option bmtab) :=
  let pat := if ci then map lower pattern else pattern in                        (* :420-429 *)
  let m := zlen pat in
  let last := bm_last rtl m in let bf := bm_bf rtl m in let bump := bm_bump rtl in
  do pos <- bm_positive_table pat rtl ;
  let full := last - bf in
  let st0 := {| ng_ascii := repeat full 128; ng_has := false; ng_uni := fun _ => None;
                ng_low := 127; ng_high := 0 |} in                                (* :527-534 *)
  do r <- bm_neg_loop pat full last bf bump (S (length pat)) last st0 ;
  match r with
  | None => Ok None
  | Some st =>
      Ok (Some {| bm_pattern := pat; bm_positive := pos; bm_negascii := ng_ascii st; bm_has_uni := ng_has st;
                  bm_uni := ng_uni st; bm_low := ng_low st; bm_high := ng_high st;
                  bm_rtl := rtl; bm_ci := ci |})
  end.

(* ====================================================================================
   Scan
   ==================================================================================== *)
Section Scan.
Variable t : bmtab.
Variable text : list Z.

(* the advance recorded for the reject character: :659-670 and :697-710.  None = neither table answers
   (the caller then uses defadv, resp. positive[match] alone) *)
Definition bm_neg_lookup (ch : Z) : res (option Z) :=
  if ch <? 128 then do v <- bm_at (bm_negascii t) ch ; Ok (Some v)              (* :659-660 *)
  else if (ch <=? 65535) && bm_has_uni t then                                    (* :661 *)
    match bm_uni t (Z.shiftr ch 8) with                                          (* :662 / :700 *)
    | Some (x :: row) => do v <- bm_at (x :: row) (Z.land ch 255) ; Ok (Some v)  (* :663-664 / :701-702 *)
    | _ => Ok None                                                               (* :665-667 / :703-706 *)
    end
  else Ok None.                                                                  (* :668-670 / :707-710 *)

(* the same before /repo d3ed698: "chTest < 0xffff" - U+FFFF, which newBmPrefix files in row 255, got the
   default advance.  Only used by the negative example Properties/C03.v [C03_bm_scan_before_repair_skips]. *)
Definition bm_neg_lookup_old (ch : Z) : res (option Z) :=
  if ch <? 128 then do v <- bm_at (bm_negascii t) ch ; Ok (Some v)
  else if (ch <? 65535) && bm_has_uni t then
    match bm_uni t (Z.shiftr ch 8) with
    | Some (x :: row) => do v <- bm_at (x :: row) (Z.land ch 255) ; Ok (Some v)
    | _ => Ok None
    end
  else Ok None.

Inductive bmstep := BmRet (r : Z) | BmAdv (test' : Z).

Definition bm_startmatch : Z := if bm_rtl t then 0 else zlen (bm_pattern t) - 1.
Definition bm_endmatch : Z := if bm_rtl t then zlen (bm_pattern t) - 1 else 0.
Definition bm_defadv : Z := if bm_rtl t then - zlen (bm_pattern t) else zlen (bm_pattern t).

Section Loop.
Variable lookup : Z -> res (option Z).   (* [bm_neg_lookup] *)

(* :677-723 *)
Fixpoint bm_scan_match (fuel : nat) (test test2 mtch : Z) : res bmstep :=
  match fuel with
  | O => Fuel
  | S f =>
      if mtch =? bm_endmatch then                                                (* :678-684 *)
        Ok (BmRet (if bm_rtl t then test2 + 1 else test2))
      else
        let mtch' := mtch - bm_bump (bm_rtl t) in                                (* :686 *)
        let test2' := test2 - bm_bump (bm_rtl t) in                              (* :687 *)
        do c <- bm_at text test2' ;                                              (* :689 *)
        let chTest := bm_fold (bm_ci t) c in                                     (* :691-693 *)
        do pm <- bm_at (bm_pattern t) mtch' ;
        if negb (chTest =? pm) then                                              (* :695 *)
          do advance <- bm_at (bm_positive t) mtch' ;                            (* :696 *)
          do lk <- lookup chTest ;
          match lk with
          | None => Ok (BmAdv (test + advance))                                  (* :704-705, :708-709 *)
          | Some v =>
              let t2 := (mtch' - bm_startmatch) + v in                           (* :698, :702 *)
              let advance' := if bm_rtl t then (if t2 <? advance then t2 else advance)    (* :712-715 *)
                              else (if advance <? t2 then t2 else advance) in             (* :716-718 *)
              Ok (BmAdv (test + advance'))                                       (* :720-721 *)
          end
        else bm_scan_match f test test2' mtch'
  end.

(* :647-725 *)
Fixpoint bm_scan_loop (chMatch beglimit endlimit : Z) (fuel : nat) (test : Z) : res Z :=
  match fuel with
  | O => Fuel
  | S f =>
      if (endlimit <=? test) || (test <? beglimit) then Ok (-1)                  (* :648-650 *)
      else
        do c <- bm_at text test ;                                                (* :652 *)
        let chTest := bm_fold (bm_ci t) c in                                     (* :654-656 *)
        if negb (chTest =? chMatch) then                                         (* :658 *)
          do lk <- lookup chTest ;
          let advance := match lk with Some v => v | None => bm_defadv end in
          bm_scan_loop chMatch beglimit endlimit f (test + advance)              (* :672 *)
        else
          do s <- bm_scan_match (S (length (bm_pattern t))) test test bm_startmatch ;   (* :674-677 *)
          match s with
          | BmRet r => Ok r
          | BmAdv test' => bm_scan_loop chMatch beglimit endlimit f test'
          end
  end.

Definition bm_scan_gen (fuel : nat) (index beglimit endlimit : Z) : res Z :=
  let test0 := if bm_rtl t then index + bm_defadv else index + bm_defadv - 1 in  (* :631-643 *)
  do chMatch <- bm_at (bm_pattern t) bm_startmatch ;                             (* :645 *)
  bm_scan_loop chMatch beglimit endlimit fuel test0.

End Loop.

Definition bm_scan : nat -> Z -> Z -> Z -> res Z := bm_scan_gen bm_neg_lookup.

(* :750-765: for i := 0; i < len(b.pattern); i++ { if fold(text[index+i]) != b.pattern[i] { return false } } *)
Fixpoint bm_match_loop (pat : list Z) (i : Z) : res bool :=
  match pat with
  | [] => Ok true
  | pc :: pat' =>
      do c <- bm_at text i ;
      if bm_fold (bm_ci t) c =? pc then bm_match_loop pat' (i + 1) else Ok false
  end.

(* :745-766 *)
Definition bm_match_pattern (index : Z) : res bool :=
  if zlen text - index <? zlen (bm_pattern t) then Ok false                      (* :746-748 *)
  else bm_match_loop (bm_pattern t) index.

(* :729-743 *)
Definition bm_is_match (index beglimit endlimit : Z) : res bool :=
  let m := zlen (bm_pattern t) in
  if negb (bm_rtl t) then
    if (index <? beglimit) || (endlimit - index <? m) then Ok false              (* :731-733 *)
    else bm_match_pattern index                                                  (* :735 *)
  else
    if (endlimit <? index) || (index - beglimit <? m) then Ok false              (* :737-739 *)
    else bm_match_pattern (index - m).                                           (* :741 *)

(* as findFirstCharDefault calls them (runner.go:1413, 1418): window (0, Runtextend); in the shape the
   finder model takes its oracles (Model/Finder.v [fd_find_first_char_default]); a fault / exhausted fuel
   is -2 / false (proved absent for non-negative runes: Proofs/BMProofs.v) *)
Definition bm_scan_fn (p : Z) : Z :=
  match bm_scan (S (length text)) p 0 (zlen text) with Ok r => r | _ => -2 end.
Definition bm_is_match_fn (p : Z) : bool :=
  match bm_is_match p 0 (zlen text) with Ok b => b | _ => false end.

End Scan.
End BM.
