(* Model/GroupMap.v — capture numbering: the parser's capture pre-scan and slot assignment, the
   main pass' use of it, the writer's dense remap and the public lookups.

   Source (all in /repo, as patched in the working tree — see the four small fixes listed in
   Properties/C17.v):
     syntax/parser.go  noteCaptureSlot 203-217, noteCaptureName 219-237, assignNameSlots 239-312,
                       assignOrderedNameSlots 314-364, consumeAutocap/consumeCaptureSlot 366-376,
                       countCaptures 380-498, scanRegex 594-632, scanGroupOpen 971-1273,
                       scanBasicBackslash 1358-1480, isCaptureSlot/isCaptureName 2215-2240
     syntax/writer.go  codeFromTree 76-87 (dense remap), mapCapnum 479-489
     regexp.go         compile 99-116, GetGroupNames/GetGroupNumbers/GroupNameFromNumber/
                       groupNameFromSlot/GroupNumberFromName 522-630
     match.go          GroupByName/GroupByNumber/Groups/populateOtherGroups 330-380
     syntax/replacerdata.go 27-72, parser.go scanDollar 829-932 ($n, ${name})

   Go maps are modelled by association lists: [caps] (map[int]int whose values the parser never
   reads) by the strictly increasing list of its keys — a canonical form of the unordered map, so
   that "collect the keys and sort.Ints" is the identity; [capnames] by an insertion-ordered
   association list, [None] standing for the nil map.

   No proofs in this file. *)
From Verif Require Import Base.Prelude.
From Verif Require Export Model.Options.
From Coq Require Import Decimal.

Definition maxint32 : Z := 2147483647.

(* ---- error codes (harness/leg_c17.go maps syntax.ErrorCode to the same numbers) ---- *)
Definition e_missing_paren : Z := 11.          (* ErrMissingParen *)
Definition e_unrecognized_grouping : Z := 12.  (* ErrUnrecognizedGrouping *)
Definition e_invalid_ecma_name : Z := 13.      (* ErrInvalidECMAGroupName *)
Definition e_capnum_zero : Z := 14.            (* ErrCapNumNotZero *)
Definition e_undef_backref : Z := 15.          (* ErrUndefinedBackRef *)
Definition e_undef_nameref : Z := 16.          (* ErrUndefinedNameRef *)
Definition e_alt_cant_capture : Z := 17.       (* ErrAlternationCantCapture *)
Definition e_alt_comment : Z := 18.            (* ErrAlternationCantHaveComment *)
Definition e_undef_reference : Z := 19.        (* ErrUndefinedReference *)
Definition e_dup_name : Z := 20.               (* ErrDuplicateGroupName *)
Definition e_range : Z := 21.                  (* ErrCaptureGroupOutOfRange *)
Definition e_missing_repeat_arg : Z := 22.     (* ErrMissingRepeatArgument *)

(* ---- strconv.Itoa ---- *)
Fixpoint uint_digits (u : Decimal.uint) : list Z :=
  match u with
  | Nil => []
  | D0 u => 48 :: uint_digits u | D1 u => 49 :: uint_digits u | D2 u => 50 :: uint_digits u
  | D3 u => 51 :: uint_digits u | D4 u => 52 :: uint_digits u | D5 u => 53 :: uint_digits u
  | D6 u => 54 :: uint_digits u | D7 u => 55 :: uint_digits u | D8 u => 56 :: uint_digits u
  | D9 u => 57 :: uint_digits u
  end.
Definition itoa (z : Z) : name :=
  match z with
  | Z0 => [48]
  | Zpos p => uint_digits (Pos.to_uint p)
  | Zneg p => 45 :: uint_digits (Pos.to_uint p)
  end.

(* ---- association lists ---- *)
Definition nmap := list (name * Z).
Fixpoint aget (s : name) (m : nmap) : option Z :=
  match m with
  | [] => None
  | (k, v) :: r => if zlist_eqb s k then Some v else aget s r
  end.
Fixpoint aset (s : name) (v : Z) (m : nmap) : nmap :=
  match m with
  | [] => [(s, v)]
  | (k, v') :: r => if zlist_eqb s k then (k, v) :: r else (k, v') :: aset s v r
  end.
Definition amem (s : name) (m : nmap) : bool := match aget s m with Some _ => true | None => false end.
Definition aget0 (s : name) (m : nmap) : Z := match aget s m with Some v => v | None => 0 end.  (* Go: missing key reads 0 *)

Fixpoint zget (k : Z) (m : list (Z * Z)) : option Z :=
  match m with
  | [] => None
  | (k', v) :: r => if k =? k' then Some v else zget k r
  end.

(* the keys of p.caps, strictly increasing *)
Fixpoint caps_insert (i : Z) (l : list Z) : list Z :=
  match l with
  | [] => [i]
  | x :: r => if i <? x then i :: l else if i =? x then l else x :: caps_insert i r
  end.

Definition zrange (n : Z) : list Z := map Z.of_nat (seq 0 (Z.to_nat n)).     (* 0 .. n-1 *)

(* l[i] = v; None = index out of range *)
Fixpoint set_nth {A} (i : nat) (v : A) (l : list A) : option (list A) :=
  match l, i with
  | [], _ => None
  | _ :: r, O => Some (v :: r)
  | x :: r, S i' => match set_nth i' v r with Some r' => Some (x :: r') | None => None end
  end.
Definition zset_nth {A} (i : Z) (v : A) (l : list A) : option (list A) :=
  if i <? 0 then None else set_nth (Z.to_nat i) v l.

Fixpoint index_of (x : Z) (l : list Z) (i : Z) : option Z :=
  match l with
  | [] => None
  | y :: r => if x =? y then Some i else index_of x r (i + 1)
  end.

(* ================= the capture pre-scan ================= *)

Record cstate : Type := mkC {
  c_autocap : Z;                    (* p.autocap *)
  c_caps : list Z;                  (* keys of p.caps *)
  c_capcount : Z;                   (* p.capcount *)
  c_captop : Z;                     (* p.captop *)
  c_capnames : option nmap;         (* p.capnames *)
  c_capnamelist : list name         (* p.capnamelist *)
}.

(* noteCaptureSlot, parser.go:203-217 *)
Definition note_slot (i : Z) (c : cstate) : cstate :=
  if zmem i (c_caps c) then c
  else mkC (c_autocap c) (caps_insert i (c_caps c)) (c_capcount c + 1)
           (if c_captop c <=? i then (if i =? maxint32 then i else i + 1) else c_captop c)
           (c_capnames c) (c_capnamelist c).

Definition names_of (c : cstate) : nmap := match c_capnames c with Some m => m | None => [] end.

(* noteCaptureName, parser.go:219-237.  The position stored for a new name outside
   MaintainCaptureOrder is overwritten by assignNameSlots before anything reads it: -1 here. *)
Definition note_name (mco ecma : bool) (s : name) (c : cstate) : res cstate :=
  let m := names_of c in
  match aget s m with
  | None =>
      if mco then
        let slot := c_autocap c in
        let c1 := mkC (slot + 1) (c_caps c) (c_capcount c) (c_captop c) (Some (aset s slot m)) (c_capnamelist c) in
        let c2 := note_slot slot c1 in
        Ok (mkC (c_autocap c2) (c_caps c2) (c_capcount c2) (c_captop c2) (c_capnames c2) (c_capnamelist c2 ++ [s]))
      else
        Ok (mkC (c_autocap c) (c_caps c) (c_capcount c) (c_captop c) (Some (aset s (-1) m)) (c_capnamelist c ++ [s]))
  | Some _ =>
      if ecma then Err e_dup_name
      else Ok (mkC (c_autocap c) (c_caps c) (c_capcount c) (c_captop c) (Some m) (c_capnamelist c))
  end.

Record pstate : Type := mkP {
  p_o : ostate;          (* options, optionsStack (+ the comment-skipping flag) *)
  p_ign : bool;          (* p.ignoreNextParen *)
  p_c : cstate
}.

(* what the pre-scan decided for a token (used to state that the main pass agrees with it) *)
Inductive pmark : Type :=
| PNone                (* not a capturing group *)
| PAuto (k : Z)        (* plain "(" : reserved number k *)
| PName (s : name)     (* a group filed under the NAME s; its number is capnames[s] when the pre-scan is done *)
| PNum (n : Z).        (* a group filed under the NUMBER n *)

(* one token of countCaptures, parser.go:387-494 *)
Definition pstep (mco ecma : bool) (st : pstate) (t : gtok) : res (pstate * pmark) :=
  do o' <- ostep PreScan (p_o st) t ;
  let c := p_c st in
  if o_skip (p_o st) then Ok (mkP o' (p_ign st) c, PNone)
  else
    match t with
    | TOpen =>                                                     (* 484-488 *)
        if negb (has (o_opts (p_o st)) opt_n) && negb (p_ign st) then
          let k := c_autocap c in
          Ok (mkP o' false (note_slot k (mkC (k + 1) (c_caps c) (c_capcount c) (c_captop c) (c_capnames c) (c_capnamelist c))), PAuto k)
        else Ok (mkP o' false c, PNone)
    | TNamed s =>                                                  (* 439-447, 449-461 *)
        do c' <- note_name mco ecma s c ; Ok (mkP o' false c', PName s)
    | TNumbered n =>                                               (* 426-438 *)
        if ecma then Ok (mkP o' false c, PNone)                    (* a digit does not start an ECMAScript name *)
        else if n <=? 0 then Ok (mkP o' false c, PNone)            (* "(?<0" is skipped *)
        else if maxint32 <? n then Err e_range                     (* scanDecimal *)
        else if mco then do c' <- note_name mco ecma (itoa n) c ; Ok (mkP o' false c', PName (itoa n))
        else Ok (mkP o' false (note_slot n c), PNum n)
    | TGroup _ | TOptGroup _ | TOptSet _ | TCondNum _ | TCondName _ | TComment =>
        Ok (mkP o' false c, PNone)                                 (* 491: p.ignoreNextParen = false *)
    | TCondHead => Ok (mkP o' true c, PNone)                       (* 474-481 *)
    | TClose | TLit _ | TBackNum _ _ | TBackName _ | THash | TNewline => Ok (mkP o' (p_ign st) c, PNone)
    end.

Fixpoint prun (mco ecma : bool) (st : pstate) (ts : list gtok) : res (pstate * list pmark) :=
  match ts with
  | [] => Ok (st, [])
  | t :: r =>
      do (st', mk) <- pstep mco ecma st t ;
      do (st'', mks) <- prun mco ecma st' r ;
      Ok (st'', mk :: mks)
  end.

(* "for p.isCaptureSlot(p.autocap) { p.autocap++ }", parser.go:247-249.  At most |caps| numbers
   can be taken, so |caps|+1 steps always reach a free one (Proofs: next_free_spec). *)
Fixpoint next_free (fuel : nat) (caps : list Z) (a : Z) : Z :=
  match fuel with
  | O => a
  | S f => if zmem a caps then next_free f caps (a + 1) else a
  end.

(* first loop of assignNameSlots, parser.go:245-256 *)
Fixpoint assign_names (names : list name) (c : cstate) : cstate :=
  match names with
  | [] => c
  | s :: r =>
      let a := next_free (S (length (c_caps c))) (c_caps c) (c_autocap c) in
      let c1 := mkC a (c_caps c) (c_capcount c) (c_captop c) (Some (aset s a (names_of c))) (c_capnamelist c) in
      let c2 := note_slot a c1 in
      assign_names r (mkC (a + 1) (c_caps c2) (c_capcount c2) (c_captop c2) (c_capnames c2) (c_capnamelist c2))
  end.

(* the merge loop of assignNameSlots, parser.go:288-310.  [rest] = oldcapnamelist[k:], [next] as in the code *)
Fixpoint merge_names (js : list Z) (rest : list name) (next : Z) (m : nmap) : res (list name * nmap) :=
  match js with
  | [] => Ok ([], m)
  | j :: js' =>
      if next =? j then
        match rest with
        | [] => Crash 3                                   (* oldcapnamelist[k] out of range *)
        | s :: rest' =>
            let next' := match rest' with [] => -1 | s' :: _ => aget0 s' m end in
            do (l, m') <- merge_names js' rest' next' m ; Ok (s :: l, m')
        end
      else
        let str := itoa j in
        do (l, m') <- merge_names js' rest next (aset str j m) ; Ok (str :: l, m')
  end.

(* what Parse hands on: RegexTree.{Caps (keys), Capnumlist, Captop, Capnames, Caplist}, tree.go:17-26 *)
Record ptree : Type := mkT {
  t_caps : list Z;
  t_capnumlist : option (list Z);
  t_captop : Z;
  t_capnames : option nmap;
  t_caplist : option (list name)
}.

Definition capnumlist_of (c : cstate) : option (list Z) :=
  if c_capcount c <? c_captop c then Some (c_caps c) else None.        (* 259-269 / 319-327 *)

(* assignNameSlots without MaintainCaptureOrder, parser.go:245-311 *)
Definition assign_default (c0 : cstate) : res ptree :=
  let c := match c_capnames c0 with Some _ => assign_names (c_capnamelist c0) c0 | None => c0 end in
  let nl := capnumlist_of c in
  match c_capnames c, nl with
  | None, None => Ok (mkT (c_caps c) None (c_captop c) None None)
  | _, _ =>
      let js := match nl with Some l => l | None => zrange (c_capcount c) end in
      do (old, next, m) <-
         match c_capnames c with
         | None => Ok ([], -1, [])
         | Some m => match c_capnamelist c with
                     | [] => Crash 4                                   (* oldcapnamelist[0] *)
                     | s :: _ => Ok (c_capnamelist c, aget0 s m, m)
                     end
         end ;
      do (l, m') <- merge_names js old next m ;
      Ok (mkT (c_caps c) nl (c_captop c) (Some m') (Some l))
  end.

(* first loop of assignOrderedNameSlots, parser.go:335-347 *)
Fixpoint place_names (names : list name) (nl : option (list Z)) (m : nmap) (l : list name) : res (list name) :=
  match names with
  | [] => Ok l
  | s :: r =>
      let slot := aget0 s m in
      let index := match nl with
                   | Some cl => match index_of slot cl 0 with Some i => i | None => slot end
                   | None => slot
                   end in
      match zset_nth index s l with
      | None => Crash 5                                               (* p.capnamelist[index] out of range *)
      | Some l' => place_names r nl m l'
      end
  end.

(* second loop, parser.go:349-363; [js] = the slot numbers by index *)
Fixpoint fill_ordered (ecma : bool) (js : list Z) (l : list name) (m : nmap) : list name * nmap :=
  match js, l with
  | j :: js', s :: l' =>
      if ecma then let (r, m') := fill_ordered ecma js' l' m in (s :: r, m')
      else
        let s' := match s with [] => itoa j | _ => s end in
        let m1 := if amem s' m then m else aset s' j m in
        let (r, m') := fill_ordered ecma js' l' m1 in (s' :: r, m')
  | _, _ => ([], m)
  end.

(* assignOrderedNameSlots, parser.go:314-364 *)
Definition assign_ordered (ecma : bool) (c : cstate) : res ptree :=
  match c_capnames c with
  | None =>
      if negb ecma && (c_capcount c =? c_captop c) then Ok (mkT (c_caps c) None (c_captop c) None None)
      else
        let nl := capnumlist_of c in
        let js := match nl with Some l => l | None => zrange (c_capcount c) end in
        do l1 <- place_names (c_capnamelist c) nl [] (repeat [] (Z.to_nat (c_capcount c))) ;
        let (l2, m2) := fill_ordered ecma js l1 [] in
        Ok (mkT (c_caps c) nl (c_captop c) (Some m2) (Some l2))
  | Some m =>
      let nl := capnumlist_of c in
      let js := match nl with Some l => l | None => zrange (c_capcount c) end in
      do l1 <- place_names (c_capnamelist c) nl m (repeat [] (Z.to_nat (c_capcount c))) ;
      let (l2, m2) := fill_ordered ecma js l1 m in
      Ok (mkT (c_caps c) nl (c_captop c) (Some m2) (Some l2))
  end.

(* initial state: Parse (parser.go:158-163) + countCaptures 383-385 *)
Definition c_init : cstate := mkC 1 [0] 1 1 None [].
Definition p_init (o : Z) : pstate := mkP (o_init o) false c_init.

(* countCaptures.  [mco] = op.MaintainCaptureOrder || ECMAScript || RE2 (parser.go:162), [ecma] = useOptionE():
   the ECMAScript bit cannot change inside the pattern (scanOptions stops at 'e'), so it is read
   off the initial options once. *)
Definition prescan (mco ecma : bool) (o : Z) (ts : list gtok) : res (ptree * list pmark) :=
  do (st, mks) <- prun mco ecma (p_init o) ts ;
  do t <- (if mco then assign_ordered ecma (p_c st) else assign_default (p_c st)) ;
  Ok (t, mks).

(* ================= the main pass ================= *)

Definition is_slot (t : ptree) (k : Z) : bool := zmem k (t_caps t).                      (* isCaptureSlot *)
Definition is_name (t : ptree) (s : name) : bool :=
  match t_capnames t with Some m => amem s m | None => false end.                         (* isCaptureName *)
Definition slot_from_name (t : ptree) (s : name) : Z :=
  match t_capnames t with Some m => aget0 s m | None => 0 end.                            (* captureSlotFromName *)
Definition no_names (t : ptree) : bool :=
  match t_capnames t with Some [] | None => true | _ => false end.                        (* len(p.capnames) == 0 *)

Record mstate : Type := mkM {
  m_o : ostate;
  m_cur : bool;             (* p.group.T == NtExprCond *)
  m_gstack : list bool;     (* the same for the enclosing groups (pushGroup/popGroup) *)
  m_ign : bool;             (* p.ignoreNextParen *)
  m_autocap : Z
}.

Inductive item : Type :=
| ICapture (k : Z)     (* NtCapture with M = k *)
| IGroup               (* a group node that does not capture *)
| IRef (k : Z)         (* NtRef with M = k *)
| ICondRef (k : Z)     (* NtBackRefCond with M = k *)
| IClose
| INone
| ISkip.               (* inside an x-mode comment *)

Definition m_init (o : Z) : mstate := mkM (o_init o) false [] false 1.

(* consumeCaptureSlot, parser.go:372-376 *)
Definition consume_slot (mco : bool) (k a : Z) : Z := if mco && (k =? a) then a + 1 else a.

(* open a group: pushGroup + startGroup *)
Definition gopen (o' : ostate) (cond : bool) (ign : bool) (a : Z) (st : mstate) : mstate :=
  mkM o' cond (m_cur st :: m_gstack st) ign a.

(* one token of scanRegex / scanGroupOpen / scanBasicBackslash *)
Definition mstep (mco ecma : bool) (t : ptree) (st : mstate) (tok : gtok) : res (mstate * item) :=
  let keep o' := mkM o' (m_cur st) (m_gstack st) (m_ign st) (m_autocap st) in
  if o_skip (m_o st) then do o' <- ostep MainPass (m_o st) tok ; Ok (keep o', ISkip)
  else
    match tok with
    | TLit _ | THash | TNewline => do o' <- ostep MainPass (m_o st) tok ; Ok (keep o', INone)
    | TComment =>
        if m_ign st then Err e_alt_comment                         (* 1181-1183 *)
        else do o' <- ostep MainPass (m_o st) tok ; Ok (keep o', INone)
    | TBackNum angled n =>                                         (* 1411-1438 *)
        if ecma && angled && no_names t then Ok (st, INone)        (* 1375: \k is a plain escape *)
        else if is_slot t n then Ok (st, IRef n)
        else if angled then Err e_undef_backref
        else if (n <=? 9) && negb ecma then Err e_undef_backref
        else Ok (st, INone)                                        (* octal / literal escape.  Not modelled:
                                                                      a number >= 10 starting with 8 or 9, which
                                                                      scanCharEscape rejects outside ECMAScript/RE2 *)
    | TBackName s =>                                               (* 1440-1456 *)
        if ecma && no_names t then Ok (st, INone)
        else if is_name t s then Ok (st, IRef (slot_from_name t s))
        else Err e_undef_nameref
    | TClose =>                                                    (* 621-632 *)
        match m_gstack st with
        | [] => Err e_unexpected_paren
        | g :: gs => do o' <- ostep MainPass (m_o st) tok ; Ok (mkM o' g gs (m_ign st) (m_autocap st), IClose)
        end
    | TOpen =>                                                     (* 982-988 *)
        do o' <- ostep MainPass (m_o st) tok ;
        if has (o_opts (m_o st)) opt_n || m_ign st then Ok (gopen o' false false (m_autocap st) st, IGroup)
        else Ok (gopen o' false false (m_autocap st + 1) st, ICapture (m_autocap st))
    | TNamed s =>                                                  (* 1185-1192, 1058-1074, 1132-1135, 1195-1232 *)
        if m_ign st then Err e_alt_cant_capture
        else
          do o' <- ostep MainPass (m_o st) tok ;
          if is_name t s then
            let k := slot_from_name t s in
            Ok (gopen o' false false (consume_slot mco k (m_autocap st)) st, ICapture k)
          else Err e_unrecognized_grouping
    | TNumbered n =>                                               (* 1042-1057, 1132-1136 *)
        if m_ign st then Err e_alt_cant_capture
        else if ecma then Err e_invalid_ecma_name
        else
          do o' <- ostep MainPass (m_o st) tok ;
          if mco && negb (n =? 0) then                             (* the pre-scan filed the digits as a name *)
            if is_name t (itoa n) then
              let k := slot_from_name t (itoa n) in
              Ok (gopen o' false false (consume_slot mco k (m_autocap st)) st, ICapture k)
            else Err e_unrecognized_grouping
          else if is_slot t n then
            if n =? 0 then Err e_capnum_zero
            else Ok (gopen o' false false (consume_slot mco n (m_autocap st)) st, ICapture n)
          else Err e_unrecognized_grouping
    | TGroup _ =>
        do o' <- ostep MainPass (m_o st) tok ; Ok (gopen o' false false (m_autocap st) st, IGroup)
    | TOptGroup cs =>                                              (* 1243-1265 *)
        match cs with
        | _ :: _ => if m_cur st then Err e_unrecognized_grouping   (* 1248: no options directly inside (?( ) *)
                    else do o' <- ostep MainPass (m_o st) tok ; Ok (gopen o' false false (m_autocap st) st, IGroup)
        | [] => do o' <- ostep MainPass (m_o st) tok ; Ok (gopen o' false false (m_autocap st) st, IGroup)
        end
    | TOptSet cs =>                                                (* 1255-1257, 608-609 *)
        match cs with
        | [] => Err e_missing_repeat_arg                           (* "(?)" is a plain group holding a bare "?" *)
        | _ :: _ => if m_cur st then Err e_unrecognized_grouping
                    else do o' <- ostep MainPass (m_o st) tok ;
                         Ok (mkM o' (m_cur st) (m_gstack st) false (m_autocap st), INone)
        end
    | TCondHead =>                                                 (* 1139-1193: expression condition *)
        do o' <- ostep MainPass (m_o st) tok ; Ok (gopen o' true true (m_autocap st) st, IGroup)
    | TCondNum n =>                                                (* 1147-1159 *)
        if is_slot t n then do o' <- ostep MainPass (m_o st) tok ; Ok (gopen o' false false (m_autocap st) st, ICondRef n)
        else Err e_undef_reference
    | TCondName s =>                                               (* 1161-1175 *)
        do o' <- ostep MainPass (m_o st) tok ;
        if is_name t s then Ok (gopen o' false false (m_autocap st) st, ICondRef (slot_from_name t s))
        else Ok (gopen o' true false (m_autocap st) st, IGroup)    (* "(s)" is an ordinary condition, not captured *)
    end.

Fixpoint mrun (mco ecma : bool) (t : ptree) (st : mstate) (ts : list gtok) : res (mstate * list item) :=
  match ts with
  | [] => Ok (st, [])
  | tok :: r =>
      do (st', it) <- mstep mco ecma t st tok ;
      do (st'', its) <- mrun mco ecma t st' r ;
      Ok (st'', it :: its)
  end.

(* scanRegex: the loop, then "if !p.emptyStack() { ErrMissingParen }" (776-778) *)
Definition main_pass (mco ecma : bool) (t : ptree) (o : Z) (ts : list gtok) : res (list item) :=
  do (st, its) <- mrun mco ecma t (m_init o) ts ;
  match m_gstack st with
  | [] => Ok its
  | _ :: _ => Err e_missing_paren
  end.

(* syntax.Parse (parser.go:158-188) *)
Definition parse (mco_flag : bool) (o : Z) (ts : list gtok) : res (ptree * list pmark * list item) :=
  let ecma := has o opt_e in
  let mco := mco_flag || ecma || has o opt_re2 in      (* parser.go:162 *)
  do (t, mks) <- prescan mco ecma o ts ;
  do its <- main_pass mco ecma t o ts ;
  Ok (t, mks, its).

(* ================= writer + Regexp ================= *)

(* Regexp.{caps, capnames, capslist, capsize}, regexp.go:47-50 *)
Record regex : Type := mkR {
  r_caps : option (list (Z * Z));     (* group number -> slot; None when numbers are dense *)
  r_capnames : option nmap;
  r_capslist : option (list name);
  r_capsize : Z
}.

(* codeFromTree, writer.go:76-87: tree.Caps has exactly the keys listed in Capnumlist
   (parser.go:260-268), each of which is overwritten with its index. *)
Definition compile_maps (t : ptree) : regex :=
  match t_capnumlist t with
  | None => mkR None (t_capnames t) (t_caplist t) (t_captop t)
  | Some nl =>
      if t_captop t =? zlen nl then mkR None (t_capnames t) (t_caplist t) (t_captop t)
      else mkR (Some (combine nl (zrange (zlen nl)))) (t_capnames t) (t_caplist t) (zlen nl)
  end.

(* mapCapnum, writer.go:479-489: the slot a Capture/Ref/BackRefCond node with number k is compiled to *)
Definition map_capnum (r : regex) (k : Z) : Z :=
  if k =? -1 then -1 else
  match r_caps r with
  | Some m => match zget k m with Some v => v | None => 0 end
  | None => k
  end.

(* GetGroupNames, regexp.go:522-536 *)
Definition get_group_names (r : regex) : list name :=
  match r_capslist r with
  | None => map itoa (zrange (r_capsize r))
  | Some l => l
  end.

(* GetGroupNumbers, regexp.go:539-556: result[v] = k for every k -> v *)
Fixpoint fill_numbers (m : list (Z * Z)) (l : list Z) : res (list Z) :=
  match m with
  | [] => Ok l
  | (k, v) :: r => match zset_nth v k l with Some l' => fill_numbers r l' | None => Crash 6 end
  end.
Definition get_group_numbers (r : regex) : res (list Z) :=
  match r_caps r with
  | None => Ok (zrange (r_capsize r))
  | Some m => fill_numbers m (repeat 0 (length m))
  end.

(* GroupNameFromNumber, regexp.go:562-583 *)
Definition group_name_from_number (r : regex) (i : Z) : name :=
  match r_capslist r with
  | None => if (0 <=? i) && (i <? r_capsize r) then itoa i else []
  | Some l =>
      let idx := match r_caps r with
                 | Some m => zget i m
                 | None => Some i
                 end in
      match idx with
      | None => []
      | Some j => if (0 <=? j) && (j <? zlen l) then nth (Z.to_nat j) l [] else []
      end
  end.

(* groupNameFromSlot (added by the populateOtherGroups fix) *)
Definition group_name_from_slot (r : regex) (i : Z) : name :=
  match r_capslist r with
  | None => itoa i
  | Some l => if (0 <=? i) && (i <? zlen l) then nth (Z.to_nat i) l [] else []
  end.

(* the decimal parser of GroupNumberFromName, regexp.go:600-624 (with the empty-name and
   range checks of the fix) *)
Fixpoint parse_decimal (capsize : Z) (s : name) (acc : Z) : Z :=
  match s with
  | [] => if (0 <=? acc) && (acc <? capsize) then acc else -1
  | ch :: r =>
      if (57 <? ch) || (ch <? 48) then -1
      else let acc' := acc * 10 + (ch - 48) in
           if capsize <=? acc' then -1 else parse_decimal capsize r acc'
  end.

(* GroupNumberFromName, regexp.go:589-624 *)
Definition group_number_from_name (r : regex) (s : name) : Z :=
  match r_capnames r with
  | Some m => match aget s m with Some k => k | None => -1 end
  | None => match s with [] => -1 | _ => parse_decimal (r_capsize r) s 0 end
  end.

(* Match.GroupByNumber, match.go:340-361: the slot whose Group is returned; None = nil *)
Definition group_by_number (r : regex) (num : Z) : option Z :=
  let n' := match r_caps r with
            | Some m => zget num m                                   (* unknown number: nil (fix) *)
            | None => Some num
            end in
  match n' with
  | None => None
  | Some n => if (r_capsize r <=? n) || (n <? 0) then None else Some n
  end.

(* Match.GroupByName, match.go:330-337 *)
Definition group_by_name (r : regex) (s : name) : option Z :=
  let num := group_number_from_name r s in
  if num <? 0 then None else group_by_number r num.

(* Match.Groups, match.go:363-380: the Name of the i-th element (newMatch, match.go:163-176, names
   group 0 "0" unless ECMAScript; the others come from groupNameFromSlot) *)
Definition groups_names (ecma : bool) (r : regex) : list name :=
  map (fun i => if i =? 0 then (if ecma then [] else itoa 0) else group_name_from_slot r i) (zrange (r_capsize r)).

(* replacement references, parser.go:849-902 + replacerdata.go:62-70:
   the slot a "$n"/"${n}" resp. "${name}" is compiled to; None = the text stays literal *)
Definition is_slot_re (r : regex) (n : Z) : bool :=
  match r_caps r with
  | Some m => match zget n m with Some _ => true | None => false end
  | None => (0 <=? n) && (n <? r_capsize r)
  end.
Definition to_slot (r : regex) (k : Z) : Z :=
  match r_caps r with
  | Some [] | None => k
  | Some m => if 0 <=? k then (match zget k m with Some v => v | None => 0 end) else k
  end.
Definition dollar_num (r : regex) (n : Z) : option Z :=
  if is_slot_re r n then Some (to_slot r n) else None.
Definition dollar_name (r : regex) (s : name) : option Z :=
  match r_capnames r with
  | Some m => match aget s m with Some k => Some (to_slot r k) | None => None end
  | None => None
  end.
