(* The scan loop of runner.go:116-228 ([Runner.scan]) exactly as coded, over ABSTRACT components:
   (line numbers of runner.go are those of /repo commit 7e695b7; commit b89335b inserted 4 lines
   into run() above, so at later commits add 4)
   the candidate finder ([findFirstChar]) and one run of the matcher ([execute]) are functions of
   the position only (everything else they read - text, program, Runtextstart - is fixed for the
   duration of one scan).  No proofs in this file; see Proofs/ScanProofs.v, Properties/C03.v.

   [finder p] = (what findFirstChar returned, the Runtextpos it left) when called with Runtextpos = p.
   [exec p]   = (Some m when runmatch.matchcount[0] > 0 after execute, the Runtextpos left by execute).
                On failure the interpreter ends in the root [Lazybranch|Back] frame (runner.go:273-279),
                which restores Runtextpos from the root track slot: the attempt position, or the later
                position an [UpdateBumpalong] wrote there (runner.go:956-965). *)
From Verif Require Import Base.Prelude.

Section Scan.
Variable R : Type.                      (* a finished match: position, length, captures *)
Variable n : Z.                         (* r.Runtextend = len(rt) *)
Variable rtl : bool.                    (* r.re.RightToLeft() (= r.code.RightToLeft) *)
Variable min_required : Z.              (* r.code.FindOptimizations.MinRequiredLength, 0 when absent *)
Variable finder : Z -> bool * Z.
Variable exec : Z -> option R * Z.

(* runner.go:127-133 *)
Definition stoppos : Z := if rtl then 0 else n.
Definition bump : Z := if rtl then -1 else 1.

(* runner.go:170-180: the minimum-length cut-off, tested at the top of every turn *)
Definition min_cut (p : Z) : bool :=
  (0 <? min_required) &&
  (if rtl then p <? min_required else n - p <? min_required).

(* runner.go:169-226: one turn per unit of fuel; [p] is r.Runtextpos at the top of the turn *)
Fixpoint scan_loop (fuel : nat) (p : Z) : res (option R) :=
  match fuel with
  | O => Fuel
  | S f =>
      if min_cut p then Ok None                                  (* 170-180 *)
      else
        let '(found, q) := finder p in                           (* 188 *)
        let after : R + Z :=
          if found then
            match exec q with                                    (* 199 *)
            | (Some m, _) => inl m                               (* 203-206 *)
            | (None, q') => inr q'                               (* 208-211 *)
            end
          else inr q in
        match after with
        | inl m => Ok (Some m)
        | inr q' =>
            if q' =? stoppos then Ok None                        (* 216-219 *)
            else scan_loop f (q' + bump)                         (* 225 *)
        end
  end.

(* runner.go:135,160-166 then the loop.  [start] = textstart (already resolved by run(),
   runner.go:86-92), [prevlen] = previousMatchLength. *)
Definition scan_fuel : nat := S (S (Z.to_nat n)).

Definition scan (start prevlen : Z) : res (option R) :=
  if prevlen =? 0 then
    if start =? stoppos then Ok None
    else scan_loop scan_fuel (start + bump)
  else scan_loop scan_fuel start.

End Scan.

Arguments stoppos n rtl : assert.
Arguments bump rtl : assert.
Arguments min_cut n rtl min_required p : assert.
Arguments scan_loop {R} n rtl min_required finder exec fuel p : assert.
Arguments scan_fuel n : assert.
Arguments scan {R} n rtl min_required finder exec start prevlen : assert.

(* The same loop with every accelerator disabled: the finder accepts the position it is given,
   no minimum length, and a failed attempt leaves the position it started from. *)
Definition naive_finder (p : Z) : bool * Z := (true, p).
Definition naive_exec {R} (exec : Z -> option R * Z) (p : Z) : option R * Z := (fst (exec p), p).

Definition naive_loop {R} (n : Z) (rtl : bool) (exec : Z -> option R * Z) : nat -> Z -> res (option R) :=
  scan_loop n rtl 0 naive_finder (naive_exec exec).

Definition naive_scan {R} (n : Z) (rtl : bool) (exec : Z -> option R * Z) (start prevlen : Z)
  : res (option R) :=
  scan n rtl 0 naive_finder (naive_exec exec) start prevlen.

(* ------------------------------------------------------------------------------------------
   findFirstCharDefault, anchor part (runner.go:1382-1412).
   [anchors] = r.code.Anchors (bits of syntax/prefix.go:772-778), [ts] = r.Runtextstart,
   [text] = r.Runtext, [bm] = what r.code.BmPrefix.IsMatch answers at a position (None when
   BmPrefix == nil), [rest] = everything below line 1413 (Boyer-Moore scan, optimized finders,
   first-character loop), reached only when none of the four anchor bits is set. *)
Definition ANCH_BEGINNING : Z := 1.
Definition ANCH_START : Z := 4.
Definition ANCH_ENDZ : Z := 16.
Definition ANCH_END : Z := 32.

Definition abit (anchors b : Z) : bool := negb (Z.land anchors b =? 0).

Section Anchors.
Variable text : list Z.
Variable rtl : bool.                    (* r.code.RightToLeft *)
Variable anchors : Z.
Variable ts : Z.
Variable bm : option (Z -> bool).
Variable rest : Z -> bool * Z.

Definition a_n : Z := zlen text.
Definition a_char (i : Z) : Z := nth (Z.to_nat i) text 0.

Definition ffc_default (p : Z) : bool * Z :=
  if abit anchors (ANCH_BEGINNING + ANCH_START + ANCH_ENDZ + ANCH_END) then          (* 1383 *)
    let after : option Z :=                  (* None = gave up; Some q = Runtextpos after the jumps *)
      if negb rtl then
        if (abit anchors ANCH_BEGINNING && (0 <? p))
           || (abit anchors ANCH_START && (ts <? p)) then None                        (* 1385-1389 *)
        else if abit anchors ANCH_ENDZ && (p <? a_n - 1) then Some (a_n - 1)          (* 1390-1391 *)
        else if abit anchors ANCH_END && (p <? a_n) then Some a_n                     (* 1392-1393 *)
        else Some p
      else
        if (abit anchors ANCH_END && (p <? a_n))
           || (abit anchors ANCH_ENDZ &&
               ((p <? a_n - 1) || ((p =? a_n - 1) && negb (a_char p =? 10))))
           || (abit anchors ANCH_START && (p <? ts)) then None                        (* 1396-1402 *)
        else if abit anchors ANCH_BEGINNING && (0 <? p) then Some 0                   (* 1403-1405 *)
        else Some p in
    match after with
    | None => (false, if rtl then 0 else a_n)                                         (* 1387 / 1400 *)
    | Some q =>
        match bm with
        | Some is_match => (is_match q, q)                                            (* 1408-1410 *)
        | None => (true, q)                                                           (* 1412 *)
        end
    end
  else rest p.

End Anchors.

(* ------------------------------------------------------------------------------------------
   Executable checkers for the hypotheses (H1)-(H3) of the C03 theorem on a concrete instance
   (tables over the positions 0..n); soundness: Proofs/ScanProofs.v [sc_chk_H1_ok] etc.
   Used by the Examples of Properties/C03.v and, on the real finder / matcher tables recorded by
   the harness, by leg c03-scanmodel. *)
Section Checkers.
Variable R : Type.
Variable n : Z.
Variable rtl : bool.
Variable min_required : Z.
Variable finder : Z -> bool * Z.
Variable exec : Z -> option R * Z.

Definition sc_range : list Z := map Z.of_nat (seq 0 (S (Z.to_nat n))).
Definition sc_in_text_b (p : Z) : bool := (0 <=? p) && (p <=? n).
Definition sc_ord_b (p q : Z) : bool := if rtl then q <=? p else p <=? q.
Definition sc_before_b (p q : Z) : bool := if rtl then q <? p else p <? q.
Definition sc_fails_b (x : Z) : bool := match fst (exec x) with None => true | Some _ => false end.

(* nothing matches in the closed / half-open interval *)
Definition sc_all_fail_incl (p q : Z) : bool :=
  forallb (fun x => implb (sc_ord_b p x && sc_ord_b x q) (sc_fails_b x)) sc_range.
Definition sc_all_fail_excl (p q : Z) : bool :=
  forallb (fun x => implb (sc_ord_b p x && sc_before_b x q) (sc_fails_b x)) sc_range.

Definition sc_chk_H1 : bool :=
  forallb (fun p =>
    let '(found, q) := finder p in
    sc_ord_b p q && sc_in_text_b q &&
    (if found then sc_all_fail_excl p q else sc_all_fail_incl p q)) sc_range.
Definition sc_chk_H2 : bool :=
  forallb (fun x => implb ((if rtl then x else n - x) <? min_required) (sc_fails_b x)) sc_range.
Definition sc_chk_H3 : bool :=
  forallb (fun p =>
    match exec p with
    | (None, q) => sc_ord_b p q && sc_in_text_b q && sc_all_fail_incl p q
    | _ => true
    end) sc_range.

End Checkers.
