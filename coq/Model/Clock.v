(* Executable model of /repo/fastclock.go (the shared timeout clock) as a pool of goroutines that
   execute atomic actions over one shared state record.  No proofs in this file.

   Time is real time in nanoseconds (Z).  Every statement of fastclock.go that touches shared
   state, takes/releases fast.mu or reads the wall clock is its own atomic action; an execution is
   an arbitrary list of actions [act] (a schedule): time passing, new calls, one step of one
   goroutine.  Two parameters constrain schedules (they are what the Go runtime is ASSUMED to
   deliver and cannot be proved about it):
     period  = clockPeriod (fastclock.go:122), what runClock sleeps;
     lag >= 0 = how late things may happen: one iteration of runClock (wake-up lateness, waiting
                for fast.mu, the few instructions) takes at most period+lag between two time
                readings, and one call of makeDeadline takes at most lag from call to return.
   Time may not advance past such a bound ([Tick] is then not enabled) — the usual
   timed-automaton reading of "the schedule is lag-timely".

   [fx] selects the code variant:
     fx = false  fastclock.go as pinned (makeDeadline reads current then clockEnd, recomputes
                 [end] only inside the stale-clock branch, releases fast.mu and re-takes it in
                 extendClock) — kept for the machine-checked refutation C14_no_early_timeout_orig_refuted;
     fx = true   the working tree after docs/patches/C14-fastclock-false-timeout.patch (reads
                 clockEnd then current, always recomputes [end] under the lock, extends the clock
                 in the same critical section).  This is what /repo contains now and what the
                 correspondence leg c14-clock runs against. *)
From Verif Require Import Base.Prelude.

(* ---------- constants of fastclock.go ---------- *)
Definition tick_shift : Z := 20.                          (* fastclock.go durationToTicks: d >> 20 *)
Definition ticks (ns : Z) : Z := Z.shiftr ns tick_shift.  (* arithmetic shift = floor division *)
Definition tick_ns : Z := 1048576.                        (* 2^20 ns, one tick *)
Definition second_ns : Z := 1000000000.                   (* time.Second *)
Definition slop_ticks : Z := ticks second_ns.             (* extendClock: durationToTicks(time.Second) = 953 *)
Definition max_dur : Z := 9223372036854775807.            (* math.MaxInt64 *)
(* int64 wrap-around of time.Duration arithmetic (d + clockPeriod in makeDeadline) *)
Definition wrap64 (z : Z) : Z := (z + 9223372036854775808) mod 18446744073709551616 - 9223372036854775808.

(* ---------- shared state: var fast fastclock ---------- *)
Record gst := mkG {
  cur : Z;              (* fast.current   (atomic) *)
  cend : Z;             (* fast.clockEnd  (atomic) *)
  start : option Z;     (* fast.start as real time; None = zero time.Time *)
  running : bool;       (* fast.running *)
  mu : option nat;      (* fast.mu: goroutine holding it *)
  now : Z               (* real time *)
}.

Definition set_cur (g : gst) (v : Z) := mkG v (cend g) (start g) (running g) (mu g) (now g).
Definition set_cend (g : gst) (v : Z) := mkG (cur g) v (start g) (running g) (mu g) (now g).
Definition set_start (g : gst) (v : option Z) := mkG (cur g) (cend g) v (running g) (mu g) (now g).
Definition set_running (g : gst) (v : bool) := mkG (cur g) (cend g) (start g) v (mu g) (now g).
Definition set_mu (g : gst) (v : option nat) := mkG (cur g) (cend g) (start g) (running g) v (now g).
Definition set_now (g : gst) (v : Z) := mkG (cur g) (cend g) (start g) (running g) (mu g) v.

(* time.Since(fast.start) evaluated at real time [tr]; on the zero Time it saturates *)
Definition dur_since (st : option Z) (tr : Z) : Z :=
  match st with Some s => tr - s | None => max_dur end.

(* ---------- goroutines: program counter + locals ---------- *)
(* d = timeout, t0 = real time of the call (ghost), e = local [end]. *)
Inductive thr :=
(* a timed match: makeDeadline(d) (runner.go:2159), then CheckTimeout polls (runner.go:2163) *)
| MStart (d t0 : Z)              (* about to do the first atomic load *)
| MRead2 (d t0 x : Z)            (* x = first value loaded (fx: clockEnd; orig: current) *)
| MLock (d t0 e : Z)             (* end > clockEnd: about to fast.mu.Lock() *)
| MChk (d t0 e : Z)              (* holds mu: if !running && !start.IsZero() *)
| MWr (d t0 e tr : Z)            (* holds mu: time.Since read at tr; about to current.write + recompute end *)
| MUnl (d t0 e : Z)              (* orig only: fast.mu.Unlock() before extendClock *)
| ELock (d t0 e : Z)             (* orig only: extendClock's fast.mu.Lock() *)
| E1 (d t0 e : Z)                (* holds mu: if start.IsZero() { start = time.Now() } *)
| E2 (d t0 e : Z)                (* holds mu: shutdown := end + ticks(1s); if shutdown > clockEnd {write} *)
| E3 (d t0 e : Z)                (* holds mu: if !running { running = true; go runClock() } *)
| E4 (d t0 e : Z)                (* holds mu: Unlock *)
| MRet (d t0 e : Z)              (* deadline e returned; the interpreter polls e.reached() *)
| MTimedOut (d t0 e tt : Z)      (* a poll at real time tt saw reached: timeout error *)
| MDone (d t0 tf : Z)            (* match finished at tf without a timeout *)
(* runClock (fastclock.go:124-138); last = ghost: real time of the previous time reading (or of the spawn) *)
| R0 (last : Z)                  (* spawned: fast.mu.Lock() *)
| R1 (last : Z)                  (* holds mu: loop test current <= clockEnd *)
| R2 (last : Z)                  (* holds mu: Unlock, then time.Sleep(clockPeriod) begins *)
| R3 (last wake : Z)             (* sleeping until wake *)
| R4 (last : Z)                  (* woke: fast.mu.Lock() *)
| R5 (last : Z)                  (* holds mu: time.Since(fast.start) *)
| R6 (last tr : Z)               (* holds mu: current.write(newTime) *)
| R7 (last : Z)                  (* holds mu: running = false *)
| R8 (last : Z)                  (* holds mu: deferred Unlock *)
| RDone
(* stopClock (fastclock.go:93-110) *)
| S0                             (* fast.mu.Lock() *)
| S1                             (* holds mu: if running { clockEnd.write(0) } *)
| S2                             (* holds mu: Unlock *)
| S3                             (* time.Sleep(clockPeriod/2); fast.mu.Lock() *)
| S4                             (* holds mu: isRunning = fast.running *)
| S5 (b : bool)                  (* holds mu: Unlock; loop while isRunning *)
| SDone.

Record st := mkSt { gs : gst; ths : list thr }.

Inductive act :=
| Tick (dt : Z)          (* real time advances by dt >= 0 *)
| Call (d : Z)           (* a goroutine starts a match with MatchTimeout d *)
| CallStop               (* a goroutine calls StopTimeoutClock *)
| Step (i : nat)         (* goroutine i performs its next atomic action *)
| Finish (i : nat).      (* the match of goroutine i completes (it was still polling) *)

Fixpoint upd {A} (i : nat) (x : A) (l : list A) : list A :=
  match l, i with
  | [], _ => []
  | _ :: l', O => x :: l'
  | y :: l', S i' => y :: upd i' x l'
  end.

Section Clock.
Variable fx : bool.          (* code variant, see above *)
Variable period lag : Z.

(* durationToTicks(d + clockPeriod), with Go's int64 wrap-around of the addition *)
Definition kd (d : Z) : Z := ticks (wrap64 (d + period)).

Definition lock (i : nat) (g0 : gst) : option gst :=
  match mu g0 with None => Some (set_mu g0 (Some i)) | Some _ => None end.
Definition unlock (g0 : gst) : gst := set_mu g0 None.

(* one atomic action of goroutine i: new shared state, new pc, spawned goroutines *)
Definition tstep (i : nat) (g0 : gst) (t : thr) : option (gst * thr * list thr) :=
  match t with
  | MStart d t0 =>
      Some (g0, MRead2 d t0 (if fx then cend g0 else cur g0), [])
  | MRead2 d t0 x =>
      if fx then
        let e := cur g0 + kd d in
        Some (g0, (if e >? x then MLock d t0 e else MRet d t0 e), [])
      else
        let e := x + kd d in
        Some (g0, (if e >? cend g0 then MLock d t0 e else MRet d t0 e), [])
  | MLock d t0 e =>
      match lock i g0 with Some g1 => Some (g1, MChk d t0 e, []) | None => None end
  | MChk d t0 e =>
      if negb (running g0) && (match start g0 with Some _ => true | None => false end)
      then Some (g0, MWr d t0 e (now g0), [])
      else if fx then Some (g0, E1 d t0 (cur g0 + kd d), [])
      else Some (g0, MUnl d t0 e, [])
  | MWr d t0 e tr =>
      let g1 := set_cur g0 (ticks (dur_since (start g0) tr)) in
      let e' := cur g1 + kd d in
      Some (g1, (if fx then E1 d t0 e' else MUnl d t0 e'), [])
  | MUnl d t0 e => Some (unlock g0, ELock d t0 e, [])
  | ELock d t0 e =>
      match lock i g0 with Some g1 => Some (g1, E1 d t0 e, []) | None => None end
  | E1 d t0 e =>
      Some ((match start g0 with None => set_start g0 (Some (now g0)) | Some _ => g0 end), E2 d t0 e, [])
  | E2 d t0 e =>
      let sh := e + slop_ticks in
      Some ((if sh >? cend g0 then set_cend g0 sh else g0), E3 d t0 e, [])
  | E3 d t0 e =>
      if running g0 then Some (g0, E4 d t0 e, [])
      else Some (set_running g0 true, E4 d t0 e, [R0 (now g0)])
  | E4 d t0 e => Some (unlock g0, MRet d t0 e, [])
  | MRet d t0 e =>
      Some (g0, (if cur g0 >=? e then MTimedOut d t0 e (now g0) else MRet d t0 e), [])
  | MTimedOut _ _ _ _ => None
  | MDone _ _ _ => None
  | R0 last =>
      match lock i g0 with Some g1 => Some (g1, R1 last, []) | None => None end
  | R1 last =>
      Some (g0, (if cur g0 <=? cend g0 then R2 last else R7 last), [])
  | R2 last => Some (unlock g0, R3 last (now g0 + period), [])
  | R3 last wake =>
      if now g0 >=? wake then Some (g0, R4 last, []) else None
  | R4 last =>
      match lock i g0 with Some g1 => Some (g1, R5 last, []) | None => None end
  | R5 last => Some (g0, R6 last (now g0), [])
  | R6 last tr =>
      Some (set_cur g0 (ticks (dur_since (start g0) tr)), R1 tr, [])
  | R7 last => Some (set_running g0 false, R8 last, [])
  | R8 last => Some (unlock g0, RDone, [])
  | RDone => None
  | S0 => match lock i g0 with Some g1 => Some (g1, S1, []) | None => None end
  | S1 => Some ((if running g0 then set_cend g0 0 else g0), S2, [])
  | S2 => Some (unlock g0, S3, [])
  | S3 => match lock i g0 with Some g1 => Some (g1, S4, []) | None => None end
  | S4 => Some (g0, S5 (running g0), [])
  | S5 b => Some (unlock g0, (if b then S3 else SDone), [])
  | SDone => None
  end.

(* latest real time by which the goroutine must have moved on (lag-timeliness) *)
Definition due (t : thr) : option Z :=
  match t with
  | MStart _ t0 | MRead2 _ t0 _ | MLock _ t0 _ | MChk _ t0 _ | MWr _ t0 _ _ | MUnl _ t0 _
  | ELock _ t0 _ | E1 _ t0 _ | E2 _ t0 _ | E3 _ t0 _ | E4 _ t0 _ => Some (t0 + lag)
  | R0 last | R1 last | R2 last | R3 last _ | R4 last | R5 last | R6 last _ | R7 last | R8 last =>
      Some (last + period + lag)
  | _ => None
  end.

Definition may_pass (t' : Z) (t : thr) : bool :=
  match due t with Some x => t' <=? x | None => true end.

Definition step (s : st) (a : act) : option st :=
  match a with
  | Tick dt =>
      if (0 <=? dt) && forallb (may_pass (now (gs s) + dt)) (ths s)
      then Some (mkSt (set_now (gs s) (now (gs s) + dt)) (ths s)) else None
  | Call d => Some (mkSt (gs s) (ths s ++ [MStart d (now (gs s))]))
  | CallStop => Some (mkSt (gs s) (ths s ++ [S0]))
  | Step i =>
      match nth_error (ths s) i with
      | Some t =>
          match tstep i (gs s) t with
          | Some (g1, t1, sp) => Some (mkSt g1 (upd i t1 (ths s) ++ sp))
          | None => None
          end
      | None => None
      end
  | Finish i =>
      match nth_error (ths s) i with
      | Some (MRet d t0 e) => Some (mkSt (gs s) (upd i (MDone d t0 (now (gs s))) (ths s)))
      | _ => None
      end
  end.

(* a run that only takes actions satisfying [ok] (used to say "no StopTimeoutClock reset during
   this stretch", "no new call during this stretch") *)
Fixpoint run_with (ok : st -> act -> bool) (s : st) (l : list act) : option st :=
  match l with
  | [] => Some s
  | a :: l' =>
      if ok s a then
        match step s a with Some s' => run_with ok s' l' | None => None end
      else None
  end.

Definition run : st -> list act -> option st := run_with (fun _ _ => true).

(* the action is not the clockEnd.write(0) of stopClock *)
Definition no_stop_write (s : st) (a : act) : bool :=
  match a with
  | Step i => match nth_error (ths s) i with Some S1 => negb (running (gs s)) | _ => true end
  | _ => true
  end.

Definition no_call (s : st) (a : act) : bool :=
  match a with Call _ => false | _ => true end.

End Clock.

Definition init : st := mkSt (mkG 0 0 None false None 0) [].

(* ---------- the bounds the theorems state (also used by the correspondence leg) ---------- *)
(* a timeout is never reported earlier than d - early_slack after the call *)
Definition early_slack (lag : Z) : Z := 2 * lag + 2 * tick_ns.
(* current >= deadline has been written at the latest d + late_slack after the call *)
Definition late_slack (period lag : Z) : Z := 2 * period + 3 * lag.
(* the clock goroutine is gone at the latest exit_slack after max(last call, real time of clockEnd) *)
Definition exit_slack (period lag : Z) : Z := 2 * (period + lag).
(* first real time at which ticks(t - s) > c *)
Definition real_of (s c : Z) : Z := s + (c + 1) * tick_ns.

(* classification of program counters (used by statements) *)
Definition inflight (t : thr) : bool :=
  match t with
  | MStart _ _ | MRead2 _ _ _ | MLock _ _ _ | MChk _ _ _ | MWr _ _ _ _ | MUnl _ _ _
  | ELock _ _ _ | E1 _ _ _ | E2 _ _ _ | E3 _ _ _ | E4 _ _ _ => true
  | _ => false
  end.

(* a clock goroutine that has not yet set running = false *)
Definition active (t : thr) : bool :=
  match t with
  | R0 _ | R1 _ | R2 _ | R3 _ _ | R4 _ | R5 _ | R6 _ _ | R7 _ => true
  | _ => false
  end.

(* a clock goroutine that still exists (runtime.Stack would show it) *)
Definition clock_alive (t : thr) : bool :=
  match t with
  | R0 _ | R1 _ | R2 _ | R3 _ _ | R4 _ | R5 _ | R6 _ _ | R7 _ | R8 _ => true
  | _ => false
  end.

(* no makeDeadline call is in progress *)
Definition quiet (s : st) : bool := forallb (fun t => negb (inflight t)) (ths s).

(* real time after which a quiet system has no reason to keep the clock goroutine:
   the later of "now" and the real time at which ticks exceed clockEnd *)
Definition horizon (s : st) : Z :=
  match start (gs s) with
  | Some s0 => Z.max (now (gs s)) (real_of s0 (Z.max 0 (cend (gs s))))
  | None => now (gs s)
  end.
