(* Executable model of /repo/syntax/charclass.go (CharSet) and of the class part of
   /repo/syntax/parser.go (scanCharSet) + tree.go (nodeWithCaseConversion, reduceSet).
   No proofs in this file.  Line numbers refer to /repo/syntax/charclass.go unless said otherwise.

   The model follows /repo WITH the five C16 fixes (commits 027bb80, d71b246, d434c54, 376a621, dd13520):
     - charInCategories: a negated category containing the rune no longer ends the loop;
     - addCaseEquivalences descends into the subtracted set;
     - scanCharSet keeps the set marked negated while members are added (canonicalize's negated
       normal forms are applied once, when the set is complete);
     - addNamedASCII: [[:digit:]] = [0-9], [[:space:]] = [\t-\r ];
     - scanCharSet folds case (addLowercase, addCaseEquivalences) BEFORE the real negate flag is
       restored and the finished set is canonicalized (scan_char_set needs fuel and returns res).

   Runes are Z (Go rune = int32; negative values and values above 0x10FFFF can reach CharIn through
   []rune inputs and are kept).  Category names are Z ids:
     0 = " " (SpaceCategoryText, unicode.IsSpace)   1 = "W" (WordCategoryText, IsWordChar)
     2 = "Ll"  3 = "Lu"  4 = "Lt"  5 = "Nd"          >= 16: any other key of unicodeCategories.
   The three branches of charInCategories (IsSpace / IsWordChar / unicode.Is) differ only in which
   Unicode predicate they call; all three are the one oracle [cat_in name rune]. *)
From Verif Require Import Base.Prelude Base.Wire.

Definition max_rune : Z := 1114111.      (* unicode.MaxRune = utf8.MaxRune = 0x10FFFF *)

Definition cat_space : Z := 0.
Definition cat_word : Z := 1.
Definition cat_Ll : Z := 2.
Definition cat_Lu : Z := 3.
Definition cat_Lt : Z := 4.
Definition cat_Nd : Z := 5.

(* CharSet, charclass.go:15-23.  [ascii] is the lazily built *asciiBitmap: None = nil,
   Some (w0, w1) = bits[0], bits[1] (each 0 <= w < 2^64). *)
Inductive cls : Type :=
  Cls { ranges : list (Z * Z);
        cats : list (bool * Z);          (* Category{Negate, Cat} *)
        sub : option cls;
        neg : bool;
        anything : bool;
        ascii : option (Z * Z) }.

Definition empty_cls : cls := Cls [] [] None false false None.

Definition set_ranges (c : cls) (r : list (Z * Z)) : cls :=
  Cls r (cats c) (sub c) (neg c) (anything c) (ascii c).
Definition set_cats (c : cls) (k : list (bool * Z)) : cls :=
  Cls (ranges c) k (sub c) (neg c) (anything c) (ascii c).
Definition set_sub (c : cls) (s : option cls) : cls :=
  Cls (ranges c) (cats c) s (neg c) (anything c) (ascii c).
Definition set_neg (c : cls) (b : bool) : cls :=
  Cls (ranges c) (cats c) (sub c) b (anything c) (ascii c).
Definition set_ascii (c : cls) (a : option (Z * Z)) : cls :=
  Cls (ranges c) (cats c) (sub c) (neg c) (anything c) a.

(* ---------------------------------------------------------------- wire format
   flags (1 negate, 2 anything, 4 has sub, 8 has bitmap), [4 x 32-bit halves: w0 lo, w0 hi, w1 lo, w1 hi],
   ranges as length-prefixed (first,last) pairs, categories as length-prefixed (negate, id) pairs, [sub]. *)
Definition two32 : Z := 4294967296.

Fixpoint d_cls_f (fuel : nat) : dec cls :=
  match fuel with
  | O => fun _ => None
  | S f =>
    dlet fl <- d_z ;
    dlet bm <- (if Z.testbit fl 3
                then dlet a <- d_z ; dlet b <- d_z ; dlet c <- d_z ; dlet d <- d_z ;
                     d_ret (Some (a + two32 * b, c + two32 * d))
                else d_ret None) ;
    dlet rs <- d_list (d_pair d_z d_z) ;
    dlet cs <- d_list (d_pair d_bool d_z) ;
    dlet sb <- (if Z.testbit fl 2 then dlet s <- d_cls_f f ; d_ret (Some s) else d_ret None) ;
    d_ret (Cls rs cs sb (Z.testbit fl 0) (Z.testbit fl 1) bm)
  end.

Definition d_cls : dec cls := fun l => d_cls_f (S (length l)) l.

Fixpoint e_cls (c : cls) : list Z :=
  match c with
  | Cls rs cs sb ng an asc =>
    ((if ng then 1 else 0) + (if an then 2 else 0) + (match sb with Some _ => 4 | None => 0 end)
     + (match asc with Some _ => 8 | None => 0 end))
    :: (match asc with
        | Some (w0, w1) => [w0 mod two32; w0 / two32; w1 mod two32; w1 / two32]
        | None => []
        end)
    ++ e_list (fun p : Z * Z => [fst p; snd p]) rs
    ++ e_list (fun p : bool * Z => [if fst p then 1 else 0; snd p]) cs
    ++ (match sb with Some s => e_cls s | None => [] end)
  end.

(* ---------------------------------------------------------------- constant classes (44-74) *)
(* getCharSetFromOldString(setText, negate) for the tables used by the parser *)
Definition ecma_space_ranges : list (Z * Z) :=
  [(9, 13); (32, 32); (160, 160); (5760, 5760); (8192, 8202); (8232, 8233); (8239, 8239);
   (8287, 8287); (12288, 12288); (65279, 65279)].
Definition not_ecma_space_ranges : list (Z * Z) :=
  [(0, 8); (14, 31); (33, 159); (161, 5759); (5761, 8191); (8203, 8231); (8234, 8238);
   (8240, 8286); (8288, 12287); (12289, 65278); (65280, max_rune)].
Definition ecma_word_ranges : list (Z * Z) := [(48, 57); (65, 90); (95, 95); (97, 122)].
Definition not_ecma_word_ranges : list (Z * Z) :=
  [(0, 47); (58, 64); (91, 94); (96, 96); (123, max_rune)].
Definition ecma_digit_ranges : list (Z * Z) := [(48, 57)].
Definition not_ecma_digit_ranges : list (Z * Z) := [(0, 47); (58, max_rune)].
Definition re2_space_ranges : list (Z * Z) := [(9, 10); (12, 13); (32, 32)].
Definition not_re2_space_ranges : list (Z * Z) := [(0, 8); (11, 11); (14, 31); (33, max_rune)].

Definition ranges_cls (r : list (Z * Z)) : cls := Cls r [] None false false None.
Definition cat_cls (ng nc : bool) (name : Z) : cls := Cls [] [(nc, name)] None ng false None.

Definition space_class := cat_cls false false cat_space.
Definition word_class := cat_cls false false cat_word.
Definition digit_class := cat_cls false false cat_Nd.
Definition ecma_space_class := ranges_cls ecma_space_ranges.
Definition ecma_word_class := ranges_cls ecma_word_ranges.
Definition ecma_digit_class := ranges_cls ecma_digit_ranges.

(* ---------------------------------------------------------------- structural equality (1260-1289) *)
Fixpoint ranges_eqb (a b : list (Z * Z)) : bool :=
  match a, b with
  | [], [] => true
  | (x, y) :: a', (u, v) :: b' => (x =? u) && (y =? v) && ranges_eqb a' b'
  | _, _ => false
  end.
Fixpoint cats_eqb (a b : list (bool * Z)) : bool :=
  match a, b with
  | [], [] => true
  | (x, y) :: a', (u, v) :: b' => Bool.eqb x u && (y =? v) && cats_eqb a' b'
  | _, _ => false
  end.

(* (c *CharSet).equals(c2, ignoreNegate); the bitmap is not compared *)
Fixpoint cls_equals (ignore_negate : bool) (c c2 : cls) : bool :=
  match c, c2 with
  | Cls rs cs sb ng an _, Cls rs2 cs2 sb2 ng2 an2 _ =>
    (ignore_negate || Bool.eqb ng ng2) && Bool.eqb an an2 && ranges_eqb rs rs2 && cats_eqb cs cs2 &&
    match sb, sb2 with
    | None, None => true
    | Some s, Some s2 => cls_equals false s s2
    | _, _ => false
    end
  end.

(* lcTable, charclass.go:988-1083: (chMin, chMax, op, data); op 0 Set, 1 Add, 2 Bor, 3 Bad.
   TODO(lead): this table should come from coq/Gen (tools/gen: `lcTable` composite literal of lcMap,
   plus the four Lowercase* constants); shipped as data here until the translator emits it.
   Leg c16-ops compares add_lowercase with the real addLowercase, so a drift is detected. *)
Definition lc_table : list (Z * Z * Z * Z) :=
  [(65, 90, 1, 32); (192, 222, 1, 32); (256, 302, 2, 0); (304, 304, 0, 105); (306, 310, 2, 0);
   (313, 327, 3, 0); (330, 374, 2, 0); (376, 376, 0, 255); (377, 381, 3, 0); (385, 385, 0, 595);
   (386, 388, 2, 0); (390, 390, 0, 596); (391, 391, 0, 392); (393, 394, 1, 205); (395, 395, 0, 396);
   (398, 398, 0, 477); (399, 399, 0, 601); (400, 400, 0, 603); (401, 401, 0, 402); (403, 403, 0, 608);
   (404, 404, 0, 611); (406, 406, 0, 617); (407, 407, 0, 616); (408, 408, 0, 409); (412, 412, 0, 623);
   (413, 413, 0, 626); (415, 415, 0, 629); (416, 420, 2, 0); (423, 423, 0, 424); (425, 425, 0, 643);
   (428, 428, 0, 429); (430, 430, 0, 648); (431, 431, 0, 432); (433, 434, 1, 217); (435, 437, 3, 0);
   (439, 439, 0, 658); (440, 440, 0, 441); (444, 444, 0, 445); (452, 453, 0, 454); (455, 456, 0, 457);
   (458, 459, 0, 460); (461, 475, 3, 0); (478, 494, 2, 0); (497, 498, 0, 499); (500, 500, 0, 501);
   (506, 534, 2, 0); (902, 902, 0, 940); (904, 906, 1, 37); (908, 908, 0, 972); (910, 911, 1, 63);
   (913, 939, 1, 32); (994, 1006, 2, 0); (1025, 1039, 1, 80); (1040, 1071, 1, 32); (1120, 1152, 2, 0);
   (1168, 1214, 2, 0); (1217, 1219, 3, 0); (1223, 1223, 0, 1224); (1227, 1227, 0, 1228);
   (1232, 1258, 2, 0); (1262, 1268, 2, 0); (1272, 1272, 0, 1273); (1329, 1366, 1, 48);
   (4256, 4293, 1, 48); (7680, 7928, 2, 0); (7944, 7951, 1, -8); (7960, 7967, 1, -8);
   (7976, 7983, 1, -8); (7992, 7999, 1, -8); (8008, 8013, 1, -8); (8025, 8025, 0, 8017);
   (8027, 8027, 0, 8019); (8029, 8029, 0, 8021); (8031, 8031, 0, 8023); (8040, 8047, 1, -8);
   (8072, 8079, 1, -8); (8088, 8095, 1, -8); (8104, 8111, 1, -8); (8120, 8121, 1, -8);
   (8122, 8123, 1, -74); (8124, 8124, 0, 8115); (8136, 8139, 1, -86); (8140, 8140, 0, 8131);
   (8152, 8153, 1, -8); (8154, 8155, 1, -100); (8168, 8169, 1, -8); (8170, 8171, 1, -112);
   (8172, 8172, 0, 8165); (8184, 8185, 1, -128); (8186, 8187, 1, -126); (8188, 8188, 0, 8179);
   (8544, 8559, 1, 16); (9398, 9424, 1, 26); (65313, 65338, 1, 32)].

Section CharClass.
  (* Oracles: unicode.Is on the table of a category/script/property name (IsSpace / IsWordChar for
     ids 0 / 1), unicode.SimpleFold, unicode.ToLower.  (unicode.ToUpper is not used by charclass.go.) *)
  Variable cat_in : Z -> Z -> bool.
  Variable simple_fold : Z -> Z.
  Variable to_lower : Z -> Z.

  (* ---------------------------------------------------------------- membership (297-399) *)
  (* n <= 4: linear scan with early exit, 311-320 *)
  Fixpoint linear_scan (rs : list (Z * Z)) (ch : Z) : bool :=
    match rs with
    | [] => false
    | (lo, hi) :: t => if ch <? lo then false else if ch <=? hi then true else linear_scan t ch
    end.

  (* binary search 322-333: returns lo after the loop.  The loop halves hi-lo, so
     fuel = length rs is more than enough (Proofs: bsearch_spec); on exhaustion lo is returned. *)
  Fixpoint bsearch (fuel : nat) (rs : list (Z * Z)) (ch lo hi : Z) : Z :=
    match fuel with
    | O => lo
    | S f =>
      if lo <? hi then
        let mid := (lo + hi) / 2 in
        match znth rs mid with
        | Some (a, _) => if a <=? ch then bsearch f rs ch (mid + 1) hi else bsearch f rs ch lo mid
        | None => lo
        end
      else lo
    end.

  Definition binary_scan (rs : list (Z * Z)) (ch : Z) : bool :=
    let lo := bsearch (length rs) rs ch 0 (zlen rs) in
    if 0 <? lo then
      match znth rs (lo - 1) with Some (_, b) => ch <=? b | None => false end
    else false.

  Definition in_ranges (rs : list (Z * Z)) (ch : Z) : bool :=
    match rs with
    | [] => false
    | _ => if zlen rs <=? 4 then linear_scan rs ch else binary_scan rs ch
    end.

  (* charInCategories 372-399 (patched): first accepting category wins; nothing ends the loop early
     with false. *)
  Fixpoint char_in_categories (cs : list (bool * Z)) (ch : Z) : bool :=
    match cs with
    | [] => false
    | (ng, name) :: t =>
      if cat_in name ch
      then (if ng then char_in_categories t ch else true)
      else (if ng then true else char_in_categories t ch)
    end.

  Definition bitmap_test (bm : Z * Z) (ch : Z) : bool :=
    Z.testbit (if ch / 64 =? 0 then fst bm else snd bm) (ch mod 64).

  (* charInSlow 304-354; the recursive call on the subtracted set is CharIn (uses its bitmap). *)
  Fixpoint char_in_slow (c : cls) (ch : Z) : bool :=
    match c with
    | Cls rs cs sb ng _ _ =>
      let v := in_ranges rs ch in
      let v := if negb v then (match cs with [] => v | _ => char_in_categories cs ch end) else v in
      let v := if ng then negb v else v in
      if v then
        match sb with
        | Some s =>
          negb (match ascii s with
                | Some bm => if (0 <=? ch) && (ch <? 128) then bitmap_test bm ch else char_in_slow s ch
                | None => char_in_slow s ch
                end)
        | None => v
        end
      else v
    end.

  (* CharIn 297-302 *)
  Definition char_in (c : cls) (ch : Z) : bool :=
    match ascii c with
    | Some bm => if (0 <=? ch) && (ch <? 128) then bitmap_test bm ch else char_in_slow c ch
    | None => char_in_slow c ch
    end.

  (* prepareASCIIBitmap 356-370: bits[i/64] |= 1 << (i%64) for i in 0..127 with charInSlow(i) *)
  Fixpoint bitmap_word (p : Z -> bool) (base : Z) (n : nat) (w : Z) : Z :=
    match n with
    | O => w
    | S n' =>
      let i := base + Z.of_nat n' in
      bitmap_word p base n' (if p i then Z.lor w (Z.shiftl 1 (i mod 64)) else w)
    end.

  Definition ascii_bitmap (c : cls) : Z * Z :=
    (bitmap_word (char_in_slow c) 0 64 0, bitmap_word (char_in_slow c) 64 64 0).

  Fixpoint prepare_ascii_bitmap (c : cls) : cls :=
    match c with
    | Cls rs cs sb ng an asc =>
      match asc with
      | Some _ => c
      | None =>
        let sb' := match sb with Some s => Some (prepare_ascii_bitmap s) | None => None end in
        let c' := Cls rs cs sb' ng an None in
        Cls rs cs sb' ng an (Some (ascii_bitmap c'))
      end
    end.

  (* ---------------------------------------------------------------- canonicalize (813-923) *)
  (* sort.Sort(singleRangeSorter): any sort by First; the model uses a stable insertion sort.
     (For ranges with first <= last the merged result does not depend on the order of equal firsts.) *)
  Fixpoint insert_range (r : Z * Z) (l : list (Z * Z)) : list (Z * Z) :=
    match l with
    | [] => [r]
    | h :: t => if fst r <? fst h then r :: l else h :: insert_range r t
    end.
  Fixpoint sort_ranges (l : list (Z * Z)) : list (Z * Z) :=
    match l with
    | [] => []
    | h :: t => insert_range h (sort_ranges t)
    end.

  (* the merge loop 830-860 on the sorted slice: [first,last] is the run being built (ranges[j]),
     rest = ranges[i:].  The loop stops ("done") at the end of the slice or as soon as last >= MaxRune,
     dropping whatever follows. *)
  Fixpoint merge_ranges (first last : Z) (rest : list (Z * Z)) : list (Z * Z) :=
    match rest with
    | [] => [(first, last)]
    | (a, b) :: t =>
      if last >=? max_rune then [(first, last)]
      else if a >? last + 1 then (first, last) :: merge_ranges a b t
      else merge_ranges first (if last <? b then b else last) t
    end.

  Definition make_anything (c : cls) : cls :=
    Cls [(0, max_rune)] [] (sub c) (neg c) true (ascii c).

  Definition no_sub (c : cls) : bool := match sub c with None => true | Some _ => false end.
  Definition no_cats (c : cls) : bool := match cats c with [] => true | _ => false end.

  (* 863-892 *)
  Definition normal_form_1 (c : cls) : cls :=
    if negb (neg c) && no_sub c && no_cats c then
      match ranges c with
      | [(a0, b0); (a1, b1)] =>
        if (a0 =? 0) && (b1 >=? max_rune) && (b0 <? a1 - 1)
        then set_neg (set_ranges c [(b0 + 1, a1 - 1)]) true else c
      | [(a, b)] =>
        if a =? 0 then
          (if b =? max_rune - 1 then set_neg (set_ranges c [(max_rune, max_rune)]) true else c)
        else if a =? 1 then
          (if b >=? max_rune then set_neg (set_ranges c [(0, 0)]) true else c)
        else c
      | _ => c
      end
    else c.

  (* 894-901 *)
  Definition normal_form_2 (c : cls) : cls :=
    if negb (neg c) && no_sub c then
      match ranges c with
      | [(a, b)] => if (a =? 0) && (b >=? max_rune) then make_anything c else c
      | _ => c
      end
    else c.

  (* 903-922 *)
  Definition normal_form_3 (c : cls) : cls :=
    if negb (neg c) && no_sub c && negb (no_cats c) then
      match ranges c with
      | [(a0, b0); (a1, b1)] =>
        if (a0 =? 0) && (b0 + 2 =? a1) && (b1 =? max_rune) then
          if char_in_categories (cats c) (b0 + 1) then make_anything c
          else set_cats (set_neg (set_ranges c [(b0 + 1, b0 + 1)]) true) []
        else c
      | _ => c
      end
    else c.

  Definition merge_sorted (rs : list (Z * Z)) : list (Z * Z) :=
    match rs with
    | (a, b) :: ((_ :: _) as t) => merge_ranges a b t
    | _ => rs
    end.

  Definition canonicalize (c : cls) : cls :=
    match ranges c with
    | [] => c
    | [_] => normal_form_3 (normal_form_2 (normal_form_1 c))
    | _ =>
      let c1 := set_ranges c (merge_sorted (sort_ranges (ranges c))) in
      normal_form_3 (normal_form_2 (normal_form_1 c1))
    end.

  (* ---------------------------------------------------------------- mutators *)
  (* addRange 754-757, addChar 524-526 *)
  Definition add_range (c : cls) (lo hi : Z) : cls :=
    canonicalize (set_ranges c (ranges c ++ [(lo, hi)])).
  Definition add_char (c : cls) (ch : Z) : cls := add_range c ch ch.

  (* addRanges 609-615 *)
  Definition add_ranges (c : cls) (rs : list (Z * Z)) : cls :=
    if anything c then c else canonicalize (set_ranges c (ranges c ++ rs)).

  (* addNegativeRanges 618-638 (incoming ranges assumed in order) *)
  Fixpoint negative_ranges (hi : Z) (rs : list (Z * Z)) : list (Z * Z) :=
    match rs with
    | [] => if hi <? max_rune then [(hi, max_rune)] else []
    | (a, b) :: t => (if hi <? a then [(hi, a - 1)] else []) ++ negative_ranges (b + 1) t
    end.
  Definition add_negative_ranges (c : cls) (rs : list (Z * Z)) : cls :=
    if anything c then c else canonicalize (set_ranges c (ranges c ++ negative_ranges 0 rs)).

  (* addCategories 579-606: returns from the whole call at the first X / not-X clash *)
  Fixpoint find_cat (name : Z) (l : list (bool * Z)) : option bool :=
    match l with
    | [] => None
    | (ng, n) :: t => if n =? name then Some ng else find_cat name t
    end.
  Fixpoint add_categories_loop (c : cls) (l : list (bool * Z)) : cls :=
    match l with
    | [] => c
    | (ng, name) :: t =>
      match find_cat name (cats c) with
      | Some ng2 => if Bool.eqb ng ng2 then add_categories_loop c t else make_anything c
      | None => add_categories_loop (set_cats c (cats c ++ [(ng, name)])) t
      end
    end.
  Definition add_categories (c : cls) (l : list (bool * Z)) : cls :=
    if anything c then c else add_categories_loop c l.

  (* addSet 559-571: negate and sub of the argument are ignored (callers check IsMergeable) *)
  Definition add_set (c s : cls) : cls :=
    if anything c then c
    else if anything s then make_anything c
    else canonicalize (add_categories (set_ranges c (ranges c ++ ranges s)) (cats s)).

  (* addSubtraction 750-752 *)
  Definition add_subtraction (c s : cls) : cls := set_sub c (Some s).

  (* addLowercaseRange 1085-1133 *)
  Fixpoint lc_bsearch (fuel : nat) (ch_min i imax : Z) : Z :=
    match fuel with
    | O => i
    | S f =>
      if i <? imax then
        let mid := (i + imax) / 2 in
        match znth lc_table mid with
        | Some (_, cmax, _, _) =>
          if cmax <? ch_min then lc_bsearch f ch_min (mid + 1) imax else lc_bsearch f ch_min i mid
        | None => i
        end
      else i
    end.

  Fixpoint lc_scan (tbl : list (Z * Z * Z * Z)) (ch_min ch_max : Z) : list (Z * Z) :=
    match tbl with
    | [] => []
    | (lmin, lmax, op, data) :: t =>
      if lmin >? ch_max then []
      else
        let mn := if lmin <? ch_min then ch_min else lmin in
        let mx := if lmax >? ch_max then ch_max else lmax in
        let '(mn', mx') :=
          if op =? 0 then (data, data)
          else if op =? 1 then (mn + data, mx + data)
          else if op =? 2 then (Z.lor mn 1, Z.lor mx 1)
          else if op =? 3 then (mn + Z.land mn 1, mx + Z.land mx 1)
          else (mn, mx) in
        (if (mn' <? ch_min) || (mx' >? ch_max) then [(mn', mx')] else []) ++ lc_scan t ch_min ch_max
    end.

  Definition lowercase_range (ch_min ch_max : Z) : list (Z * Z) :=
    let i := lc_bsearch (length lc_table) ch_min 0 (zlen lc_table) in
    lc_scan (skipn (Z.to_nat i) lc_table) ch_min ch_max.

  (* addLowercase 927-946 *)
  Definition add_lowercase (c : cls) : cls :=
    if anything c then c else
    let rs := map (fun r => if fst r =? snd r then (to_lower (fst r), to_lower (fst r)) else r) (ranges c) in
    let multi := filter (fun r => negb (fst r =? snd r)) (ranges c) in
    canonicalize (set_ranges c (rs ++ flat_map (fun r => lowercase_range (fst r) (snd r)) multi)).

  (* tryFindCaseEquivalences 734-748: the other members of the SimpleFold orbit; loops until the
     orbit returns to ch *)
  Fixpoint fold_orbit (fuel : nat) (ch cur : Z) : res (list Z) :=
    match fuel with
    | O => Fuel
    | S f =>
      let nxt := simple_fold cur in
      if nxt =? ch then Ok [] else do r <- fold_orbit f ch nxt ; Ok (nxt :: r)
    end.
  Definition case_equivalences (fuel : nat) (ch : Z) : res (list Z) := fold_orbit fuel ch ch.

  (* the chars lo, lo+1, ..., lo+n-1 *)
  Fixpoint equivalences_of_range (fuel : nat) (lo : Z) (n : nat) : res (list (Z * Z)) :=
    match n with
    | O => Ok []
    | S n' =>
      do e <- case_equivalences fuel lo ;
      do r <- equivalences_of_range fuel (lo + 1) n' ;
      Ok (map (fun x => (x, x)) e ++ r)
    end.

  Fixpoint equivalences_of_ranges (fuel : nat) (rs : list (Z * Z)) : res (list (Z * Z)) :=
    match rs with
    | [] => Ok []
    | (a, b) :: t =>
      do e <- equivalences_of_range fuel a (Z.to_nat (b - a + 1)) ;
      do r <- equivalences_of_ranges fuel t ;
      Ok (e ++ r)
    end.

  (* addCaseEquivalences 712-730 (patched: the subtracted set first) *)
  Fixpoint add_case_equivalences (fuel : nat) (c : cls) : res cls :=
    match c with
    | Cls rs cs sb ng an asc =>
      do sb' <- match sb with
                | Some s => do s' <- add_case_equivalences fuel s ; Ok (Some s')
                | None => Ok None
                end ;
      if an then Ok (Cls rs cs sb' ng an asc)
      else do e <- equivalences_of_ranges fuel rs ;
           Ok (canonicalize (Cls (rs ++ e) cs sb' ng an asc))
    end.

  (* ---------------------------------------------------------------- singleton tests (474-490), reduceSet (tree.go:1796-1812) *)
  Definition single_range (c : cls) : bool :=
    match ranges c with [(a, b)] => a =? b | _ => false end.
  Definition is_singleton (c : cls) : bool :=
    negb (neg c) && no_cats c && no_sub c && single_range c.
  Definition is_singleton_inverse (c : cls) : bool :=
    neg c && no_cats c && no_sub c && single_range c.
  (* SingletonChar: ranges[0].First; index fault on an empty set *)
  Definition singleton_char (c : cls) : res Z :=
    match ranges c with (a, _) :: _ => Ok a | [] => Crash 1 end.

  (* what reduceSet turns a Set node into *)
  Inductive reduced : Type := ROne (ch : Z) | RNotone (ch : Z) | RSet (c : cls).
  Definition reduce_set (c : cls) : res reduced :=
    if is_singleton c then do ch <- singleton_char c ; Ok (ROne ch)
    else if is_singleton_inverse c then do ch <- singleton_char c ; Ok (RNotone ch)
    else Ok (RSet c).
  Definition reduced_in (r : reduced) (ch : Z) : bool :=
    match r with ROne x => ch =? x | RNotone x => negb (ch =? x) | RSet c => char_in c ch end.

  (* ---------------------------------------------------------------- MayOverlap (1136-1201) *)
  Definition known_distinct_sets (s1 s2 : cls) : bool :=
    (cls_equals false s1 space_class || cls_equals false s1 ecma_space_class) &&
    (cls_equals false s2 digit_class || cls_equals false s2 word_class ||
     cls_equals false s2 ecma_digit_class || cls_equals false s2 ecma_word_class).

  Fixpoint any_in_span (s1 : cls) (lo : Z) (n : nat) : bool :=
    match n with
    | O => false
    | S n' => if char_in s1 lo then true else any_in_span s1 (lo + 1) n'
    end.
  Fixpoint overlap_by_enumeration (s1 : cls) (rs : list (Z * Z)) : bool :=
    match rs with
    | [] => false
    | (a, b) :: t => if any_in_span s1 a (Z.to_nat (b - a + 1)) then true else overlap_by_enumeration s1 t
    end.

  Definition may_overlap (s1 s2 : cls) : bool :=
    if cls_equals false s1 s2 then true
    else if anything s1 || anything s2 then true
    else if negb (Bool.eqb (neg s1) (neg s2)) then negb (cls_equals true s1 s2)
    else if neg s1 then true
    else if known_distinct_sets s1 s2 || known_distinct_sets s2 s1 then false
    else if no_sub s2 && no_cats s2 then overlap_by_enumeration s1 (ranges s2)
    else if no_sub s1 && no_cats s1 then overlap_by_enumeration s2 (ranges s1)
    else true.

  (* ================================================================ specification side *)
  (* class expressions: plain set algebra over the oracle cat_in *)
  Inductive cexp : Type :=
  | CRange (a b : Z)
  | CCat (ng : bool) (name : Z)
  | CUnion (l : list cexp)
  | CNeg (e : cexp)
  | CDiff (e1 e2 : cexp)
  | CFold (e : cexp).

  (* ch together with the rest of its SimpleFold orbit; on a non-cyclic fold the walk is cut at fuel *)
  Fixpoint orbit_walk (fuel : nat) (ch cur : Z) : list Z :=
    match fuel with
    | O => []
    | S f => let nxt := simple_fold cur in if nxt =? ch then [] else nxt :: orbit_walk f ch nxt
    end.
  Definition orbit (fuel : nat) (ch : Z) : list Z := ch :: orbit_walk fuel ch ch.

  Fixpoint denote (fuel : nat) (e : cexp) (ch : Z) : bool :=
    match e with
    | CRange a b => (a <=? ch) && (ch <=? b)
    | CCat ng name => xorb ng (cat_in name ch)
    | CUnion l => existsb (fun e' => denote fuel e' ch) l
    | CNeg e' => negb (denote fuel e' ch)
    | CDiff e1 e2 => denote fuel e1 ch && negb (denote fuel e2 ch)
    | CFold e' => existsb (fun x => denote fuel e' x) (orbit fuel ch)
    end.

  (* surface syntax of a bracket expression, as the generator writes it (the model never sees
     pattern text): [^? items (-[sub])?] *)
  Inductive item : Type :=
  | IRange (a b : Z)                (* a, a-b, escapes of single characters *)
  | IDigit (ng : bool)              (* \d \D *)
  | ISpace (ng : bool)              (* \s \S *)
  | IWord (ng : bool)               (* \w \W *)
  | IProp (ng : bool) (name : Z)    (* \p{name} \P{name} (canonical name id) *)
  | IPosix (ng : bool) (k : Z).     (* [[:name:]] [[:^name:]], RE2 only; k = index in posix_names *)

  Inductive csyn : Type := CSyn (ng : bool) (items : list item) (sb : option csyn).

  Record opts : Type := Opts { o_ci : bool; o_ecma : bool; o_re2 : bool }.

  (* POSIX names in the order of addNamedASCII 759-804:
     0 alnum 1 alpha 2 ascii 3 blank 4 cntrl 5 digit 6 graph 7 lower 8 print 9 punct 10 space
     11 upper 12 word 13 xdigit *)
  Definition posix_ranges (k : Z) : list (Z * Z) :=
    if k =? 0 then [(48, 57); (65, 90); (97, 122)]
    else if k =? 1 then [(65, 90); (97, 122)]
    else if k =? 2 then [(0, 127)]
    else if k =? 3 then [(9, 9); (32, 32)]
    else if k =? 4 then [(0, 31); (127, 127)]
    else if k =? 5 then [(48, 57)]
    else if k =? 6 then [(33, 126)]
    else if k =? 7 then [(97, 122)]
    else if k =? 8 then [(32, 126)]
    else if k =? 9 then [(33, 47); (58, 64); (91, 96); (123, 126)]
    else if k =? 10 then [(9, 13); (32, 32)]
    else if k =? 11 then [(65, 90)]
    else if k =? 12 then [(48, 57); (65, 90); (95, 95); (97, 122)]
    else if k =? 13 then [(48, 57); (65, 70); (97, 102)]
    else [].

  Definition is_case_cat (name : Z) : bool := (name =? cat_Ll) || (name =? cat_Lu) || (name =? cat_Lt).

  (* ---- what a bracket expression MEANS (specification) *)
  Definition ranges_exp (rs : list (Z * Z)) : cexp := CUnion (map (fun r => CRange (fst r) (snd r)) rs).
  Definition neg_if (b : bool) (e : cexp) : cexp := if b then CNeg e else e.

  (* members given by code points (characters, ranges, the ASCII tables behind \d \s \w in
     ECMAScript/RE2 mode, POSIX names): folded under IgnoreCase *)
  Definition item_lit_exp (o : opts) (it : item) : list cexp :=
    match it with
    | IRange a b => [CRange a b]
    | IDigit ng => if o_ecma o || o_re2 o then [neg_if ng (CRange 48 57)] else []
    | ISpace ng => if o_ecma o then [neg_if ng (ranges_exp ecma_space_ranges)]
                   else if o_re2 o then [neg_if ng (ranges_exp re2_space_ranges)] else []
    | IWord ng => if o_ecma o || o_re2 o then [neg_if ng (ranges_exp ecma_word_ranges)] else []
    | IProp _ _ => []
    | IPosix ng k => [neg_if ng (ranges_exp (posix_ranges k))]
    end.
  (* members given by Unicode categories: never folded; under IgnoreCase the cased-letter
     categories Ll, Lu, Lt stand for all three *)
  Definition item_cat_exp (o : opts) (it : item) : list cexp :=
    match it with
    | IDigit ng => if o_ecma o || o_re2 o then [] else [CCat ng cat_Nd]
    | ISpace ng => if o_ecma o || o_re2 o then [] else [CCat ng cat_space]
    | IWord ng => if o_ecma o || o_re2 o then [] else [CCat ng cat_word]
    | IProp ng name =>
      [if o_ci o && is_case_cat name
       then neg_if ng (CUnion [CCat false cat_Ll; CCat false cat_Lu; CCat false cat_Lt])
       else CCat ng name]
    | _ => []
    end.

  Fixpoint sem (o : opts) (s : csyn) : cexp :=
    match s with
    | CSyn ng items sb =>
      let lits := CUnion (flat_map (item_lit_exp o) items) in
      let body := CUnion ((if o_ci o then CFold lits else lits) :: flat_map (item_cat_exp o) items) in
      let e := neg_if ng body in
      match sb with
      | Some s' => CDiff e (sem o s')
      | None => e
      end
    end.

  (* ---- what the parser BUILDS: scanCharSet (parser.go:1681-1912, patched) *)
  Definition add_digit (c : cls) (ecma ng : bool) : cls :=      (* 512-522 *)
    if ecma then add_ranges c (if ng then not_ecma_digit_ranges else ecma_digit_ranges)
    else add_categories c [(ng, cat_Nd)].
  Definition add_space (c : cls) (ecma re2 ng : bool) : cls :=  (* 528-544 *)
    if ecma then add_ranges c (if ng then not_ecma_space_ranges else ecma_space_ranges)
    else if re2 then add_ranges c (if ng then not_re2_space_ranges else re2_space_ranges)
    else add_categories c [(ng, cat_space)].
  Definition add_word (c : cls) (ecma ng : bool) : cls :=       (* 546-556 *)
    if ecma then add_ranges c (if ng then not_ecma_word_ranges else ecma_word_ranges)
    else add_categories c [(ng, cat_word)].
  (* addCategory 691-708 on a canonical name *)
  Definition add_category (c : cls) (name : Z) (ng ci : bool) : cls :=
    let c1 := if ci && is_case_cat name
              then add_categories c [(ng, cat_Ll); (ng, cat_Lu); (ng, cat_Lt)] else c in
    add_categories c1 [(ng, name)].
  (* addNamedASCII 759-804 (patched digit/space); 12 = word goes through addWord(true, negate) *)
  Definition add_named_ascii (c : cls) (k : Z) (ng : bool) : cls :=
    if k =? 5 then add_digit c true ng
    else if k =? 12 then add_word c true ng
    else match posix_ranges k with
         | [] => c
         | rs => if ng then add_negative_ranges c rs else add_ranges c rs
         end.

  Definition elab_item (o : opts) (c : cls) (it : item) : cls :=
    match it with
    | IRange a b => add_range c a b
    | IDigit ng => add_digit c (o_ecma o || o_re2 o) ng
    | ISpace ng => add_space c (o_ecma o) (o_re2 o) ng
    | IWord ng => add_word c (o_ecma o || o_re2 o) ng
    | IProp ng name => add_category c name ng (o_ci o)
    | IPosix ng k => add_named_ascii c k ng
    end.

  (* scanCharSet (parser.go:1692-1927): members are added to a set marked negated, the subtraction
     (itself a finished class: the recursive call) is attached, then - IgnoreCase only, fix dd13520 -
     addLowercase and addCaseEquivalences fold case while the members are still listed as written
     (addCaseEquivalences descends into the finished subtracted class once more), and only then the
     real flag is restored and the set canonicalized (which may rewrite it into a negated normal form). *)
  Fixpoint scan_char_set (fuel : nat) (o : opts) (s : csyn) : res cls :=
    match s with
    | CSyn ng items sb =>
      let c := fold_left (elab_item o) items (Cls [] [] None true false None) in
      do c <- match sb with
              | Some s' => do sc <- scan_char_set fuel o s' ; Ok (add_subtraction c sc)
              | None => Ok c
              end ;
      do c <- (if o_ci o then add_case_equivalences fuel (add_lowercase c) else Ok c) ;
      Ok (canonicalize (set_neg c ng))
    end.

  (* the order before dd13520: restore the flag, canonicalize, THEN addLowercase (kept for the
     refutation C16_char_in_denote_old_order_refuted; not used by any driver) *)
  Fixpoint scan_char_set_old (o : opts) (s : csyn) : cls :=
    match s with
    | CSyn ng items sb =>
      let c := fold_left (elab_item o) items (Cls [] [] None true false None) in
      let c := match sb with Some s' => add_subtraction c (scan_char_set_old o s') | None => c end in
      let c := canonicalize (set_neg c ng) in
      if o_ci o then add_lowercase c else c
    end.
  Definition elab_old (fuel : nat) (s : csyn) (o : opts) : res cls :=
    let c := scan_char_set_old o s in
    if o_ci o then add_case_equivalences fuel c else Ok c.

  (* newRegexNodeSet -> nodeWithCaseConversion (tree.go:180-229) on a Set node: addCaseEquivalences
     once more on (a copy of) the finished class *)
  Definition elab (fuel : nat) (s : csyn) (o : opts) : res cls :=
    do c <- scan_char_set fuel o s ;
    if o_ci o then add_case_equivalences fuel c else Ok c.

End CharClass.
