(* The regular-expression tree the writer sees (syntax/tree.go RegexNode), one constructor per
   NodeType the writer accepts, plus the flat wire decoder used by the harness export.
   Node kinds, option bits and MaxInt32 are the Go constants (checked against Gen.TreeGen by
   Proofs/GenConform.v). *)
From Verif Require Import Base.Prelude Base.Wire.

Definition INF : Z := 2147483647.          (* math.MaxInt32: "no upper bound" *)
Definition OPT_CI : Z := 1.                (* IgnoreCase *)
Definition OPT_RTL : Z := 64.              (* RightToLeft *)

Definition has_bit (o b : Z) : bool := negb (Z.land o b =? 0).
Definition is_rtl (o : Z) : bool := has_bit o OPT_RTL.
Definition is_ci (o : Z) : bool := has_bit o OPT_CI.

(* which single-character test a leaf performs *)
Inductive ckind := COne | CNotone | CSet.
(* backtracking behaviour of a single-character loop *)
Inductive lkind := LGreedy | LLazy | LAtomic.

(* zero-width tests; numbers are the NodeType/InstOp values *)
Inductive anchor := ABol | AEol | ABoundary | ANonboundary | ABeginning | AStart | AEndZ | AEnd
                  | AECMABoundary | ANonECMABoundary.

Inductive node :=
| NChar (k : ckind) (o : Z) (c : Z)                      (* One / Notone: c = rune; Set: c = set id *)
| NCharLoop (k : ckind) (l : lkind) (o : Z) (c : Z) (m n : Z)
| NMulti (o : Z) (s : list Z)
| NRef (o : Z) (g : Z)
| NAnchor (a : anchor)
| NNothing
| NEmpty
| NBump                                                   (* UpdateBumpalong *)
| NConcat (o : Z) (l : list node)
| NAlternate (o : Z) (l : list node)
| NLoop (lazy : bool) (o : Z) (m n : Z) (r : node)
| NCapture (o : Z) (g u : Z) (r : node)                  (* u = -1: plain capture; else balancing *)
| NGroup (r : node)
| NPosLook (o : Z) (r : node)
| NNegLook (o : Z) (r : node)
| NAtomic (r : node)
| NBackRefCond (o : Z) (g : Z) (yes : node) (no : option node)
| NExprCond (o : Z) (c yes : node) (no : option node).

Definition anchor_code (a : anchor) : Z :=
  match a with
  | ABol => 14 | AEol => 15 | ABoundary => 16 | ANonboundary => 17 | ABeginning => 18
  | AStart => 19 | AEndZ => 20 | AEnd => 21 | AECMABoundary => 41 | ANonECMABoundary => 42
  end.

Definition anchor_of_code (c : Z) : option anchor :=
  if c =? 14 then Some ABol else if c =? 15 then Some AEol else if c =? 16 then Some ABoundary
  else if c =? 17 then Some ANonboundary else if c =? 18 then Some ABeginning
  else if c =? 19 then Some AStart else if c =? 20 then Some AEndZ else if c =? 21 then Some AEnd
  else if c =? 41 then Some AECMABoundary else if c =? 42 then Some ANonECMABoundary else None.

(* ---- wire format: preorder, every node = [T; opts; ch; M; N; len str; str...; setid; nchildren; children...] ---- *)

Record rawhead := { rh_t : Z; rh_o : Z; rh_ch : Z; rh_m : Z; rh_n : Z; rh_str : list Z; rh_set : Z; rh_nc : Z }.

Definition d_head : dec rawhead :=
  dlet t <- d_z ; dlet o <- d_z ; dlet ch <- d_z ; dlet m <- d_z ; dlet n <- d_z ;
  dlet s <- d_zlist ; dlet st <- d_z ; dlet nc <- d_z ;
  d_ret {| rh_t := t; rh_o := o; rh_ch := ch; rh_m := m; rh_n := n; rh_str := s; rh_set := st; rh_nc := nc |}.

Definition build (h : rawhead) (ch : list node) : option node :=
  let t := rh_t h in let o := rh_o h in
  let cl (k : ckind) (l : lkind) := Some (NCharLoop k l o (match k with CSet => rh_set h | _ => rh_ch h end) (rh_m h) (rh_n h)) in
  match ch with
  | [] =>
      if t =? 3 then cl COne LGreedy else if t =? 4 then cl CNotone LGreedy else if t =? 5 then cl CSet LGreedy
      else if t =? 6 then cl COne LLazy else if t =? 7 then cl CNotone LLazy else if t =? 8 then cl CSet LLazy
      else if t =? 43 then cl COne LAtomic else if t =? 44 then cl CNotone LAtomic else if t =? 45 then cl CSet LAtomic
      else if t =? 9 then Some (NChar COne o (rh_ch h)) else if t =? 10 then Some (NChar CNotone o (rh_ch h))
      else if t =? 11 then Some (NChar CSet o (rh_set h))
      else if t =? 12 then Some (NMulti o (rh_str h))
      else if t =? 13 then Some (NRef o (rh_m h))
      else if t =? 22 then Some NNothing
      else if t =? 23 then Some NEmpty
      else if t =? 46 then Some NBump
      else if t =? 25 then Some (NConcat o [])
      else if t =? 24 then Some (NAlternate o [])
      else match anchor_of_code t with Some a => Some (NAnchor a) | None => None end
  | _ =>
      if t =? 25 then Some (NConcat o ch)
      else if t =? 24 then Some (NAlternate o ch)
      else match ch with
           | [r] =>
               if t =? 26 then Some (NLoop false o (rh_m h) (rh_n h) r)
               else if t =? 27 then Some (NLoop true o (rh_m h) (rh_n h) r)
               else if t =? 28 then Some (NCapture o (rh_m h) (rh_n h) r)
               else if t =? 29 then Some (NGroup r)
               else if t =? 30 then Some (NPosLook o r)
               else if t =? 31 then Some (NNegLook o r)
               else if t =? 32 then Some (NAtomic r)
               else if t =? 33 then Some (NBackRefCond o (rh_m h) r None)
               else None
           | [a; b] =>
               if t =? 33 then Some (NBackRefCond o (rh_m h) a (Some b))
               else if t =? 34 then Some (NExprCond o a b None)
               else None
           | [a; b; c] => if t =? 34 then Some (NExprCond o a b (Some c)) else None
           | _ => None
           end
  end.

Fixpoint d_node (fuel : nat) : dec node :=
  match fuel with
  | O => fun _ => None
  | S f => fun l =>
      match d_head l with
      | None => None
      | Some (h, l1) =>
          match (if rh_nc h <? 0 then None else d_rep (Z.to_nat (rh_nc h)) (d_node f) l1) with
          | None => None
          | Some (ch, l2) => match build h ch with Some n => Some (n, l2) | None => None end
          end
      end
  end.

Definition d_tree : dec node := fun l => d_node (S (length l)) l.
