(* Iteration layer of regexp2: where a search starts, how the next match is found, the find-all
   loops, the compat adapter's loops, and Go's own Regexp.allMatches loop as specification.

   Everything here is over an ABSTRACT single-position matcher
       attempt textstart pos : option mt
   = "findFirstChar + execute at scan position pos with \G bound to textstart" (runner.go:200-235).
   Search acceleration (findFirstChar skipping, MinRequiredLength cut-off, string prefilter) is not
   modelled here: it is C03's statement that it never loses, adds or moves a match, so the scan
   below is the naive one that tries every position in scan order.

   No proofs in this file. *)
From Verif Require Import Base.Prelude.

(* What the iteration code reads from a returned Match (match.go:19-22, 47-53):
   RuneIndex, RuneLength, textpos, and per group whether it has a capture and the last capture. *)
Record mt : Type := MkM {
  m_index : Z;                          (* Capture.RuneIndex of group 0 *)
  m_length : Z;                         (* Capture.RuneLength of group 0 *)
  m_textpos : Z;                        (* Match.textpos = Runtextpos when the match was accepted (match.go:197) *)
  m_groups : list (option (Z * Z))      (* Groups(): None = len(Captures)==0, Some (RuneIndex, RuneLength) of the embedded (last) capture *)
}.

(* A Go slice result where nil and empty-but-non-nil are distinguished: None = nil. *)
Definition slice (A : Type) := option (list A).
Definition slice_of_list {A} (l : list A) : slice A := match l with [] => None | _ => Some l end.

Section Iter.
  Variable rtl : bool.                       (* re.RightToLeft() *)
  Variable len : Z.                          (* len(input) in runes = Runtextend *)
  Variable attempt : Z -> Z -> option mt.    (* textstart -> pos -> result of one anchored attempt *)

  (* runner.go:127-133 *)
  Definition stoppos : Z := if rtl then 0 else len.
  Definition bump : Z := if rtl then -1 else 1.

  (* runner.go:182-247: the for-loop of scan from the current Runtextpos.
     attempt fails -> if Runtextpos == stoppos return nil, else Runtextpos += bump. *)
  Fixpoint scan_loop (fuel : nat) (textstart pos : Z) : res (option mt) :=
    match fuel with
    | O => Fuel
    | S f =>
      match attempt textstart pos with
      | Some m => Ok (Some m)                                   (* runner.go:220-223 *)
      | None => if pos =? stoppos then Ok None                  (* runner.go:233-236 *)
                else scan_loop f textstart (pos + bump)         (* runner.go:242 *)
      end
    end.

  (* runner.go:119-180: scan(rt, textInfo, textstart, previousMatchLength, ...).
     Runtextstart = textstart stays the \G origin; an empty previous match moves only the
     candidate position, and at the far end there is no further match (runner.go:171-177). *)
  Definition scan (fuel : nat) (textstart prevlen : Z) : res (option mt) :=
    if prevlen =? 0 then
      if textstart =? stoppos then Ok None
      else scan_loop fuel textstart (textstart + bump)
    else scan_loop fuel textstart textstart.

  (* regexp.go:80-99 run: negative textstart = "beginning" for the direction *)
  Definition re_run (fuel : nat) (textstart prevlen : Z) : res (option mt) :=
    let textstart := if textstart <? 0 then (if rtl then len else 0) else textstart in
    scan fuel textstart prevlen.

  (* regexp.go:251-254, 275-278, 424-430 *)
  Definition find_runes_match (fuel : nat) : res (option mt) := re_run fuel (-1) (-1).
  Definition find_runes_match_starting_at (fuel : nat) (startAt : Z) : res (option mt) := re_run fuel startAt (-1).
  Definition find_next_match (fuel : nat) (m : mt) : res (option mt) := re_run fuel (m_textpos m) (m_length m).

  (* An independent search: candidate positions from pos on, \G bound to textstart, no previous match. *)
  Definition search_from (fuel : nat) (textstart pos : Z) : res (option mt) := scan_loop fuel textstart pos.

  (* The caller-side iteration "m := first; for m != nil { ...; m = FindNextMatch(m) }".
     [fuel] bounds the number of matches, [sfuel] is handed to every scan. *)
  Fixpoint iterate_from (fuel sfuel : nat) (cur : option mt) : res (list mt) :=
    match cur with
    | None => Ok []
    | Some m =>
      match fuel with
      | O => Fuel
      | S f => do nx <- find_next_match sfuel m ;
               do rest <- iterate_from f sfuel nx ;
               Ok (m :: rest)
      end
    end.
  Definition iteration (fuel sfuel : nat) (startAt : Z) : res (list mt) :=
    do m0 <- find_runes_match_starting_at sfuel startAt ; iterate_from fuel sfuel m0.

  (* the fuel every loop is given: len+2 *)
  Definition dflt_fuel : nat := S (S (Z.to_nat len)).

  (* regexp.go:350-388 findAllRunesIndex (as fixed in eb87fbc): the loop proper.
     Returns the accepted matches in order; makeIndex is applied by the caller below. *)
  Fixpoint find_all_loop (fuel sfuel : nat) (startAt prevlen prevEnd n : Z) : res (list mt) :=
    if n =? 0 then Ok [] else                                            (* for n != 0 *)
    match fuel with
    | O => Fuel
    | S f =>
      do r <- scan sfuel startAt prevlen ;
      match r with
      | None => Ok []                                                    (* m == nil: break *)
      | Some m =>
        if negb (m_length m =? 0) || negb (m_index m =? prevEnd) then
          do rest <- find_all_loop f sfuel (m_textpos m) (m_length m) (m_textpos m) (if n >? 0 then n - 1 else n) ;
          Ok (m :: rest)
        else find_all_loop f sfuel (m_textpos m) (m_length m) prevEnd n
      end
    end.

  (* regexp.go:350-388 with makeIndex and the final "len(out)==0 -> nil" *)
  Definition find_all_runes_index_from (fuel sfuel : nat) (mk : Z -> Z -> Z * Z) (startAt n : Z) : res (slice (Z * Z)) :=
    do ms <- find_all_loop fuel sfuel startAt (-1) (-1) n ;
    Ok (slice_of_list (map (fun m => mk (m_index m) (m_length m)) ms)).

  (* regexp.go:328-348 FindAllRunesIndex *)
  Definition find_all_runes_index (fuel sfuel : nat) (n : Z) : res (slice (Z * Z)) :=
    if n =? 0 then Ok None else
    find_all_runes_index_from fuel sfuel (fun i l => (i, i + l)) (if rtl then len else 0) n.

  (* regexp.go:282-326 FindAllStringIndex. [cand] is the outcome of findStringMatchStart +
     decodeStringWithStart: None = the string prefilter rejected the input, Some r = rune index
     to start from (r<0, "not on a rune boundary", is replaced by 0).  [bi] = byteOffsets.byteIndex. *)
  Definition find_all_string_index (fuel sfuel : nat) (cand : option Z) (bi : Z -> Z) (n : Z) : res (slice (Z * Z)) :=
    if n =? 0 then Ok None else
    match cand with
    | None => Ok None
    | Some r => let r := if r <? 0 then 0 else r in
                find_all_runes_index_from fuel sfuel (fun i l => (bi i, bi (i + l))) r n
    end.

  (* regexp.go:235-249 FindStringMatch with the same [cand] *)
  Definition find_string_match (sfuel : nat) (cand : option Z) : res (option mt) :=
    match cand with
    | None => Ok None
    | Some r => re_run sfuel (if r <? 0 then 0 else r) (-1)
    end.

  (* ------------------------------------------------------------------ *)
  (* compat/regexp.go *)

  Variable off : Z -> Z.   (* rune index -> byte offset (Capture.ByteRange / byteOffsets; C08) *)

  (* compat/regexp.go:352-355 captureIndex over match.go:91-103 byteRange *)
  Definition capture_index (c : Z * Z) : list Z :=
    let '(i, l) := c in
    let start := off i in
    let length := off (i + l) - start in
    [start; start + length].

  (* compat/regexp.go:322-335 matchIndexes *)
  Definition match_indexes (m : mt) : list Z :=
    flat_map (fun g => match g with
                       | None => [-1; -1]
                       | Some c => capture_index c
                       end) (m_groups m).

  (* compat/regexp.go:287-305 forEachStringMatch; [cur] = the current m.  Returns the matches f was called with. *)
  Fixpoint for_each_loop (fuel sfuel : nat) (cur : option mt) (prevEnd n : Z) : res (list mt) :=
    match cur with
    | None => Ok []                                                      (* m != nil *)
    | Some m =>
      if n =? 0 then Ok [] else                                          (* && n != 0 *)
      match fuel with
      | O => Fuel
      | S f =>
        if negb (m_length m =? 0) || negb (m_index m =? prevEnd) then
          let prevEnd' := m_index m + m_length m in
          let n' := if n >? 0 then n - 1 else n in
          if (n >? 0) && (n' =? 0) then Ok [m]                            (* n--; if n == 0 break *)
          else do nx <- find_next_match sfuel m ;
               do rest <- for_each_loop f sfuel nx prevEnd' n' ;
               Ok (m :: rest)
        else do nx <- find_next_match sfuel m ;
             for_each_loop f sfuel nx prevEnd n
      end
    end.
  Definition for_each_string_match (fuel sfuel : nat) (cand : option Z) (n : Z) : res (list mt) :=
    do m0 <- find_string_match sfuel cand ;
    for_each_loop fuel sfuel m0 (-1) n.

  (* compat/regexp.go:270-281 FindAllStringSubmatchIndex (FindAllSubmatchIndex is the same on string(b)):
     "var out; append in the callback" -> nil exactly when nothing was delivered *)
  Definition compat_find_all_string_submatch_index (fuel sfuel : nat) (cand : option Z) (n : Z) : res (slice (list Z)) :=
    if n =? 0 then Ok None else
    do ms <- for_each_string_match fuel sfuel cand n ;
    Ok (slice_of_list (map match_indexes ms)).

  (* compat/regexp.go:215-219 FindAllStringIndex -> regexp2.FindAllStringIndex *)
  Definition compat_find_all_string_index (fuel sfuel : nat) (cand : option Z) (bi : Z -> Z) (n : Z) : res (slice (Z * Z)) :=
    find_all_string_index fuel sfuel cand bi n.

  (* compat/regexp.go:186-199 FindAllIndex: FindAllRunesIndex then loc[k] = byteOffsets[loc[k]]
     (byteOffsets == nil means the identity map; [off] covers both) *)
  Definition compat_find_all_index (fuel sfuel : nat) (n : Z) : res (slice (Z * Z)) :=
    do locs <- find_all_runes_index fuel sfuel n ;
    Ok (match locs with
        | None => None
        | Some l => Some (map (fun p => (off (fst p), off (snd p))) l)
        end).

  (* compat/regexp.go:154-166 FindStringSubmatchIndex, :96-103 FindStringIndex: nil on no match *)
  Definition compat_find_string_submatch_index (sfuel : nat) (cand : option Z) : res (slice Z) :=
    do m <- find_string_match sfuel cand ;
    Ok (match m with None => None | Some m => Some (match_indexes m) end).
  Definition compat_find_string_index (sfuel : nat) (cand : option Z) : res (slice Z) :=
    do m <- find_string_match sfuel cand ;
    Ok (match m with None => None | Some m => Some (capture_index (m_index m, m_length m)) end).

End Iter.

(* ---------------------------------------------------------------------- *)
(* Go's standard library, regexp/regexp.go (go1.25.0): the SPECIFICATION side of C06.
   Transcribed around an abstract single-match function
       M pos = re.doExecute(nil, b, s, pos, re.prog.NumCap, nil)   (nil = None)
   and  width pos = the width returned by input.step(pos) (0 at end of text). *)
Module Go.
Section G.
  Variable M : Z -> option (list Z).
  Variable width : Z -> Z.
  Variable end_ : Z.          (* len(s) or len(b) *)
  Variable num_subexp : Z.    (* re.numSubexp *)

  (* regexp.go:754-764 pad *)
  Fixpoint pad_to (k : nat) (a : list Z) : list Z :=
    match k with
    | O => a
    | S k' => pad_to k' (a ++ [-1])
    end.
  Definition pad (a : list Z) : list Z :=
    let n := (1 + num_subexp) * 2 in
    pad_to (Z.to_nat (n - zlen a)) a.

  (* regexp.go:769-814 allMatches: for pos, i, prevMatchEnd := 0, 0, -1; i < n && pos <= end; { ... } *)
  Fixpoint all_matches_loop (fuel : nat) (pos i prevMatchEnd n : Z) : res (list (list Z)) :=
    if (i <? n) && (pos <=? end_) then
      match fuel with
      | O => Fuel
      | S f =>
        match M pos with
        | None => Ok []                                        (* len(matches) == 0: break *)
        | Some [] => Ok []
        | Some matches =>
          match znth matches 0, znth matches 1 with
          | Some m0, Some m1 =>
            let accept := if m1 =? pos then negb (m0 =? prevMatchEnd) else true in
            let pos' := if m1 =? pos
                        then (let w := width pos in if w >? 0 then pos + w else end_ + 1)
                        else m1 in
            if accept then
              do rest <- all_matches_loop f pos' (i + 1) m1 n ;
              Ok (pad matches :: rest)                          (* deliver(re.pad(matches)); i++ *)
            else all_matches_loop f pos' i m1 n
          | _, _ => Crash 1                                    (* matches[1] out of range *)
          end
        end
      end
    else Ok [].

  Definition all_matches (fuel : nat) (n : Z) : res (list (list Z)) := all_matches_loop fuel 0 0 (-1) n.

  (* regexp.go:1166-1178 FindAllSubmatchIndex / :1208-1220 FindAllStringSubmatchIndex:
     if n < 0 { n = len + 1 }; result stays nil until the first deliver *)
  Definition find_all_submatch_index (fuel : nat) (n : Z) : res (slice (list Z)) :=
    let n := if n <? 0 then end_ + 1 else n in
    do l <- all_matches fuel n ;
    Ok (slice_of_list l).

  (* regexp.go:1096-1108 FindAllIndex / :1132-1144 FindAllStringIndex: append(result, match[0:2]) *)
  Definition find_all_index (fuel : nat) (n : Z) : res (slice (Z * Z)) :=
    let n := if n <? 0 then end_ + 1 else n in
    do l <- all_matches fuel n ;
    Ok (slice_of_list (map (fun a => (nth 0 a 0, nth 1 a 0)) l)).

  (* regexp.go:1041-1043 FindStringSubmatchIndex = pad(doExecute(... 0 ...)); :870-877 FindStringIndex = a[0:2] *)
  Definition find_submatch_index : slice Z :=
    match M 0 with
    | None => None
    | Some a => Some (pad a)
    end.
  Definition find_index : slice Z :=
    match M 0 with
    | None => None
    | Some a => Some (firstn 2 a)
    end.

  (* the fuel given to the loop: every turn either delivers or follows a delivery, so 2*(end+1)+2 turns suffice *)
  Definition dflt_fuel : nat := S (S (2 * S (Z.to_nat end_))).
End G.
End Go.
