(* Model of the state that survives between calls of dlclark/regexp2 (C11, C12).

   What is modelled concretely (line numbers: /repo working tree):
     - Runner fields (runner.go:17-71), scan's header (runner.go:116-135), initMatch (runner.go:1934-1982),
       tidyMatch (runner.go:1984-2008), Match.reset (match.go:185-192), ensureStorage/growTrack/doubleIntSlice
       (runner.go:982-1005, 1070-1088), getRunner/putRunner (runner.go:2207-2222),
       decodeString/decodeStringWithStart (runner.go:2176-2204);
     - the size-classed buffer pools (bufferpool.go), the replacement LRU (regexp.go:654-704, 208-224);
     - every public entry point as a program over atomic pool/cache actions (type [prog]).

   What is abstract: ONE match computation (the loop of runner.go:168-226 including findFirstChar and execute)
   is the oracle [e_interp : re -> view -> trace].  Its argument [view] lists exactly the runner state that
   scan/initMatch/putRunner (re)initialise; everything else in the runner is stale junk that [e_interp] cannot
   see.  THE HYPOTHESIS ON THE INTERPRETER (lead's VM lemmas reads_below_top / matches_read_bound) is therefore:
   "the interpreter's behaviour is a function of [view]", plus [segs_wf] (C13's capacity lemma) in the proofs.

   Runner fields and who resets them:
     re              constant (sync.Pool New)                                   -> index of the pool
     code            putRunner (:= re.code); entry points switch it to quickCode -> view (NOT reset by initMatch)
     debug,timeout,ignoreTimeout,Runtextstart,Runtext,Runtextend,Runtextpos  scan header -> view
     runmatch        initMatch: new, or reset (text,textstart,matchcount:=0,balancing:=false) -> view;
                     matches[][] contents/lengths, textpos, RuneIndex, RuneLength: STALE
     runtrack/runstack/runcrawl   allocated once by initMatch; later only the positions are reset to len
                     -> depths (=0) in view; CONTENTS and LENGTHS are STALE.  The track length is the one stale
                     quantity the computation can observe (growTrack refuses to grow past the limit): it is
                     modelled concretely by [run_segs] over the trace's check points.
     runtrackcount   initMatch on first allocation, from the code selected at that time; stale later -> view
     deadline        startTimeoutWatch when !ignoreTimeout, else stale and never read
     operator,codepos,rightToLeft,caseInsensitive   goTo(0) at the start of execute (codepos is compared
                     before being written: `0 <= r.codepos` holds for every stale value); STALE *)
From Verif Require Import Base.Prelude.

Inductive code_sel := Full | Quick.

(* read-only after Compile *)
Record re_cfg := {
  cfg_has_quick : bool;           (* re.quickCode != nil *)
  cfg_rtl : bool;                 (* RightToLeft option *)
  cfg_tc : code_sel -> Z;         (* code.TrackCount of either program *)
  cfg_capsize : Z;
  cfg_limit : Z;                  (* MaxBacktrackingStackSize (negative: none) *)
  cfg_max_rune : Z;               (* MaxCachedRuneBufferLength *)
  cfg_max_byte : Z;               (* MaxCachedReplaceBufferLength *)
  cfg_cache_max : Z;              (* MaxCachedReplacerDataEntries *)
  cfg_cache_bytes : Z;            (* MaxCachedReplacerDataBytes *)
  cfg_timeout : Z;                (* MatchTimeout *)
  cfg_debug : bool
}.

Definition max_int64 : Z := 9223372036854775807.

(* one of the three int stacks: length of the array, position of the top, stale contents *)
Record stk := { sk_len : Z; sk_pos : Z; sk_junk : list Z }.

(* the recycled Match object kept in Runner.runmatch *)
Record mobj := {
  mo_text : bool;                 (* m.text != nil *)
  mo_textstart : Z;
  mo_matchcount : list Z;
  mo_balancing : bool;
  mo_matches : list (list Z);     (* capture arrays: stale *)
  mo_textpos : Z; mo_index : Z; mo_length : Z   (* stale *)
}.

Record runner := {
  r_id : nat;                     (* identity of the object (ownership invariant of C11) *)
  r_code : code_sel;
  r_text : option (list Z);       (* Runtext; None = nil *)
  r_textstart : Z; r_textpos : Z; r_textend : Z;
  r_track : option stk; r_stack : option stk; r_crawl : option stk;   (* None = nil slice *)
  r_trackcount : Z;
  r_match : option mobj;
  r_ignore : bool; r_timeout : Z; r_deadline : Z; r_debug : bool;
  r_misc : list Z                 (* operator, codepos, rightToLeft, caseInsensitive *)
}.

(* what a match computation may read *)
Record view := {
  v_code : code_sel;
  v_text : list Z; v_textstart : Z; v_textpos : Z; v_textend : Z;
  v_ignore : bool; v_timeout : Z; v_debug : bool;
  v_tc : Z;
  v_tdepth : Z; v_sdepth : Z; v_cdepth : Z;
  v_info : bool; v_mtextstart : Z; v_matchcount : list Z; v_balancing : bool;
  v_quick : bool
}.

(* outcome of a successful match as left in runmatch by the interpreter *)
Record mdata := { md_index : Z; md_length : Z; md_textpos : Z; md_caps : list (list Z); md_balancing : bool }.

(* between two consecutive ensureStorage calls: depth of the track/stack at the call, maximal depth reached after it *)
Record seg := { sg_td : Z; sg_tmax : Z; sg_sd : Z; sg_smax : Z }.
Inductive term := TMatch (md : mdata) | TNone | TTimeout.
(* whatever the computation leaves behind in the fields nobody resets *)
Record junk := {
  j_track : list Z; j_tpos : Z; j_stack : list Z; j_spos : Z; j_crawl : list Z; j_cpos : Z; j_crawl_len : Z;
  j_matchcount : list Z; j_matches : list (list Z); j_balancing : bool;
  j_textpos : Z; j_misc : list Z
}.
Record trace := { tr_segs : list seg; tr_term : term; tr_junk : junk }.

Definition rdata := list Z.       (* parsed replacement (syntax.ReplacerData), opaque *)

(* pure functions of the library that are modelled elsewhere *)
Record env := {
  e_cfg : nat -> re_cfg;
  e_interp : nat -> view -> trace;
  e_decode : list Z -> list Z;                    (* `for _, ch := range s` *)
  e_rune_start : list Z -> Z -> Z;                (* runeStart of decodeStringWithStart (-1: none) *)
  e_ms_cand : nat -> list Z -> option Z;          (* MatchString: None = prefilter says no; Some b = matchStringAt(s, b) *)
  e_str_start : nat -> list Z -> Z -> bool -> res (option Z);
                                                  (* front half of FindStringMatch (false) / ...StartingAt (true):
                                                     error, no candidate, or the rune index handed to run *)
  e_fa_start : nat -> list Z -> res (option Z);   (* findStringMatchStart(s,-1) of FindAllStringIndex *)
  e_fa_index : list Z -> Z -> Z;                  (* stringByteMapper.byteIndex *)
  e_fa_emit : Z -> mdata -> bool;                 (* regexp.go:369/372 is this match reported (and counted) *)
  e_fa_edge : mdata -> Z;                         (* regexp.go:373/376 new prevEnd *)
  e_parse_repl : nat -> list Z -> res rdata;      (* syntax.NewReplacerData *)
  e_repl_out : bool -> rdata -> list Z -> list mdata -> list Z;   (* output assembled by replaceRunnerLTR/RTL *)
  e_replf_out : nat -> bool -> list Z -> list mdata -> list Z;    (* same with an evaluator *)
  e_split_out : list Z -> list mdata -> list (list Z);
  e_blen : list Z -> Z;                           (* UTF-8 length *)
  e_bytes_grow : Z -> Z -> Z;                     (* capacity chosen by bytes.Buffer when it must grow *)
  e_deadline : Z -> Z                             (* makeDeadline: reads the clock *)
}.

(* ---------- stacks: initMatch sizes, growTrack, ensureStorage ---------- *)

(* runner.go:1961-1972 *)
Definition init_tracksize (limit tc : Z) : Z :=
  let t := if tc * 8 <? 64 then 64 else tc * 8 in
  if (0 <=? limit) && (limit <? t) then limit else t.
Definition init_stacksize (tc : Z) : Z := if tc * 8 <? 32 then 32 else tc * 8.
Definition init_crawlsize : Z := 32.

(* runner.go:1070-1088 *)
Definition grow_track (limit old : Z) : option Z :=
  let n0 := old * 2 in
  let n1 := if n0 =? 0 then 1 else n0 in
  let n2 := if (0 <=? limit) && (limit <? n1) then limit else n1 in
  if n2 <=? old then None else Some n2.

Inductive seg_status := SegOk | SegErr | SegCrash.

(* runner.go:982-993 (with the re-check after a capped growth): lengths after the call, or refusal.
   d, sd: current depths (len - pos). *)
Definition ensure_storage (limit tc tl sl d sd : Z) : Z * Z * bool :=
  let sl1 := if sl - sd <? tc * 4 then sl * 2 else sl in
  if tl - d <? tc * 4 then
    match grow_track limit tl with
    | None => (tl, sl1, false)
    | Some tl1 => if tl1 - d <? tc * 4 then (tl1, sl1, false) else (tl1, sl1, true)
    end
  else (tl, sl1, true).

(* the run of the interpreter against the capacity of the two stacks: an index fault when a push passes the
   beginning of the array *)
Fixpoint run_segs (limit tc tl sl : Z) (segs : list seg) : Z * Z * seg_status :=
  match segs with
  | [] => (tl, sl, SegOk)
  | s :: rest =>
    let '(tl1, sl1, ok) := ensure_storage limit tc tl sl (sg_td s) (sg_sd s) in
    if negb ok then (tl1, sl1, SegErr)
    else if (tl1 <? sg_tmax s) || (sl1 <? sg_smax s) then (tl1, sl1, SegCrash)
    else run_segs limit tc tl1 sl1 rest
  end.

(* ---------- scan ---------- *)

Record sargs := { sa_text : list Z; sa_info : bool; sa_start : Z; sa_prevlen : Z; sa_quick : bool }.

Inductive sres := SMatch (md : mdata) | SNone | SErrLimit | SErrTimeout | SCrash.

(* runner.go:117-135 *)
Definition scan_header (cfg : re_cfg) (r : runner) (a : sargs) : runner :=
  {| r_id := r_id r; r_code := r_code r; r_text := Some (sa_text a);
     r_textstart := sa_start a; r_textpos := sa_start a; r_textend := zlen (sa_text a);
     r_track := r_track r; r_stack := r_stack r; r_crawl := r_crawl r; r_trackcount := r_trackcount r;
     r_match := r_match r;
     r_ignore := (cfg_timeout cfg =? max_int64); r_timeout := cfg_timeout cfg; r_deadline := r_deadline r;
     r_debug := cfg_debug cfg; r_misc := r_misc r |}.

(* match.go:163-177 *)
Definition new_match (cfg : re_cfg) (info : bool) (ts : Z) : mobj :=
  {| mo_text := info; mo_textstart := ts; mo_matchcount := repeat 0 (Z.to_nat (cfg_capsize cfg));
     mo_balancing := false; mo_matches := [[0; 0]]; mo_textpos := 0; mo_index := 0; mo_length := 0 |}.
(* match.go:185-192 *)
Definition reset_match (m : mobj) (info : bool) (ts : Z) : mobj :=
  {| mo_text := info; mo_textstart := ts; mo_matchcount := map (fun _ => 0) (mo_matchcount m);
     mo_balancing := false; mo_matches := mo_matches m; mo_textpos := mo_textpos m;
     mo_index := mo_index m; mo_length := mo_length m |}.

Definition top (s : stk) : stk := {| sk_len := sk_len s; sk_pos := sk_len s; sk_junk := sk_junk s |}.
Definition fresh_stk (n : Z) : stk := {| sk_len := n; sk_pos := n; sk_junk := [] |}.

(* runner.go:1934-1982 *)
Definition init_match (cfg : re_cfg) (info : bool) (r : runner) : runner :=
  let m := match r_match r with
           | None => new_match cfg info (r_textstart r)
           | Some m => reset_match m info (r_textstart r)
           end in
  match r_crawl r with
  | Some c =>
    {| r_id := r_id r; r_code := r_code r; r_text := r_text r; r_textstart := r_textstart r; r_textpos := r_textpos r;
       r_textend := r_textend r;
       r_track := option_map top (r_track r); r_stack := option_map top (r_stack r); r_crawl := Some (top c);
       r_trackcount := r_trackcount r; r_match := Some m;
       r_ignore := r_ignore r; r_timeout := r_timeout r; r_deadline := r_deadline r; r_debug := r_debug r;
       r_misc := r_misc r |}
  | None =>
    let tc := cfg_tc cfg (r_code r) in       (* initTrackCount, runner.go:2170-2174 *)
    {| r_id := r_id r; r_code := r_code r; r_text := r_text r; r_textstart := r_textstart r; r_textpos := r_textpos r;
       r_textend := r_textend r;
       r_track := Some (fresh_stk (init_tracksize (cfg_limit cfg) tc));
       r_stack := Some (fresh_stk (init_stacksize tc));
       r_crawl := Some (fresh_stk init_crawlsize);
       r_trackcount := tc; r_match := Some m;
       r_ignore := r_ignore r; r_timeout := r_timeout r; r_deadline := r_deadline r; r_debug := r_debug r;
       r_misc := r_misc r |}
  end.

Definition set_textpos (r : runner) (p : Z) : runner :=
  {| r_id := r_id r; r_code := r_code r; r_text := r_text r; r_textstart := r_textstart r; r_textpos := p;
     r_textend := r_textend r; r_track := r_track r; r_stack := r_stack r; r_crawl := r_crawl r;
     r_trackcount := r_trackcount r; r_match := r_match r; r_ignore := r_ignore r; r_timeout := r_timeout r;
     r_deadline := r_deadline r; r_debug := r_debug r; r_misc := r_misc r |}.

Definition set_code (r : runner) (c : code_sel) : runner :=
  {| r_id := r_id r; r_code := c; r_text := r_text r; r_textstart := r_textstart r; r_textpos := r_textpos r;
     r_textend := r_textend r; r_track := r_track r; r_stack := r_stack r; r_crawl := r_crawl r;
     r_trackcount := r_trackcount r; r_match := r_match r; r_ignore := r_ignore r; r_timeout := r_timeout r;
     r_deadline := r_deadline r; r_debug := r_debug r; r_misc := r_misc r |}.

Definition set_match (r : runner) (m : option mobj) : runner :=
  {| r_id := r_id r; r_code := r_code r; r_text := r_text r; r_textstart := r_textstart r; r_textpos := r_textpos r;
     r_textend := r_textend r; r_track := r_track r; r_stack := r_stack r; r_crawl := r_crawl r;
     r_trackcount := r_trackcount r; r_match := m; r_ignore := r_ignore r; r_timeout := r_timeout r;
     r_deadline := r_deadline r; r_debug := r_debug r; r_misc := r_misc r |}.

(* runner.go:2155-2160 *)
Definition start_watch (dl : Z -> Z) (r : runner) : runner :=
  if r_ignore r then r else
  {| r_id := r_id r; r_code := r_code r; r_text := r_text r; r_textstart := r_textstart r; r_textpos := r_textpos r;
     r_textend := r_textend r; r_track := r_track r; r_stack := r_stack r; r_crawl := r_crawl r;
     r_trackcount := r_trackcount r; r_match := r_match r; r_ignore := r_ignore r; r_timeout := r_timeout r;
     r_deadline := dl (r_timeout r); r_debug := r_debug r; r_misc := r_misc r |}.

Definition depth (s : stk) : Z := sk_len s - sk_pos s.

Definition view_of (r : runner) (quick : bool) : option view :=
  match r_text r, r_track r, r_stack r, r_crawl r, r_match r with
  | Some t, Some tk, Some st, Some cr, Some m =>
    Some {| v_code := r_code r; v_text := t; v_textstart := r_textstart r; v_textpos := r_textpos r;
            v_textend := r_textend r; v_ignore := r_ignore r; v_timeout := r_timeout r; v_debug := r_debug r;
            v_tc := r_trackcount r; v_tdepth := depth tk; v_sdepth := depth st; v_cdepth := depth cr;
            v_info := mo_text m; v_mtextstart := mo_textstart m; v_matchcount := mo_matchcount m;
            v_balancing := mo_balancing m; v_quick := quick |}
  | _, _, _, _, _ => None
  end.

(* a list cut or padded to length n: the interpreter never changes len(matchcount) *)
Definition fit (n : nat) (l : list Z) : list Z := firstn n (l ++ repeat 0 n).

(* the runner after the interpreter ran: new lengths, junk everywhere else *)
Definition post_exec (r : runner) (tl sl : Z) (j : junk) : runner :=
  {| r_id := r_id r; r_code := r_code r; r_text := r_text r; r_textstart := r_textstart r; r_textpos := j_textpos j;
     r_textend := r_textend r;
     r_track := Some {| sk_len := tl; sk_pos := j_tpos j; sk_junk := j_track j |};
     r_stack := Some {| sk_len := sl; sk_pos := j_spos j; sk_junk := j_stack j |};
     r_crawl := option_map (fun c => {| sk_len := Z.max (sk_len c) (j_crawl_len j); sk_pos := j_cpos j;
                                         sk_junk := j_crawl j |}) (r_crawl r);
     r_trackcount := r_trackcount r;
     r_match := option_map (fun m => {| mo_text := mo_text m; mo_textstart := mo_textstart m;
                                         mo_matchcount := fit (length (mo_matchcount m)) (j_matchcount j);
                                         mo_balancing := j_balancing j; mo_matches := j_matches j;
                                         mo_textpos := mo_textpos m; mo_index := mo_index m;
                                         mo_length := mo_length m |}) (r_match r);
     r_ignore := r_ignore r; r_timeout := r_timeout r; r_deadline := r_deadline r; r_debug := r_debug r;
     r_misc := j_misc j |}.

(* runner.go:1992-2007, the object stays in the runner *)
Definition tidy_keep (r : runner) (idx len : option Z) : runner :=
  set_match r (option_map (fun m => {| mo_text := mo_text m; mo_textstart := mo_textstart m;
                                        mo_matchcount := mo_matchcount m; mo_balancing := mo_balancing m;
                                        mo_matches := mo_matches m; mo_textpos := r_textpos r;
                                        mo_index := match idx with Some i => i | None => mo_index m end;
                                        mo_length := match len with Some i => i | None => mo_length m end |})
                          (r_match r)).

(* runner.go:1984-2008 on a successful match *)
Definition tidy_match (quick : bool) (r : runner) (md : mdata) : runner * sres :=
  if quick then (tidy_keep r (Some (md_index md)) (Some (md_length md)), SMatch md)
  else (set_match r None, SMatch md).          (* the object leaves the runner *)

(* runner.go:116-228 *)
Definition scan (cfg : re_cfg) (interp : view -> trace) (dl : Z -> Z) (r : runner) (a : sargs) : runner * sres :=
  let r1 := scan_header cfg r a in
  let stoppos := if cfg_rtl cfg then 0 else r_textend r1 in
  let bump := if cfg_rtl cfg then -1 else 1 in
  let r2 := init_match cfg (sa_info a) r1 in
  if (sa_prevlen a =? 0) && (r_textpos r2 =? stoppos) then (tidy_keep r2 None None, SNone)
  else
    let r3 := if sa_prevlen a =? 0 then set_textpos r2 (r_textpos r2 + bump) else r2 in
    let r4 := start_watch dl r3 in
    match view_of r4 (sa_quick a), r_track r4, r_stack r4 with
    | Some v, Some tk, Some st =>
      let tr := interp v in
      let '(tl, sl, status) := run_segs (cfg_limit cfg) (v_tc v) (sk_len tk) (sk_len st) (tr_segs tr) in
      let r5 := post_exec r4 tl sl (tr_junk tr) in
      match status with
      | SegErr => (r5, SErrLimit)               (* no tidyMatch: runmatch keeps whatever it had *)
      | SegCrash => (r5, SCrash)
      | SegOk =>
        match tr_term tr with
        | TTimeout => (r5, SErrTimeout)
        | TNone => (tidy_keep r5 None None, SNone)
        | TMatch md => tidy_match (sa_quick a) r5 md
        end
      end
    | _, _, _ => (r4, SCrash)
    end.

(* runner.go:2215-2221 (everything but the Put) *)
Definition put_reset (r : runner) : runner :=
  {| r_id := r_id r; r_code := Full; r_text := None; r_textstart := r_textstart r; r_textpos := r_textpos r;
     r_textend := r_textend r; r_track := r_track r; r_stack := r_stack r; r_crawl := r_crawl r;
     r_trackcount := r_trackcount r;
     r_match := option_map (fun m => {| mo_text := false; mo_textstart := mo_textstart m;
                                         mo_matchcount := mo_matchcount m; mo_balancing := mo_balancing m;
                                         mo_matches := mo_matches m; mo_textpos := mo_textpos m;
                                         mo_index := mo_index m; mo_length := mo_length m |}) (r_match r);
     r_ignore := r_ignore r; r_timeout := r_timeout r; r_deadline := r_deadline r; r_debug := r_debug r;
     r_misc := r_misc r |}.

(* regexp.go:642-647 *)
Definition fresh_runner (id : nat) : runner :=
  {| r_id := id; r_code := Full; r_text := None; r_textstart := 0; r_textpos := 0; r_textend := 0;
     r_track := None; r_stack := None; r_crawl := None; r_trackcount := 0; r_match := None;
     r_ignore := false; r_timeout := 0; r_deadline := 0; r_debug := false; r_misc := [] |}.

(* ---------- buffers (bufferpool.go) ---------- *)

Inductive bufkind := RuneBuf | ByteBuf.
(* b_data: the part of the backing array that has ever been written (stale); the rest is zero *)
Record buffer := { b_id : nat; b_cap : Z; b_data : list Z }.

(* bufferpool.go:23-36: index of the class, None = -1 *)
Fixpoint pool_index_from (i : nat) (sizes : list Z) (needed maxsz : Z) : option nat :=
  match sizes with
  | [] => None
  | c :: rest =>
    if needed <=? c then (if (0 <? maxsz) && (maxsz <? c) then None else Some i)
    else pool_index_from (S i) rest needed maxsz
  end.
Definition pool_index (sizes : list Z) (needed maxsz : Z) : option nat :=
  if maxsz =? 0 then None else pool_index_from 0 sizes needed maxsz.

(* decodeString's loop: overwrite [0,n), reslice to n.  None = index out of range *)
Definition write_buf (b : buffer) (out : list Z) : option buffer :=
  if b_cap b <? zlen out then None
  else Some {| b_id := b_id b; b_cap := b_cap b; b_data := out ++ skipn (length out) (b_data b) |}.
Definition read_buf (b : buffer) (n : nat) : list Z := firstn n (b_data b ++ repeat 0 n).

(* ---------- the replacement cache (regexp.go:674-704): front of the list = front of c.ll ---------- *)

Fixpoint cache_find (key : list Z) (c : list (list Z * rdata)) : option rdata :=
  match c with
  | [] => None
  | (k, d) :: c' => if zlist_eqb key k then Some d else cache_find key c'
  end.
Fixpoint cache_remove (key : list Z) (c : list (list Z * rdata)) : list (list Z * rdata) :=
  match c with
  | [] => []
  | (k, d) :: c' => if zlist_eqb key k then c' else (k, d) :: cache_remove key c'
  end.
Definition cache_get (key : list Z) (c : list (list Z * rdata)) : list (list Z * rdata) * option rdata :=
  match cache_find key c with
  | Some d => ((key, d) :: cache_remove key c, Some d)       (* MoveToFront *)
  | None => (c, None)
  end.
Definition cache_add (maxsz : Z) (key : list Z) (d : rdata) (c : list (list Z * rdata)) : list (list Z * rdata) :=
  match cache_find key c with
  | Some _ => (key, d) :: cache_remove key c                  (* overwrite + MoveToFront *)
  | None =>
    let c1 := (key, d) :: c in
    if (0 <? maxsz) && (maxsz <? zlen c1) then removelast c1 else c1
  end.

(* ---------- shared state ---------- *)

Record re_state := { rs_pool : list runner; rs_cache : list (list Z * rdata) }.
Record bufpools := { bp_sizes : list Z; bp_pools : list (list buffer) }.
Record gstate := { g_res : list re_state; g_rune : bufpools; g_byte : bufpools; g_next : nat }.

Definition rs_empty : re_state := {| rs_pool := []; rs_cache := [] |}.
Definition get_rs (g : gstate) (re : nat) : re_state := nth re (g_res g) rs_empty.
Fixpoint upd_nth {A} (n : nat) (x : A) (l : list A) : list A :=
  match l, n with
  | [], _ => []
  | _ :: l', O => x :: l'
  | y :: l', S n' => y :: upd_nth n' x l'
  end.
Definition set_rs (g : gstate) (re : nat) (rs : re_state) : gstate :=
  {| g_res := upd_nth re rs (g_res g); g_rune := g_rune g; g_byte := g_byte g; g_next := g_next g |}.
Definition get_bp (g : gstate) (bk : bufkind) : bufpools := match bk with RuneBuf => g_rune g | ByteBuf => g_byte g end.
Definition set_bp (g : gstate) (bk : bufkind) (bp : bufpools) : gstate :=
  match bk with
  | RuneBuf => {| g_res := g_res g; g_rune := bp; g_byte := g_byte g; g_next := g_next g |}
  | ByteBuf => {| g_res := g_res g; g_rune := g_rune g; g_byte := bp; g_next := g_next g |}
  end.
Definition bump_next (g : gstate) : gstate :=
  {| g_res := g_res g; g_rune := g_rune g; g_byte := g_byte g; g_next := S (g_next g) |}.

Fixpoint remove_nth {A} (n : nat) (l : list A) : list A :=
  match l, n with
  | [], _ => []
  | _ :: l', O => l'
  | y :: l', S n' => y :: remove_nth n' l'
  end.

(* sync.Pool.Get may hand back ANY pooled object or none at all: [pick] resolves it *)
Definition pick := option nat.
Definition take {A} (pk : pick) (l : list A) : option (A * list A) :=
  match pk with
  | Some i => match nth_error l i with Some x => Some (x, remove_nth i l) | None => None end
  | None => None
  end.

(* getRunner: runnerPool.Get(), New when the pool yields nothing *)
Definition act_get_runner (g : gstate) (re : nat) (pk : pick) : gstate * runner :=
  let rs := get_rs g re in
  match take pk (rs_pool rs) with
  | Some (r, rest) => (set_rs g re {| rs_pool := rest; rs_cache := rs_cache rs |}, r)
  | None => (bump_next g, fresh_runner (g_next g))
  end.
Definition act_put_runner (g : gstate) (re : nat) (r : runner) : gstate :=
  let rs := get_rs g re in set_rs g re {| rs_pool := r :: rs_pool rs; rs_cache := rs_cache rs |}.

(* bufferpool.go:38-52; the bool is `pooled != nil` *)
Definition act_get_buf (g : gstate) (bk : bufkind) (needed maxsz : Z) (pk : pick) : gstate * buffer * bool :=
  let bp := get_bp g bk in
  match pool_index (bp_sizes bp) needed maxsz with
  | None => (bump_next g, {| b_id := g_next g; b_cap := needed; b_data := [] |}, false)
  | Some idx =>
    let fresh := {| b_id := g_next g; b_cap := nth idx (bp_sizes bp) 0; b_data := [] |} in
    match take pk (nth idx (bp_pools bp) []) with
    | Some (b, rest) =>
      let g1 := set_bp g bk {| bp_sizes := bp_sizes bp; bp_pools := upd_nth idx rest (bp_pools bp) |} in
      if needed <=? b_cap b then (g1, b, true)
      else (bump_next g1, fresh, true)          (* the popped buffer is dropped *)
    | None => (bump_next g, fresh, true)
    end
  end.
(* bufferpool.go:54-61 *)
Definition act_put_buf (g : gstate) (bk : bufkind) (b : buffer) : gstate :=
  let bp := get_bp g bk in
  match pool_index (bp_sizes bp) (b_cap b) (-1) with
  | None => g
  | Some idx =>
    if b_cap b =? nth idx (bp_sizes bp) 0
    then set_bp g bk {| bp_sizes := bp_sizes bp;
                        bp_pools := upd_nth idx (b :: nth idx (bp_pools bp) []) (bp_pools bp) |}
    else g
  end.
Definition act_cache_get (g : gstate) (re : nat) (key : list Z) : gstate * option rdata :=
  let rs := get_rs g re in
  let '(c, o) := cache_get key (rs_cache rs) in
  (set_rs g re {| rs_pool := rs_pool rs; rs_cache := c |}, o).
Definition act_cache_add (cfg : re_cfg) (g : gstate) (re : nat) (key : list Z) (d : rdata) : gstate :=
  let rs := get_rs g re in
  set_rs g re {| rs_pool := rs_pool rs; rs_cache := cache_add (cfg_cache_max cfg) key d (rs_cache rs) |}.

(* ---------- programs: atomic actions on the shared state separated by local computation ---------- *)

Inductive prog (A : Type) : Type :=
| Ret (a : A)
| GetRunner (re : nat) (k : runner -> prog A)
| PutRunner (re : nat) (r : runner) (k : prog A)
| GetBuf (bk : bufkind) (needed maxsz : Z) (k : buffer -> bool -> prog A)
| PutBuf (bk : bufkind) (b : buffer) (k : prog A)
| CacheGet (re : nat) (key : list Z) (k : option rdata -> prog A)
| CacheAdd (re : nat) (key : list Z) (d : rdata) (k : prog A).
Arguments Ret {A} a.
Arguments GetRunner {A} re k.
Arguments PutRunner {A} re r k.
Arguments GetBuf {A} bk needed maxsz k.
Arguments PutBuf {A} bk b k.
Arguments CacheGet {A} re key k.
Arguments CacheAdd {A} re key d k.

Fixpoint pbind {A B} (p : prog A) (f : A -> prog B) : prog B :=
  match p with
  | Ret a => f a
  | GetRunner re k => GetRunner re (fun r => pbind (k r) f)
  | PutRunner re r k => PutRunner re r (pbind k f)
  | GetBuf bk n m k => GetBuf bk n m (fun b pooled => pbind (k b pooled) f)
  | PutBuf bk b k => PutBuf bk b (pbind k f)
  | CacheGet re key k => CacheGet re key (fun o => pbind (k o) f)
  | CacheAdd re key d k => CacheAdd re key d (pbind k f)
  end.

Inductive value :=
| VBool (b : bool)
| VMatch (m : option mdata)
| VIndexes (l : list (Z * Z))
| VText (t : list Z)
| VTexts (l : list (list Z)).
Definition result := res value.

Definition E_LIMIT : Z := 1.
Definition E_TIMEOUT : Z := 2.
Definition E_START_LARGE : Z := 3.
Definition E_START_ALIGN : Z := 4.
Definition E_COUNT : Z := 5.
Definition CRASH_INDEX : Z := 1.

Section Entries.
Variable E : env.

Definition do_scan (re : nat) (r : runner) (a : sargs) : runner * sres :=
  scan (e_cfg E re) (e_interp E re) (e_deadline E) r a.

Definition sres_match (sr : sres) : res (option mdata) :=
  match sr with
  | SMatch md => Ok (Some md)
  | SNone => Ok None
  | SErrLimit => Err E_LIMIT
  | SErrTimeout => Err E_TIMEOUT
  | SCrash => Crash CRASH_INDEX
  end.

(* regexp.go:80-98 *)
Definition p_run (re : nat) (quick : bool) (textstart prevlen : Z) (text : list Z) (info : bool)
  : prog (res (option mdata)) :=
  GetRunner re (fun r =>
    let cfg := e_cfg E re in
    let ts := if textstart <? 0 then (if cfg_rtl cfg then zlen text else 0) else textstart in
    let r1 := if quick && negb info && cfg_has_quick cfg then set_code r Quick else r in
    let '(r2, sr) := do_scan re r1 {| sa_text := text; sa_info := info; sa_start := ts; sa_prevlen := prevlen;
                                      sa_quick := quick |} in
    PutRunner re (put_reset r2) (Ret (sres_match sr))).

Definition as_bool (m : res (option mdata)) : result :=
  match m with
  | Ok (Some _) => Ok (VBool true) | Ok None => Ok (VBool false)
  | Err c => Err c | Crash w => Crash w | Fuel => Fuel
  end.
Definition as_match (m : res (option mdata)) : result :=
  match m with Ok o => Ok (VMatch o) | Err c => Err c | Crash w => Crash w | Fuel => Fuel end.

(* decodeString / decodeStringWithStart into a pooled buffer; the text the runner sees *)
Definition decode_into (b : buffer) (s : list Z) : option (buffer * list Z) :=
  let out := e_decode E s in
  match write_buf b out with
  | None => None
  | Some b1 => Some (b1, read_buf b1 (length out))
  end.

Definition put_buf_if {A} (pooled : bool) (bk : bufkind) (b : buffer) (k : prog A) : prog A :=
  if pooled then PutBuf bk b k else k.

(* regexp.go:450-482 *)
Definition p_match_string_at (re : nat) (s : list Z) (startAt : Z) : prog result :=
  let cfg := e_cfg E re in
  GetRunner re (fun r =>
  GetBuf RuneBuf (zlen s) (cfg_max_rune cfg) (fun b pooled =>
    match decode_into b s with
    | None => Ret (Crash CRASH_INDEX)            (* fault before the defer is registered *)
    | Some (b1, input) =>
      let runeStart :=
        if startAt <=? 0 then (if cfg_rtl cfg then zlen input else 0)
        else (let rs := e_rune_start E s startAt in if rs <? 0 then 0 else rs) in
      let r1 := if cfg_has_quick cfg then set_code r Quick else r in
      let '(r2, sr) := do_scan re r1 {| sa_text := input; sa_info := false; sa_start := runeStart;
                                        sa_prevlen := -1; sa_quick := true |} in
      PutRunner re (put_reset r2) (put_buf_if pooled RuneBuf b1 (Ret (as_bool (sres_match sr))))
    end)).

(* regexp.go:434-444 *)
Definition p_match_string (re : nat) (s : list Z) : prog result :=
  match e_ms_cand E re s with
  | None => Ret (Ok (VBool false))
  | Some b => p_match_string_at re s b
  end.

(* regexp.go:235-273 *)
Definition p_find_string (re : nat) (s : list Z) (startAt : Z) (at_variant : bool) : prog (res (option mdata)) :=
  match e_str_start E re s startAt at_variant with
  | Ok None => Ret (Ok None)
  | Ok (Some rs) => p_run re false rs (-1) (e_decode E s) true
  | Err c => Ret (Err c) | Crash w => Ret (Crash w) | Fuel => Ret Fuel
  end.

(* regexp.go:350-383: scans on one owned runner *)
Fixpoint find_all_loop (fuel : nat) (re : nat) (r : runner) (text : list Z) (startAt prevlen n prevEnd : Z)
  (acc : list (Z * Z)) : runner * res (list (Z * Z)) :=
  match fuel with
  | O => (r, Fuel)
  | S f =>
    if n =? 0 then (r, Ok (rev acc)) else
    let '(r1, sr) := do_scan re r {| sa_text := text; sa_info := false; sa_start := startAt;
                                     sa_prevlen := prevlen; sa_quick := true |} in
    match sr with
    | SMatch m =>
      if e_fa_emit E prevEnd m
      then find_all_loop f re r1 text (md_textpos m) (md_length m) (if 0 <? n then n - 1 else n) (e_fa_edge E m)
                         ((md_index m, md_index m + md_length m) :: acc)
      else find_all_loop f re r1 text (md_textpos m) (md_length m) n prevEnd acc
    | SNone => (r1, Ok (rev acc))
    | SErrLimit => (r1, Err E_LIMIT)
    | SErrTimeout => (r1, Err E_TIMEOUT)
    | SCrash => (r1, Crash CRASH_INDEX)
    end
  end.

Definition as_indexes (f : Z -> Z) (x : res (list (Z * Z))) : result :=
  match x with
  | Ok l => Ok (VIndexes (map (fun p => (f (fst p), f (snd p))) l))
  | Err c => Err c | Crash w => Crash w | Fuel => Fuel
  end.

(* regexp.go:282-326 *)
Definition p_find_all_string (fuel : nat) (re : nat) (s : list Z) (n : Z) : prog result :=
  let cfg := e_cfg E re in
  if n =? 0 then Ret (Ok (VIndexes [])) else
  match e_fa_start E re s with
  | Ok None => Ret (Ok (VIndexes []))
  | Err c => Ret (Err c) | Crash w => Ret (Crash w) | Fuel => Ret Fuel
  | Ok (Some startAt) =>
    GetRunner re (fun r =>
    GetBuf RuneBuf (zlen s) (cfg_max_rune cfg) (fun b pooled =>
      match decode_into b s with
      | None => Ret (Crash CRASH_INDEX)
      | Some (b1, input) =>
        let runeStart := if startAt =? 0 then 0
                         else (let rs := e_rune_start E s startAt in if rs <? 0 then 0 else rs) in
        let r1 := if cfg_has_quick cfg then set_code r Quick else r in
        let '(r2, out) := find_all_loop fuel re r1 input runeStart (-1) n (-1) [] in
        PutRunner re (put_reset r2) (put_buf_if pooled RuneBuf b1 (Ret (as_indexes (e_fa_index E s) out)))
      end))
  end.

(* regexp.go:330-348 *)
Definition p_find_all_runes (fuel : nat) (re : nat) (t : list Z) (n : Z) : prog result :=
  let cfg := e_cfg E re in
  if n =? 0 then Ret (Ok (VIndexes [])) else
  GetRunner re (fun r =>
    let startAt := if cfg_rtl cfg then zlen t else 0 in
    let r1 := if cfg_has_quick cfg then set_code r Quick else r in
    let '(r2, out) := find_all_loop fuel re r1 t startAt (-1) n (-1) [] in
    PutRunner re (put_reset r2) (Ret (as_indexes (fun x => x) out))).

(* regexp.go:208-224 *)
Definition should_cache (cfg : re_cfg) (repl : list Z) : bool :=
  (0 <? cfg_cache_max cfg)                                   (* re.replaceCache != nil, regexp.go:649 *)
  && negb (cfg_cache_max cfg =? 0)                           (* options.go:84 *)
  && ((cfg_cache_bytes cfg <? 0) || ((0 <? cfg_cache_bytes cfg) && (zlen repl <=? cfg_cache_bytes cfg))).

Definition p_replacer_data {A} (re : nat) (repl : list Z) (k : res rdata -> prog A) : prog A :=
  if should_cache (e_cfg E re) repl then
    CacheGet re repl (fun o =>
      match o with
      | Some d => k (Ok d)
      | None =>
        match e_parse_repl E re repl with
        | Ok d => CacheAdd re repl d (k (Ok d))
        | e => k e
        end
      end)
  else k (e_parse_repl E re repl).

(* the loops of replace.go:181-202 / 244-267: collect the matches on the owned runner *)
Fixpoint replace_loop (fuel : nat) (re : nat) (r : runner) (text : list Z) (m : mdata) (count : Z)
  (acc : list mdata) : runner * list mdata * res unit :=
  match fuel with
  | O => (r, rev acc, Fuel)
  | S f =>
    let acc1 := m :: acc in
    let count1 := count - 1 in
    if count1 =? 0 then (r, rev acc1, Ok tt) else
    let '(r1, sr) := do_scan re r {| sa_text := text; sa_info := true; sa_start := md_textpos m;
                                     sa_prevlen := md_length m; sa_quick := true |} in
    match sr with
    | SMatch m1 => replace_loop f re r1 text m1 count1 acc1
    | SNone => (r1, rev acc1, Ok tt)
    | SErrLimit => (r1, rev acc1, Err E_LIMIT)
    | SErrTimeout => (r1, rev acc1, Err E_TIMEOUT)
    | SCrash => (r1, rev acc1, Crash CRASH_INDEX)
    end
  end.

(* putPooledReplaceBuffer: the bytes.Buffer may have moved to a larger array *)
Definition out_buffer (b : buffer) (out : list Z) : buffer :=
  let n := e_blen E out in
  if n <=? b_cap b then {| b_id := b_id b; b_cap := b_cap b; b_data := out ++ skipn (length out) (b_data b) |}
  else {| b_id := b_id b; b_cap := e_bytes_grow E (b_cap b) n; b_data := out |}.

(* replace.go:147-276 *)
Definition p_replace_runner (fuel : nat) (re : nat) (data : rdata) (s : list Z) (startAt count : Z) : prog result :=
  let cfg := e_cfg E re in
  if zlen s <? startAt then Ret (Err E_START_LARGE) else
  GetRunner re (fun r =>
  GetBuf RuneBuf (zlen s) (cfg_max_rune cfg) (fun b pooled =>
    match decode_into b s with
    | None => Ret (Crash CRASH_INDEX)
    | Some (b1, text) =>
      let rs := e_rune_start E s startAt in
      let done (r' : runner) (v : result) : prog result :=
        PutRunner re (put_reset r') (put_buf_if pooled RuneBuf b1 (Ret v)) in
      if (0 <=? startAt) && (rs <? 0) then done r (Err E_START_ALIGN) else
      let runeStart := if rs <? 0 then (if cfg_rtl cfg then zlen text else 0) else rs in
      let '(r1, sr) := do_scan re r {| sa_text := text; sa_info := true; sa_start := runeStart;
                                       sa_prevlen := -1; sa_quick := true |} in
      match sr with
      | SNone => done r1 (Ok (VText (e_decode E s)))
      | SErrLimit => done r1 (Err E_LIMIT)
      | SErrTimeout => done r1 (Err E_TIMEOUT)
      | SCrash => done r1 (Crash CRASH_INDEX)
      | SMatch m =>
        GetBuf ByteBuf (zlen s) (cfg_max_byte cfg) (fun ob opooled =>
          let '(r2, ms, st) := replace_loop fuel re r1 text m count [] in
          let out := e_repl_out E (cfg_rtl cfg) data text ms in
          let v := match st with Ok _ => Ok (VText out) | Err c => Err c | Crash w => Crash w | Fuel => Fuel end in
          put_buf_if opooled ByteBuf (out_buffer ob out) (done r2 v))
      end
    end)).

(* the FindNextMatch loops of ReplaceFunc (replace.go:94-109, 118-133) *)
Fixpoint next_loop_replf (fuel : nat) (re : nat) (text : list Z) (m : mdata) (count : Z) (acc : list mdata)
  : prog (res (list mdata)) :=
  match fuel with
  | O => Ret Fuel
  | S f =>
    let acc1 := m :: acc in
    let count1 := count - 1 in
    if count1 =? 0 then Ret (Ok (rev acc1)) else
    pbind (p_run re false (md_textpos m) (md_length m) text true) (fun x =>
      match x with
      | Ok (Some m1) => next_loop_replf f re text m1 count1 acc1
      | Ok None => Ret (Ok (rev acc1))
      | Err c => Ret (Err c) | Crash w => Ret (Crash w) | Fuel => Ret Fuel
      end)
  end.

(* replace.go:65-145 *)
Definition p_replace_tail (fuel : nat) (re : nat) (data : option rdata) (ev : nat) (s : list Z) (startAt count : Z)
  : prog result :=
  if count <? -1 then Ret (Err E_COUNT) else
  if count =? 0 then Ret (Ok (VText [])) else
  match data with
  | Some d => p_replace_runner fuel re d s startAt count
  | None =>
    pbind (p_find_string re s startAt true) (fun x =>
      match x with
      | Ok None => Ret (Ok (VText (e_decode E s)))
      | Ok (Some m) =>
        let text := e_decode E s in
        pbind (next_loop_replf fuel re text m count []) (fun y =>
          match y with
          | Ok ms => Ret (Ok (VText (e_replf_out E ev (cfg_rtl (e_cfg E re)) text ms)))
          | Err c => Ret (Err c) | Crash w => Ret (Crash w) | Fuel => Ret Fuel
          end)
      | Err c => Ret (Err c) | Crash w => Ret (Crash w) | Fuel => Ret Fuel
      end)
  end.

(* regexp.go:199-206 *)
Definition p_replace (fuel : nat) (re : nat) (s repl : list Z) (startAt count : Z) : prog result :=
  p_replacer_data re repl (fun x =>
    match x with
    | Ok d => p_replace_tail fuel re (Some d) O s startAt count
    | Err c => Ret (Err c) | Crash w => Ret (Crash w) | Fuel => Ret Fuel
    end).

(* split.go:40-52: `for ; m != nil && count > 0; m, err = re.FindNextMatch(m)` — the post statement runs once
   more after count reached 0 *)
Fixpoint split_loop (fuel : nat) (re : nat) (text : list Z) (m : mdata) (count : Z) (acc : list mdata)
  : prog (res (list mdata)) :=
  match fuel with
  | O => Ret Fuel
  | S f =>
    let acc1 := m :: acc in
    let count1 := count - 1 in
    pbind (p_run re false (md_textpos m) (md_length m) text true) (fun x =>
      match x with
      | Ok (Some m1) => if 0 <? count1 then split_loop f re text m1 count1 acc1 else Ret (Ok (rev acc1))
      | Ok None => Ret (Ok (rev acc1))
      | Err c => Ret (Err c) | Crash w => Ret (Crash w) | Fuel => Ret Fuel
      end)
  end.

(* split.go:18-67 *)
Definition p_split (fuel : nat) (re : nat) (s : list Z) (count : Z) : prog result :=
  if count <? -1 then Ret (Err E_COUNT) else
  if count =? 0 then Ret (Ok (VTexts [])) else
  if count =? 1 then Ret (Ok (VTexts [e_decode E s])) else
  let count := if count =? -1 then max_int64 else count in
  pbind (p_find_string re s (-1) false) (fun x =>
    match x with
    | Ok None => Ret (Ok (VTexts [e_decode E s]))
    | Ok (Some m) =>
      let text := e_decode E s in
      pbind (split_loop fuel re text m count []) (fun y =>
        match y with
        | Ok ms => Ret (Ok (VTexts (e_split_out E text ms)))
        | Err c => Ret (Err c) | Crash w => Ret (Crash w) | Fuel => Ret Fuel
        end)
    | Err c => Ret (Err c) | Crash w => Ret (Crash w) | Fuel => Ret Fuel
    end).

Inductive op :=
| OMatchString (re : nat) (s : list Z)
| OMatchRunes (re : nat) (t : list Z)
| OFindStringMatch (re : nat) (s : list Z)
| OFindStringMatchAt (re : nat) (s : list Z) (startAt : Z)
| OFindRunesMatch (re : nat) (t : list Z)
| OFindRunesMatchAt (re : nat) (t : list Z) (startAt : Z)
| OFindNextMatch (re : nat) (prev : option (list Z * Z * Z))   (* text, textpos, RuneLength of m; None = nil *)
| OFindAllStringIndex (re : nat) (s : list Z) (n : Z)
| OFindAllRunesIndex (re : nat) (t : list Z) (n : Z)
| OReplace (re : nat) (s repl : list Z) (startAt count : Z)
| OReplaceFunc (re : nat) (s : list Z) (ev : nat) (startAt count : Z)
| OSplit (re : nat) (s : list Z) (count : Z).

Definition entry (fuel : nat) (o : op) : prog result :=
  match o with
  | OMatchString re s => p_match_string re s
  | OMatchRunes re t => pbind (p_run re true (-1) (-1) t false) (fun x => Ret (as_bool x))
  | OFindStringMatch re s => pbind (p_find_string re s (-1) false) (fun x => Ret (as_match x))
  | OFindStringMatchAt re s a => pbind (p_find_string re s a true) (fun x => Ret (as_match x))
  | OFindRunesMatch re t => pbind (p_run re false (-1) (-1) t true) (fun x => Ret (as_match x))
  | OFindRunesMatchAt re t a => pbind (p_run re false a (-1) t true) (fun x => Ret (as_match x))
  | OFindNextMatch re None => Ret (Ok (VMatch None))
  | OFindNextMatch re (Some (t, pos, len)) => pbind (p_run re false pos len t true) (fun x => Ret (as_match x))
  | OFindAllStringIndex re s n => p_find_all_string fuel re s n
  | OFindAllRunesIndex re t n => p_find_all_runes fuel re t n
  | OReplace re s repl a c => p_replace fuel re s repl a c
  | OReplaceFunc re s ev a c => p_replace_tail fuel re None ev s a c
  | OSplit re s c => p_split fuel re s c
  end.

(* ---------- sequential execution: one goroutine, the pool's nondeterminism resolved by [ch] ---------- *)

Fixpoint run_prog {A} (p : prog A) (g : gstate) (ch : list pick) : gstate * A :=
  match p with
  | Ret a => (g, a)
  | GetRunner re k => let '(g1, r) := act_get_runner g re (hd None ch) in run_prog (k r) g1 (tl ch)
  | PutRunner re r k => run_prog k (act_put_runner g re r) ch
  | GetBuf bk n m k => let '(g1, b, pooled) := act_get_buf g bk n m (hd None ch) in run_prog (k b pooled) g1 (tl ch)
  | PutBuf bk b k => run_prog k (act_put_buf g bk b) ch
  | CacheGet re key k => let '(g1, o) := act_cache_get g re key in run_prog (k o) g1 ch
  | CacheAdd re key d k => run_prog k (act_cache_add (e_cfg E re) g re key d) ch
  end.

Definition call (fuel : nat) (o : op) (g : gstate) (ch : list pick) : gstate * result :=
  run_prog (entry fuel o) g ch.

(* a garbage collection may empty any part of any sync.Pool *)
Fixpoint filter_idx {A} (f : nat -> bool) (i : nat) (l : list A) : list A :=
  match l with
  | [] => []
  | x :: l' => if f i then x :: filter_idx f (S i) l' else filter_idx f (S i) l'
  end.
Definition gc_bp (f : nat -> bool) (bp : bufpools) : bufpools :=
  {| bp_sizes := bp_sizes bp; bp_pools := map (filter_idx f 0) (bp_pools bp) |}.
Definition gc (f : nat -> bool) (g : gstate) : gstate :=
  {| g_res := map (fun rs => {| rs_pool := filter_idx f 0 (rs_pool rs); rs_cache := rs_cache rs |}) (g_res g);
     g_rune := gc_bp f (g_rune g); g_byte := gc_bp f (g_byte g); g_next := g_next g |}.

Inductive hstep := HCall (o : op) (ch : list pick) | HGc (f : nat -> bool).

Fixpoint run_history (fuel : nat) (h : list hstep) (g : gstate) : gstate * list result :=
  match h with
  | [] => (g, [])
  | HCall o ch :: h' =>
    let '(g1, v) := call fuel o g ch in
    let '(g2, vs) := run_history fuel h' g1 in (g2, v :: vs)
  | HGc f :: h' => run_history fuel h' (gc f g)
  end.

(* the state right after Compile of nre Regexps; the global pools hold nothing *)
Definition gstate0 (nre : nat) (rsizes bsizes : list Z) : gstate :=
  {| g_res := repeat rs_empty nre;
     g_rune := {| bp_sizes := rsizes; bp_pools := repeat [] (length rsizes) |};
     g_byte := {| bp_sizes := bsizes; bp_pools := repeat [] (length bsizes) |};
     g_next := O |}.

(* the value a call has on fresh state: every Get yields a new object, every cache lookup misses *)
Fixpoint ideal {A} (p : prog A) : A :=
  match p with
  | Ret a => a
  | GetRunner re k => ideal (k (fresh_runner O))
  | PutRunner re r k => ideal k
  | GetBuf bk n m k =>
    ideal (k {| b_id := O; b_cap := n; b_data := [] |} false)
  | PutBuf bk b k => ideal k
  | CacheGet re key k => ideal (k None)
  | CacheAdd re key d k => ideal k
  end.
Definition fresh_result (fuel : nat) (o : op) : result := ideal (entry fuel o).

(* ---------- concurrent execution (C11): goroutines are lists of calls, a schedule interleaves the atomic
   actions.  A goroutine may only Put an object it holds ([t_owned]); doing otherwise is an ownership fault. *)

Record thread := {
  t_cur : option (prog result);   (* the call in progress *)
  t_rest : list op;               (* calls still to make *)
  t_done : list result;           (* results so far, latest first *)
  t_owned : list nat              (* ids of pooled objects this goroutine holds *)
}.
Record config := { c_g : gstate; c_threads : list thread; c_fault : bool }.

Fixpoint remove_id (x : nat) (l : list nat) : list nat :=
  match l with
  | [] => []
  | y :: l' => if Nat.eqb x y then l' else y :: remove_id x l'
  end.
Definition owns (x : nat) (l : list nat) : bool := existsb (Nat.eqb x) l.

(* one atomic step of one goroutine; the bool reports an ownership fault *)
Definition tstep (fuel : nat) (g : gstate) (t : thread) (pk : pick) : gstate * thread * bool :=
  match t_cur t with
  | None =>
    match t_rest t with
    | [] => (g, t, false)
    | o :: rest => (g, {| t_cur := Some (entry fuel o); t_rest := rest; t_done := t_done t; t_owned := t_owned t |}, false)
    end
  | Some p =>
    let mk p' owned := {| t_cur := Some p'; t_rest := t_rest t; t_done := t_done t; t_owned := owned |} in
    match p with
    | Ret v => (g, {| t_cur := None; t_rest := t_rest t; t_done := v :: t_done t; t_owned := t_owned t |}, false)
    | GetRunner re k => let '(g1, r) := act_get_runner g re pk in (g1, mk (k r) (r_id r :: t_owned t), false)
    | PutRunner re r k =>
      if owns (r_id r) (t_owned t) then (act_put_runner g re r, mk k (remove_id (r_id r) (t_owned t)), false)
      else (g, t, true)
    | GetBuf bk n m k =>
      let '(g1, b, pooled) := act_get_buf g bk n m pk in
      (g1, mk (k b pooled) (if pooled then b_id b :: t_owned t else t_owned t), false)
    | PutBuf bk b k =>
      if owns (b_id b) (t_owned t) then (act_put_buf g bk b, mk k (remove_id (b_id b) (t_owned t)), false)
      else (g, t, true)
    | CacheGet re key k => let '(g1, o) := act_cache_get g re key in (g1, mk (k o) (t_owned t), false)
    | CacheAdd re key d k => (act_cache_add (e_cfg E re) g re key d, mk k (t_owned t), false)
    end
  end.

Definition cstep (fuel : nat) (c : config) (i : nat) (pk : pick) : config :=
  match nth_error (c_threads c) i with
  | None => c
  | Some t =>
    let '(g1, t1, bad) := tstep fuel (c_g c) t pk in
    {| c_g := g1; c_threads := upd_nth i t1 (c_threads c); c_fault := c_fault c || bad |}
  end.

Fixpoint run_sched (fuel : nat) (c : config) (sched : list (nat * pick)) : config :=
  match sched with
  | [] => c
  | (i, pk) :: s' => run_sched fuel (cstep fuel c i pk) s'
  end.

Definition spawn (ops : list op) : thread := {| t_cur := None; t_rest := ops; t_done := []; t_owned := [] |}.

End Entries.
