(* Model/FinalOpt.v — executable model of the OPTIONAL tree rewrites of syntax/tree.go (C05), on the raw
   nodes of Model/Parser.v.  No proofs in this file.  Line numbers: /repo/syntax/tree.go.

   Input: the tree syntax.Parse returns with every optional rewrite family switched off (verif gate mask
   31; Model/Parser.v models that parser).  [fo_final_optimize g .. t] is the tree syntax.Parse returns
   for the same pattern under gate mask [g] (syntax/verif_gate_on.go: a SET bit switches a family OFF:
   1 automatic atomic loops, 2 removal of ending backtracking, 4 bump-along marker, 8 atomic-alternation
   trimming / reordering, 16 alternation prefix factoring).

   Shape.  The families of finalOptimize (304-377) run on the finished tree and are modelled as such:
     fo_fa     findAndMakeLoopsAtomic (382-406)      fo_pn    processNode (408-484)
     fo_cbma   canBeMadeAtomic (887-1049)            fo_ee    eliminateEndingBacktracking (753-848)
     fo_body_last / fo_loop_last  FindLastExpressionInLoopForAutoAtomic (853-880)
     fo_bump   the UpdateBumpalong insertion (338-368)
   RegexNode.Parent is the list of [frame]s from the node to the root (parent type, the siblings to the
   right); canBeMadeAtomic's walk "up to the next concatenation we are not at the end of" pops frames.
   The gated branches that run DURING the parse (inside reduce: reduceLookaround 520,
   reduceExpressionConditional 578, reduceAtomic 586-715, reduceAlternation's extractCommonPrefixText
   1088-1201 / extractCommonPrefixOneNotoneSet 1206-1279) are modelled by reducing the gate-31 tree once
   more, bottom-up, every node after its children ([fo_rr]; addChild reduces every node exactly when it is
   complete), with the gated branches taken ([fo_reduce]); the mandatory reducers are those of
   Model/Parser.v.  That this post-pass gives the tree of the gated parse is what leg c05-opt checks
   (exact tree equality per pattern and mask).  Skipped altogether when the three reduce-time families
   are off (then nothing is reduced a second time in the code either).

   What the gate-31 tree does NOT carry, and the post-pass therefore cannot know: (a) a non-capturing group
   written directly inside an atomic group, (?>(?:a|b)): while the alternation is reduced its parent is the Group
   node, so 1183 / 1263 do not wrap the factored alternation; reduceGroup removes the Group afterwards (leg
   c05-opt leaves such patterns out when prefix factoring is on); (b) whether the condition of an expression
   conditional was written as a lookahead, (?(?=X)..), which reduceExpressionConditional unwraps: input
   [cond_look] (one bit per pattern, read off the pattern text by the leg; mixed spellings are left out).

   Two knobs that are NOT in the code (both 0 / false = the code as it is):
     strict (bits)  1: canBeMadeAtomic refuses the end of the expression once it has stepped over a \B
                       (known finding c05-nonboundary-end; the end of an atomic group is refused by the
                       code itself since ef188d6 / 1a8f8bf).  The other bits mark what the proofs do not
                       cover yet: 2: no walk up through, and no descent of processNode / FindLast... into,
                       a balancing capture; 4: no walk up out of an atomic group the walk itself descended
                       into (a successor of the loop); 8: reduceAtomic's reordering does not take a One / Multi
                       node with the RightToLeft bit as the start of a branch (the code tests the bit on the
                       Atomic node only; no parsed tree has such a node below a left-to-right Atomic).
     lite           the mandatory reducers are replaced by the identity wherever a gated branch re-reduces
                       a node (the proofs are about the lite pass; [lite = full] is a per-tree check).
   Oracles: cat_in (Model/CharClass.v), is_word_char = syntax.IsWordChar, is_ecma_word_char =
   syntax.IsECMAWordChar. *)
From Verif Require Import Base.Prelude Gen.ParseLitGen Model.Tree Model.ParseLit Model.CharClass Model.Parser.

Definition T_Boundary : Z := 16.
Definition T_Nonboundary : Z := 17.
Definition T_ECMABoundary : Z := 41.
Definition T_NonECMABoundary : Z := 42.
Definition T_Bump : Z := 46.

(* verifGate(bit): true = the family is switched OFF *)
Definition fo_gate (g bit : Z) : bool := negb (Z.land g bit =? 0).

Definition fo_not_ecma_word_class : cls := ranges_cls not_ecma_word_ranges.

(* RegexNode.Parent, as far as the code looks at it: the parent's type, whether it is a balancing
   capture, and the siblings to the right of the node.  [f_desc] is not in the code: the frame was pushed by
   canBeMadeAtomic's own descent into a successor (895-905), i.e. the parent does not contain the loop *)
Record frame : Type := mkF { f_t : Z; f_bal : bool; f_desc : bool; f_rights : list rnode }.

Definition fo_is_nil {A} (l : list A) : bool := match l with [] => true | _ => false end.

Fixpoint fo_map_res {A B} (f : A -> res B) (l : list A) : res (list B) :=
  match l with
  | [] => Ok []
  | a :: r => do b <- f a ; do r' <- fo_map_res f r ; Ok (b :: r')
  end.

(* first disjunct whose (cheap) guard and (possibly faulting) test both hold *)
Fixpoint fo_any (l : list (bool * (unit -> res bool))) : res bool :=
  match l with
  | [] => Ok false
  | (c, k) :: r => if c then (do b <- k tt ; if b then Ok true else fo_any r) else fo_any r
  end.
Definition fo_yes : unit -> res bool := fun _ => Ok true.

Definition fo_is_charloop (t : Z) : bool := (t =? T_Oneloop) || (t =? T_Notoneloop) || (t =? T_Setloop).
Definition fo_is_charlazy (t : Z) : bool := (t =? T_Onelazy) || (t =? T_Notonelazy) || (t =? T_Setlazy).

(* structural equality of nodes (every field, the sets with their bitmaps) *)
Definition fo_oset_eqb (a b : option cls) : bool :=
  match a, b with
  | None, None => true
  | Some x, Some y => zlist_eqb (e_cls x) (e_cls y)
  | _, _ => false
  end.
Fixpoint fo_rnode_eqb (a b : rnode) : bool :=
  match a, b with
  | RN t o ch m n str st kids, RN t2 o2 ch2 m2 n2 str2 st2 kids2 =>
      (t =? t2) && (o =? o2) && (ch =? ch2) && (m =? m2) && (n =? n2) && zlist_eqb str str2 && fo_oset_eqb st st2 &&
      (fix go (l1 l2 : list rnode) : bool :=
         match l1, l2 with
         | [], [] => true
         | x :: r1, y :: r2 => fo_rnode_eqb x y && go r1 r2
         | _, _ => false
         end) kids kids2
  end.
(* the fields of a node a parent's reducer can see without looking into the node's children *)
Definition fo_head_eqb (a b : rnode) : bool :=
  match a, b with
  | RN t o ch m n str st kids, RN t2 o2 ch2 m2 n2 str2 st2 kids2 =>
      (t =? t2) && (o =? o2) && (ch =? ch2) && (m =? m2) && (n =? n2) && zlist_eqb str str2 && fo_oset_eqb st st2 &&
      Nat.eqb (length kids) (length kids2)
  end.
Fixpoint fo_heads_eqb (l1 l2 : list rnode) : bool :=
  match l1, l2 with
  | [], [] => true
  | x :: r1, y :: r2 => fo_head_eqb x y && fo_heads_eqb r1 r2
  | _, _ => false
  end.
Definition fo_kids_eqb (l1 l2 : list rnode) : bool :=
  (fix go (l1 l2 : list rnode) : bool :=
     match l1, l2 with
     | [], [] => true
     | x :: r1, y :: r2 => fo_rnode_eqb x y && go r1 r2
     | _, _ => false
     end) l1 l2.

(* ---------------------------------------------------------------- the shape facts of a parsed tree the theorems
   of Properties/C05.v assume ([fo_wf], checked per tree by leg c05-opt): arities, loop counts, set nodes carry a
   canonical set without a bitmap, literals are not empty, no IgnoreCase bit outside back-references and captures
   (reduce clears it, tree.go:488-490; the root capture is never reduced) *)
Definition lk_of (t : Z) : option (ckind * lkind) :=
  if t =? 3 then Some (COne, LGreedy) else if t =? 4 then Some (CNotone, LGreedy) else if t =? 5 then Some (CSet, LGreedy)
  else if t =? 6 then Some (COne, LLazy) else if t =? 7 then Some (CNotone, LLazy) else if t =? 8 then Some (CSet, LLazy)
  else if t =? 43 then Some (COne, LAtomic) else if t =? 44 then Some (CNotone, LAtomic) else if t =? 45 then Some (CSet, LAtomic)
  else None.


Definition fo_is_leaf_t (t : Z) : bool :=
  match lk_of t with
  | Some _ => true
  | None => (t =? 9) || (t =? 10) || (t =? 11) || (t =? 12) || (t =? 13) || (t =? 22) || (t =? 23) || (t =? 46) ||
            match anchor_of_code t with Some _ => true | None => false end
  end.
Definition fo_arity_ok (t : Z) (nk : nat) : bool :=
  if fo_is_leaf_t t then Nat.eqb nk 0
  else if (t =? 26) || (t =? 27) || (t =? 28) || (t =? 30) || (t =? 31) || (t =? 32) then Nat.eqb nk 1
  else if t =? 33 then Nat.eqb nk 2
  else if t =? 34 then Nat.eqb nk 3
  else ((t =? 24) || (t =? 25)) && Nat.leb 2 nk.

Fixpoint cls_no_bitmap (c : cls) : bool :=
  match c with
  | Cls _ _ sb _ _ asc =>
      match asc with None => true | Some _ => false end && match sb with Some s => cls_no_bitmap s | None => true end
  end.


(* canonical ranges at every level (Proofs/CharClassProofs.canonical), as a test *)
Fixpoint sorted_fromb (prev : Z) (rs : list (Z * Z)) : bool :=
  match rs with
  | [] => true
  | (a, b) :: t => (prev + 1 <? a) && (a <=? b) && sorted_fromb b t
  end.
Definition canonical_rangesb (rs : list (Z * Z)) : bool :=
  match rs with
  | [] => true
  | (a, b) :: t => (a <=? b) && sorted_fromb b t
  end.
Fixpoint cls_canonicalb (c : cls) : bool :=
  match c with
  | Cls rs _ sb _ _ _ => canonical_rangesb rs && match sb with Some s => cls_canonicalb s | None => true end
  end.
Definition cls_okb (c : cls) : bool := cls_no_bitmap c && cls_canonicalb c.


Fixpoint fo_wf (x : rnode) : bool :=
  match x with
  | RN t o ch m n str st kids =>
      fo_arity_ok t (length kids) &&
      (if is_set_family t then match st with Some c => cls_okb c | None => false end else true) &&
      (match lk_of t with Some _ => (0 <=? m) && (m <=? n) && (m <? INF) | None => true end) &&
      (if (t =? 26) || (t =? 27) then (0 <=? m) && (m <=? n) && (m <? INF) else true) &&
      (if t =? 12 then negb (fo_is_nil str) && negb (useI o) else true) &&
      (if (t =? 13) || (t =? 28) then true else negb (useI o)) &&
      forallb fo_wf kids
  end.


(* reduceAtomic 587-592: `for child.T == NtAtomic { atomic = child; child = atomic.Children[0] }` *)
Fixpoint fo_innermost_atomic (x : rnode) : rnode :=
  match x with
  | RN _ _ _ _ _ _ _ kids =>
      match kids with
      | child :: _ => if n_t child =? T_Atomic then fo_innermost_atomic child else x
      | [] => x
      end
  end.

Section FinalOpt.
Variable cat_in : Z -> Z -> bool.
Variable is_word_char : Z -> bool.
Variable is_ecma_word_char : Z -> bool.

(* CharSet.CharIn / MayOverlap on the Set field of a node; a nil set is a nil dereference *)
Definition fo_char_in (s : option cls) (ch : Z) : res bool :=
  match s with Some c => Ok (char_in cat_in c ch) | None => Crash 40 end.
Definition fo_not_in (s : option cls) (ch : Z) : unit -> res bool :=
  fun _ => do b <- fo_char_in s ch ; Ok (negb b).
Definition fo_no_overlap (a b : option cls) : unit -> res bool :=
  fun _ => match a, b with
           | Some x, Some y => Ok (negb (may_overlap cat_in x y))
           | None, None => Ok false                                       (* set1.Equals(set2) *)
           | _, _ => Crash 41
           end.
Definition fo_str0 (x : rnode) (k : Z -> bool) : unit -> res bool :=
  fun _ => match n_str x with c :: _ => Ok (k c) | [] => Crash 48 end.    (* subsequent.Str[0] *)

(* ---------------------------------------------------------------- canBeMadeAtomic (887-1049) *)

(* 895-905: skip the successor down to the closest node that is guaranteed to follow *)
Fixpoint fo_descend (sub : rnode) (ctx : list frame) : rnode * list frame :=
  match sub with
  | RN t o _ m n _ _ kids =>
      match kids with
      | [] => (sub, ctx)
      | k :: ks =>
          if (t =? T_Concatenate) || (t =? T_Capture) || (t =? T_Atomic) ||
             ((t =? T_PosLook) && negb (useRTL o)) ||
             (((t =? T_Loop) || (t =? T_Lazyloop)) && (0 <? m))
          then fo_descend k (mkF t ((t =? T_Capture) && negb (n =? -1)) true ks :: ctx)
          else (sub, ctx)
      end
  end.

(* 939-1005: the node against one successor.  0 = false, 1 = true, 2 = true so far, look further (goto end) *)
Definition fo_verdict (n s : rnode) (allow_lazy : bool) : res Z :=
  let nt := n_t n in
  let st := n_t s in
  let sm := n_m s in
  let nm := n_m n in
  let ch := n_ch n in
  let sch := n_ch s in
  let two (yes skip : list (bool * (unit -> res bool))) : res Z :=
    do y <- fo_any yes ; if y then Ok 1 else do k <- fo_any skip ; Ok (if k then 2 else 0) in
  if (nt =? T_Oneloop) || ((nt =? T_Onelazy) && allow_lazy) then
    two [ ((st =? T_One) && negb (ch =? sch), fo_yes);
          ((st =? T_Notone) && (ch =? sch), fo_yes);
          (st =? T_Set, fo_not_in (n_set s) ch);
          (is_one_family st && (0 <? sm) && negb (ch =? sch), fo_yes);
          (is_notone_family st && (0 <? sm) && (ch =? sch), fo_yes);
          (is_set_family st && (0 <? sm), fo_not_in (n_set s) ch);
          (st =? T_Multi, fo_str0 s (fun c => negb (ch =? c)));
          (st =? T_End, fo_yes);
          ((st =? T_EndZ) && negb (ch =? 10), fo_yes);
          ((st =? T_Eol) && negb (ch =? 10), fo_yes) ]
        [ (is_oneloop_family st && (sm =? 0) && negb (ch =? sch), fo_yes);
          (is_notoneloop_family st && (sm =? 0) && (ch =? sch), fo_yes);
          (is_setloop_family st && (sm =? 0), fo_not_in (n_set s) ch);
          ((st =? T_Boundary) && (0 <? nm) && is_word_char ch, fo_yes);
          ((st =? T_Nonboundary) && (0 <? nm) && negb (is_word_char ch), fo_yes);
          ((st =? T_ECMABoundary) && (0 <? nm) && is_ecma_word_char ch, fo_yes);
          ((st =? T_NonECMABoundary) && (0 <? nm) && negb (is_ecma_word_char ch), fo_yes) ]
  else if (nt =? T_Notoneloop) || ((nt =? T_Notonelazy) && allow_lazy) then
    two [ ((st =? T_One) && (ch =? sch), fo_yes);
          (is_one_family st && (0 <? sm) && (ch =? sch), fo_yes);
          (st =? T_Multi, fo_str0 s (fun c => ch =? c));
          (st =? T_End, fo_yes) ]
        [ (is_oneloop_family st && (sm =? 0) && (ch =? sch), fo_yes) ]
  else if (nt =? T_Setloop) || ((nt =? T_Setlazy) && allow_lazy) then
    let ns := n_set n in
    let eq2 (a b : cls) := oset_equals ns (Some a) || oset_equals ns (Some b) in
    two [ (st =? T_One, fo_not_in ns sch);
          (st =? T_Set, fo_no_overlap ns (n_set s));
          (is_oneloop_family st && (0 <? sm), fo_not_in ns sch);
          (is_setloop_family st && (0 <? sm), fo_no_overlap ns (n_set s));
          (st =? T_Multi, fun _ => match n_str s with c :: _ => fo_not_in ns c tt | [] => Crash 48 end);
          (st =? T_End, fo_yes);
          (st =? T_EndZ, fo_not_in ns 10);
          (st =? T_Eol, fo_not_in ns 10) ]
        [ (is_oneloop_family st && (sm =? 0), fo_not_in ns sch);
          (is_setloop_family st && (sm =? 0), fo_no_overlap (n_set s) ns);
          ((st =? T_Boundary) && (0 <? nm) && eq2 word_class digit_class, fo_yes);
          ((st =? T_Nonboundary) && (0 <? nm) && eq2 pp_not_word_class pp_not_digit_class, fo_yes);
          ((st =? T_ECMABoundary) && (0 <? nm) && eq2 ecma_word_class ecma_digit_class, fo_yes);
          ((st =? T_NonECMABoundary) && (0 <? nm) && eq2 fo_not_ecma_word_class pp_not_digit_class, fo_yes) ]
  else Ok 0.

(* canBeMadeAtomicAfter (893-1071): [n] against the successor [sub] whose parents are [ctx].
   [seen]: steppedOverNonboundary (since ef188d6 / 1a8f8bf): the walk does not leave an atomic group once it has
   stepped over a \B; the calls for the branches of an alternation continue the walk of their caller *)
Fixpoint fo_cbma (fuel : nat) (strict : Z) (n sub : rnode) (ctx : list frame)
         (iter allow_lazy seen : bool) : res bool :=
  match fuel with
  | O => Fuel
  | S f =>
    let '(s, ctx1) := fo_descend sub ctx in
    if negb (n_o n =? n_o s) then Ok false                                (* 918 *)
    else if useRTL (n_o n) then Ok false                                  (* 925 *)
    else
      let st := n_t s in
      if (st =? T_Alternate) || ((st =? T_ExprCond) && (zlen (n_kids s) =? 3)) then    (* 935-943 *)
        (fix branches (ks : list rnode) : res bool :=
           match ks with
           | [] => Ok true
           | k :: ks' =>
               do b <- fo_cbma f strict n k (mkF st false true ks' :: ctx1) iter false seen ;
               if b then branches ks' else Ok false
           end) (n_kids s)
      else
        do v <- fo_verdict n s allow_lazy ;
        if v =? 1 then Ok true
        else if v =? 0 then Ok false
        else if negb iter then Ok false                                   (* 1019 *)
        else
          let seen1 := seen || (st =? T_Nonboundary) || (st =? T_NonECMABoundary) in   (* 1022-1024 *)
          (* 1026-1069 *)
          (fix up (c : list frame) : res bool :=
             match c with
             | [] => Ok (negb (Z.testbit strict 0 && seen1))              (* parent == nil: the root *)
             | fr :: c' =>
                 let pt := f_t fr in
                 if pt =? T_Atomic then (if seen1 || (Z.testbit strict 2 && f_desc fr) then Ok false else up c')
                 else if pt =? T_Alternate then up c'
                 else if pt =? T_Capture then (if Z.testbit strict 1 && f_bal fr then Ok false else up c')
                 else if pt =? T_Concatenate then
                   match f_rights fr with
                   | [] => up c'
                   | nx :: rs => fo_cbma f strict n nx (mkF T_Concatenate false (f_desc fr) rs :: c') iter allow_lazy seen1
                   end
                 else Ok false
             end) ctx1
  end.

(* ---------------------------------------------------------------- FindLastExpressionInLoopForAutoAtomic (853-880) *)
(* [k first last] decides about the last child of the body's concatenation; Some l = continue with it,
   rewritten to l *)
Fixpoint fo_body_last (strict : Z) (body : rnode) (k : rnode -> rnode -> res (option rnode)) : res (option rnode) :=
  match body with
  | RN t o ch m n str st kids =>
      if (t =? T_Capture) && Z.testbit strict 1 && negb (n =? -1) then Ok None
      else if t =? T_Capture then
        match kids with
        | [] => Crash 43
        | c :: cs => do r <- fo_body_last strict c k ;
                     Ok (match r with Some c' => Some (RN t o ch m n str st (c' :: cs)) | None => None end)
        end
      else if t =? T_Concatenate then
        match kids, rev kids with
        | first :: _, lastc :: rpre =>
            do r <- k first lastc ;
            Ok (match r with Some l' => Some (RN t o ch m n str st (rev (l' :: rpre))) | None => None end)
        | _, _ => Crash 44
        end
      else Ok None
  end.
Definition fo_loop_last (off : bool) (strict : Z) (lp : rnode) (k : rnode -> rnode -> res (option rnode)) : res (option rnode) :=
  if off then Ok None else
  match n_kids lp with
  | [] => Crash 45
  | b :: bs => do r <- fo_body_last strict b k ;
               Ok (match r with Some b' => Some (set_kids lp (b' :: bs)) | None => None end)
  end.

(* ---------------------------------------------------------------- processNode (408-484) *)
Fixpoint fo_pn (fuel : nat) (strict : Z) (node sub : rnode) (ctx : list frame) : res rnode :=
  match fuel with
  | O => Fuel
  | S f =>
    let t := n_t node in
    (* 434-483: the switch on the node the descent stopped at *)
    let leaf (nd : rnode) : res rnode :=
      let t := n_t nd in
      if fo_is_charloop t then
        do b <- fo_cbma f strict nd sub ctx true false false ;
        Ok (if b then make_loop_atomic nd else nd)
      else if fo_is_charlazy t then
        do b <- fo_cbma f strict nd sub ctx false true false ;
        Ok (if b then make_loop_atomic (set_t nd (t - (T_Onelazy - T_Oneloop))) else nd)   (* lazy to greedy *)
      else if (t =? T_Alternate) || (t =? T_BackRefCond) || (t =? T_ExprCond) then
        let kids := n_kids nd in
        let keep := if t =? T_ExprCond then firstn 1 kids else [] in
        let go := if t =? T_ExprCond then skipn 1 kids else kids in
        do go' <- fo_map_res (fun k => fo_pn f strict k sub ctx) go ;
        Ok (set_kids nd (keep ++ go'))
      else Ok nd in
    if (t =? T_Capture) && Z.testbit strict 1 && negb (n_n node =? -1) then Ok node
    else if (t =? T_Capture) || (t =? T_Concatenate) then                      (* 412-415 *)
      match rev (n_kids node) with
      | [] => Crash 42
      | lastk :: rpre => do l' <- fo_pn f strict lastk sub ctx ; Ok (set_kids node (rev (l' :: rpre)))
      end
    else if t =? T_Loop then                                              (* 421-427 *)
      do r <- fo_loop_last false strict node (fun first lastc =>
                do b <- fo_cbma f strict lastc first [] false false false ;
                if b then (do l' <- leaf lastc ; Ok (Some l')) else Ok None) ;
      match r with Some node' => Ok node' | None => Ok node end
    else leaf node
  end.

(* ---------------------------------------------------------------- findAndMakeLoopsAtomic (382-406) *)
(* the children are visited left to right BEFORE the pairs of this concatenation: while a child is visited
   its right siblings (and those of every ancestor) are still as parsed; when the pair (i, i+1) is
   processed every child has been visited and the pairs to the left are done *)
Fixpoint fo_fa (fuel : nat) (strict : Z) (x : rnode) (ctx : list frame) : res rnode :=
  match fuel with
  | O => Fuel
  | S f =>
    if useRTL (n_o x) then Ok x                                           (* 386 *)
    else
      let bal := (n_t x =? T_Capture) && negb (n_n x =? -1) in
      do kids1 <- (fix go (ks : list rnode) : res (list rnode) :=
                     match ks with
                     | [] => Ok []
                     | k :: ks' => do k' <- fo_fa f strict k (mkF (n_t x) bal false ks' :: ctx) ;
                                   do r <- go ks' ; Ok (k' :: r)
                     end) (n_kids x) ;
      if negb (n_t x =? T_Concatenate) then Ok (set_kids x kids1)
      else
        do kids2 <- (fix pairs (ks : list rnode) : res (list rnode) :=
                       match ks with
                       | a :: ((b :: rest) as tl) =>
                           do a' <- fo_pn f strict a b (mkF T_Concatenate false false rest :: ctx) ;
                           do r <- pairs tl ; Ok (a' :: r)
                       | _ => Ok ks
                       end) kids1 ;
        Ok (set_kids x kids2)
  end.

(* ---------------------------------------------------------------- reduceAtomic's alternation branch (612-707) *)
(* findBranchOneOrMultiStart (1333-1342) *)
Definition fo_fbs (x : rnode) : res (option rnode) :=
  let lead (b : rnode) := if (n_t b =? T_One) || (n_t b =? T_Multi) then Some b else None in
  if n_t x =? T_Concatenate
  then match n_kids x with [] => Crash 47 | b :: _ => Ok (lead b) end
  else Ok (lead x).
(* FirstCharOfOneOrMulti (2420) *)
Definition fo_first_char (b : rnode) : res Z :=
  if is_one_family (n_t b) then Ok (n_ch b)
  else match n_str b with c :: _ => Ok c | [] => Crash 48 end.
Definition fo_key (strict : Z) (x : rnode) : res (option Z * rnode) :=
  do s <- fo_fbs x ;
  match s with
  | None => Ok (None, x)
  | Some b => if Z.testbit strict 3 && useRTL (n_o b) then Ok (None, x)
              else do c <- fo_first_char b ; Ok (Some c, x)
  end.

(* 631-636: trim the branches after an Empty that is neither first nor last ([l] = branches[1:]) *)
Fixpoint fo_trim_from (l : list rnode) : list rnode :=
  match l with
  | [] => []
  | x :: r => if (n_t x =? T_Empty) && negb (fo_is_nil r) then [x] else x :: fo_trim_from r
  end.
Definition fo_trim (l : list rnode) : list rnode :=
  match l with [] => [] | b0 :: r => b0 :: fo_trim_from r end.

Fixpoint fo_span_eq (c : Z) (l : list (Z * rnode)) : list (Z * rnode) * list (Z * rnode) :=
  match l with
  | (c', x) :: r => if c' =? c then let (a, b) := fo_span_eq c r in ((c', x) :: a, b) else ([], l)
  | [] => ([], [])
  end.
(* 668-692 inside one range of One/Multi-led branches: [compare] stands at the head of [r].  The branches
   after the first one that starts differently which start like the head are moved in front of it, in
   order; then the same from that first different branch on *)
Fixpoint fo_reorder_run (fuel : nat) (r : list (Z * rnode)) : list (Z * rnode) * bool :=
  match fuel with
  | O => (r, false)
  | S f =>
    match r with
    | [] => ([], false)
    | (c, _) :: _ =>
        let (s, r') := fo_span_eq c r in
        match r' with
        | [] => (s, false)
        | x :: r'' =>
            let (mv, nm) := partition (fun p : Z * rnode => fst p =? c) r'' in
            let (rest, b) := fo_reorder_run f (x :: nm) in
            (s ++ mv ++ rest, negb (fo_is_nil mv) || b)
        end
    end
  end.
Fixpoint fo_take_run (l : list (option Z * rnode)) : list (Z * rnode) * list (option Z * rnode) :=
  match l with
  | (Some c, x) :: r => let (a, b) := fo_take_run r in ((c, x) :: a, b)
  | _ => ([], l)
  end.
(* 652-699: the maximal ranges of One/Multi-led branches; the branch that ends a range is skipped *)
Fixpoint fo_reorder (fuel : nat) (l : list (option Z * rnode)) : list rnode * bool :=
  match fuel with
  | O => (map snd l, false)
  | S f =>
    match l with
    | [] => ([], false)
    | (None, x) :: r => let (r', b) := fo_reorder f r in (x :: r', b)
    | (Some _, _) :: _ =>
        let (run, rest) := fo_take_run l in
        let (run', b1) := if 3 <=? zlen run then fo_reorder_run (S (length run)) run else (run, false) in
        match rest with
        | [] => (map snd run', b1)
        | (_, x) :: rest' => let (r', b2) := fo_reorder f rest' in (map snd run' ++ x :: r', b1 || b2)
        end
    end
  end.

(* ---------------------------------------------------------------- prefix extraction helpers *)
Fixpoint fo_common_prefix (a b : list Z) : list Z :=
  match a, b with
  | x :: a', y :: b' => if x =? y then x :: fo_common_prefix a' b' else []
  | _, _ => []
  end.

(* 1116-1150: the branches after the starting one: final shared text, number of branches that share it *)
Fixpoint fo_ept_scan (opts : Z) (span : list Z) (rest : list rnode) : res (list Z * nat) :=
  match rest with
  | [] => Ok (span, O)
  | b :: rest' =>
      do sn <- fo_fbs b ;
      match sn with
      | None => Ok (span, O)
      | Some s =>
          if negb (n_o s =? opts) then Ok (span, O)
          else if n_t s =? T_One then
            match span with
            | [] => Crash 49                                              (* startingSpan[0] *)
            | c0 :: _ =>
                if negb (c0 =? n_ch s) then Ok (span, O)
                else do r <- fo_ept_scan opts [c0] rest' ; Ok (fst r, S (snd r))
            end
          else
            match fo_common_prefix span (n_str s) with
            | [] => Ok (span, O)
            | cp => do r <- fo_ept_scan opts cp rest' ; Ok (fst r, S (snd r))
            end
      end
  end.

(* processOneOrMulti (1310-1326) *)
Definition fo_process_one_or_multi (x : rnode) (spanlen : Z) : rnode :=
  let 'RN t o ch m n str st kids := x in
  if t =? T_One then RN T_Empty o 0 m n str st kids
  else if zlen str =? spanlen then RN T_Empty o ch m n [] st kids
  else if zlen str - 1 =? spanlen then RN T_One o (last str 0) m n [] st kids
  else RN t o ch m n (skipn (Z.to_nat spanlen) str) st kids.
Definition fo_strip_branch (b : rnode) (spanlen : Z) : res rnode :=
  if n_t b =? T_Concatenate then
    match n_kids b with
    | [] => Crash 51
    | k :: ks => Ok (set_kids b (fo_process_one_or_multi k spanlen :: ks))
    end
  else Ok (fo_process_one_or_multi b spanlen).

(* 1235-1248: same leading node *)
Definition fo_same_lead (a b : rnode) : bool :=
  (n_t a =? n_t b) && (n_o a =? n_o b) && (n_m a =? n_m b) && (n_n a =? n_n b) && (n_ch a =? n_ch b) &&
  zlist_eqb (n_str a) (n_str b) && oset_equals (n_set a) (n_set b).
Fixpoint fo_epons_scan (req : rnode) (rest : list rnode) : res nat :=
  match rest with
  | [] => Ok O
  | b :: rest' =>
      match n_kids b with
      | [] => Crash 52
      | other :: _ => if fo_same_lead req other then do r <- fo_epons_scan req rest' ; Ok (S r) else Ok O
      end
  end.

(* ---------------------------------------------------------------- eliminateEndingBacktracking (753-848) and the gated reduce *)
(* [par_atomic]: node.Parent is an Atomic node (794).  [ptype]: the type of the parent the node is being
   added to (addChild / ReplaceChild set Parent before they reduce) *)
Fixpoint fo_ee (fuel : nat) (g : Z) (strict : Z) (lite : bool) (par_atomic : bool) (node : rnode) {struct fuel} : res rnode :=
  match fuel with
  | O => Fuel
  | S f =>
    if fo_gate g 2 then Ok node
    else
      let t := n_t node in
      let first_kid (pa : bool) (nd : rnode) : res rnode :=
        match n_kids nd with
        | [] => Crash 53
        | k :: ks => do k' <- fo_ee f g strict lite pa k ; Ok (set_kids nd (k' :: ks))
        end in
      (* 829-842 *)
      let as_loop (nd : rnode) : res rnode :=
        if n_n nd =? 1 then first_kid false nd
        else
          do r <- fo_loop_last false strict nd (fun first lastc =>
                    do b <- fo_cbma f strict lastc first [] false false false ;
                    if b then (do l' <- fo_ee f g strict lite false lastc ; Ok (Some l')) else Ok None) ;
          match r with Some nd' => Ok nd' | None => Ok nd end in
      if fo_is_charloop t || fo_is_charlazy t then Ok (make_loop_atomic node)              (* 764 *)
      else if (t =? T_Atomic) || (t =? T_PosLook) || (t =? T_NegLook) then first_kid (t =? T_Atomic) node
      else if (t =? T_Capture) || (t =? T_Concatenate) then                                (* 773-801 *)
        if (t =? T_Capture) && negb (n_n node =? -1) then Ok node
        else
          match rev (n_kids node) with
          | [] => Crash 54
          | ec :: rpre =>
              let et := n_t ec in
              if ((et =? T_Alternate) || (et =? T_BackRefCond) || (et =? T_ExprCond) || (et =? T_Loop) || (et =? T_Lazyloop))
                 && negb par_atomic then
                do c1 <- fo_reduce f g strict lite 0 T_Atomic ec ;                                  (* atomic.addChild(existingChild) *)
                do a1 <- fo_reduce f g strict lite 0 t (RN T_Atomic (n_o ec) 0 0 0 [] None [c1]) ;   (* node.ReplaceChild(last, atomic) *)
                (* node = existingChild: the walk goes on in the wrapped node *)
                do a2 <- (if n_t a1 =? T_Atomic then
                            match n_kids a1 with
                            | [c] => do c' <- fo_ee f g strict lite true c ; Ok (set_kids a1 [c'])
                            | _ => Ok a1
                            end
                          else Ok a1) ;
                Ok (set_kids node (rev (a2 :: rpre)))
              else
                do ec' <- fo_ee f g strict lite false ec ;
                Ok (set_kids node (rev (ec' :: rpre)))
          end
      else if (t =? T_Alternate) || (t =? T_BackRefCond) || (t =? T_ExprCond) then         (* 806-817 *)
        match n_kids node with
        | [] => Crash 55
        | k0 :: ks =>
            do ks' <- fo_map_res (fo_ee f g strict lite false) ks ;
            do k0' <- (if t =? T_ExprCond then Ok k0 else fo_ee f g strict lite false k0) ;
            Ok (set_kids node (k0' :: ks'))
        end
      else if t =? T_Lazyloop then as_loop (set_mn node (n_m node) (n_m node))             (* 826-828 *)
      else if t =? T_Loop then as_loop node
      else Ok node
  end

(* reduce (486-513) with the gated branches taken *)
with fo_reduce (fuel : nat) (g : Z) (strict : Z) (lite : bool) (mode : Z) (ptype : Z) (x : rnode) {struct fuel} : res rnode :=
  match fuel with
  | O => Fuel
  | S f =>
    let 'RN t o ch m n str st kids := x in
    let o1 := if t =? T_Ref then o else clear_I o in
    let x1 := RN t o1 ch m n str st kids in
    let mand (y : rnode) : res rnode := if lite then Ok y else reduce cat_in y in
    let red_alt_kid (y : rnode) : res rnode := fo_reduce f g strict lite 0 T_Alternate y in
    (* the consolidated node of 1161-1193 / 1255-1275: Concatenation(prefix, Alternation(branches)) *)
    let consolidate (opts : Z) (prefix : rnode) (brs : list rnode) : res rnode :=
      let na := RN T_Alternate opts 0 0 0 [] None brs in
      do na2 <- (if ptype =? T_Atomic
                 then do c <- fo_reduce f g strict lite 0 T_Atomic na ; Ok (RN T_Atomic opts 0 0 0 [] None [c])
                 else Ok na) ;
      do p' <- fo_reduce f g strict lite 0 T_Concatenate prefix ;
      do a' <- fo_reduce f g strict lite 0 T_Concatenate na2 ;
      fo_reduce f g strict lite 0 T_Alternate (RN T_Concatenate opts 0 0 0 [] None [p'; a']) in
    if t =? T_Alternate then
      if lite && fo_gate g 16 then Ok x1
      else
      match kids with
      | [] => Ok (mk_node T_Nothing o1)
      | [k] => Ok k
      | _ =>
          do s <- sl_run cat_in (mkSL [] false false 0) (flatten_alts kids) ;
          let y := replace_if_unnecessary (set_kids x1 (rev (sl_out s))) in
          if negb (n_t y =? T_Alternate) then Ok y
          else
            (* extractCommonPrefixText (1088-1201) *)
            do y1 <- (if fo_gate g 16 || useRTL (n_o y) then Ok y
                      else
                        do ks <- (fix loop (fu : nat) (done rem : list rnode) : res (list rnode) :=
                                    match fu with
                                    | O => Fuel
                                    | S fu' =>
                                      match rem with
                                      | [] => Ok done
                                      | [z] => Ok (done ++ [z])
                                      | z :: rest =>
                                          do sn <- fo_fbs z ;
                                          match sn with
                                          | None => Ok (done ++ rem)                       (* 1105: return n *)
                                          | Some s0 =>
                                              let opts := n_o s0 in
                                              let span0 := if n_t s0 =? T_One then [n_ch s0] else n_str s0 in
                                              do r <- fo_ept_scan opts span0 rest ;
                                              let '(span, k) := r in
                                              match k with
                                              | O => loop fu' (done ++ [z]) rest
                                              | S _ =>
                                                  let prefix := match span with
                                                                | [c] => RN T_One opts c 0 0 [] None []
                                                                | _ => RN T_Multi opts 0 0 0 span None []
                                                                end in
                                                  do brs <- fo_map_res (fun b =>
                                                              do b1 <- fo_strip_branch b (zlen span) ;
                                                              do b2 <- red_alt_kid b1 ;      (* branch.reduce() *)
                                                              red_alt_kid b2)                (* newAlternate.addChild(branch) *)
                                                            (z :: firstn k rest) ;
                                                  do nc <- consolidate opts prefix brs ;
                                                  loop fu' (done ++ [nc]) (skipn k rest)
                                              end
                                          end
                                      end
                                    end) (S (length (n_kids y))) [] (n_kids y) ;
                        Ok (match ks with [k] => k | _ => set_kids y ks end)) ;
            if negb (n_t y1 =? T_Alternate) then Ok y1
            else
              (* extractCommonPrefixOneNotoneSet (1206-1279) *)
              do y2 <- (if fo_gate g 16 || useRTL (n_o y1) then Ok y1
                        else if negb (forallb (fun c => (n_t c =? T_Concatenate) && (2 <=? zlen (n_kids c))) (n_kids y1)) then Ok y1
                        else
                          do ks <- (fix loop (fu : nat) (done rem : list rnode) : res (list rnode) :=
                                      match fu with
                                      | O => Fuel
                                      | S fu' =>
                                        match rem with
                                        | [] => Ok done
                                        | [z] => Ok (done ++ [z])
                                        | z :: rest =>
                                            match n_kids z with
                                            | [] => Crash 52
                                            | req :: _ =>
                                                let rt := n_t req in
                                                if negb (is_one_family rt || is_notone_family rt || is_set_family rt) || negb (n_m req =? n_n req)
                                                then loop fu' (done ++ [z]) rest
                                                else
                                                  do k <- fo_epons_scan req rest ;
                                                  match k with
                                                  | O => loop fu' (done ++ [z]) rest
                                                  | S _ =>
                                                      do brs <- fo_map_res (fun b => red_alt_kid (set_kids b (tl (n_kids b))))
                                                                (z :: firstn k rest) ;
                                                      do nc <- consolidate (n_o y1) req brs ;
                                                      loop fu' (done ++ [nc]) (skipn k rest)
                                                  end
                                            end
                                        end
                                      end) (S (length (n_kids y1))) [] (n_kids y1) ;
                          Ok (replace_if_unnecessary (set_kids y1 ks))) ;
              if n_t y2 =? T_Alternate then Ok (remove_redundant y2) else Ok y2
      end
    else if t =? T_Atomic then
      (* reduceAtomic (586-715) *)
      let atomic := fo_innermost_atomic x1 in
      match n_kids atomic with
      | [] => Crash 22
      | child :: crest =>
          let ct := n_t child in
          let dflt (c : rnode) : res rnode :=
            do c' <- fo_ee f g strict lite true c ; Ok (set_kids atomic (c' :: crest)) in
          if (ct =? T_Empty) || (ct =? T_Nothing) then Ok child
          else if is_atomicloop_family ct then Ok child
          else if fo_is_charloop ct || fo_is_charlazy ct then Ok (make_loop_atomic child)
          else if (ct =? T_Alternate) && negb (useRTL o1) then
            if fo_gate g 8 then dflt child
            else
              match n_kids child with
              | [] => Crash 46
              | b0 :: _ =>
                  if n_t b0 =? T_Empty then Ok (mk_node T_Empty (n_o child))          (* 623 *)
                  else
                    do keyed <- fo_map_res (fo_key strict) (fo_trim (n_kids child)) ;
                    let (brs, reordered) := fo_reorder (S (length keyed)) keyed in
                    let child1 := set_kids child brs in
                    do child2 <- (if reordered then fo_reduce f g strict lite 0 T_Atomic child1 else Ok child1) ;
                    dflt child2
              end
          else dflt child
      end
    else if (t =? T_PosLook) || (t =? T_NegLook) then
      (* reduceLookaround (516-540) *)
      do x2 <- fo_ee f g strict lite false x1 ;
      match n_kids x2 with
      | [] => Crash 21
      | k :: _ => if n_t k =? T_Empty
                  then Ok (RN (if t =? T_PosLook then T_Empty else T_Nothing) o1 ch m n str st [])
                  else Ok x2
      end
    else if t =? T_ExprCond then
      (* reduceExpressionConditional (556-581) *)
      if mode =? 0 then
        do x2 <- (if lite then Ok x1
                  else
                    let kids2 := match kids with [_; _] => kids ++ [mk_node T_Empty o1] | _ => kids end in
                    match kids with
                    | [] => Crash 28
                    | cond :: _ =>
                        if (n_t cond =? T_PosLook) && negb (useRTL (n_o cond)) then
                          match n_kids cond with
                          | [] => Crash 29
                          | c :: _ => do c' <- fo_reduce f g strict lite 0 T_ExprCond c ;
                                      Ok (RN t o1 ch m n str st (c' :: tl kids2))
                          end
                        else Ok (RN t o1 ch m n str st kids2)
                    end) ;
        match n_kids x2 with
        | [] => Crash 28
        | c :: r => do c' <- fo_ee f g strict lite false c ; Ok (set_kids x2 (c' :: r))
        end
      else
        (* the visit of [fo_rr]: the condition of the gate-31 tree has been through 570-573 already.  Mode 2: it
           was written as a lookahead (?(?=X)..): X was inside the PosLook node when that node was reduced
           (reduceLookaround: ending backtracking removed, an Empty child makes the node Empty), then taken out
           and reduced again (ReplaceChild), then 577-578.  Mode 1: it was written bare: 577-578 only. *)
        match kids with
        | [] => Crash 28
        | c :: r =>
            if mode =? 2 then
              do c1 <- fo_ee f g strict lite false c ;
              if n_t c1 =? T_Empty then Ok (RN t o1 ch m n str st (mk_node T_Empty o1 :: r))      (* the PosLook node itself, 530-536 *)
              else
                do c2 <- fo_reduce f g strict lite 0 T_ExprCond c1 ;
                do c3 <- fo_ee f g strict lite false c2 ;
                Ok (RN t o1 ch m n str st (c3 :: r))
            else
              do c' <- fo_ee f g strict lite false c ; Ok (RN t o1 ch m n str st (c' :: r))
        end
    else mand x1
  end.

(* every node is reduced once, after its children (addChild); the root capture never is.  A node whose children
   still LOOK the same to a reducer (same fields, same number of children: a gated branch only changed something
   deeper, in place) has been through its mandatory reducer with these children already, in the gate-31 parse,
   so only the node types with a gated branch are reduced again then; the others keep their shape
   (re-running a mandatory reducer on a finished tree is NOT the identity: a right-to-left concatenation is
   reversed after its reduction, nested groups are flattened after the adjacent loops were merged). *)
Definition fo_has_gated_branch (t : Z) : bool :=
  (t =? T_Alternate) || (t =? T_Atomic) || (t =? T_PosLook) || (t =? T_NegLook) || (t =? T_ExprCond).
Fixpoint fo_rr (fuel : nat) (g : Z) (strict : Z) (lite : bool) (mode : Z) (ptype : Z) (x : rnode) : res rnode :=
  match fuel with
  | O => Fuel
  | S f =>
      do kids' <- fo_map_res (fo_rr f g strict lite mode (n_t x)) (n_kids x) ;
      if fo_heads_eqb kids' (n_kids x) && negb (fo_has_gated_branch (n_t x)) then Ok (set_kids x kids')
      else fo_reduce (S (S f)) g strict lite mode ptype (set_kids x kids')
  end.

(* ---------------------------------------------------------------- the bump-along marker (338-368) *)
(* the rewritten node, and the marker to insert after it when it is the first child of a concatenation *)
Fixpoint fo_bump (fuel : nat) (g : Z) (node : rnode) (aba committing : bool) : res (rnode * option rnode) :=
  match fuel with
  | O => Fuel
  | S f =>
    let t := n_t node in
    if t =? T_Atomic then
      match n_kids node with
      | [] => Crash 50
      | k :: ks => do r <- fo_bump f g k aba (committing || negb aba) ; Ok (set_kids node (fst r :: ks), None)
      end
    else if t =? T_Concatenate then
      match n_kids node with
      | [] => Crash 50
      | k :: ks =>
          do r <- fo_bump f g k false committing ;
          Ok (match snd r with
              | Some mk => set_kids node (fst r :: mk :: ks)
              | None => set_kids node (fst r :: ks)
              end, None)
      end
    else if (n_n node =? pp_inf) &&
            (fo_is_charloop t || is_atomicloop_family t || (fo_is_charlazy t && negb aba && negb committing)) then
      Ok (node, if fo_gate g 4 then None else Some (RN T_Bump (n_o node) 0 0 0 [] None []))
    else Ok (node, None)
  end.

(* ---------------------------------------------------------------- finalOptimize (304-377) *)
Definition fo_final_passes (fuel : nat) (g strict : Z) (lite : bool) (r0 : rnode) : res rnode :=
  if useRTL (n_o r0) then Ok r0
  else
    do r1 <- (if fo_gate g 1 then Ok r0 else fo_fa fuel strict r0 []) ;
    do r2 <- fo_ee fuel g strict lite false r1 ;
    match n_kids r2 with
    | [] => Crash 56
    | k :: ks => do r <- fo_bump fuel g k true false ; Ok (set_kids r2 (fst r :: ks))
    end.

(* the tree of the parse under mask [g] from the tree of the parse under mask 31 *)
Definition fo_final_optimize (fuel : nat) (g strict : Z) (lite cond_look : bool) (root : rnode) : res rnode :=
  do r0 <- (if fo_gate g 2 && fo_gate g 8 && fo_gate g 16 then Ok root
            else do kids' <- fo_map_res (fo_rr fuel g strict lite (if cond_look then 2 else 1) (n_t root)) (n_kids root) ;
                 Ok (set_kids root kids')) ;
  fo_final_passes fuel g strict lite r0.

End FinalOpt.
