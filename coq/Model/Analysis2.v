(* Compile-time analyses of the regular-expression tree (C04, second part): executable models, written
   line by line from the Go code (line numbers of /repo as of the commits that fixed the three defects
   found while modelling: newRegexFc `ch < utf8.MaxRune`, findFixedDistanceString `utf8.ValidRune`,
   findLiteralFollowingLeadingLoop decoding the UTF-8 prefix and giving up on U+FFFD), of

     try_ffcc / find_first_char_class   syntax/prefixanalyzer.go:19-211   findFirstCharClass / tryFindFirstCharClass
     ci_prefix                          syntax/prefixanalyzer.go:214-236 + tree.go:2222 TryGetOrdinalCaseInsensitiveString
     fp_core / find_prefixes            syntax/prefixanalyzer.go:428-699  findPrefixes / findPrefixesCore
     raw_fixed / find_fixed_distance_sets  syntax/prefixanalyzer.go:707-939  findFixedDistanceSets / tryFindRawFixedSets
     find_fixed_distance_string         syntax/optimizations.go:629-690   findFixedDistanceString
     find_lit_after_loop                syntax/prefixanalyzer.go:1158-1300 findLiteralFollowingLeadingLoop
     find_landmark_chain                syntax/prefixanalyzer.go:1302-1475 findRequiredLandmarkChain and helpers
     fc_walk / first_chars_prefix       syntax/prefix.go:18-314           getFirstCharsPrefix / regexFCFromRegexTree / calculateFC

   Classes: a Set node of Tree.node carries a set id; [sets] maps ids to the CharSet structure
   (Model/CharClass.cls, the order of Code.Sets).  Where the Go code only moves a *CharSet around, the
   model moves the id; where it computes on the class (addChar, addRanges, addSet, Copy, IsMergeable,
   GetSetChars, CharIn ...) it uses the C16 model.  Oracles (Section variables): [cat_in] (Unicode
   category membership, needed by canonicalize and CharIn), [part_cc] (participatesInCaseConversion),
   [to_lower] (unicode.ToLower, only for the legacy addLowercase).

   Nodes without an option word in Tree.node (anchors, Empty, Nothing, UpdateBumpalong, Atomic, Group) are
   taken as left-to-right wherever the Go code tests node.Options&RightToLeft: the functions that test it
   are only run on left-to-right patterns and never descend into a lookaround, so every node they visit has
   the pattern's direction (leg c04-analysis2 runs them exactly where optimizations.go does).

   Go maps: tryFindRawFixedSets iterates `combined` (a map) in random order; the model uses insertion
   order.  The order only matters for the position of the entries in the result (the leg compares
   sorted lists) and, when the 50-result cap is reached inside that loop, for WHICH entries are kept.
   No proofs in this file. *)
From Verif Require Import Base.Prelude Base.Utf8 Model.Tree Model.CharClass Model.Analysis.

Definition MAXR : Z := 1114111.                        (* unicode.MaxRune *)

(* ---------- small CharSet methods not in Model/CharClass.v (charclass.go) ---------- *)

Definition is_mergeable (c : cls) : bool := negb (neg c) && no_sub c.       (* :498 IsMergeable *)
Definition is_empty_cls (c : cls) : bool :=                                 (* :510 IsEmpty *)
  match ranges c, cats c with [], [] => no_sub c | _, _ => false end.

(* :170 Copy: deep copy; the ASCII bitmaps are not copied *)
Fixpoint cls_copy (c : cls) : cls :=
  match c with
  | Cls rs cs sb ng an _ => Cls rs cs (match sb with Some s => Some (cls_copy s) | None => None end) ng an None
  end.

(* :1396 GetIfNRanges(1) *)
Definition get_if_one_range (c : cls) : option (Z * Z) :=
  match cats c with
  | _ :: _ => None
  | [] => if no_sub c then match ranges c with [r] => Some r | _ => None end else None
  end.

Definition is_ascii_letter (c : Z) : bool := ((65 <=? c) && (c <=? 90)) || ((97 <=? c) && (c <=? 122)).

(* ---------- tree predicate used as a hypothesis of the C04 theorems of this file ---------- *)
(* every literal rune lies in 0..MaxRune (a pattern is a Go string or an escape of at most 0x10FFFF) and no
   Multi node is empty (tree.go turns an empty string into Empty); nothing is required inside lookarounds and
   inside the condition of an expression conditional.  Recomputed by leg c04-analysis2 on every exported tree. *)
Definition rune_ok (c : Z) : bool := (0 <=? c) && (c <=? MAXR).

Fixpoint lits_ok (t : node) : bool :=
  match t with
  | NChar CSet _ _ => true
  | NChar _ _ c => rune_ok c
  | NCharLoop CSet _ _ _ _ _ => true
  | NCharLoop _ _ _ c _ _ => rune_ok c
  | NMulti _ s => match s with [] => false | _ => forallb rune_ok s end
  | NConcat _ l => forallb lits_ok l
  | NAlternate _ l => forallb lits_ok l
  | NLoop _ _ _ _ r => lits_ok r
  | NCapture _ _ _ r => lits_ok r
  | NGroup r => lits_ok r
  | NAtomic r => lits_ok r
  | NBackRefCond _ _ yes no => lits_ok yes && match no with Some n => lits_ok n | None => true end
  | NExprCond _ _ yes no => lits_ok yes && match no with Some n => lits_ok n | None => true end
  | _ => true
  end.

(* the exported class structures are in the normal form the parser leaves them in: canonical ranges at
   every subtraction level (sorted, disjoint, not adjacent), inside 0..MaxRune, `anything` only with the
   single range [0, MaxRune]; the leg ships them without their ASCII bitmaps.  Recomputed by leg
   c04-analysis2 on every exported class. *)
Fixpoint sorted_b (prev : Z) (rs : list (Z * Z)) : bool :=
  match rs with
  | [] => true
  | (a, b) :: t => (prev + 1 <? a) && (a <=? b) && sorted_b b t
  end.
Definition canon_ranges_b (rs : list (Z * Z)) : bool :=
  match rs with [] => true | (a, b) :: t => (a <=? b) && sorted_b b t end.
Fixpoint canon_b (c : cls) : bool :=
  match c with
  | Cls rs _ sb _ _ asc =>
      canon_ranges_b rs && match asc with None => true | Some _ => false end
      && match sb with Some s => canon_b s | None => true end
  end.
Definition cls_good_b (c : cls) : bool :=
  canon_b c
  && (if anything c then match ranges c with [(a, b)] => (a =? 0) && (b =? MAXR) | _ => false end else true)
  && forallb (fun r => (0 <=? fst r) && (fst r <=? snd r) && (snd r <=? MAXR)) (ranges c).

Section Analysis2.
Variable cat_in : Z -> Z -> bool.
Variable part_cc : Z -> bool.          (* participatesInCaseConversion, charclass.go:1358 *)
Variable to_lower : Z -> Z.
Variable sets : list cls.

Definition set_cls (id : Z) : cls := nth (Z.to_nat id) sets empty_cls.

(* :1223 GetSetChars(maxChars).  Go returns nil or a possibly empty slice; callers only look at the length
   and the elements, so both are [].  [budget] is what is left of maxChars: the walk gives up (nil) when
   one character more than maxChars has been looked at. *)
Fixpoint gsc_range (keep : Z -> bool) (budget : nat) (n : nat) (ch : Z) {struct n} : option (nat * list Z) :=
  match n with
  | O => Some (budget, [])
  | S n' =>
      match budget with
      | O => None                                                            (* curWork > maxChars *)
      | S b =>
          match gsc_range keep b n' (ch + 1) with
          | None => None
          | Some (b', l) => Some (b', if keep ch then ch :: l else l)
          end
      end
  end.

Fixpoint gsc_ranges (keep : Z -> bool) (budget : nat) (rs : list (Z * Z)) : option (list Z) :=
  match rs with
  | [] => Some []
  | (a, b) :: rs' =>
      (* at most budget+1 characters of the range are looked at *)
      let n := if b <? a then O else Z.to_nat (Z.min (b - a + 1) (Z.of_nat budget + 1)) in
      match gsc_range keep budget n a with
      | None => None
      | Some (b', l) => match gsc_ranges keep b' rs' with None => None | Some l' => Some (l ++ l') end
      end
  end.

Definition get_set_chars (c : cls) (maxc : Z) : list Z :=
  match cats c with
  | _ :: _ => []
  | [] =>
      if maxc <? zlen (ranges c) then []
      else if neg c && negb (no_sub c) then []
      else let keep := fun ch => if no_sub c then true else char_in cat_in c ch in
           match gsc_ranges keep (Z.to_nat maxc) (ranges c) with Some l => l | None => [] end
  end.

(* :1338 containsAsciiIgnoreCaseCharacter: (ok, twoChars) *)
Definition contains_ascii_ic (c : cls) : option (Z * Z) :=
  if neg c then None
  else match get_set_chars c 3 with
       | [a; b] => if (a <? 127) && (b <? 127) && (Z.lor a 32 =? Z.lor b 32) && is_ascii_letter a && is_ascii_letter b
                   then Some (a, b) else None
       | _ => None
       end.

(* ================================================================================================ *)
(* findFirstCharClass / tryFindFirstCharClass, prefixanalyzer.go:19-211                              *)
(* result 1 / 0 / -1 and the new value of *ccIn *)

Definition ffcc_ret (stop : bool) : Z := if stop then 1 else -1.

Fixpoint try_ffcc (t : node) (cc : option cls) : Z * option cls :=
  match t with
  | NChar COne _ c =>                                                            (* :55-67 *)
      let c0 := match cc with Some x => x | None => empty_cls end in
      if is_mergeable c0 then (1, Some (add_char cat_in c0 c)) else (0, Some c0)
  | NCharLoop COne _ _ c m _ =>
      let c0 := match cc with Some x => x | None => empty_cls end in
      if is_mergeable c0 then (ffcc_ret (0 <? m), Some (add_char cat_in c0 c)) else (0, Some c0)
  | NChar CNotone _ c =>                                                         (* :69-94 *)
      let c0 := match cc with Some x => x | None => empty_cls end in
      let compl := (if 0 <? c then [(0, c - 1)] else []) ++ (if c <? MAXR then [(c + 1, MAXR)] else []) in
      if is_mergeable c0 then (1, Some (add_ranges cat_in c0 compl)) else (0, Some c0)
  | NCharLoop CNotone _ _ c m _ =>
      let c0 := match cc with Some x => x | None => empty_cls end in
      let compl := (if 0 <? c then [(0, c - 1)] else []) ++ (if c <? MAXR then [(c + 1, MAXR)] else []) in
      if is_mergeable c0 then (ffcc_ret (0 <? m), Some (add_ranges cat_in c0 compl)) else (0, Some c0)
  | NChar CSet _ id =>                                                           (* :96-113 *)
      match cc with
      | None => (1, Some (cls_copy (set_cls id)))
      | Some c0 => if is_mergeable c0 && is_mergeable (set_cls id) then (1, Some (add_set cat_in c0 (set_cls id)))
                   else (0, cc)
      end
  | NCharLoop CSet _ _ id m _ =>
      match cc with
      | None => (ffcc_ret (0 <? m), Some (cls_copy (set_cls id)))
      | Some c0 => if is_mergeable c0 && is_mergeable (set_cls id)
                   then (ffcc_ret (0 <? m), Some (add_set cat_in c0 (set_cls id)))
                   else (0, cc)
      end
  | NMulti o s =>                                                                (* :115-128; Str[0] faults on "" *)
      let c0 := match cc with Some x => x | None => empty_cls end in
      if is_mergeable c0 then (1, Some (add_char cat_in c0 (if is_rtl o then last s 0 else hd 0 s)))
      else (0, Some c0)
  | NEmpty | NNothing | NAnchor _ | NBump | NPosLook _ _ | NNegLook _ _ => (-1, cc)   (* :132-134 *)
  | NAtomic r => try_ffcc r cc                                                   (* :137-138 *)
  | NCapture _ _ _ r => try_ffcc r cc
  | NLoop _ _ m _ r =>                                                           (* :143-148 *)
      let '(v, cc') := try_ffcc r cc in
      if (v <=? 0) || negb (m =? 0) then (v, cc') else (-1, cc')
  | NConcat _ l =>                                                               (* :154-161 *)
      (fix cat (l : list node) (cc : option cls) : Z * option cls :=
         match l with
         | [] => (-1, cc)
         | x :: l' => let '(v, cc') := try_ffcc x cc in if v =? -1 then cat l' cc' else (v, cc')
         end) l cc
  | NAlternate _ l =>                                                            (* :166-180 *)
      (fix alt (l : list node) (cc : option cls) (anynull : bool) : Z * option cls :=
         match l with
         | [] => ((if anynull then -1 else 1), cc)
         | x :: l' => let '(v, cc') := try_ffcc x cc in
                      if v =? 0 then (0, cc') else alt l' cc' (anynull || (v =? -1))
         end) l cc false
  | NBackRefCond _ _ yes no =>                                                   (* :184-202 *)
      match no with
      | None => (-1, cc)
      | Some n => let '(a, cc1) := try_ffcc yes cc in
                  let '(b, cc2) := try_ffcc n cc1 in
                  if (a =? 0) || (b =? 0) then (0, cc2)
                  else if (a =? -1) || (b =? -1) then (-1, cc2) else (1, cc2)
      end
  | NExprCond _ _ yes no =>
      match no with
      | None => (-1, cc)
      | Some n => let '(a, cc1) := try_ffcc yes cc in
                  let '(b, cc2) := try_ffcc n cc1 in
                  if (a =? 0) || (b =? 0) then (0, cc2)
                  else if (a =? -1) || (b =? -1) then (-1, cc2) else (1, cc2)
      end
  | NRef _ _ => (0, cc)                                                          (* :205-206 *)
  | NGroup _ => (0, cc)                                                          (* :210 unknown node *)
  end.

Definition find_first_char_class (t : node) : option cls :=                      (* :19-34 *)
  let '(v, cc) := try_ffcc t None in if v =? 1 then cc else None.

(* ================================================================================================ *)
(* findPrefixOrdinalCaseInsensitive, prefixanalyzer.go:214 + TryGetOrdinalCaseInsensitiveString       *)

Definition ci_zero_width (t : node) : bool :=                                    (* tree.go:2268-2276 *)
  match t with
  | NAnchor ABeginning | NAnchor ABol | NAnchor AStart | NAnchor ABoundary | NAnchor AECMABoundary
  | NAnchor ANonboundary | NAnchor ANonECMABoundary | NNegLook _ _ | NPosLook _ _ | NBump => true
  | _ => false
  end.

(* tree.go:2222 with childIndex = 0, bound = len, consumeZeroWidthNodes = true: the string collected
   before the first child that ends the loop *)
Fixpoint ci_string (l : list node) : list Z :=
  match l with
  | [] => []
  | x :: l' =>
      match x with
      | NChar COne _ c => if (127 <=? c) || part_cc c then [] else c :: ci_string l'
      | NMulti _ s => if existsb (fun ch => 127 <? ch) s || existsb part_cc s then [] else s ++ ci_string l'
      | NChar CSet _ id =>
          match contains_ascii_ic (set_cls id) with
          | Some (a, _) => Z.lor a 32 :: ci_string l'
          | None => []
          end
      | NCharLoop CSet _ _ id m n =>
          if m =? n then
            match contains_ascii_ic (set_cls id) with
            | Some (a, _) => repeat (Z.lor a 32) (Z.to_nat m) ++ ci_string l'
            | None => []
            end
          else []
      | NEmpty => ci_string l'
      | _ => if ci_zero_width x then ci_string l' else []
      end
  end.

Fixpoint ci_prefix (t : node) : list Z :=                                        (* :214-236 *)
  match t with
  | NLoop _ _ m _ r => if m <=? 0 then [] else ci_prefix r
  | NAtomic r => ci_prefix r
  | NCapture _ _ _ r => ci_prefix r
  | NConcat _ l => let s := ci_string l in if 2 <=? zlen s then s else []
  | _ => []
  end.

(* ================================================================================================ *)
(* findPrefixes / findPrefixesCore, prefixanalyzer.go:428-699                                        *)
(* A result is the list of RUNES written to the bytes.Buffer so far; the buffer holds their UTF-8
   encoding, whose length is what the limits look at. *)

Definition MIN_PREFIX_LEN : Z := 2.
Definition MAX_PREFIX_LEN : Z := 8.
Definition MAX_PREFIXES : Z := 16.

Definition blen (p : list Z) : Z := zlen (encode_string p).                      (* sb.Len() *)

Definition fp_reps (single : bool) (m : Z) : Z :=                                (* :494-499, :553-558 *)
  if single then 1 else if m <? MAX_PREFIX_LEN then m else MAX_PREFIX_LEN.

(* :560-580 one repetition of the set expansion: [r++c0 | r] ++ [r++c1 | r] ++ ... *)
Definition fp_expand (res : list (list Z)) (chars : list Z) : list (list Z) :=
  flat_map (fun c => map (fun r => r ++ [c]) res) chars.

Fixpoint fp_set_reps (reps : nat) (res : list (list Z)) (chars : list Z) : bool * list (list Z) :=
  match reps with
  | O => (true, res)
  | S k => if MAX_PREFIXES <? zlen res * zlen chars then (false, res)
           else fp_set_reps k (fp_expand res chars) chars
  end.

(* [chk]: the entry test of the function (:458-462); it is not repeated when the loop at :472 moves
   from an Atomic / Capture node to its child *)
Fixpoint fp_core (ic : bool) (chk : bool) (t : node) (res : list (list Z)) : bool * list (list Z) :=
  let rtl := match t with
             | NChar _ o _ | NCharLoop _ _ o _ _ _ | NMulti o _ | NRef o _ | NConcat o _ | NAlternate o _
             | NLoop _ o _ _ _ | NCapture o _ _ _ | NPosLook o _ | NNegLook o _ | NBackRefCond o _ _ _
             | NExprCond o _ _ _ => is_rtl o
             | _ => false
             end in
  if chk && (existsb (fun p => MAX_PREFIX_LEN <=? blen p) res || rtl || (MAX_PREFIXES <? zlen res))
  then (false, res)
  else
  match t with
  | NAtomic r => fp_core ic false r res                                          (* :476-478 *)
  | NCapture _ _ _ r => fp_core ic false r res
  | NAnchor _ | NEmpty | NBump | NPosLook _ _ | NNegLook _ _ => (true, res)      (* :481-484 *)
  | NChar COne _ c =>                                                            (* :492-510 *)
      if negb ic || negb (part_cc c) then (true, map (fun r => r ++ [c]) res) else (false, res)
  | NCharLoop COne _ _ c m n =>
      if negb ic || negb (part_cc c)
      then let reps := fp_reps false m in
           (reps =? n, map (fun r => r ++ repeat c (Z.to_nat reps)) res)
      else (false, res)
  | NMulti _ s =>                                                                (* :514-532 *)
      if negb ic then (true, map (fun r => r ++ s) res)
      else (fix go (s : list Z) (res : list (list Z)) : bool * list (list Z) :=
              match s with
              | [] => (true, res)
              | c :: s' => if part_cc c then (false, res) else go s' (map (fun r => r ++ [c]) res)
              end) s res
  | NChar CSet _ id =>                                                           (* :539-596 *)
      let st := set_cls id in
      if neg st then (false, res)
      else match get_set_chars st MAX_PREFIXES with
           | [] => (false, res)
           | chars =>
               if negb ic then
                 let '(ok, res') := fp_set_reps 1 res chars in
                 if ok then (true, res') else (false, res')
               else match contains_ascii_ic st with
                    | None => (false, res)
                    | Some (_, b) => (true, map (fun r => r ++ [b]) res)
                    end
           end
  | NCharLoop CSet _ _ id m n =>
      let st := set_cls id in
      if neg st then (false, res)
      else match get_set_chars st MAX_PREFIXES with
           | [] => (false, res)
           | chars =>
               let reps := fp_reps false m in
               if negb ic then
                 let '(ok, res') := fp_set_reps (Z.to_nat reps) res chars in
                 if ok then (reps =? n, res') else (false, res')
               else match contains_ascii_ic st with
                    | None => (false, res)
                    | Some (_, b) => (reps =? n, map (fun r => r ++ repeat b (Z.to_nat reps)) res)
                    end
           end
  | NConcat _ l =>                                                               (* :598-605 *)
      (fix cat (l : list node) (res : list (list Z)) : bool * list (list Z) :=
         match l with
         | [] => (true, res)
         | x :: l' => let '(ok, res') := fp_core ic true x res in if ok then cat l' res' else (false, res')
         end) l res
  | NLoop _ _ m n r =>                                                           (* :608-621 *)
      if 0 <? m then
        let limit := if m <? MAX_PREFIX_LEN then m else MAX_PREFIX_LEN in
        (fix rep (k : nat) (res : list (list Z)) : bool * list (list Z) :=
           match k with
           | O => (limit =? n, res)
           | S k' => let '(ok, res') := fp_core ic true r res in if ok then rep k' res' else (false, res')
           end) (Z.to_nat limit) res
      else (false, res)
  | NAlternate _ l =>                                                            (* :626-697 *)
      if MAX_PREFIXES <? zlen l then (false, res)
      else
        match (fix alt (l : list node) (all : list (list Z)) : option (list (list Z)) :=
                 match l with
                 | [] => Some all
                 | x :: l' =>
                     let br := snd (fp_core ic true x [[]]) in
                     if MAX_PREFIXES <? zlen all + zlen br then None
                     else if existsb (fun p => blen p =? 0) br then None
                     else alt l' (all ++ br)
                 end) l [] with
        | None => (false, res)
        | Some all =>
            match res with
            | [[]] => (false, all)                                               (* :671-672 *)
            | _ => (false, flat_map (fun sfx => map (fun r => r ++ sfx) res) all)   (* :674-690; all[0] faults on [] *)
            end
        end
  | _ => (false, res)                                                            (* :697 *)
  end.

(* :428-445: the rune lists whose UTF-8 encodings are the published strings; None = nil *)
Definition find_prefixes (ic : bool) (t : node) : option (list (list Z)) :=
  let res := snd (fp_core ic true t [[]]) in
  if (MAX_PREFIXES <? zlen res) || existsb (fun p => blen p <? MIN_PREFIX_LEN) res then None else Some res.

(* ================================================================================================ *)
(* findFixedDistanceSets / tryFindRawFixedSets, prefixanalyzer.go:707-939                             *)

Definition MAX_LOOP_EXPANSION : Z := 20.
Definition MAX_FIXED_RESULTS : Z := 50.

(* the loops at :789-792 / :824-827: k = number of iterations *)
Definition rf_iters (want : Z) (have : Z) : Z := Z.max 0 (Z.min want (MAX_FIXED_RESULTS - have)).

Fixpoint rf_push (s : cls) (k : nat) (dist : Z) : list (cls * Z) :=
  match k with O => [] | S k' => (s, dist) :: rf_push s k' (dist + 1) end.

(* :797-806 *)
Fixpoint rf_multi (str : list Z) (have : Z) (dist : Z) : list (cls * Z) * bool * Z :=
  match str with
  | [] => ([], true, dist)
  | c :: s' => if have <? MAX_FIXED_RESULTS
               then let '(l, ok, d) := rf_multi s' (have + 1) (dist + 1) in ((add_char cat_in empty_cls c, dist) :: l, ok, d)
               else ([], false, dist)
  end.

(* :901-915 the map `combined`: (distance, set, count) in insertion order *)
Fixpoint comb_add (cm : list (Z * cls * Z)) (d : Z) (s : cls) : list (Z * cls * Z) :=
  match cm with
  | [] => [(d, cls_copy s, 1)]
  | (d', s', c') :: cm' =>
      if d =? d' then (if is_mergeable s' && is_mergeable s then (d', add_set cat_in s' s, c' + 1) else (d', s', c')) :: cm'
      else (d', s', c') :: comb_add cm' d s
  end.

(* :918-927 *)
Fixpoint comb_publish (cm : list (Z * cls * Z)) (nkids : Z) (dist : Z) (res : list (cls * Z)) (allsame : bool)
  : list (cls * Z) * bool :=
  match cm with
  | [] => (res, allsame)
  | (k, s, c) :: cm' =>
      if MAX_FIXED_RESULTS <=? zlen res then (res, false)
      else comb_publish cm' nkids dist (if c =? nkids then res ++ [(s, k + dist)] else res) allsame
  end.

Fixpoint raw_fixed (thorough : bool) (t : node) (res : list (cls * Z)) (dist : Z) : bool * list (cls * Z) * Z :=
  match t with
  | NChar COne o c =>                                                            (* :769-778 *)
      if is_rtl o then (false, res, dist)
      else if zlen res <? MAX_FIXED_RESULTS then (true, res ++ [(add_char cat_in empty_cls c, dist)], dist + 1)
      else (false, res, dist)
  | NCharLoop COne _ o c m n =>                                                  (* :780-795 *)
      if is_rtl o then (false, res, dist)
      else if 0 <? m then
        let k := rf_iters (Z.min MAX_LOOP_EXPANSION m) (zlen res) in
        ((k =? m) && (k =? n), res ++ rf_push (add_char cat_in empty_cls c) (Z.to_nat k) dist, dist + k)
      else (false, res, dist)
  | NMulti o s =>                                                                (* :797-806 *)
      if is_rtl o then (false, res, dist)
      else let '(l, ok, d) := rf_multi s (zlen res) dist in (ok, res ++ l, d)
  | NChar CSet o id =>                                                           (* :808-815 *)
      if is_rtl o then (false, res, dist)
      else if zlen res <? MAX_FIXED_RESULTS then (true, res ++ [(set_cls id, dist)], dist + 1)
      else (false, res, dist)
  | NCharLoop CSet _ o id m n =>                                                 (* :817-830 *)
      if is_rtl o then (false, res, dist)
      else if 0 <? m then
        let k := rf_iters (Z.min MAX_LOOP_EXPANSION m) (zlen res) in
        ((k =? m) && (k =? n), res ++ rf_push (set_cls id) (Z.to_nat k) dist, dist + k)
      else (false, res, dist)
  | NChar CNotone o _ => if is_rtl o then (false, res, dist) else (true, res, dist + 1)   (* :832-836 *)
  | NCharLoop CNotone _ o _ m n =>                                               (* :838-842 *)
      if is_rtl o then (false, res, dist)
      else if m =? n then (true, res, dist + m) else (false, res, dist)
  | NAnchor _ | NEmpty | NBump => (true, res, dist)                              (* :843-849 *)
  | NPosLook o _ => if is_rtl o then (false, res, dist) else (true, res, dist)
  | NNegLook o _ => if is_rtl o then (false, res, dist) else (true, res, dist)
  | NAtomic r => raw_fixed thorough r res dist                                   (* :851-852 *)
  | NGroup r => raw_fixed thorough r res dist
  | NCapture o _ _ r => if is_rtl o then (false, res, dist) else raw_fixed thorough r res dist
  | NLoop _ o m _ r =>                                                           (* :854-864 *)
      if is_rtl o then (false, res, dist)
      else if 0 <? m then let '(_, res', dist') := raw_fixed thorough r res dist in (false, res', dist')
      else (false, res, dist)
  | NConcat o l =>                                                               (* :866-872 *)
      if is_rtl o then (false, res, dist)
      else (fix cat (l : list node) (res : list (cls * Z)) (dist : Z) : bool * list (cls * Z) * Z :=
              match l with
              | [] => (true, res, dist)
              | x :: l' => let '(ok, res', dist') := raw_fixed thorough x res dist in
                           if ok then cat l' res' dist' else (false, res', dist')
              end) l res dist
  | NAlternate o l =>                                                            (* :874-936 *)
      if is_rtl o then (false, res, dist)
      else if thorough then
        match (fix alt (l : list node) (allsame : bool) (same : Z) (cm : list (Z * cls * Z))
                 : option (bool * Z * list (Z * cls * Z)) :=
                 match l with
                 | [] => Some (allsame, same, cm)
                 | x :: l' =>
                     (* :887 `allSameSize && try...` does not call the function once allSameSize is false *)
                     let '(ok, loc, ld) := if allsame then raw_fixed thorough x [] 0 else (false, [], 0) in
                     let allsame1 := allsame && ok in
                     match loc with
                     | [] => None                                                 (* :889-891 *)
                     | _ =>
                         let '(allsame2, same2) :=
                           if allsame1 then (if same =? -1 then (true, ld) else if same =? ld then (true, same) else (false, same))
                           else (false, same) in
                         alt l' allsame2 same2 (fold_left (fun cm sd => comb_add cm (snd sd) (fst sd)) loc cm)
                     end
                 end) l true (-1) [] with
        | None => (false, res, dist)
        | Some (allsame, same, cm) =>
            let '(res', allsame') := comb_publish cm (zlen l) dist res allsame in
            if allsame' then (true, res', dist + same) else (false, res', dist)
        end
      else (false, res, dist)
  | _ => (false, res, dist)                                                      (* :938 *)
  end.

(* a published fixed-distance set, optimizations.go:40-46 *)
Record fdset := { fs_set : cls; fs_chars : list Z; fs_neg : bool; fs_range : option (Z * Z); fs_dist : Z }.

Definition fd_decorate (sd : cls * Z) : fdset :=                                 (* :734-749 *)
  let s := fst sd in
  match get_if_one_range s with
  | Some (a, b) =>
      if 1 <? b - a then {| fs_set := s; fs_chars := []; fs_neg := neg s; fs_range := Some (a, b); fs_dist := snd sd |}
      else {| fs_set := s; fs_chars := get_set_chars s 128; fs_neg := neg s; fs_range := None; fs_dist := snd sd |}
  | None => {| fs_set := s; fs_chars := get_set_chars s 128; fs_neg := neg s; fs_range := None; fs_dist := snd sd |}
  end.

(* the (set, distance) pairs before decoration, :707-729 *)
Definition fixed_distance_raw (thorough : bool) (t : node) : list (cls * Z) :=
  let '(_, res, _) := raw_fixed thorough t [] 0 in
  match filter (fun sd => negb (anything (fst sd))) res with
  | [] => match find_first_char_class t with
          | None => []
          | Some c => if anything c then [] else [(c, 0)]
          end
  | l => l
  end.

Definition find_fixed_distance_sets (thorough : bool) (t : node) : list fdset :=
  map fd_decorate (fixed_distance_raw thorough t).

(* ---------- findFixedDistanceString, optimizations.go:629-690 ---------- *)
(* stable insertion sort by distance (slices.SortFunc is not stable; distances are distinct) *)
Fixpoint fds_insert (x : fdset) (l : list fdset) : list fdset :=
  match l with
  | [] => [x]
  | y :: l' => if fs_dist x <? fs_dist y then x :: l else y :: fds_insert x l'
  end.
Definition fds_sort (l : list fdset) : list fdset := fold_right fds_insert [] l.

(* a usable entry: exactly one character, not negated, a valid rune (the fix) *)
Definition fds_single (s : fdset) : option Z :=
  match fs_chars s with
  | [c] => if fs_neg s || negb (Utf8.valid_rune c) then None else Some c
  | _ => None
  end.

(* the walk: [cur] = (start distance, runes so far, distance of the last entry) of the open sequence;
   [best] = (runes, distance).  A finished sequence replaces best when it has at least max 2 (len best.S)
   entries. *)
(* Note :661: `bestLen` is the BYTE length of best.S while i-start counts sets; the model keeps runes and
   compares with the byte length as the code does. *)
Definition fds_close_b (cur : option (Z * list Z * Z)) (best : option (list Z * Z)) : option (list Z * Z) :=
  match cur with
  | None => best
  | Some (d0, s, _) =>
      let bl := match best with Some (b, _) => blen b | None => 2 end in
      if bl <=? zlen s then Some (s, d0) else best
  end.

Fixpoint fds_walk_b (l : list fdset) (cur : option (Z * list Z * Z)) (best : option (list Z * Z))
  : option (list Z * Z) :=
  match l with
  | [] => fds_close_b cur best
  | x :: l' =>
      match fds_single x with
      | None => fds_walk_b l' None (fds_close_b cur best)
      | Some c =>
          match cur with
          | Some (d0, s, dl) =>
              if fs_dist x =? dl + 1 then fds_walk_b l' (Some (d0, s ++ [c], fs_dist x)) best
              else fds_walk_b l' (Some (fs_dist x, [c], fs_dist x)) (fds_close_b cur best)
          | None => fds_walk_b l' (Some (fs_dist x, [c], fs_dist x)) best
          end
      end
  end.

Definition find_fixed_distance_string (l : list fdset) : option (list Z * Z) :=
  if zlen l <? 2 then None else fds_walk_b (fds_sort l) None None.

(* ================================================================================================ *)
(* findLiteralFollowingLeadingLoop, prefixanalyzer.go:1158-1300                                      *)

Inductive lal_lit :=
| LalChar (c : Z)
| LalString (bytes : list Z) (ic : bool)      (* the Go string; the runner searches for []rune(String) *)
| LalChars (cs : list Z).
Record lal := { lal_loop : Z (* set id of LoopNode *); lal_what : lal_lit }.

Fixpoint unwrap_ac (t : node) : node :=                                          (* the loops at :1167, :1181 *)
  match t with NAtomic r => unwrap_ac r | NCapture _ _ _ r => unwrap_ac r | _ => t end.

Fixpoint unwrap_t (t : node) : node :=                                           (* unwrapTransparentNodes *)
  match t with NAtomic r => unwrap_t r | NCapture _ _ _ r => unwrap_t r | NGroup r => unwrap_t r | _ => t end.

Fixpoint unwrap_imm (t : node) : option node :=                                  (* unwrapImmediateLiteralAfterLoopNode *)
  match t with
  | NAtomic r => unwrap_imm r
  | NCapture _ _ _ r => unwrap_imm r
  | NGroup r => unwrap_imm r
  | NConcat _ l => match l with [] => None | x :: _ => unwrap_imm x end
  | _ => Some t
  end.

(* utf8.DecodeLastRuneInString p = (RuneError, 1), for non-empty p *)
Definition rune_start (b : Z) : bool := negb ((128 <=? b) && (b <=? 191)).
Definition last_rune_bad (p : list Z) : bool :=
  let n := zlen p in
  let at_ := fun i => nth (Z.to_nat i) p 0 in
  if n =? 0 then false
  else if at_ (n - 1) <? 128 then false
  else
    let lim := Z.max 0 (n - 4) in
    let start :=
      if (lim <=? n - 2) && rune_start (at_ (n - 2)) then n - 2
      else if (lim <=? n - 3) && rune_start (at_ (n - 3)) then n - 3
      else if (lim <=? n - 4) && rune_start (at_ (n - 4)) then n - 4
      else Z.max 0 (lim - 1) in
    let '(r, w) := decode_rune (skipn (Z.to_nat start) p) in
    negb (start + Z.of_nat w =? n) || ((r =? rune_error) && (Z.of_nat w =? 1)).

Fixpoint trim_partial (fuel : nat) (p : list Z) : list Z :=
  match fuel with
  | O => p
  | S f => if last_rune_bad p then trim_partial f (removelast p) else p
  end.

Definition is_set_loop_inf (t : node) : option Z :=                              (* :1184-1187, isUnboundedSetLoop *)
  match t with NCharLoop CSet _ _ id _ n => if n =? INF then Some id else None | _ => None end.

Definition find_lit_after_loop (root : node) : res (option lal) :=
  let rtl := match root with NCapture o _ _ _ | NConcat o _ => is_rtl o | _ => false end in
  if rtl then Ok None                                                            (* :1159-1162 *)
  else match unwrap_ac root with
  | NConcat _ l =>
      match l with
      | [] => Crash 1                                                            (* Children[0] *)
      | first :: rest =>
          match is_set_loop_inf (unwrap_ac first) with
          | None => Ok None
          | Some loop =>
              match rest with
              | [] => Crash 1                                                    (* Children[1] *)
              | nx :: rest' =>
                  let nxt := match nx with
                             | NBump => match rest' with [] => None | n2 :: _ => Some n2 end   (* :1192-1198 *)
                             | _ => Some nx
                             end in
                  match (match nxt with Some n => unwrap_imm n | None => None end) with
                  | None => Ok None
                  | Some nc =>
                      let loopset := set_cls loop in
                      let p0 := find_prefix nc in
                      let p1 := trim_partial (length p0) p0 in
                      (* a surrogate pattern rune reached the buffer as U+FFFD: strings.ContainsRune(prefix, RuneError) *)
                      let p := if existsb (fun r => r =? rune_error) (runes_of p1) then [] else p1 in
                      match p with
                      | _ :: _ =>                                                (* :1205-1221 *)
                          let '(fr, w) := decode_rune p in
                          if char_in cat_in loopset fr then Ok None
                          else if zlen p =? Z.of_nat w then Ok (Some {| lal_loop := loop; lal_what := LalChar fr |})
                          else Ok (Some {| lal_loop := loop; lal_what := LalString p false |})
                      | [] =>
                          let cp := ci_prefix nc in
                          if 2 <=? zlen cp then                                  (* :1226-1247 *)
                            let ch := hd 0 cp in
                            if (if part_cc ch
                                then char_in cat_in loopset (Z.lor ch 32) || char_in cat_in loopset (Z.land ch (Z.lnot 32))
                                else char_in cat_in loopset ch)
                            then Ok None
                            else Ok (Some {| lal_loop := loop; lal_what := LalString cp true |})
                          else
                            match nc with                                        (* :1250-1267 *)
                            | NChar CSet _ id =>
                                if neg (set_cls id) then Ok None
                                else match get_set_chars (set_cls id) 5 with
                                     | [] => Ok None
                                     | cs => if existsb (char_in cat_in loopset) cs then Ok None
                                             else Ok (Some {| lal_loop := loop; lal_what := LalChars cs |})
                                     end
                            | NCharLoop CSet _ _ id m _ =>
                                if neg (set_cls id) || negb (1 <=? m) then Ok None
                                else match get_set_chars (set_cls id) 5 with
                                     | [] => Ok None
                                     | cs => if existsb (char_in cat_in loopset) cs then Ok None
                                             else Ok (Some {| lal_loop := loop; lal_what := LalChars cs |})
                                     end
                            | _ => Ok None
                            end
                      end
                  end
              end
          end
      end
  | _ => Ok None                                                                 (* :1170-1172 *)
  end.

(* ================================================================================================ *)
(* findRequiredLandmarkChain, prefixanalyzer.go:1302-1475                                            *)

Record lm_alt := {
  la_lit : list Z;                (* Literal *)
  la_set : option Z;              (* Set (id) *)
  la_lead : option Z;             (* LeadingWhitespaceSet (id) *)
  la_trail : option Z;            (* TrailingWhitespaceSet (id) *)
  la_min : Z; la_max : Z;         (* MinRepeat, MaxRepeat *)
  la_req_before : bool; la_req_after : bool }.

Definition re2_space_class : cls := ranges_cls re2_space_ranges.

Definition whitespace_loop (t : node) : option (Z * Z) :=                        (* whitespaceLoop: (set id, M) *)
  match unwrap_t t with
  | NCharLoop CSet _ _ id m n =>
      if (n =? INF) && (cls_equals false (set_cls id) space_class || cls_equals false (set_cls id) ecma_space_class
                        || cls_equals false (set_cls id) re2_space_class)
      then Some (id, m) else None
  | _ => None
  end.

Definition lm_core (t : node) : option (list Z * option Z * Z * Z) :=            (* :1406-1436 *)
  match unwrap_t t with
  | NChar COne _ c => Some ([c], None, 1, 1)
  | NMulti _ s => Some (s, None, 1, 1)
  | NChar CSet _ id =>
      match get_set_chars (set_cls id) 8 with
      | [] => None
      | _ => if neg (set_cls id) then None else Some ([], Some id, 1, 1)
      end
  | NCharLoop CSet _ _ id m n =>
      if (0 <? m) && negb (n =? INF) then
        match get_set_chars (set_cls id) 8 with
        | [] => None
        | _ => if neg (set_cls id) then None else Some ([], Some id, m, n)
        end
      else None
  | _ => None
  end.

Definition extract_alt (t : node) : option lm_alt :=                             (* extractRequiredLandmarkAlternative *)
  let nd := unwrap_t t in
  let kids := match nd with NConcat _ l => l | _ => [nd] end in
  let '(lead, kids1) := match kids with
                        | x :: r => match whitespace_loop x with Some w => (Some w, r) | None => (None, kids) end
                        | [] => (None, kids)
                        end in
  match kids1 with
  | [] => None                                                                   (* :1399-1401 *)
  | c :: kids2 =>
      match lm_core c with
      | None => None
      | Some (lit, st, mn, mx) =>
          let '(trail, kids3) := match kids2 with
                                 | x :: r => match whitespace_loop x with Some w => (Some w, r) | None => (None, kids2) end
                                 | [] => (None, kids2)
                                 end in
          match kids3 with
          | [] => Some {| la_lit := lit; la_set := st;
                          la_lead := match lead with Some (i, _) => Some i | None => None end;
                          la_trail := match trail with Some (i, _) => Some i | None => None end;
                          la_min := mn; la_max := mx;
                          la_req_before := match lead with Some (_, m) => 0 <? m | None => false end;
                          la_req_after := match trail with Some (_, m) => 0 <? m | None => false end |}
          | _ => None                                                            (* :1446-1448 *)
          end
      end
  end.

Fixpoint all_some {A} (l : list (option A)) : option (list A) :=
  match l with
  | [] => Some []
  | Some a :: l' => match all_some l' with Some r => Some (a :: r) | None => None end
  | None :: _ => None
  end.

Definition extract_landmark (t : node) : option (list lm_alt) :=                 (* extractRequiredLandmark *)
  match unwrap_t t with
  | NAlternate _ l => match all_some (map extract_alt l) with Some (a :: r) => Some (a :: r) | _ => None end
  | nd => match extract_alt nd with Some a => Some [a] | None => None end
  end.

Definition is_zero_width_gap (t : node) : bool :=                                (* isZeroWidthLandmarkGap *)
  match unwrap_t t with NEmpty | NBump | NAnchor _ => true | _ => false end.

(* :1308-1314 *)
Fixpoint lm_collect (l : list node) (acc : list (list lm_alt)) : option (list (list lm_alt)) :=
  match l with
  | [] => Some acc
  | x :: l' =>
      match extract_landmark x with
      | Some lm => lm_collect l' (acc ++ [lm])
      | None => match acc with
                | [] => if is_zero_width_gap x then lm_collect l' acc else None
                | _ => lm_collect l' acc
                end
      end
  end.

(* (LeadingLoopSet id, Landmarks) *)
Definition find_landmark_chain (root : node) : option (Z * list (list lm_alt)) :=
  let rtl := match root with NCapture o _ _ _ | NConcat o _ => is_rtl o | _ => false end in
  if rtl then None
  else match unwrap_t root with
       | NConcat _ l =>
           if zlen l <? 4 then None
           else match l with
                | first :: rest =>
                    match is_set_loop_inf (unwrap_t first) with
                    | None => None
                    | Some loop =>
                        match lm_collect rest [] with
                        | Some lms => if zlen lms <? 2 then None else Some (loop, lms)
                        | None => None
                        end
                    end
                | [] => None
                end
       | _ => None
       end.

(* ================================================================================================ *)
(* getFirstCharsPrefix / regexFCFromRegexTree / calculateFC, prefix.go:18-314                         *)

Record fcrec := { fc_cc : cls; fc_null : bool; fc_ci : bool }.

(* :265 newRegexFc (with the fix: ch < utf8.MaxRune) *)
Definition new_fc (ch : Z) (nt nullable ci : bool) : fcrec :=
  let cc :=
    if nt then
      let c1 := if 0 <? ch then add_range cat_in empty_cls 0 (ch - 1) else empty_cls in
      if ch <? MAXR then add_range cat_in c1 (ch + 1) MAXR else c1
    else add_range cat_in empty_cls ch ch in
  {| fc_cc := cc; fc_null := nullable; fc_ci := ci |}.

Definition null_fc : fcrec := {| fc_cc := empty_cls; fc_null := true; fc_ci := false |}.

(* :291 addFC: None = false *)
Definition add_fc (r f : fcrec) (concatenate : bool) : option fcrec :=
  if negb (is_mergeable (fc_cc r)) || negb (is_mergeable (fc_cc f)) then None
  else if concatenate && negb (fc_null r) then Some r
  else
    let nl := if concatenate then (if negb (fc_null f) then false else fc_null r)
              else (if fc_null f then true else fc_null r) in
    Some {| fc_cc := add_set cat_in (fc_cc r) (fc_cc f); fc_null := nl; fc_ci := fc_ci r || fc_ci f |}.

Definition any_class : cls := Cls [(0, MAXR)] [] None false true None.          (* AnyClass(): makeAnything'd by the old-string reader *)

(* Ok None = the walk failed (nil); Crash = panic("unexpected op code") on an interior node without children *)
Fixpoint fc_walk (t : node) : res (option fcrec) :=
  match t with
  | NEmpty | NNothing | NAnchor _ | NBump => Ok (Some null_fc)                   (* :178, :251 *)
  | NPosLook _ _ | NNegLook _ _ => Ok (Some null_fc)                             (* :218-220 *)
  | NChar COne o c => Ok (Some (new_fc c false false (is_ci o)))                 (* :224 *)
  | NChar CNotone o c => Ok (Some (new_fc c true false (is_ci o)))
  | NCharLoop COne _ o c m _ => Ok (Some (new_fc c false (m =? 0) (is_ci o)))    (* :227 *)
  | NCharLoop CNotone _ o c m _ => Ok (Some (new_fc c true (m =? 0) (is_ci o)))  (* :230 *)
  | NMulti o s =>                                                                (* :233-240 *)
      match s with
      | [] => Ok (Some null_fc)
      | _ => Ok (Some (new_fc (if is_rtl o then last s 0 else hd 0 s) false false (is_ci o)))
      end
  | NChar CSet o id => Ok (Some {| fc_cc := cls_copy (set_cls id); fc_null := false; fc_ci := is_ci o |})   (* :242 *)
  | NCharLoop CSet _ o id m _ =>
      Ok (Some {| fc_cc := cls_copy (set_cls id); fc_null := m =? 0; fc_ci := is_ci o |})                   (* :245 *)
  | NRef _ _ => Ok (Some {| fc_cc := any_class; fc_null := true; fc_ci := false |})                         (* :248 *)
  | NGroup r => fc_walk r                                                        (* :216 *)
  | NCapture _ _ _ r => fc_walk r
  | NAtomic r => fc_walk r
  | NLoop _ _ m _ r =>                                                           (* :210-214 *)
      do f <- fc_walk r ;
      match f with
      | None => Ok None
      | Some fc => Ok (Some (if m =? 0 then {| fc_cc := fc_cc fc; fc_null := true; fc_ci := fc_ci fc |} else fc))
      end
  | NConcat _ l =>                                                               (* :181-192 *)
      match l with
      | [] => Crash 1
      | x :: l' =>
          do f0 <- fc_walk x ;
          match f0 with
          | None => Ok None
          | Some c0 =>
              (fix cat (l : list node) (cum : fcrec) : res (option fcrec) :=
                 if negb (fc_null cum) then Ok (Some cum)                        (* skipAllChildren *)
                 else match l with
                      | [] => Ok (Some cum)
                      | y :: l'' =>
                          do f <- fc_walk y ;
                          match f with
                          | None => Ok None
                          | Some c => match add_fc cum c true with None => Ok None | Some cum' => cat l'' cum' end
                          end
                      end) l' c0
          end
      end
  | NAlternate _ l =>                                                            (* :202-208 *)
      match l with
      | [] => Crash 1
      | x :: l' =>
          do f0 <- fc_walk x ;
          match f0 with
          | None => Ok None
          | Some c0 =>
              (fix alt (l : list node) (cum : fcrec) : res (option fcrec) :=
                 match l with
                 | [] => Ok (Some cum)
                 | y :: l'' =>
                     do f <- fc_walk y ;
                     match f with
                     | None => Ok None
                     | Some c => match add_fc cum c false with None => Ok None | Some cum' => alt l'' cum' end
                     end
                 end) l' c0
          end
      end
  | NBackRefCond _ _ yes no =>                                                   (* :202-208 *)
      do f0 <- fc_walk yes ;
      match f0, no with
      | None, _ => Ok None
      | Some c0, None => Ok (Some c0)
      | Some c0, Some n =>
          do f <- fc_walk n ;
          match f with
          | None => Ok None
          | Some c => match add_fc c0 c false with None => Ok None | Some r => Ok (Some r) end
          end
      end
  | NExprCond _ _ yes no =>                                                      (* :173-176, :194-200: the condition is skipped *)
      do f0 <- fc_walk yes ;
      match f0, no with
      | None, _ => Ok None
      | Some c0, None => Ok (Some c0)
      | Some c0, Some n =>
          do f <- fc_walk n ;
          match f with
          | None => Ok None
          | Some c => match add_fc c0 c false with None => Ok None | Some r => Ok (Some r) end
          end
      end
  end.

(* :18-30: (PrefixSet, CaseInsensitive); None = nil *)
Definition first_chars_prefix (t : node) : res (option (cls * bool)) :=
  do f <- fc_walk t ;
  match f with
  | None => Ok None
  | Some fc =>
      if fc_null fc || is_empty_cls (fc_cc fc) then Ok None
      else Ok (Some ((if fc_ci fc then add_lowercase cat_in to_lower (fc_cc fc) else fc_cc fc), fc_ci fc))
  end.

End Analysis2.
