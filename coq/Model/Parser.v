(* Model/Parser.v — executable model of the pattern parser syntax.Parse (syntax/parser.go) together
   with the mandatory tree reductions of syntax/tree.go that run while the tree is built
   (RegexNode.addChild -> reduce, makeQuantifier).  No proofs in this file.

   Input: the pattern as the rune list Parse builds with `for _, r := range pattern` (0 <= r), the
   compile-time option bits and the MaintainCaptureOrder flag.  Output ([parse]): [res presult] with
     PR_Err code   - Parse returns a *syntax.Error with this code (numbers below; the harness maps
                     syntax.ErrorCode to them),
     PR_Tree ..    - Parse succeeds: the tree (every node with T, Options, Ch, M, N, Str, Set,
                     children - the fields the harness' exporter writes) and the capture table,
     PR_Outside    - the pattern leaves the modelled fragment (an explicit answer, never a guess).
   [Crash] stands for a Go run-time fault (index out of range on the pattern, pop of an empty option /
   group stack, Children[0] of a childless node, ...), [Fuel] for the model's own fuel.

   The tree is the one Parse returns when the five OPTIONAL rewrite families are switched off through
   the verif gates hook (syntax/verif_gate_on.go, mask 31): findAndMakeLoopsAtomic,
   eliminateEndingBacktracking, the bump-along marker, the atomic-alternation reordering and the two
   common-prefix extractions return at once, so RegexNode.finalOptimize is the identity.  Everything
   else in tree.go that runs during the parse is modelled, one function per reducer.

   Reused: Gen/ParseLitGen.v (category table, classifier bounds, escape letters, option bits),
   Model/ParseLit.v (isSpecial/isQuantifier/isTrueQuantifier, the run of ordinary characters,
   scanDecimal, scanCharEscape and its sub-scanners, scanWord, typeFromCode), Model/Escape.v,
   Model/Options.v (scanOptions on option characters, option bits), Model/GroupMap.v (the capture
   tables: noteCaptureSlot, noteCaptureName, assignNameSlots / assignOrderedNameSlots, the lookups),
   Model/CharClass.v (CharSet with canonicalize and every add*, the bracket syntax [csyn] and
   scan_char_set / elab).

   Outside the fragment (answer PR_Outside): ECMAScript group names (scanECMACapname: (?<n> \k<n>
   under ECMAScript), three spellings of the cased-letter categories that share a table with Ll / Lu /
   Lt (the C16 model identifies categories by table; the oracle [cat_name] answers -2 for them), a case
   closure whose SimpleFold orbit is longer than [pp_orbit_fuel], an IgnoreCase class whose ranges span
   more than [pp_ci_span_limit] code points (the model walks them one by one, like the code).

   Oracles (Section variables; the harness ships their values with each case):
     is_word_char = syntax.IsWordChar, to_lower = unicode.ToLower, simple_fold = unicode.SimpleFold,
     participates = participatesInCaseConversion (charclass.go:1359),
     cat_in name r = membership of r in the table of category id name (Model/CharClass.v),
     cat_name s = id of canonicalUnicodeCatName(s), -1 when unknown, -2 see above.
   Line numbers: syntax/parser.go unless tree.go / charclass.go is named. *)
From Verif Require Import Base.Prelude Gen.ParseLitGen Model.Escape Model.ParseLit Model.GroupMap Model.CharClass.

(* ---------------------------------------------------------------- error codes *)
(* 1..11 are those of Model/Escape.v and Model/ParseLit.v *)
Definition PE_UnterminatedComment : Z := 30.
Definition PE_InvalidCharRange : Z := 31.
Definition PE_InvalidRepeatSize : Z := 32.
Definition PE_UnexpectedParen : Z := 33.
Definition PE_MissingParen : Z := 34.
Definition PE_InvalidRepeatOp : Z := 35.
Definition PE_MissingRepeatArgument : Z := 36.
Definition PE_ConditionalExpression : Z := 37.
Definition PE_TooManyAlternates : Z := 38.
Definition PE_UnrecognizedGrouping : Z := 39.
Definition PE_InvalidGroupName : Z := 40.
Definition PE_InvalidECMAGroupName : Z := 41.
Definition PE_DuplicateGroupName : Z := 42.
Definition PE_CapNumNotZero : Z := 43.
Definition PE_AlternationCantCapture : Z := 44.
Definition PE_AlternationCantHaveComment : Z := 45.
Definition PE_MalformedReference : Z := 46.
Definition PE_UndefinedReference : Z := 47.
Definition PE_MalformedSlashP : Z := 48.
Definition PE_IncompleteSlashP : Z := 49.
Definition PE_UnknownSlashP : Z := 50.
Definition PE_BadClassInCharRange : Z := 51.
Definition PE_ShorthandClassInCharRange : Z := 52.
Definition PE_UnterminatedBracket : Z := 53.
Definition PE_SubtractionMustBeLast : Z := 54.
Definition PE_ReversedCharRange : Z := 55.
Definition PE_InternalError : Z := 56.

(* ---------------------------------------------------------------- node types (tree.go:72-131) *)
Definition T_Oneloop : Z := 3.
Definition T_Notoneloop : Z := 4.
Definition T_Setloop : Z := 5.
Definition T_Onelazy : Z := 6.
Definition T_Notonelazy : Z := 7.
Definition T_Setlazy : Z := 8.
Definition T_One : Z := 9.
Definition T_Notone : Z := 10.
Definition T_Set : Z := 11.
Definition T_Multi : Z := 12.
Definition T_Ref : Z := 13.
Definition T_Bol : Z := 14.
Definition T_Eol : Z := 15.
Definition T_Beginning : Z := 18.
Definition T_EndZ : Z := 20.
Definition T_End : Z := 21.
Definition T_Nothing : Z := 22.
Definition T_Empty : Z := 23.
Definition T_Alternate : Z := 24.
Definition T_Concatenate : Z := 25.
Definition T_Loop : Z := 26.
Definition T_Lazyloop : Z := 27.
Definition T_Capture : Z := 28.
Definition T_Group : Z := 29.
Definition T_PosLook : Z := 30.
Definition T_NegLook : Z := 31.
Definition T_Atomic : Z := 32.
Definition T_BackRefCond : Z := 33.
Definition T_ExprCond : Z := 34.
Definition T_Oneloopatomic : Z := 43.
Definition T_Notoneloopatomic : Z := 44.
Definition T_Setloopatomic : Z := 45.

Definition pp_inf : Z := 2147483647.            (* math.MaxInt32 *)
Definition pp_multi_limit : Z := 64.            (* MultiVsRepeaterLimit, tree.go:15 *)
Definition pp_orbit_fuel : nat := 8.
Definition pp_ci_span_limit : Z := 70000.

(* ---------------------------------------------------------------- the parse monad *)
(* PE carries the cursor (remaining pattern) where the Go scanner stood when it returned the error:
   countCaptures ignores the errors of scanBackslash / scanCharSet / scanBlank and goes on from there. *)
Inductive pr (A : Type) : Type :=
| POk (a : A)
| PE (code : Z) (rest : list Z)
| PO
| PC (why : Z)
| PF.
Arguments POk {A} a.
Arguments PE {A} code rest.
Arguments PO {A}.
Arguments PC {A} why.
Arguments PF {A}.

Definition pbind {A B} (r : pr A) (f : A -> pr B) : pr B :=
  match r with
  | POk a => f a
  | PE c q => PE c q
  | PO => PO
  | PC w => PC w
  | PF => PF
  end.
Notation "'pdo' x <- r ; k" := (pbind r (fun x => k))
  (at level 200, x pattern, r at level 100, k at level 200, right associativity).

(* a [res] whose error does not need a cursor (or whose cursor is given) *)
Definition of_res {A} (r : res A) (q : list Z) : pr A :=
  match r with
  | Ok a => POk a
  | Err c => PE c q
  | Crash w => PC w
  | Fuel => PF
  end.

(* ---------------------------------------------------------------- nodes *)
(* RegexNode (tree.go:58-68) without Parent: T, Options, Ch, M, N, Str, Set, Children *)
Inductive rnode : Type :=
  RN (t o ch m n : Z) (str : list Z) (set : option cls) (kids : list rnode).

Definition n_t (x : rnode) : Z := let 'RN t _ _ _ _ _ _ _ := x in t.
Definition n_o (x : rnode) : Z := let 'RN _ o _ _ _ _ _ _ := x in o.
Definition n_ch (x : rnode) : Z := let 'RN _ _ c _ _ _ _ _ := x in c.
Definition n_m (x : rnode) : Z := let 'RN _ _ _ m _ _ _ _ := x in m.
Definition n_n (x : rnode) : Z := let 'RN _ _ _ _ n _ _ _ := x in n.
Definition n_str (x : rnode) : list Z := let 'RN _ _ _ _ _ s _ _ := x in s.
Definition n_set (x : rnode) : option cls := let 'RN _ _ _ _ _ _ s _ := x in s.
Definition n_kids (x : rnode) : list rnode := let 'RN _ _ _ _ _ _ _ k := x in k.

Definition set_t (x : rnode) (t : Z) : rnode := let 'RN _ o c m n s st k := x in RN t o c m n s st k.
Definition set_o (x : rnode) (o : Z) : rnode := let 'RN t _ c m n s st k := x in RN t o c m n s st k.
Definition set_mn (x : rnode) (m n : Z) : rnode := let 'RN t o c _ _ s st k := x in RN t o c m n s st k.
Definition set_kids (x : rnode) (k : list rnode) : rnode := let 'RN t o c m n s st _ := x in RN t o c m n s st k.

(* newRegexNode / newRegexNodeM / newRegexNodeMN / newRegexNodeStr (tree.go:133-178) *)
Definition mk_node (t o : Z) : rnode := RN t o 0 0 0 [] None [].
Definition mk_node_mn (t o m n : Z) : rnode := RN t o 0 m n [] None [].
Definition mk_node_str (t o : Z) (s : list Z) : rnode := RN t o 0 0 0 s None [].

Definition is_set_family (t : Z) : bool := (t =? T_Set) || (t =? T_Setloop) || (t =? T_Setlazy) || (t =? T_Setloopatomic).
Definition is_one_family (t : Z) : bool := (t =? T_One) || (t =? T_Oneloop) || (t =? T_Onelazy) || (t =? T_Oneloopatomic).
Definition is_notone_family (t : Z) : bool := (t =? T_Notone) || (t =? T_Notoneloop) || (t =? T_Notonelazy) || (t =? T_Notoneloopatomic).
Definition is_setloop_family (t : Z) : bool := (t =? T_Setloop) || (t =? T_Setlazy) || (t =? T_Setloopatomic).
Definition is_oneloop_family (t : Z) : bool := (t =? T_Oneloop) || (t =? T_Onelazy) || (t =? T_Oneloopatomic).
Definition is_notoneloop_family (t : Z) : bool := (t =? T_Notoneloop) || (t =? T_Notonelazy) || (t =? T_Notoneloopatomic).
Definition is_atomicloop_family (t : Z) : bool := (t =? T_Oneloopatomic) || (t =? T_Notoneloopatomic) || (t =? T_Setloopatomic).

Definition useM (o : Z) : bool := pl_bit o PL_Multiline.
Definition useS (o : Z) : bool := pl_bit o PL_Singleline.
Definition useN (o : Z) : bool := pl_bit o PL_ExplicitCapture.
Definition set_rtl (o : Z) : Z := Z.lor o PL_RightToLeft.
Definition clear_rtl (o : Z) : Z := Z.ldiff o PL_RightToLeft.
(* at.Options & (RightToLeft | IgnoreCase) *)
Definition li_mask (o : Z) : Z := Z.land o (PL_RightToLeft + PL_IgnoreCase).

(* slices.Repeat([]rune{ch}, k) (tree.go:741, 1897; since ff89b8d).  Before that fix both sites wrote
   []rune(strings.Repeat(string(ch), k)), and the conversion string(rune) turns a surrogate into U+FFFD:
   `\x{D800}{2}` became a Multi of two U+FFFD ([repeat_rune_old], kept for the witness in Properties/C10.v). *)
Definition repeat_rune (ch : Z) (k : Z) : list Z := repeat ch (Z.to_nat k).
Definition repeat_rune_old (ch : Z) (k : Z) : list Z := repeat (write_rune ch) (Z.to_nat k).

(* ---------------------------------------------------------------- constant classes (charclass.go:52-74) *)
Definition pp_any_class : cls := Cls [(0, max_rune)] [] None false true None.
Definition pp_ecma_any_class : cls := ranges_cls [(0, 9); (11, 12); (14, max_rune)].
Definition pp_not_word_class : cls := cat_cls true false cat_word.
Definition pp_not_space_class : cls := cat_cls true false cat_space.
Definition pp_not_digit_class : cls := cat_cls false true cat_Nd.
Definition pp_re2_space_class : cls := ranges_cls re2_space_ranges.

(* CharSet.equals on possibly-nil pointers (charclass.go:1278-1303) *)
Definition oset_equals (a b : option cls) : bool :=
  match a, b with
  | None, None => true
  | Some x, Some y => cls_equals false x y
  | _, _ => false
  end.
(* IsMergeable (498) *)
Definition is_mergeable (c : cls) : bool := negb (neg c) && no_sub c.

Fixpoint range_span (rs : list (Z * Z)) : Z :=
  match rs with
  | [] => 0
  | (a, b) :: t => (if a <=? b then b - a + 1 else 0) + range_span t
  end.
(* what addCaseEquivalences walks: the ranges of the set (nothing when the set is "anything") and of
   the subtracted sets *)
Fixpoint cls_span (c : cls) : Z :=
  match c with
  | Cls rs _ sb _ an _ => (if an then 0 else range_span rs) + match sb with Some s => cls_span s | None => 0 end
  end.

Section Parser.
Variable is_word_char : Z -> bool.
Variable to_lower : Z -> Z.
Variable simple_fold : Z -> Z.
Variable participates : Z -> bool.
Variable cat_in : Z -> Z -> bool.
Variable cat_name : list Z -> Z.

(* addCaseEquivalences on a finished set; Fuel of the orbit walk = outside the fragment *)
Definition case_close (c : cls) : pr cls :=
  if pp_ci_span_limit <? cls_span c then PO
  else match add_case_equivalences cat_in simple_fold pp_orbit_fuel c with
       | Ok c' => POk c'
       | Err _ => PO
       | Crash w => PC w
       | Fuel => PO
       end.

(* nodeWithCaseConversion (tree.go:180-229) *)
Definition case_conv (x : rnode) : pr rnode :=
  let 'RN t o ch m n str st kids := x in
  if negb (useI o) then POk x
  else if 0 <? ch then
    if negb (simple_fold ch =? ch) then
      pdo s <- case_close (add_char cat_in empty_cls ch) ;
      let t' := if (t =? T_Oneloop) || (t =? T_Notoneloop) then T_Setloop
                else if (t =? T_Onelazy) || (t =? T_Notonelazy) then T_Setlazy else T_Set in
      POk (RN t' (clear_I o) 0 0 0 [] (Some (set_neg s (is_notone_family t))) [])
    else POk x
  else match st with
       | Some s => pdo s' <- case_close s ; POk (RN t (clear_I o) ch m n str (Some s') kids)
       | None => POk x
       end.

(* newRegexNodeCh / newRegexNodeSet (tree.go:140, 156) *)
Definition mk_node_ch (t o ch : Z) : pr rnode := case_conv (RN t o ch 0 0 [] None []).
Definition mk_node_set (t o : Z) (s : cls) : pr rnode := case_conv (RN t o 0 0 0 [] (Some s) []).

(* ================================================================ the reducers (tree.go) *)

(* makeRep (292): n.T += t - NtOne *)
Definition make_rep (x : rnode) (t m n : Z) : rnode := set_mn (set_t x (n_t x + (t - T_One))) m n.

(* makeLoopAtomic (717-747) *)
Definition make_loop_atomic (x : rnode) : rnode :=
  let 'RN t o ch m n str st kids := x in
  if (t =? T_Oneloop) || (t =? T_Notoneloop) || (t =? T_Setloop)
  then RN (t + (T_Oneloopatomic - T_Oneloop)) o ch m n str st kids
  else if (t =? T_Onelazy) || (t =? T_Notonelazy) || (t =? T_Setlazy) then
    let t1 := t + (T_Oneloopatomic - T_Onelazy) in
    if m =? 0 then RN T_Empty o 0 m m [] st kids
    else if (t1 =? T_Oneloopatomic) && (2 <=? m) && (m <=? pp_multi_limit)
    then RN T_Multi o 0 0 0 (repeat_rune ch m) st kids
    else RN t1 o ch m m str st kids
  else x.

(* reduceSet (1850-1866) *)
Definition reduce_set_node (x : rnode) : res rnode :=
  let 'RN t o ch m n str st kids := x in
  match st with
  | None => Ok (RN T_Nothing o ch m n str st kids)
  | Some s =>
      if is_singleton s then do c <- singleton_char s ; Ok (RN (t + (T_One - T_Set)) o c m n str None kids)
      else if is_singleton_inverse s then do c <- singleton_char s ; Ok (RN (t + (T_Notone - T_Set)) o c m n str None kids)
      else Ok x
  end.

(* replaceNodeIfUnnecessary (1823-1836) *)
Definition replace_if_unnecessary (x : rnode) : rnode :=
  match n_kids x with
  | [] => mk_node (if n_t x =? T_Alternate then T_Nothing else T_Empty) (n_o x)
  | [k] => k
  | _ => x
  end.

(* reduceGroup (1838-1846): `for u.T == NtGroup { u = u.Children[0] }` *)
Fixpoint reduce_group (x : rnode) : res rnode :=
  let 'RN t _ _ _ _ _ _ kids := x in
  if t =? T_Group then
    match kids with
    | k :: _ => reduce_group k
    | [] => Crash 20
    end
  else Ok x.

(* reduceLookaround (516-540); eliminateEndingBacktracking is gated off *)
Definition reduce_lookaround (x : rnode) : res rnode :=
  let 'RN t o ch m n str st kids := x in
  match kids with
  | [] => Crash 21
  | k :: _ =>
      if n_t k =? T_Empty
      then Ok (RN (if t =? T_PosLook then T_Empty else T_Nothing) o ch m n str st [])
      else Ok x
  end.

(* reduceAtomic (586-715) with gate 8 set (atomic alternations are left alone) and
   eliminateEndingBacktracking gated off: strip nested Atomic nodes down to the innermost one, then
   look at its child *)
Fixpoint reduce_atomic (x : rnode) : res rnode :=
  let 'RN _ _ _ _ _ _ _ kids := x in
  match kids with
  | [] => Crash 22
  | child :: _ =>
      let ct := n_t child in
      if ct =? T_Atomic then reduce_atomic child
      else if (ct =? T_Empty) || (ct =? T_Nothing) then Ok child
      else if is_atomicloop_family ct then Ok child
      else if (ct =? T_Oneloop) || (ct =? T_Notoneloop) || (ct =? T_Setloop) ||
              (ct =? T_Onelazy) || (ct =? T_Notonelazy) || (ct =? T_Setlazy)
      then Ok (make_loop_atomic child)
      else Ok x
  end.

(* ---- reduceAlternation (1057-1077) *)

(* the flattening part of reduceSingleLetterAndNestedAlternations (1359-1361): a child that is an
   Alternate is replaced by its children, which are then visited in turn *)
Fixpoint flat_alt (x : rnode) : list rnode :=
  let 'RN t _ _ _ _ _ _ kids := x in
  if t =? T_Alternate
  then (fix go (ks : list rnode) : list rnode :=
          match ks with [] => [] | k :: ks' => flat_alt k ++ go ks' end) kids
  else [x].
Definition flatten_alts (l : list rnode) : list rnode := flat_map flat_alt l.

(* the rest of the loop (1362-1412) on the flattened list.  [sl_out] = n.Children[0..j) newest first *)
Record sl_state : Type := mkSL { sl_out : list rnode; sl_was : bool; sl_cannot : bool; sl_opt : Z }.

Definition sl_step (s : sl_state) (at_ : rnode) : res sl_state :=
  let t := n_t at_ in
  if (t =? T_Set) || (t =? T_One) then
    let oa := li_mask (n_o at_) in
    do fresh <-
       (if t =? T_Set then
          match n_set at_ with
          | None => Crash 23                                             (* at.Set.IsMergeable() *)
          | Some s1 =>
              if negb (sl_was s) || negb (sl_opt s =? oa) || sl_cannot s || negb (is_mergeable s1)
              then Ok (Some (negb (is_mergeable s1))) else Ok None
          end
        else if negb (sl_was s) || negb (sl_opt s =? oa) || sl_cannot s then Ok (Some false) else Ok None) ;
    match fresh with
    | Some cannot => Ok (mkSL (at_ :: sl_out s) true cannot oa)
    | None =>
        (* merge into the previous node (1380-1406) *)
        match sl_out s with
        | [] => Crash 24
        | prev :: out' =>
            do pc <- (if n_t prev =? T_One then Ok (add_char cat_in empty_cls (n_ch prev))
                      else match n_set prev with Some c => Ok c | None => Crash 25 end) ;
            do pc' <- (if t =? T_One then Ok (add_char cat_in pc (n_ch at_))
                       else match n_set at_ with Some c => Ok (add_set cat_in pc c) | None => Crash 23 end) ;
            let 'RN _ po pch pm pn pstr _ pk := prev in
            Ok (mkSL (RN T_Set (clear_I po) pch pm pn pstr (Some pc') pk :: out') (sl_was s) (negb (is_mergeable pc')) (sl_opt s))
        end
    end
  else if t =? T_Nothing then Ok s
  else Ok (mkSL (at_ :: sl_out s) false false (sl_opt s)).

Fixpoint sl_run (s : sl_state) (l : list rnode) : res sl_state :=
  match l with
  | [] => Ok s
  | x :: r => do s' <- sl_step s x ; sl_run s' r
  end.

(* removeRedundantEmptiesAndNothings (1285-1306) *)
Fixpoint drop_redundant (seen : bool) (l : list rnode) : list rnode :=
  match l with
  | [] => []
  | x :: r =>
      if (n_t x =? T_Nothing) || ((n_t x =? T_Empty) && seen) then drop_redundant seen r
      else x :: drop_redundant (seen || (n_t x =? T_Empty)) r
  end.
Definition remove_redundant (x : rnode) : rnode :=
  replace_if_unnecessary (set_kids x (drop_redundant false (n_kids x))).

(* reduceAlternation (1057); extractCommonPrefixText / extractCommonPrefixOneNotoneSet return their
   receiver (gate 16) *)
Definition reduce_alternation (x : rnode) : res rnode :=
  match n_kids x with
  | [] => Ok (mk_node T_Nothing (n_o x))
  | [k] => Ok k
  | kids =>
      do s <- sl_run (mkSL [] false false 0) (flatten_alts kids) ;
      let y := replace_if_unnecessary (set_kids x (rev (sl_out s))) in
      if n_t y =? T_Alternate then Ok (remove_redundant y) else Ok y
  end.

(* ---- reduceConcatenation (1422-1453) *)
(* addMaxLength (1474), canCombineCounts (1501) *)
Definition add_max_length (x y : Z) : Z :=
  if (x <? 0) || (y <? 0) || (pp_inf <=? x) || (pp_inf <=? y) || ((pp_inf - 1) - y <? x) then -1 else x + y.
Definition can_combine (nm nx mm mx : Z) : bool :=
  if (nm =? pp_inf) || (mm =? pp_inf) || (add_max_length nm mm <? 0) then false
  else if negb (nx =? pp_inf) && negb (mx =? pp_inf) && (add_max_length nx mx <? 0) then false
  else true.

Inductive cl_res : Type := CL_merged (cur : rnode) | CL_keep (cur nx : rnode).

Fixpoint count_prefix (ch : Z) (s : list Z) : Z :=
  match s with
  | c :: s' => if c =? ch then 1 + count_prefix ch s' else 0
  | [] => 0
  end.

(* one turn of the loop of reduceConcatenationWithAdjacentLoops (1526-1639) *)
Definition cl_combine (cur nx : rnode) : res cl_res :=
  let 'RN ct co cch cm cn cstr cset ckids := cur in
  let 'RN nt no nch nm nn nstr nset nkids := nx in
  let inf_or (a : Z) (b : Z) := if cn =? pp_inf then cn else if b =? pp_inf then pp_inf else a in
  if negb (co =? no) then Ok (CL_keep cur nx)
  else if ((is_oneloop_family ct || is_notoneloop_family ct) && (nt =? ct) && (cch =? nch)) ||
          (is_setloop_family ct && (ct =? nt) && oset_equals cset nset) then
    (* 1532: a loop with a loop of its own type *)
    if (0 <? nm) && is_atomicloop_family ct then Ok (CL_keep cur nx)
    else if negb (can_combine cm cn nm nn) then Ok (CL_keep cur nx)
    else Ok (CL_merged (RN ct co cch (cm + nm) (inf_or (cn + nn) nn) cstr cset ckids))
  else if (((ct =? T_Oneloop) || (ct =? T_Onelazy)) && (nt =? T_One) && (cch =? nch)) ||
          (((ct =? T_Notoneloop) || (ct =? T_Notonelazy)) && (nt =? T_Notone) && (cch =? nch)) ||
          (((ct =? T_Setloop) || (ct =? T_Setlazy)) && (nt =? T_Set) && oset_equals cset nset) then
    (* 1556: a loop with one more item *)
    if can_combine cm cn 1 1
    then Ok (CL_merged (RN ct co cch (cm + 1) (if cn =? pp_inf then cn else cn + 1) cstr cset ckids))
    else Ok (CL_keep cur nx)
  else if ((ct =? T_Oneloop) || (ct =? T_Onelazy)) && (nt =? T_Multi) then
    (* 1568: a loop with the head of a following string (left to right only) *)
    match nstr with
    | [] => Crash 26                                                    (* nextNode.Str[0] *)
    | c0 :: _ =>
        if (cch =? c0) && negb (useRTL co) then
          let k := count_prefix cch nstr in
          if can_combine cm cn k k then
            let cur' := RN ct co cch (cm + k) (if cn =? pp_inf then cn else cn + k) cstr cset ckids in
            if zlen nstr =? k then Ok (CL_merged cur')
            else if zlen nstr - k =? 1
            then Ok (CL_keep cur' (RN T_One no (last nstr 0) nm nn [] nset nkids))
            else Ok (CL_keep cur' (RN nt no nch nm nn (skipn (Z.to_nat k) nstr) nset nkids))
          else Ok (CL_keep cur nx)
        else Ok (CL_keep cur nx)
    end
  else if ((ct =? T_One) && is_oneloop_family nt && (cch =? nch)) ||
          ((ct =? T_Notone) && is_notoneloop_family nt && (cch =? nch)) ||
          ((ct =? T_Set) && is_setloop_family nt && oset_equals cset nset) then
    (* 1608: an item with a following loop *)
    if can_combine 1 1 nm nn
    then Ok (CL_merged (RN nt co cch (nm + 1) (if nn =? pp_inf then pp_inf else nn + 1) cstr cset ckids))
    else Ok (CL_keep cur nx)
  else if ((ct =? T_Notone) && (nt =? T_Notone) && (cch =? nch)) ||
          ((ct =? T_Set) && (nt =? T_Set) && oset_equals cset nset) then
    (* 1623: two equal items; makeRep(NtOneloop, 2, 2) *)
    Ok (CL_merged (make_rep cur T_Oneloop 2 2))
  else Ok (CL_keep cur nx).

Fixpoint cl_loop (cur : rnode) (l : list rnode) : res (list rnode) :=
  match l with
  | [] => Ok [cur]
  | nx :: l' =>
      do r <- cl_combine cur nx ;
      match r with
      | CL_merged c => cl_loop c l'
      | CL_keep c nx' => do t <- cl_loop nx' l' ; Ok (c :: t)
      end
  end.

(* reduceConcatenationWithAdjacentStrings (1649-1724): first the flattening of nested concatenations
   running in the same direction (1665-1674) ... *)
Fixpoint flat_concat (rtl : bool) (x : rnode) : list rnode :=
  let 'RN t o _ _ _ _ _ kids := x in
  if (t =? T_Concatenate) && Bool.eqb (useRTL o) rtl
  then (fix go (ks : list rnode) : list rnode :=
          match ks with [] => [] | k :: ks' => flat_concat rtl k ++ go ks' end) kids
  else [x].

(* ... then the merge of adjacent One / Multi nodes; [st_out] newest first *)
Record st_state : Type := mkST { st_out : list rnode; st_was : bool; st_opt : Z }.

Definition st_step (s : st_state) (at_ : rnode) : res st_state :=
  let t := n_t at_ in
  if (t =? T_Multi) || (t =? T_One) then
    let oa := li_mask (n_o at_) in
    if negb (st_was s) || negb (st_opt s =? oa) then Ok (mkST (at_ :: st_out s) true oa)
    else
      match st_out s with
      | [] => Crash 27
      | prev :: out' =>
          let 'RN pt po pch pm pn pstr pset pk := prev in
          let ps := if pt =? T_One then [pch] else pstr in
          let s2 := if t =? T_One then [n_ch at_] else n_str at_ in
          let merged := if Z.land oa PL_RightToLeft =? 0 then ps ++ s2 else s2 ++ ps in
          Ok (mkST (RN T_Multi po pch pm pn merged pset pk :: out') true (st_opt s))
      end
  else if t =? T_Empty then Ok s
  else Ok (mkST (at_ :: st_out s) false (st_opt s)).

Fixpoint st_run (s : st_state) (l : list rnode) : res st_state :=
  match l with
  | [] => Ok s
  | x :: r => do s' <- st_step s x ; st_run s' r
  end.

Definition reduce_concatenation (x : rnode) : res rnode :=
  match n_kids x with
  | [] => Ok (mk_node T_Empty (n_o x))
  | [k] => Ok k
  | k0 :: krest =>
      match find (fun k => n_t k =? T_Nothing) (k0 :: krest) with
      | Some k => Ok k                                                  (* 1434-1439 *)
      | None =>
          do l1 <- cl_loop k0 krest ;
          do s <- st_run (mkST [] false 0) (flat_map (flat_concat (useRTL (n_o x))) l1) ;
          Ok (replace_if_unnecessary (set_kids x (rev (st_out s))))
      end
  end.

(* ---- reduceRep (1728-1818) *)
(* maxLessThanTwiceMin (1494) *)
Definition max_less_twice_min (mx mn : Z) : bool :=
  if mn <=? pp_inf / 2 then mx <? mn * 2 else negb (mx =? pp_inf).

(* the descent 1741-1793.  [um] [un] are u.M, u.N as they stand (the stored fields of [u] are stale
   once u has been multiplied); the result is u with its current counts *)
Fixpoint rep_descend (t mn mx : Z) (u : rnode) (um un : Z) : rnode :=
  let 'RN ut uo uch _ _ ustr uset ukids := u in
  let here := RN ut uo uch um un ustr uset ukids in
  match ukids with
  | [] => here
  | child :: _ =>
      let ct := n_t child in
      let valid :=
        if ct =? t then true
        else if t =? T_Loop then
          if (ct =? T_Oneloop) || (ct =? T_Notoneloop) || (ct =? T_Setloop) then true
          else if is_atomicloop_family ct
          then ((n_m child =? 0) && (n_n child =? pp_inf) && (1 <=? um)) || ((n_m child =? n_n child) && (um =? un))
          else false
        else (ct =? T_Onelazy) || (ct =? T_Notonelazy) || (ct =? T_Setlazy) in
      if negb valid then here
      else if ((um =? 0) && (1 <? n_m child)) || max_less_twice_min (n_n child) (n_m child) then here
      else
        let cm := n_m child in
        let cn := n_n child in
        let cm' := if 0 <? cm then (if (pp_inf - 1) / cm <? mn then pp_inf else cm * mn) else cm in
        let cn' := if 0 <? cn then (if (pp_inf - 1) / cn <? mx then pp_inf else cn * mx) else cn in
        rep_descend t mn mx child cm' cn'
  end.

Definition reduce_rep (x : rnode) : rnode :=
  let 'RN t o _ m n _ _ kids := x in
  let general :=
    let u := rep_descend t m n x m n in
    if m =? pp_inf then mk_node T_Nothing o
    else match n_kids u with
         | [c] => if (n_t c =? T_One) || (n_t c =? T_Notone) || (n_t c =? T_Set)
                  then make_rep c (if n_t u =? T_Lazyloop then T_Onelazy else T_Oneloop) (n_m u) (n_n u)
                  else u
         | _ => u
         end in
  match kids with
  | [k] => if n_t k =? T_Empty then k else general
  | _ => general
  end.

(* ---- reduce (486-513) *)
Fixpoint reduce (x : rnode) : res rnode :=
  let 'RN t o ch m n str st kids := x in
  let o1 := if t =? T_Ref then o else clear_I o in
  let x1 := RN t o1 ch m n str st kids in
  if t =? T_Alternate then reduce_alternation x1
  else if t =? T_Atomic then reduce_atomic x1
  else if t =? T_Concatenate then reduce_concatenation x1
  else if t =? T_Group then reduce_group x1
  else if (t =? T_Loop) || (t =? T_Lazyloop) then Ok (reduce_rep x1)
  else if (t =? T_PosLook) || (t =? T_NegLook) then reduce_lookaround x1
  else if is_set_family t then reduce_set_node x1
  else if t =? T_ExprCond then
    (* reduceExpressionConditional (556-581) *)
    let kids2 := match kids with [_; _] => kids ++ [mk_node T_Empty o1] | _ => kids end in
    match kids with
    | [] => Crash 28                                                    (* n.Children[0] *)
    | cond :: _ =>
        let 'RN ct co _ _ _ _ _ ckids := cond in
        if (ct =? T_PosLook) && negb (useRTL co) then
          match ckids with
          | [] => Crash 29                                              (* condition.Children[0] *)
          | c :: _ => do c' <- reduce c ;                               (* ReplaceChild(0, ..) reduces again *)
                      Ok (RN t o1 ch m n str st (c' :: tl kids2))
          end
        else Ok (RN t o1 ch m n str st kids2)
    end
  else if t =? T_BackRefCond then
    (* reduceBackreferenceConditional (543-553) *)
    match kids with
    | [k] => Ok (RN t o1 ch m n str st [k; mk_node T_Empty o1])
    | _ => Ok x1
    end
  else Ok x1.

(* addChild (261-267) *)
Definition add_child (parent child : rnode) : res rnode :=
  do r <- reduce child ; Ok (set_kids parent (n_kids parent ++ [r])).

(* makeQuantifier (1879-1922) *)
Definition make_quantifier (x : rnode) (lazy : bool) (mn mx : Z) : res rnode :=
  let 'RN t o ch m n str st kids := x in
  if (mn =? 0) && (mx =? 0) then Ok (mk_node T_Empty o)
  else if (mn =? 1) && (mx =? 1) then Ok x
  else if (mn =? mx) && (mx <=? pp_multi_limit) && (t =? T_One)
  then Ok (RN T_Multi o 0 m n (repeat_rune ch mx) st kids)
  else if (t =? T_One) || (t =? T_Notone) || (t =? T_Set)
  then Ok (make_rep x (if lazy then T_Onelazy else T_Oneloop) mn mx)
  else add_child (mk_node_mn (if lazy then T_Lazyloop else T_Loop) o mn mx) x.

(* reverseLeft (1868-1877) *)
Definition reverse_left (x : rnode) : rnode :=
  if useRTL (n_o x) && (n_t x =? T_Concatenate) then set_kids x (rev (n_kids x)) else x.

(* ================================================================ scanners (parser.go) *)

(* small readers of the pattern: rightChar(i) == c with the bound test that precedes it *)
Definition hd_is (p : list Z) (c : Z) : bool := match p with x :: _ => x =? c | [] => false end.
Definition nth_is (i : nat) (p : list Z) (c : Z) : bool := hd_is (skipn i p) c.
Definition longer (p : list Z) (n : nat) : bool := Nat.ltb n (length p).        (* charsRight() > n *)

(* scanBlank (1557-1602): x-mode blanks and #-comments, and (?#...) comments in both modes *)
Inductive bmode : Type := BNorm | BLine | BParen.
Definition starts_qhash (p : list Z) : bool := hd_is p 63 && nth_is 1 p 35.
Fixpoint blank (x : bool) (md : bmode) (p : list Z) : pr (list Z) :=
  match p with
  | [] => match md with BParen => PE PE_UnterminatedComment [] | _ => POk [] end
  | ch :: p' =>
      match md with
      | BLine => if ch =? 10 then (if is_space 10 then blank x BNorm p' else POk p) else blank x BLine p'
      | BParen => if ch =? 41 then blank x BNorm p' else blank x BParen p'
      | BNorm =>
          if x && is_space ch then blank x BNorm p'
          else if x && (ch =? 35) then blank x BLine p'
          else if (ch =? 40) && starts_qhash p' then blank x BParen p'
          else POk p
      end
  end.
Definition scan_blank_full (o : Z) (p : list Z) : pr (list Z) := blank (useX o) BNorm p.

(* scanOptions (1960-1983) through Options.scan_options: the option characters up to the first
   character that is not one of "+-imnsxuIMNSXU" *)
Definition option_from_code (ch : Z) : Z :=
  if (ch =? 105) || (ch =? 73) then opt_i
  else if (ch =? 114) || (ch =? 82) then opt_r
  else if (ch =? 109) || (ch =? 77) then opt_m
  else if (ch =? 110) || (ch =? 78) then opt_n
  else if (ch =? 115) || (ch =? 83) then opt_s
  else if (ch =? 120) || (ch =? 88) then opt_x
  else if (ch =? 101) || (ch =? 69) then opt_e
  else if (ch =? 117) || (ch =? 85) then opt_u
  else 0.
Definition is_only_top_option (b : Z) : bool := (b =? opt_r) || (b =? opt_e) || (b =? opt_re2).
Fixpoint ochars_of (p : list Z) : list ochar * list Z :=
  match p with
  | [] => ([], [])
  | ch :: p' =>
      if ch =? 45 then let '(cs, r) := ochars_of p' in (OMinus :: cs, r)
      else if ch =? 43 then let '(cs, r) := ochars_of p' in (OPlus :: cs, r)
      else let b := option_from_code ch in
           if (b =? 0) || is_only_top_option b then ([], p)
           else let '(cs, r) := ochars_of p' in (OBit b :: cs, r)
  end.
Definition scan_options_text (o : Z) (p : list Z) : Z * list Z :=
  let '(cs, r) := ochars_of p in (scan_options false cs o, r).

(* the cursor at the moment scanCharEscape (1986) fails; meaningful only when it does *)
Fixpoint hexbrace_err_rest (i : Z) (p : list Z) : list Z :=
  match p with
  | [] => []
  | ch :: p' =>
      if ch =? 125 then p'
      else let d := hex_digit ch in
           if d <? 0 then p'
           else let i' := i * 16 + d in if 1114111 <? i' then p' else hexbrace_err_rest i' p'
  end.
Fixpoint hex_err_rest (c : nat) (p : list Z) : list Z :=
  match c with
  | O => p
  | S c' => match p with
            | [] => []
            | ch :: p' => if hex_digit ch <? 0 then p' else hex_err_rest c' p'
            end
  end.
Definition scan_hex_err_rest (c : nat) (p : list Z) : list Z :=
  if Nat.leb c (length p) then hex_err_rest c p else p.
Definition esc_err_rest (o : Z) (p : list Z) : list Z :=
  match p with
  | [] => []
  | ch :: p' =>
      if ch =? 120 then
        match p' with
        | c2 :: p'' => if c2 =? 123 then hexbrace_err_rest 0 p'' else scan_hex_err_rest pl_x_digits p'
        | [] => p'
        end
      else if ch =? 117 then
        match p' with
        | c2 :: p'' => if (c2 =? 123) && useE o && useU o then hexbrace_err_rest 0 p''
                       else scan_hex_err_rest pl_u_digits p'
        | [] => p'
        end
      else if ch =? 99 then match p' with [] => [] | _ :: q => q end
      else p'
  end.
(* scanCharEscape; p = the pattern after the backslash, non-empty at every call site *)
Definition char_escape (o : Z) (p : list Z) : pr (Z * list Z) :=
  of_res (pl_scan_char_escape is_word_char o p) (esc_err_rest o p).

(* scanDecimal (1932) with the cursor of its only error *)
Fixpoint dec_err_rest (i : Z) (p : list Z) : list Z :=
  match p with
  | [] => []
  | ch :: p' =>
      let d := ch - 48 in
      if (d <? 0) || (9 <? d) then p
      else if (214748364 <? i) || ((i =? 214748364) && (7 <? d)) then p'
      else dec_err_rest (i * 10 + d) p'
  end.
Definition decimal (p : list Z) : pr (Z * list Z) := of_res (scan_decimal 0 p) (dec_err_rest 0 p).

(* parseProperty (1487-1528): the canonical category id of \pX / \p{name} *)
Fixpoint prop_name (p : list Z) : list Z * list Z :=
  match p with
  | ch :: p' => if is_word_char ch || (ch =? 45) || (ch =? 61)
                then let '(w, r) := prop_name p' in (ch :: w, r) else ([], p)
  | [] => ([], [])
  end.
Definition prop_lookup (nm q : list Z) : pr (Z * list Z) :=
  let id := cat_name nm in
  if 0 <=? id then POk (id, q) else if id =? -1 then PE PE_UnknownSlashP q else PO.
Definition parse_property (o : Z) (p : list Z) : pr (Z * list Z) :=
  match p with
  | ch :: p1 =>
      if negb (ch =? 123) && (negb (useE o) || negb (useU o)) then prop_lookup [ch] p1
      else if negb (longer p 2) then PE PE_IncompleteSlashP p
      else if negb (ch =? 123) then PE PE_MalformedSlashP p1
      else let '(nm, q) := prop_name p1 in
           match q with
           | [] => PE PE_IncompleteSlashP []
           | c :: q' => if c =? 125 then prop_lookup nm q' else PE PE_IncompleteSlashP q'
           end
  | [] => PE PE_IncompleteSlashP p
  end.

(* ---- scanCharSet (1685-1929): the text of a bracket expression -> csyn (Model/CharClass.v) *)
Definition posix_name_table : list (list Z) :=
  [[97;108;110;117;109]; [97;108;112;104;97]; [97;115;99;105;105]; [98;108;97;110;107]; [99;110;116;114;108];
   [100;105;103;105;116]; [103;114;97;112;104]; [108;111;119;101;114]; [112;114;105;110;116]; [112;117;110;99;116];
   [115;112;97;99;101]; [117;112;112;101;114]; [119;111;114;100]; [120;100;105;103;105;116]].
Fixpoint posix_index_in (nm : list Z) (l : list (list Z)) (i : Z) : option Z :=
  match l with
  | [] => None
  | x :: r => if zlist_eqb nm x then Some i else posix_index_in nm r (i + 1)
  end.
Definition posix_index (nm : list Z) : option Z := posix_index_in nm posix_name_table 0.

(* the "^" in front of a class *)
Definition caret (p : list Z) : bool * list Z := if hd_is p 94 then (true, tl p) else (false, p).

(* the recursive calls of scanCharSet's loop: scan_only, negate, cursor, chPrev, inRange, firstChar,
   items (newest first), cc.sub *)
Definition cs_rec : Type :=
  bool -> bool -> list Z -> Z -> bool -> bool -> list CharClass.item -> option csyn -> pr (csyn * list Z).

Section ClassLoop.
Variable rec : cs_rec.
Variable so : bool.              (* scanOnly *)
Variable o : Z.
Variable ng : bool.
Variable chprev : Z.
Variable inrange first : bool.
Variable sub : option csyn.

(* the next turn of the loop (firstChar = false) *)
Definition cs_next (q : list Z) (cp : Z) (ir : bool) (its : list CharClass.item) (sb : option csyn) : pr (csyn * list Z) :=
  rec so ng q cp ir false its sb.

(* a nested class (1863, 1890, 1901) *)
Definition cs_nested (so' : bool) (q : list Z) : pr (csyn * list Z) :=
  let '(ng2, q2) := caret q in rec so' ng2 q2 0 false true [] None.

(* after a subtraction (1869, 1896) *)
Definition cs_after_sub (r : csyn * list Z) (its : list CharClass.item) : pr (csyn * list Z) :=
  let '(sb, q3) := r in
  if negb (match q3 with [] => true | _ => false end) && negb (hd_is q3 93) then PE PE_SubtractionMustBeLast q3
  else cs_next q3 chprev false its (Some sb).

(* 1855-1907: the character ch (translated = came from an escape) at cursor q *)
Definition cs_generic (ch : Z) (translated : bool) (q : list Z) (items : list CharClass.item) : pr (csyn * list Z) :=
  if inrange then
    if so then
      (* scan-only (countCaptures): a subtraction written where a range was expected, [a-[b]], is skipped as a
         unit, its error dropped like in the "-[" branch below (since a5090c5; before that fix the pre-scan went on
         inside the subtracted class and closed the outer class at its first ']': `(?n:[a-[](]])(b)`) *)
      if (ch =? 91) && negb translated && negb first then
        match cs_nested true q with
        | POk (_, q3) => cs_next q3 chprev false items sub
        | PE _ q3 => cs_next q3 chprev false items sub
        | PO => PO
        | PC w => PC w
        | PF => PF
        end
      else cs_next q chprev false items sub
    else if (ch =? 91) && negb translated && negb first then
      pdo r <- cs_nested false q ; cs_after_sub r (IRange chprev chprev :: items)
    else if ch <? chprev then PE PE_ReversedCharRange q
    else cs_next q chprev false (IRange chprev ch :: items) sub
  else if longer q 1 && hd_is q 45 && negb (nth_is 1 q 93) then cs_next (tl q) ch true items sub
  else if longer q 0 && (ch =? 45) && negb translated && hd_is q 91 && negb first then
    if so then
      match cs_nested true (tl q) with
      | POk (_, q3) => cs_next q3 chprev false items sub
      | PE _ q3 => cs_next q3 chprev false items sub
      | PO => PO
      | PC w => PC w
      | PF => PF
      end
    else pdo r <- cs_nested false (tl q) ; cs_after_sub r items
  else cs_next q chprev false (if so then items else IRange ch ch :: items) sub.

(* \d \s \w and their complements (1724-1765) *)
Definition cs_shorthand (it : CharClass.item) (q : list Z) (items : list CharClass.item) : pr (csyn * list Z) :=
  (* since c605b5f the range flag follows the full scan when only scanning: before, "[a-\d" left it set and
     countCaptures lost step with the main pass on `(?n:[a-\d\PL(])(b)` under ECMAScript *)
  if so then cs_next q chprev false items sub
  else if inrange then
    (if negb (useE o) then PE PE_BadClassInCharRange q
     else cs_next q chprev false (it :: IRange 45 45 :: IRange chprev chprev :: items) sub)
  else cs_next q chprev false (it :: items) sub.

(* \p \P (1767-1808); p2 = the pattern after the letter c2 *)
Definition cs_prop (c2 : Z) (p2 : list Z) (items : list CharClass.item) : pr (csyn * list Z) :=
  if useE o && negb (useU o) && (c2 =? 80) && inrange then PE PE_ShorthandClassInCharRange p2
  else if useE o && negb (useU o) && (c2 =? 112) then
    (* 1771-1792: a literal 'p' with a range logic of its own; cursor and flag move alike when only scanning (c605b5f) *)
    if inrange then
      (if so then cs_next p2 chprev false items sub
       else if 112 <? chprev then PE PE_ReversedCharRange p2
       else cs_next p2 chprev false (IRange chprev 112 :: items) sub)
    else if longer p2 1 && hd_is p2 45 && negb (nth_is 1 p2 93) then
      let e := nth 1 p2 0 in
      if so then cs_next (skipn 2 p2) chprev false items sub
      else if e <? 112 then PE PE_ReversedCharRange (skipn 2 p2)
      else cs_next (skipn 2 p2) chprev false (IRange 112 e :: IRange 45 45 :: items) sub
    else cs_next p2 chprev false (if so then items else IRange 112 112 :: items) sub
  else
    pdo r <- parse_property o p2 ;
    let '(id, q) := r in
    if so then cs_next q chprev inrange items sub
    else if inrange then PE PE_ShorthandClassInCharRange q
    else cs_next q chprev false (IProp (negb (c2 =? 112)) id :: items) sub.

(* [: ... :] (1825-1853); p2 = the pattern after "[:" *)
Definition cs_posix (p1 p2 : list Z) (items : list CharClass.item) : pr (csyn * list Z) :=
  let '(ngp, p3) := if longer p2 1 && hd_is p2 94 then (true, tl p2) else (false, p2) in
  let '(nm, p4) := scan_word is_word_char p3 in
  (* since /repo fde9056 the name is looked up only once ":]" has been seen *)
  if longer p4 1 && hd_is p4 58 && nth_is 1 p4 93 then
    (if useRE2 o then
       pdo items' <- (if negb so then
                        match posix_index nm with
                        | Some k => POk (IPosix ngp k :: items)
                        | None => PE PE_InvalidCharRange (skipn 2 p4)
                        end
                      else POk items) ;
       cs_next (skipn 2 p4) chprev inrange items' sub
     else cs_generic 91 false (skipn 2 p4) items)
  else cs_generic 91 false p1 items.

(* one turn of the loop (1707-1908) *)
Definition cs_body (p : list Z) (items : list CharClass.item) : pr (csyn * list Z) :=
  match p with
  | [] => PE PE_UnterminatedBracket []
  | ch :: p1 =>
      if ch =? 93 then
        (if negb first || useE o then POk (CSyn ng (rev items) sub, p1) else cs_generic 93 false p1 items)
      else if ch =? 92 then
        match p1 with
        | [] => cs_generic 92 false p1 items
        | c2 :: p2 =>
            if (c2 =? 68) || (c2 =? 100) then cs_shorthand (IDigit (c2 =? 68)) p2 items
            else if (c2 =? 83) || (c2 =? 115) then cs_shorthand (ISpace (c2 =? 83)) p2 items
            else if (c2 =? 87) || (c2 =? 119) then cs_shorthand (IWord (c2 =? 87)) p2 items
            else if (c2 =? 112) || (c2 =? 80) then cs_prop c2 p2 items
            else if c2 =? 45 then cs_next p2 chprev inrange (if so then items else IRange 45 45 :: items) sub
            else pdo r <- char_escape o p1 ; let '(c, q) := r in cs_generic c true q items
        end
      else if (ch =? 91) && hd_is p1 58 && negb inrange then cs_posix p1 (tl p1) items
      else cs_generic ch false p1 items
  end.
End ClassLoop.

(* One unit of fuel per loop turn and per nested class. *)
Fixpoint cs_loop (fuel : nat) (so : bool) (o : Z) (ng : bool) (p : list Z) (chprev : Z) (inrange first : bool)
         (items : list CharClass.item) (sub : option csyn) : pr (csyn * list Z) :=
  match fuel with
  | O => PF
  | S f => cs_body (fun so' ng' q cp ir fi its sb => cs_loop f so' o ng' q cp ir fi its sb)
                   so o ng chprev inrange first sub p items
  end.

Definition cs_scan (fuel : nat) (so : bool) (o : Z) (p : list Z) : pr (csyn * list Z) :=
  let '(ng, p0) := caret p in cs_loop fuel so o ng p0 0 false true [] None.

(* an upper estimate of the code points listed by a bracket expression before it is folded *)
Definition item_span (o : Z) (it : CharClass.item) : Z :=
  match it with
  | IRange a b => if a <=? b then b - a + 1 else 0
  | IDigit ng | IWord ng => if (useE o || useRE2 o) && ng then 1200000 else 100
  | ISpace ng => if (useE o || useRE2 o) && ng then 1200000 else 100
  | IProp _ _ => 0
  | IPosix ng _ => if ng then 1200000 else 200
  end.
Fixpoint syn_span (o : Z) (s : csyn) : Z :=
  match s with
  | CSyn _ items sb =>
      fold_left (fun a it => a + item_span o it) items 0 + match sb with Some s' => syn_span o s' | None => 0 end
  end.

(* the Set node of a bracket expression: scanCharSet's set + newRegexNodeSet (588-592) *)
Definition class_node (o : Z) (s : csyn) : pr rnode :=
  if useI o && (pp_ci_span_limit <? syn_span o s) then PO
  else match scan_char_set cat_in simple_fold to_lower pp_orbit_fuel (Opts (useI o) (useE o) (useRE2 o)) s with
       | Ok c => mk_node_set T_Set o c
       | Err _ => PO
       | Crash w => PC w
       | Fuel => PO
       end.

(* ---- scanBackslash (1280) / scanBasicBackslash (1362) *)
Inductive bres : Type := BNode (x : rnode) | BNil.

(* the capture table as the two passes see it *)
Record captab : Type := mkCT { ct_slot : Z -> bool; ct_name : list Z -> option Z; ct_named : bool }.

Definition class_of_letter (o : Z) (l : Z) : cls :=
  let er := useE o || useRE2 o in
  if l =? 119 then (if er then ecma_word_class else word_class)
  else if l =? 87 then (if er then ranges_cls not_ecma_word_ranges else pp_not_word_class)
  else if l =? 115 then (if useE o then ecma_space_class else if useRE2 o then pp_re2_space_class else space_class)
  else if l =? 83 then (if useE o then ranges_cls not_ecma_space_ranges
                        else if useRE2 o then ranges_cls not_re2_space_ranges else pp_not_space_class)
  else if l =? 100 then (if er then ecma_digit_class else digit_class)
  else (if er then ranges_cls not_ecma_digit_ranges else pp_not_digit_class).

(* "Not backreference: must be char code" (1467-1483); p0 = the pattern after the backslash *)
Definition char_code (so : bool) (o : Z) (p0 : list Z) : pr (bres * list Z) :=
  pdo r <- char_escape o p0 ;
  let '(c, q) := r in
  if so then POk (BNil, q)
  else pdo x <- mk_node_ch T_One o (if useI o then to_lower c else c) ; POk (BNode x, q).

(* the angled forms (1415-1426, 1444-1465); cur = the pattern at the first character of the name *)
Definition name_or_num (so : bool) (tb : captab) (o : Z) (k : bool) (close : Z) (p0 cur : list Z) : pr (bres * list Z) :=
  match cur with
  | [] => PC 30
  | ch :: _ =>
      if is_digit ch then
        pdo r <- decimal cur ;
        let '(capnum, r1) := r in
        if hd_is r1 close
        then (if ct_slot tb capnum then POk (BNode (mk_node_mn T_Ref o capnum 0), tl r1) else PE E_UndefinedBackRef (tl r1))
        else char_code so o p0
      else if useE o then PO                                             (* scanECMACapname *)
      else
        let '(nm, r1) := scan_word is_word_char cur in
        if negb (match nm with [] => true | _ => false end) && hd_is r1 close then
          (if so then POk (BNil, tl r1)
           else match ct_name tb nm with
                | Some g => POk (BNode (mk_node_mn T_Ref o g 0), tl r1)
                | None => PE E_UndefinedNameRef (tl r1)
                end)
        else if k then PE E_MalformedNameRef (if negb (match nm with [] => true | _ => false end) then tl r1 else r1)
        else char_code so o p0
  end.

Definition basic_backslash (so : bool) (tb : captab) (o : Z) (p : list Z) : pr (bres * list Z) :=
  match p with
  | [] => PE E_IllegalEndEscape []
  | ch :: p1 =>
      if (ch =? 107) && (negb (useE o) || useU o || ct_named tb) then
        match p1 with
        | c2 :: p2 =>
            let angled := (c2 =? 60) || (negb (useE o) && (c2 =? 39)) in
            if negb angled then PE E_MalformedNameRef p2
            else match p2 with
                 | [] => PE E_MalformedNameRef p2
                 | _ => name_or_num so tb o true (if c2 =? 39 then 39 else 62) p p2
                 end
        | [] => PE E_MalformedNameRef p
        end
      else if negb (useE o) && ((ch =? 60) || (ch =? 39)) && longer p 1
      then name_or_num so tb o false (if ch =? 39 then 39 else 62) p p1
      else if (49 <=? ch) && (ch <=? 57) then
        pdo r <- decimal p ;
        let '(capnum, q) := r in
        if so then POk (BNil, q)
        else if ct_slot tb capnum then POk (BNode (mk_node_mn T_Ref o capnum 0), q)
        else if (capnum <=? 9) && negb (useE o) then PE E_UndefinedBackRef q
        else char_code so o p
      else char_code so o p
  end.

Definition scan_backslash_full (so : bool) (tb : captab) (o : Z) (p : list Z) : pr (bres * list Z) :=
  match p with
  | [] => PE E_IllegalEndEscape []
  | ch :: p1 =>
      if zmem ch pl_assert_letters
      then POk (if so then BNil else BNode (mk_node (type_from_code o ch) o), p1)
      else if zmem ch pl_class_letters then
        (if so then POk (BNil, p1)
         else pdo x <- mk_node_set T_Set o (class_of_letter o ch) ; POk (BNode x, p1))
      else if (ch =? 112) || (ch =? 80) then
        if useE o && negb (useU o) then basic_backslash so tb o p
        else
          pdo r <- parse_property o p1 ;
          let '(id, q) := r in
          if so then POk (BNil, q)
          else
            let cc := add_category empty_cls id (negb (ch =? 112)) (useI o) in
            let cc := if useI o then add_lowercase cat_in to_lower cc else cc in
            pdo x <- mk_node_set T_Set o cc ; POk (BNode x, q)
      else basic_backslash so tb o p
  end.

(* ================================================================ countCaptures (380-498) *)
(* the pre-scan state: the capture tables of Model/GroupMap.v + options, optionsStack, ignoreNextParen *)
Record cst : Type := mkCS { cs_c : cstate; cs_o : Z; cs_os : list Z; cs_ign : bool }.

Definition set_cs_c (st : cst) (c : cstate) : cst := mkCS c (cs_o st) (cs_os st) (cs_ign st).
Definition set_cs_ign (st : cst) (b : bool) : cst := mkCS (cs_c st) (cs_o st) (cs_os st) b.

(* what scanBackslash(true) can see of the half-built tables *)
Definition captab_pre (c : cstate) : captab :=
  mkCT (fun k => zmem k (c_caps c)) (fun _ => None)
       (match c_capnames c with Some (_ :: _) => true | _ => false end).

(* noteCaptureName (219); GroupMap's duplicate-name error becomes the parser's code *)
Definition note_name_pr (mco : bool) (o : Z) (s : list Z) (c : cstate) : pr cstate :=
  match note_name mco (useE o) s c with
  | Ok c' => POk c'
  | Err _ => PE PE_DuplicateGroupName []
  | Crash w => PC w
  | Fuel => PF
  end.

(* consumeAutocap (366) + noteCaptureSlot for a plain "(" (486) *)
Definition note_auto (c : cstate) : cstate :=
  let k := c_autocap c in
  note_slot k (mkC (k + 1) (c_caps c) (c_capcount c) (c_captop c) (c_capnames c) (c_capnamelist c)).

(* errors of the scanners called by the pre-scan are dropped; it goes on from the cursor *)
Definition ignore_err {A} (r : pr (A * list Z)) : pr (list Z) :=
  match r with
  | POk (_, q) => POk q
  | PE _ q => POk q
  | PO => PO
  | PC w => PC w
  | PF => PF
  end.
Definition ignore_err0 (r : pr (list Z)) : pr (list Z) :=
  match r with
  | PE _ q => POk q
  | _ => r
  end.

(* 420-448: (?<name  (?'name  (?<number ; p3 = the pattern after "(?<" / "(?'", non-empty *)
Definition prescan_named (mco : bool) (st1 : cst) (p3 : list Z) : pr (cst * list Z) :=
  let o := cs_o st1 in
  match p3 with
  | [] => PC 31
  | ch2 :: _ =>
      if useE o then
        (if (ch2 =? 61) || (ch2 =? 33) || (ch2 =? 48) then POk (set_cs_ign st1 false, p3)
         else PO)                                                                        (* ECMAScript names *)
      else if negb (ch2 =? 48) && is_word_char ch2 then
        if (49 <=? ch2) && (ch2 <=? 57) then
          pdo r <- decimal p3 ;
          let '(dec, q) := r in
          if mco then
            pdo c' <- note_name_pr mco o (itoa dec) (cs_c st1) ;
            POk (set_cs_ign (set_cs_c st1 c') false, q)
          else POk (set_cs_ign (set_cs_c st1 (note_slot dec (cs_c st1))) false, q)
        else
          let '(nm, q) := scan_word is_word_char p3 in
          pdo c' <- note_name_pr mco o nm (cs_c st1) ;
          POk (set_cs_ign (set_cs_c st1 c') false, q)
      else POk (set_cs_ign st1 false, p3)
  end.

(* 449-461: (?P<name ; p3 = the pattern after "(?P<", non-empty *)
Definition prescan_pyname (mco : bool) (st1 : cst) (p3 : list Z) : pr (cst * list Z) :=
  let o := cs_o st1 in
  match p3 with
  | [] => PC 32
  | ch2 :: _ =>
      if is_word_char ch2 then
        if useE o then PO
        else
          let '(nm, q) := scan_word is_word_char p3 in
          pdo c' <- note_name_pr mco o nm (cs_c st1) ;
          POk (set_cs_ign (set_cs_c st1 c') false, q)
      else POk (set_cs_ign st1 false, p3)
  end.

(* 410-491: "(" ; p1 = the pattern after it *)
Definition prescan_open (mco : bool) (st : cst) (p p1 : list Z) : pr (cst * list Z) :=
  let o := cs_o st in
  if starts_qhash p1 then
    pdo q <- ignore_err0 (scan_blank_full o p) ; POk (set_cs_ign st false, q)
  else
    let st1 := mkCS (cs_c st) o (o :: cs_os st) (cs_ign st) in                           (* pushOptions *)
    if hd_is p1 63 then
      let p2 := tl p1 in
      if longer p2 1 && (hd_is p2 60 || hd_is p2 39) then prescan_named mco st1 (tl p2)
      else if useRE2 o && longer p2 2 && hd_is p2 80 && nth_is 1 p2 60 then prescan_pyname mco st1 (skipn 2 p2)
      else
        (* 463-483: (?imnsx-imnsx) / (?imnsx-imnsx: / (?( *)
        let '(o2, q) := scan_options_text o p2 in
        let st2 := mkCS (cs_c st1) o2 (cs_os st1) (cs_ign st1) in
        if hd_is q 41 then
          match cs_os st2 with
          | [] => PC 33                                                                  (* popKeepOptions *)
          | _ :: r => POk (mkCS (cs_c st2) o2 r false, tl q)
          end
        else if hd_is q 40 then POk (set_cs_ign st2 true, q)                             (* `continue` *)
        else POk (set_cs_ign st2 false, q)
    else if negb (useN o) && negb (cs_ign st1)
    then POk (set_cs_ign (set_cs_c st1 (note_auto (cs_c st1))) false, p1)
    else POk (set_cs_ign st1 false, p1).

(* one turn of the loop 387-494; p = ch :: p1 *)
Definition prescan_step (mco : bool) (st : cst) (ch : Z) (p1 : list Z) : pr (cst * list Z) :=
  let o := cs_o st in
  let p := ch :: p1 in
  if ch =? 92 then
    match p1 with
    | [] => POk (st, p1)
    | _ => pdo q <- ignore_err (scan_backslash_full true (captab_pre (cs_c st)) o p1) ; POk (st, q)
    end
  else if ch =? 35 then
    (if useX o then pdo q <- ignore_err0 (scan_blank_full o p) ; POk (st, q) else POk (st, p1))
  else if ch =? 91 then
    pdo q <- ignore_err (cs_scan (S (length p1)) true o p1) ; POk (st, q)
  else if ch =? 41 then
    match cs_os st with
    | [] => POk (st, p1)
    | o' :: r => POk (mkCS (cs_c st) o' r (cs_ign st), p1)
    end
  else if ch =? 40 then prescan_open mco st p p1
  else POk (st, p1).

Fixpoint prescan_loop (fuel : nat) (mco : bool) (st : cst) (p : list Z) : pr cst :=
  match fuel with
  | O => PF
  | S f =>
      match p with
      | [] => POk st
      | ch :: p1 => pdo r <- prescan_step mco st ch p1 ; let '(st', q) := r in prescan_loop f mco st' q
      end
  end.

(* countCaptures + assignNameSlots: the finished tables *)
Definition count_captures (mco : bool) (o : Z) (p : list Z) : pr GroupMap.ptree :=
  pdo st <- prescan_loop (S (length p)) mco (mkCS c_init o [] false) p ;
  of_res (if mco then assign_ordered (useE o) (cs_c st) else assign_default (cs_c st)) [].

Definition captab_main (tb : GroupMap.ptree) : captab :=
  mkCT (is_slot tb)
       (fun s => if is_name tb s then Some (slot_from_name tb s) else None)
       (negb (no_names tb)).

(* ================================================================ scanGroupOpen (971-1277) *)
(* the parser fields scanGroupOpen changes: options, ignoreNextParen, autocap *)
Record gvars : Type := mkGV { gv_o : Z; gv_ign : bool; gv_autocap : Z }.

Definition is_nil (p : list Z) : bool := match p with [] => true | _ => false end.
(* charsRight() > 0 && rightChar(0) != c *)
Definition hd_is_not (p : list Z) (c : Z) : bool := negb (is_nil p) && negb (hd_is p c).

(* 1040-1140: the name part of (?<name> (?'name' (?<name-name> ...; cur = the pattern after '<' or '\'' *)
Definition group_name (tb : captab) (mco : bool) (v : gvars) (close : Z) (cur : list Z) : pr (option rnode * gvars * list Z) :=
  let o := gv_o v in
  match cur with
  | [] => PC 34
  | ch :: _ =>
      if useE o then PO                                                                  (* ECMAScript names *)
      else
        pdo r <-
          (if is_digit ch then
             pdo r <- decimal cur ;
             let '(n, q) := r in
             (* since 2b27550: under MaintainCaptureOrder the digits are the NAME the pre-scan filed them under
                (countCaptures 432-435), numbered in pattern order; before, the main pass read them as a group
                number and `(?<2>x)(?P<2>y)(?<2>z)(w)` under RE2 made a Capture outside the table *)
             (* `ch != '0'` since 5afce6b: countCaptures does not file digits that start with '0' (424), and the name
                Itoa(n) could be the one assignOrderedNameSlots generated for a later plain group:
                `(?<x>q)(?<02>b)(a)` under RE2 consumed the automatic number 2 and made (a) Capture 3 *)
             let capnum := if mco && negb (n =? 0)
                           then (if ch =? 48 then -1
                                 else match ct_name tb (itoa n) with Some g => g | None => -1 end)
                           else if ct_slot tb n then n else -1 in
             if hd_is_not q close && hd_is_not q 45 then PE PE_InvalidGroupName q
             else if capnum =? 0 then PE PE_CapNumNotZero q
             else POk (capnum, false, q)
           else if is_word_char ch then
             let '(nm, q) := scan_word is_word_char cur in
             let capnum := match ct_name tb nm with Some g => g | None => -1 end in
             if hd_is_not q close && hd_is_not q 45 then PE PE_InvalidGroupName q
             else POk (capnum, false, q)
           else if ch =? 45 then POk (-1, true, cur)
           else PE PE_InvalidGroupName cur) ;
        let '(capnum, proceed, q) := r in
        pdo r2 <-
          (if (negb (capnum =? -1) || proceed) && hd_is q 45 then
             let q1 := tl q in
             match q1 with
             | [] => PE PE_InvalidGroupName q1
             | c3 :: _ =>
                 if is_digit c3 then
                   pdo r <- decimal q1 ;
                   let '(u, q2) := r in
                   if negb (ct_slot tb u) then PE E_UndefinedBackRef q2
                   else if hd_is_not q2 close then PE PE_InvalidGroupName q2
                   else POk (u, q2)
                 else if is_word_char c3 then
                   let '(nm, q2) := scan_word is_word_char q1 in
                   match ct_name tb nm with
                   | None => PE E_UndefinedNameRef q2
                   | Some u => if hd_is_not q2 close then PE PE_InvalidGroupName q2 else POk (u, q2)
                   end
                 else PE PE_InvalidGroupName q1
             end
           else POk (-1, q)) ;
        let '(uncapnum, q3) := r2 in
        if (negb (capnum =? -1) || negb (uncapnum =? -1)) && hd_is q3 close
        then POk (Some (mk_node_mn T_Capture o capnum uncapnum),
                  mkGV o (gv_ign v) (consume_slot mco capnum (gv_autocap v)), tl q3)
        else PE PE_UnrecognizedGrouping (tl q3)
  end.

(* 1143-1197: alternation construct (?(...) | ); p1 = the pattern at the second "(" *)
Definition group_cond (tb : captab) (v : gvars) (p1 : list Z) : pr (option rnode * gvars * list Z) :=
  let o := gv_o v in
  let p2 := tl p1 in
  pdo r <-
    (match p2 with
     | [] => POk None
     | c :: _ =>
         if is_digit c then
           pdo r <- decimal p2 ;
           let '(n, q) := r in
           if hd_is q 41 then (if ct_slot tb n then POk (Some (n, tl q)) else PE PE_UndefinedReference (tl q))
           else PE PE_MalformedReference (tl q)
         else if is_word_char c then
           if useE o then PO
           else
             let '(nm, q) := scan_word is_word_char p2 in
             match ct_name tb nm with
             | Some g => if hd_is q 41 then POk (Some (g, tl q)) else POk None
             | None => POk None
             end
         else POk None
     end) ;
  match r with
  | Some (g, q1) => POk (Some (mk_node_mn T_BackRefCond o g 0), v, q1)
  | None =>
      (* the condition is an expression: back to its "(" *)
      if longer p1 2 && nth_is 1 p1 63 then
        if nth_is 2 p1 35 then PE PE_AlternationCantHaveComment p1
        else if nth_is 2 p1 39 then PE PE_AlternationCantCapture p1
        else if longer p1 3 && nth_is 2 p1 60 && negb (nth_is 3 p1 33) && negb (nth_is 3 p1 61)
        then PE PE_AlternationCantCapture p1
        else POk (Some (mk_node T_ExprCond o), mkGV o true (gv_autocap v), p1)
      else POk (Some (mk_node T_ExprCond o), mkGV o true (gv_autocap v), p1)
  end.

(* 1199-1242: (?P<name> ; p2 = the pattern after "(?P" *)
Definition group_pyname (tb : captab) (mco : bool) (v : gvars) (p2 : list Z) : pr (option rnode * gvars * list Z) :=
  let o := gv_o v in
  if negb (longer p2 2) then PE PE_UnrecognizedGrouping p2
  else if negb (hd_is p2 60) then PE PE_UnrecognizedGrouping (tl p2)
  else if is_word_char (nth 1 p2 0) then
    if useE o then PO
    else
      let '(nm, q) := scan_word is_word_char (tl p2) in
      let capnum := match ct_name tb nm with Some g => g | None => -1 end in
      if hd_is_not q 62 then PE PE_InvalidGroupName q
      else if negb (capnum =? -1) && hd_is q 62
      then POk (Some (mk_node_mn T_Capture o capnum (-1)), mkGV o false (consume_slot mco capnum (gv_autocap v)), tl q)
      else PE PE_UnrecognizedGrouping (tl q)
  else PE PE_InvalidGroupName (tl p2).

(* [gt] = p.group.T; p = the pattern after the "(" *)
Definition group_open (tb : captab) (mco : bool) (gt : Z) (v : gvars) (p : list Z) : pr (option rnode * gvars * list Z) :=
  let o := gv_o v in
  if is_nil p || negb (hd_is p 63) || nth_is 1 p 41 then
    (if useN o || gv_ign v then POk (Some (mk_node T_Group o), mkGV o false (gv_autocap v), p)
     else POk (Some (mk_node_mn T_Capture o (gv_autocap v) (-1)), mkGV o (gv_ign v) (gv_autocap v + 1), p))
  else
    let p1 := tl p in
    let v := mkGV o false (gv_autocap v) in                                              (* 994 *)
    match p1 with
    | [] => PE PE_UnrecognizedGrouping p1
    | ch :: p2 =>
        if ch =? 58 then POk (Some (mk_node T_Group o), v, p2)
        else if ch =? 61 then let o' := clear_rtl o in POk (Some (mk_node T_PosLook o'), mkGV o' false (gv_autocap v), p2)
        else if ch =? 33 then let o' := clear_rtl o in POk (Some (mk_node T_NegLook o'), mkGV o' false (gv_autocap v), p2)
        else if ch =? 62 then POk (Some (mk_node T_Atomic o), v, p2)
        else if (ch =? 39) || (ch =? 60) then
          let close := if ch =? 39 then 39 else 62 in
          match p2 with
          | [] => PE PE_UnrecognizedGrouping p2
          | c2 :: p3 =>
              if (c2 =? 61) || (c2 =? 33) then
                (if close =? 39 then PE PE_UnrecognizedGrouping p3
                 else let o' := set_rtl o in
                      POk (Some (mk_node (if c2 =? 61 then T_PosLook else T_NegLook) o'), mkGV o' false (gv_autocap v), p3))
              else group_name tb mco v close p2
          end
        else if ch =? 40 then group_cond tb v p1
        else if (ch =? 80) && useRE2 o then group_pyname tb mco v p2
        else
          (* 1247-1265 *)
          let '(o2, q) := if gt =? T_ExprCond then (o, p1) else scan_options_text o p1 in
          match q with
          | [] => PE PE_UnrecognizedGrouping q
          | c :: q1 =>
              if c =? 41 then POk (None, mkGV o2 false (gv_autocap v), q1)
              else if c =? 58 then POk (Some (mk_node T_Group o2), mkGV o2 false (gv_autocap v), q1)
              else PE PE_UnrecognizedGrouping q1
          end
    end.

(* scanPythonNamedBackref (941-966); p = the pattern after "(?P=" *)
Definition python_backref (tb : captab) (o : Z) (p : list Z) : pr (rnode * list Z) :=
  match p with
  | [] => PE E_MalformedNameRef []
  | ch :: _ =>
      if useE o then PO
      else if negb (is_word_char ch) then PE PE_InvalidGroupName p
      else
        let '(nm, q) := scan_word is_word_char p in
        if negb (is_nil nm) && hd_is q 41 then
          match ct_name tb nm with
          | Some g => POk (mk_node_mn T_Ref o g 0, tl q)
          | None => PE E_UndefinedNameRef (tl q)
          end
        else PE E_MalformedNameRef q
  end.

(* ================================================================ scanRegex (513-786) *)
Record mst : Type := mkMS {
  ms_stack : list (rnode * rnode * rnode);      (* the pushed (group, alternation, concatenation) triples *)
  ms_group : rnode; ms_alt : rnode; ms_concat : rnode;
  ms_unit : option rnode;
  ms_o : Z; ms_os : list Z;                     (* options, optionsStack *)
  ms_ign : bool; ms_autocap : Z }.

Definition is_cond_t (t : Z) : bool := (t =? T_ExprCond) || (t =? T_BackRefCond).

(* startGroup (2439) *)
Definition start_group (st : mst) (g : rnode) : mst :=
  mkMS (ms_stack st) g (mk_node T_Alternate (ms_o st)) (mk_node T_Concatenate (ms_o st)) (ms_unit st)
       (ms_o st) (ms_os st) (ms_ign st) (ms_autocap st).
(* pushGroup (2407) *)
Definition push_group (st : mst) : mst :=
  mkMS ((ms_group st, ms_alt st, ms_concat st) :: ms_stack st) (ms_group st) (ms_alt st) (ms_concat st) (ms_unit st)
       (ms_o st) (ms_os st) (ms_ign st) (ms_autocap st).
Definition set_unit (st : mst) (u : option rnode) : mst :=
  mkMS (ms_stack st) (ms_group st) (ms_alt st) (ms_concat st) u (ms_o st) (ms_os st) (ms_ign st) (ms_autocap st).
Definition set_concat (st : mst) (c : rnode) : mst :=
  mkMS (ms_stack st) (ms_group st) (ms_alt st) c (ms_unit st) (ms_o st) (ms_os st) (ms_ign st) (ms_autocap st).

(* addConcatenate (2304) / addConcatenate3 (2311) *)
Definition add_concatenate (st : mst) : pr mst :=
  match ms_unit st with
  | None => PC 37
  | Some u => pdo c <- of_res (add_child (ms_concat st) u) [] ; POk (set_unit (set_concat st c) None)
  end.
Definition add_concatenate3 (st : mst) (lazy : bool) (mn mx : Z) : pr mst :=
  match ms_unit st with
  | None => PC 38
  | Some u =>
      pdo q <- of_res (make_quantifier u lazy mn mx) [] ;
      pdo c <- of_res (add_child (ms_concat st) q) [] ;
      POk (set_unit (set_concat st c) None)
  end.

(* addToConcatenate (2377), isReplacement = false *)
Fixpoint add_ones (o : Z) (c : rnode) (s : list Z) : pr rnode :=
  match s with
  | [] => POk c
  | ch :: s' => pdo x <- mk_node_ch T_One o ch ; pdo c' <- of_res (add_child c x) [] ; add_ones o c' s'
  end.
Definition add_to_concatenate (o : Z) (c : rnode) (s : list Z) : pr rnode :=
  match s with
  | [] => POk c
  | [ch] => add_ones o c s
  | _ => if negb (useI o) || negb (existsb participates s)
         then of_res (add_child c (mk_node_str T_Multi (clear_I o) s)) []
         else add_ones o c s
  end.

(* addAlternate (2446) *)
Definition add_alternate (st : mst) : pr mst :=
  let c := reverse_left (ms_concat st) in
  let fresh := mk_node T_Concatenate (ms_o st) in
  if is_cond_t (n_t (ms_group st)) then
    pdo g <- of_res (add_child (ms_group st) c) [] ;
    POk (mkMS (ms_stack st) g (ms_alt st) fresh (ms_unit st) (ms_o st) (ms_os st) (ms_ign st) (ms_autocap st))
  else
    pdo a <- of_res (add_child (ms_alt st) c) [] ;
    POk (mkMS (ms_stack st) (ms_group st) a fresh (ms_unit st) (ms_o st) (ms_os st) (ms_ign st) (ms_autocap st)).

(* addGroup (2342) *)
Definition add_group (st : mst) : pr mst :=
  let c := reverse_left (ms_concat st) in
  let g := ms_group st in
  if is_cond_t (n_t g) then
    pdo g' <- of_res (add_child g c) [] ;
    if ((n_t g' =? T_BackRefCond) && (2 <? zlen (n_kids g'))) || (3 <? zlen (n_kids g'))
    then PE PE_TooManyAlternates []
    else POk (mkMS (ms_stack st) g' (ms_alt st) (ms_concat st) (Some g') (ms_o st) (ms_os st) (ms_ign st) (ms_autocap st))
  else
    pdo a <- of_res (add_child (ms_alt st) c) [] ;
    pdo g' <- of_res (add_child g a) [] ;
    POk (mkMS (ms_stack st) g' a (ms_concat st) (Some g') (ms_o st) (ms_os st) (ms_ign st) (ms_autocap st)).

(* popGroup (2415) *)
Definition pop_group (st : mst) : pr mst :=
  match ms_stack st with
  | [] => PC 39
  | (g, a, c) :: r =>
      if (n_t g =? T_ExprCond) && (match n_kids g with [] => true | _ => false end) then
        match ms_unit st with
        | None => PE PE_ConditionalExpression []
        | Some u =>
            pdo g' <- of_res (add_child g u) [] ;
            POk (mkMS r g' a c None (ms_o st) (ms_os st) (ms_ign st) (ms_autocap st))
        end
      else POk (mkMS r g a c (ms_unit st) (ms_o st) (ms_os st) (ms_ign st) (ms_autocap st))
  end.

(* popOptions (2364) *)
Definition pop_options (st : mst) : pr mst :=
  match ms_os st with
  | [] => PC 40
  | o :: r => POk (mkMS (ms_stack st) (ms_group st) (ms_alt st) (ms_concat st) (ms_unit st) o r (ms_ign st) (ms_autocap st))
  end.

(* the counts of a "{" quantifier (720-746); p1 = the pattern after "{".  None = not a quantifier after all *)
Definition brace_counts (p1 : list Z) : pr (option (Z * Z * list Z)) :=
  pdo r <- decimal p1 ;
  let '(mn, q) := r in
  pdo r2 <-
    (if (length q <? length p1)%nat && hd_is q 44 then
       let q1 := tl q in
       if is_nil q1 || hd_is q1 125 then POk (pp_inf, q1) else decimal q1
     else POk (mn, q)) ;
  let '(mx, q2) := r2 in
  if (length q =? length p1)%nat || negb (hd_is q2 125) then POk None
  else POk (Some (mn, mx, tl q2)).

(* the quantifier after a unit (700-768); p = the pattern at the quantifier character, which
   isTrueQuantifier accepted *)
Definition scan_quantifier (st : mst) (p : list Z) : pr (mst * list Z) :=
  match p with
  | [] => PC 41
  | ch :: p1 =>
      match ms_unit st with
      | None => POk (st, p1)                                                             (* `for p.unit != nil` *)
      | Some _ =>
          pdo r <-
            (if ch =? 42 then POk (Some (0, pp_inf, p1))
             else if ch =? 63 then POk (Some (0, 1, p1))
             else if ch =? 43 then POk (Some (1, pp_inf, p1))
             else if ch =? 123 then brace_counts p1
             else PE PE_InternalError p1) ;
          match r with
          | None =>
              (* 741-745: not a quantifier after all *)
              pdo st' <- add_concatenate st ; POk (st', p)
          | Some (mn, mx, q) =>
              pdo q1 <- scan_blank_full (ms_o st) q ;
              let '(lazy, q2) := if hd_is q1 63 then (true, tl q1) else (false, q1) in
              if mx <? mn then PE PE_InvalidRepeatSize q2
              else pdo st' <- add_concatenate3 st lazy mn mx ; POk (st', q2)
          end
      end
  end.

(* after a unit has been set (687-768) *)
Definition after_unit (st : mst) (p : list Z) : pr (mst * list Z * bool) :=
  pdo p1 <- scan_blank_full (ms_o st) p ;
  if is_nil p1 || negb (is_true_quantifier p1) then pdo st' <- add_concatenate st ; POk (st', p1, false)
  else pdo r <- scan_quantifier st p1 ; let '(st', q) := r in POk (st', q, true).

(* the literal run in front of the special character (564-578) *)
Definition add_run (st : mst) (run : list Z) (isq : bool) : pr mst :=
  match run with
  | [] => POk st
  | _ =>
      let o := ms_o st in
      pdo c <- add_to_concatenate o (ms_concat st) (if isq then removelast run else run) ;
      let st' := set_concat st c in
      if isq then pdo u <- mk_node_ch T_One o (last run 0) ; POk (set_unit st' (Some u)) else POk st'
  end.

(* "(" (594-615); p3 = the pattern after it *)
Definition round_open (tb : captab) (mco : bool) (st1 : mst) (p3 : list Z) : pr (mst * option (list Z * bool)) :=
  let o := ms_o st1 in
  (* `!p.ignoreNextParen` since 4f8aca1: the parenthesis that is the condition of (?( ... ) goes to scanGroupOpen *)
  if useRE2 o && negb (ms_ign st1) && hd_is p3 63 && nth_is 1 p3 80 && nth_is 2 p3 61 then
    pdo r <- python_backref tb o (skipn 3 p3) ;
    let '(x, q) := r in
    pdo r2 <- after_unit (set_unit st1 (Some x)) q ;
    let '(st', q', wq) := r2 in POk (st', Some (q', wq))
  else
    pdo r <- group_open tb mco (n_t (ms_group st1)) (mkGV o (ms_ign st1) (ms_autocap st1)) p3 ;
    let '(g, v, q) := r in
    match g with
    | None =>
        (* pushOptions; popKeepOptions: the stack is as before, the options are the new ones *)
        POk (mkMS (ms_stack st1) (ms_group st1) (ms_alt st1) (ms_concat st1) (ms_unit st1)
                  (gv_o v) (ms_os st1) (gv_ign v) (gv_autocap v), Some (q, false))
    | Some gn =>
        let st2 := mkMS (ms_stack st1) (ms_group st1) (ms_alt st1) (ms_concat st1) (ms_unit st1)
                        (gv_o v) (o :: ms_os st1) (gv_ign v) (gv_autocap v) in
        POk (start_group (push_group st2) gn, Some (q, false))
    end.

(* ")" (621-636) *)
Definition round_close (st1 : mst) (p3 : list Z) : pr (mst * option (list Z * bool)) :=
  match ms_stack st1 with
  | [] => PE PE_UnexpectedParen p3
  | _ =>
      pdo st2 <- add_group st1 ;
      pdo st3 <- pop_group st2 ;
      pdo st4 <- pop_options st3 ;
      match ms_unit st4 with
      | None => POk (st4, Some (p3, false))
      | Some _ => pdo r <- after_unit st4 p3 ; let '(st', q', wq) := r in POk (st', Some (q', wq))
      end
  end.

(* the unit of a one-character construct: ^ $ . (645-671) *)
Definition simple_unit (o : Z) (ch : Z) : pr rnode :=
  if ch =? 94 then POk (mk_node (if useM o then T_Bol else T_Beginning) o)
  else if ch =? 36 then POk (mk_node (if useM o then T_Eol else if useRE2 o || useE o then T_End else T_EndZ) o)
  else if useS o then mk_node_set T_Set o pp_any_class
  else if useE o then mk_node_set T_Set o pp_ecma_any_class
  else mk_node_ch T_Notone o 10.

(* one round of the outer loop (519-771).  [wasq] = isQuant left by the previous round.
   Result: None = the loop ended (BreakOuterScan), Some = go on *)
Definition scan_round (tb : captab) (mco : bool) (st : mst) (p : list Z) (wasq : bool) : pr (mst * option (list Z * bool)) :=
  let o := ms_o st in
  pdo p0 <- scan_blank_full o p ;
  let '(run, p1) := take_run o p0 in
  pdo p2 <- scan_blank_full o p1 ;
  match p2 with
  | [] => pdo st1 <- add_run st run false ; POk (st1, None)                              (* '!' *)
  | ch :: p3 =>
      if negb (is_special ch) then pdo st1 <- add_run st run false ; POk (st1, Some (p2, false))   (* ' ' *)
      else
        let wasq := if is_nil run then wasq else false in
        pdo st1 <- add_run st run (is_quantifier ch) ;
        let unit_then (u : pr rnode) (q : list Z) : pr (mst * option (list Z * bool)) :=
          pdo x <- u ;
          pdo r <- after_unit (set_unit st1 (Some x)) q ;
          let '(st', q', wq) := r in POk (st', Some (q', wq)) in
        if ch =? 91 then
          pdo r <- cs_scan (S (length p3)) false o p3 ;
          let '(syn, q) := r in
          unit_then (class_node o syn) q
        else if ch =? 40 then round_open tb mco st1 p3
        else if ch =? 124 then pdo st2 <- add_alternate st1 ; POk (st2, Some (p3, false))
        else if ch =? 41 then round_close st1 p3
        else if ch =? 92 then
          pdo r <- scan_backslash_full false tb o p3 ;
          let '(b, q) := r in
          match b with
          | BNode x => unit_then (POk x) q
          | BNil => PC 42
          end
        else if (ch =? 94) || (ch =? 36) || (ch =? 46) then unit_then (simple_unit o ch) p3
        else if (ch =? 123) || (ch =? 42) || (ch =? 43) || (ch =? 63) then
          match ms_unit st1 with
          | None => PE (if wasq then PE_InvalidRepeatOp else PE_MissingRepeatArgument) p3
          | Some _ => pdo r <- after_unit st1 p2 ; let '(st', q', wq) := r in POk (st', Some (q', wq))   (* moveLeft *)
          end
        else PE PE_InternalError p3
  end.

Fixpoint scan_loop_full (fuel : nat) (tb : captab) (mco : bool) (st : mst) (p : list Z) (wasq : bool) : pr mst :=
  match fuel with
  | O => PF
  | S f =>
      match p with
      | [] => POk st
      | _ =>
          pdo r <- scan_round tb mco st p wasq ;
          let '(st', nxt) := r in
          match nxt with
          | None => POk st'
          | Some (q, wq) => scan_loop_full f tb mco st' q wq
          end
      end
  end.

Definition scan_regex (tb : captab) (mco : bool) (o : Z) (p : list Z) : pr rnode :=
  let st0 := mkMS [] (mk_node_mn T_Capture o 0 (-1)) (mk_node T_Alternate o) (mk_node T_Concatenate o) None o [] false 1 in
  pdo st <- scan_loop_full (S (length p)) tb mco st0 p false ;
  match ms_stack st with
  | _ :: _ => PE PE_MissingParen []
  | [] =>
      pdo st' <- add_group st ;
      match ms_unit st' with
      | Some u => POk u                                                                  (* finalOptimize: all gates set *)
      | None => PC 43
      end
  end.

(* ================================================================ syntax.Parse (158-188) *)
Inductive presult : Type :=
| PR_Err (code : Z)
| PR_Tree (t : rnode) (caps : list Z) (captop : Z)
| PR_Outside.

Definition parse (o : Z) (mco_flag : bool) (p : list Z) : res presult :=
  if negb pl_bounds_ok then Crash 2
  else if negb (forallb (fun c => 0 <=? c) p) then Crash 3
  else
    let mco := mco_flag || useE o || useRE2 o in
    match (pdo tb <- count_captures mco o p ;
           pdo t <- scan_regex (captab_main tb) mco o p ;
           POk (PR_Tree t (t_caps tb) (t_captop tb))) with
    | POk r => Ok r
    | PE c _ => Ok (PR_Err c)
    | PO => Ok PR_Outside
    | PC w => Crash w
    | PF => Fuel
    end.

End Parser.
