(* Model of the replacement machinery of dlclark/regexp2 (property C09):
     syntax/parser.go      scanReplacement, scanDollar, scanDecimal, scanWord, scanECMACapname,
                           isCaptureSlot, isCaptureName, captureSlotFromName, addToConcatenate
     syntax/replacerdata.go NewReplacerData
     replace.go            replace, replaceRunnerLTR, replaceRunnerRTL, replacementImpl, replacementImplRTL
     split.go              Split
     regexp.go             Replace, ReplaceFunc, getReplacerData and the replacerDataCache (LRU)
   No proofs in this file.

   Representation choices (all documented in bin/props.d/C09.py):
   * text is the rune view of a Go string ([]rune(s) / `range s`): a list of Z.  Runes obtained that
     way are valid scalars or U+FFFD, for which bytes.Buffer.WriteRune and string([]rune) are the
     identity, so output is modelled as a list of runes as well.
   * the parser's (pattern, currentPos) pair is the remaining suffix pattern[currentPos:];
     textto(saved position) = going back to the saved suffix (as in Model/Escape.v).
   * the engine is ABSTRACT: the drivers take the list [ms] of successive matches that
     FindStringMatchStartingAt/FindNextMatch (evaluator driver, Split) resp. the runner's scan loop
     (replacement-pattern drivers) produce from the validated start position; a match is
     (RuneIndex, RuneLength, per slot the list of (index,length) captures after tidy/compaction).
   * a Go run-time fault (index or slice bounds out of range, explicit panic) is [Crash].
   The model follows /repo WITH the three C09 fixes (docs/patches/C09-replace-split.patch); the
   pre-fix loops are kept as [replacement_impl_rtl_unfixed], [split_unfixed], [replace_count0_unfixed]
   so that Properties/C09.v can state what was wrong. *)
From Verif Require Import Base.Prelude Gen.ReplaceGen Model.Escape.

(* ------------------------------------------------------------------------------------------ *)
(** * Error and crash codes (the harness maps Go error texts to the same numbers)                *)

Definition E_CountTooSmall : Z := 11.        (* "count too small" *)
Definition E_StartTooLarge : Z := 12.        (* "startAt must be less than the length of the input string" *)
Definition E_StartNotBoundary : Z := 13.     (* "startAt must align to the start of a valid rune in the input string" *)
Definition E_CapOutOfRange : Z := 20.        (* syntax.ErrCaptureGroupOutOfRange *)
Definition E_InvalidECMAName : Z := 21.      (* syntax.ErrInvalidECMAGroupName *)
(* E_TooFewHex = 5, E_InvalidHex = 6, E_MissingBrace = 7 come from Model/Escape.v (scanHex, scanHexUntilBrace) *)

Definition C_index : Z := 1.                 (* index out of range *)
Definition C_slice : Z := 2.                 (* slice bounds out of range *)
Definition C_panic : Z := 3.                 (* panic(ErrReplacementError) in NewReplacerData *)
Definition C_makeslice : Z := 4.             (* make([]Group, -1) *)

(* ------------------------------------------------------------------------------------------ *)
(** * Small list helpers                                                                        *)

Definition zslice {A} (l : list A) (lo hi : Z) : list A :=
  firstn (Z.to_nat (hi - lo)) (skipn (Z.to_nat lo) l).

Fixpoint last_opt {A} (l : list A) : option A :=
  match l with
  | [] => None
  | [x] => Some x
  | _ :: l' => last_opt l'
  end.

Fixpoint zlist_assoc {B} (k : Z) (l : list (Z * B)) : option B :=
  match l with
  | [] => None
  | (k', v) :: l' => if k =? k' then Some v else zlist_assoc k l'
  end.

Fixpoint name_assoc {B} (k : list Z) (l : list (list Z * B)) : option B :=
  match l with
  | [] => None
  | (k', v) :: l' => if zlist_eqb k k' then Some v else name_assoc k l'
  end.

(* the first n elements, n a Go int (no unary numbers: n may be math.MaxInt) *)
Fixpoint zfirstn {A} (n : Z) (l : list A) : list A :=
  match l with
  | [] => []
  | x :: l' => if n <=? 0 then [] else x :: zfirstn (n - 1) l'
  end.

Definition nonempty {A} (l : list A) : bool := match l with [] => false | _ => true end.

(* ------------------------------------------------------------------------------------------ *)
(** * Abstract matches                                                                          *)

Record mtch : Type := mkM {
  m_index : Z;                         (* Match.RuneIndex  *)
  m_length : Z;                        (* Match.RuneLength *)
  m_groups : list (list (Z * Z))       (* per slot (0 = whole match): matches[slot][0 .. 2*matchcount[slot]) as pairs *)
}.

Definition group_count (m : mtch) : Z := zlen (m_groups m).     (* match.go:326 GroupCount *)

(* Go loop  for i := lo; i < hi; i++ { buf.WriteRune(text[i]) }  (replace.go:25-29 writeRunes and the
   loops of replacementImpl / groupValueAppendToBuf): no read at all when hi <= lo. *)
Definition write_range (text : list Z) (lo hi : Z) : res (list Z) :=
  if hi <=? lo then Ok []
  else if (lo <? 0) || (zlen text <? hi) then Crash C_index
  else Ok (zslice text lo hi).

(* Go slice expression string(text[lo:hi]) (bounds checked against len: the rune slices handed to
   matches have len = cap or the difference is unobservable for in-range matches) *)
Definition slice_expr (text : list Z) (lo hi : Z) : res (list Z) :=
  if (0 <=? lo) && (lo <=? hi) && (hi <=? zlen text) then Ok (zslice text lo hi) else Crash C_slice.

(* match.go:379-393 groupValueAppendToBuf *)
Definition group_value (text : list Z) (m : mtch) (slot : Z) : res (list Z) :=
  match znth (m_groups m) slot with
  | None => Crash C_index
  | Some caps =>
      match last_opt caps with
      | None => Ok []
      | Some (i, l) => write_range text i (i + l)
      end
  end.

(* Group.String() of match.go:63 on the Group built by newGroup (match.go:395-409):
   the last capture, or RuneIndex = RuneLength = 0 for a group without captures *)
Definition group_string (text : list Z) (caps : list (Z * Z)) : res (list Z) :=
  match last_opt caps with
  | None => slice_expr text 0 0
  | Some (i, l) => slice_expr text i (i + l)
  end.

(* ------------------------------------------------------------------------------------------ *)
(** * Replacer data and its evaluation (replace.go:287-351)                                     *)

Record rdata : Type := mkRD {
  rd_strings : list (list Z);          (* ReplacerData.Strings *)
  rd_rules : list Z                    (* ReplacerData.Rules   *)
}.

(* one turn of the loop body of replacementImpl: what rule r appends *)
Definition rule_piece (d : rdata) (text : list Z) (m : mtch) (r : Z) : res (list Z) :=
  if 0 <=? r then
    match znth (rd_strings d) r with Some s => Ok s | None => Crash C_index end
  else if r <? - r_replaceSpecials then
    group_value text m (- r_replaceSpecials - 1 - r)
  else
    let k := - r_replaceSpecials - 1 - r in
    if k =? r_replaceLeftPortion then write_range text 0 (m_index m)
    else if k =? r_replaceRightPortion then write_range text (m_index m + m_length m) (zlen text)
    else if k =? r_replaceLastGroup then group_value text m (group_count m - 1)
    else if k =? r_replaceWholeString then write_range text 0 (zlen text)
    else Ok [].

(* replace.go:287-314 replacementImpl: appends to buf in rule order *)
Fixpoint replacement_impl_go (d : rdata) (text : list Z) (m : mtch) (rules : list Z) (buf : list Z) : res (list Z) :=
  match rules with
  | [] => Ok buf
  | r :: rs => do p <- rule_piece d text m r ; replacement_impl_go d text m rs (buf ++ p)
  end.
Definition replacement_impl (d : rdata) (text : list Z) (m : mtch) (buf : list Z) : res (list Z) :=
  replacement_impl_go d text m (rd_rules d) buf.

(* replace.go:316-352 replacementImplRTL: appends one string per rule to the list al.
   FIXED code walks the rules back to front (the caller emits al back to front). *)
Fixpoint replacement_impl_rtl_go (d : rdata) (text : list Z) (m : mtch) (rules : list Z) (al : list (list Z)) : res (list (list Z)) :=
  match rules with
  | [] => Ok al
  | r :: rs => do p <- rule_piece d text m r ; replacement_impl_rtl_go d text m rs (al ++ [p])
  end.
Definition replacement_impl_rtl (d : rdata) (text : list Z) (m : mtch) (al : list (list Z)) : res (list (list Z)) :=
  replacement_impl_rtl_go d text m (rev (rd_rules d)) al.
(* the loop as it was before the fix: rules front to back *)
Definition replacement_impl_rtl_unfixed (d : rdata) (text : list Z) (m : mtch) (al : list (list Z)) : res (list (list Z)) :=
  replacement_impl_rtl_go d text m (rd_rules d) al.

(* ------------------------------------------------------------------------------------------ *)
(** * Input strings and startAt validation                                                      *)

(* An input string is given as its `range` view: (rune, number of bytes it occupies). An invalid
   byte is (U+FFFD, 1). *)
Definition runes_of (tw : list (Z * Z)) : list Z := map fst tw.
Definition byte_len (tw : list (Z * Z)) : Z := fold_right (fun p acc => snd p + acc) 0 tw.

(* the loop of runner.go:2189-2204 decodeStringWithStart (same loop: regexp.go:484-506 getRunesAndStart,
   stringprefixfilter.go:442-457 isStringRuneBoundary) *)
Fixpoint rune_start_go (tw : list (Z * Z)) (startAt strIdx n acc : Z) : Z :=
  match tw with
  | [] => acc
  | (_, w) :: tw' =>
      rune_start_go tw' startAt (strIdx + w) (n + 1)
                    (if (0 <=? startAt) && (strIdx =? startAt) then n else acc)
  end.
Definition rune_start (tw : list (Z * Z)) (startAt : Z) : Z :=
  if (0 <=? startAt) && (startAt =? byte_len tw) then zlen tw
  else rune_start_go tw startAt 0 0 (-1).

(* replace.go:129-147 / 199-217 and stringprefixfilter.go:413-419: the two checks every driver makes
   before it looks at the text *)
Definition check_start (tw : list (Z * Z)) (startAt : Z) : res unit :=
  if byte_len tw <? startAt then Err E_StartTooLarge
  else if (0 <=? startAt) && (rune_start tw startAt <? 0) then Err E_StartNotBoundary
  else Ok tt.

(* ------------------------------------------------------------------------------------------ *)
(** * The replace drivers (replace.go:58-283)                                                   *)

(* Left to right, shared shape of replace.go:91-111 (evaluator) and :162-189 (replacer data).
   [between text lo hi] is how the text between two matches is copied:
   writeRunes (a loop) in replaceRunnerLTR, a slice expression in the evaluator driver. *)
Fixpoint ltr_loop (between : list Z -> Z -> Z -> res (list Z)) (emit : mtch -> list Z -> res (list Z))
         (text : list Z) (ms : list mtch) (prevat count : Z) (buf : list Z) : res (list Z * Z) :=
  match ms with
  | [] => Ok (buf, prevat)
  | m :: ms' =>
      do buf1 <- (if m_index m =? prevat then Ok buf
                  else do b <- between text prevat (m_index m) ; Ok (buf ++ b)) ;
      let prevat' := m_index m + m_length m in
      do buf2 <- emit m buf1 ;
      let count' := count - 1 in
      if count' =? 0 then Ok (buf2, prevat')
      else ltr_loop between emit text ms' prevat' count' buf2
  end.

(* Right to left, replace.go:112-141 (evaluator) and :232-282 (replacer data): pieces are appended
   to the list al, which is written out back to front after the head of the text. *)
Fixpoint rtl_loop (emit : mtch -> list (list Z) -> res (list (list Z)))
         (text : list Z) (ms : list mtch) (prevat count : Z) (al : list (list Z)) : res (list (list Z) * Z) :=
  match ms with
  | [] => Ok (al, prevat)
  | m :: ms' =>
      do al1 <- (if m_index m + m_length m =? prevat then Ok al
                 else do b <- slice_expr text (m_index m + m_length m) prevat ; Ok (al ++ [b])) ;
      let prevat' := m_index m in
      do al2 <- emit m al1 ;
      let count' := count - 1 in
      if count' =? 0 then Ok (al2, prevat')
      else rtl_loop emit text ms' prevat' count' al2
  end.

Inductive replacer : Type :=
| ByData (d : rdata)                       (* Replace: parsed replacement pattern *)
| ByEval (f : mtch -> list Z).             (* ReplaceFunc: MatchEvaluator *)

Definition run_ltr (between : list Z -> Z -> Z -> res (list Z)) (emit : mtch -> list Z -> res (list Z))
           (text : list Z) (ms : list mtch) (count : Z) : res (list Z) :=
  match ms with
  | [] => Ok text                                              (* m == nil: return input *)
  | _ =>
      do (buf, prevat) <- ltr_loop between emit text ms 0 count [] ;
      if prevat <? zlen text
      then do b <- between text prevat (zlen text) ; Ok (buf ++ b)
      else Ok buf
  end.

Definition run_rtl (head : list Z -> Z -> res (list Z)) (emit : mtch -> list (list Z) -> res (list (list Z)))
           (text : list Z) (ms : list mtch) (count : Z) : res (list Z) :=
  match ms with
  | [] => Ok text
  | _ =>
      do (al, prevat) <- rtl_loop emit text ms (zlen text) count [] ;
      do h <- (if 0 <? prevat then head text prevat else Ok []) ;
      Ok (h ++ concat (rev al))
  end.

(* replace.go:58-144 replace, with replaceRunnerLTR (:146-196) and replaceRunnerRTL (:198-283) inlined.
   [ms] = the successive matches from the validated start. *)
Definition replace (rtl : bool) (r : replacer) (tw : list (Z * Z)) (startAt count : Z) (ms : list mtch) : res (list Z) :=
  let text := runes_of tw in
  if count <? -1 then Err E_CountTooSmall
  else if count =? 0 then Ok text                              (* FIXED: was "" *)
  else
    do _ <- check_start tw startAt ;
    match r with
    | ByData d =>
        if rtl
        then run_rtl (fun t p => write_range t 0 p) (fun m al => replacement_impl_rtl d text m al) text ms count
        else run_ltr write_range (fun m buf => replacement_impl d text m buf) text ms count
    | ByEval f =>
        if rtl
        then run_rtl (fun t p => slice_expr t 0 p) (fun m al => Ok (al ++ [f m])) text ms count
        else run_ltr slice_expr (fun m buf => Ok (buf ++ f m)) text ms count
    end.

(* the count == 0 answer before the fix *)
Definition replace_count0_unfixed : res (list Z) := Ok [].

(* the right-to-left replacement-pattern driver with the unfixed replacementImplRTL *)
Definition replace_rtl_unfixed (d : rdata) (tw : list (Z * Z)) (count : Z) (ms : list mtch) : res (list Z) :=
  let text := runes_of tw in
  run_rtl (fun t p => write_range t 0 p) (fun m al => replacement_impl_rtl_unfixed d text m al) text ms count.

(* ------------------------------------------------------------------------------------------ *)
(** * Split (split.go:18-90, fixed)                                                             *)

Definition maxint : Z := 9223372036854775807.                  (* math.MaxInt on the 64-bit targets *)

(* m.Groups()[1:] mapped through Group.String() (match.go:361-377) *)
Fixpoint strings_of_groups (text : list Z) (gs : list (list (Z * Z))) : res (list (list Z)) :=
  match gs with
  | [] => Ok []
  | g :: gs' => do s <- group_string text g ; do r <- strings_of_groups text gs' ; Ok (s :: r)
  end.
Definition group_strings (text : list Z) (m : mtch) : res (list (list Z)) :=
  match m_groups m with
  | [] => Crash C_makeslice                                    (* make([]Group, len(matchcount)-1) *)
  | _ :: gs => strings_of_groups text gs
  end.

(* the for loop of split.go:42-66; [first] = (txt == nil) *)
Fixpoint split_loop (rtl : bool) (text : list Z) (ms : list mtch) (count prior : Z) (first : bool)
         (ret : list (list Z)) : res (list (list Z) * Z * bool) :=
  match ms with
  | [] => Ok (ret, prior, first)
  | m :: ms' =>
      if count <=? 0 then Ok (ret, prior, first)
      else
        let prior0 := if rtl && first then zlen text else prior in
        do piece <- (if rtl then slice_expr text (m_index m + m_length m) prior0
                     else slice_expr text prior0 (m_index m)) ;
        do gs <- group_strings text m ;
        let prior' := if rtl then m_index m else m_index m + m_length m in
        split_loop rtl text ms' (count - 1) prior' false (ret ++ piece :: gs)
  end.

(* nil and the empty slice are not distinguished *)
Definition split (rtl : bool) (tw : list (Z * Z)) (count : Z) (ms : list mtch) : res (list (list Z)) :=
  let text := runes_of tw in
  if count <? -1 then Err E_CountTooSmall
  else if count =? 0 then Ok []
  else if count =? 1 then Ok [text]
  else
    let count := if count =? -1 then maxint else count in
    do (ret, prior, first) <- split_loop rtl text ms count 0 true [] ;
    if first then Ok [text]
    else if rtl then do h <- slice_expr text 0 prior ; Ok (rev (ret ++ [h]))
    else do t <- slice_expr text prior (zlen text) ; Ok (ret ++ [t]).

(* split.go before the fix: the left-to-right arithmetic whatever the direction *)
Definition split_unfixed (tw : list (Z * Z)) (count : Z) (ms : list mtch) : res (list (list Z)) :=
  split false tw count ms.

(* ------------------------------------------------------------------------------------------ *)
(** * The replacement-string parser (parser.go:788-932) and NewReplacerData                     *)

Record penv : Type := mkEnv {
  pe_options : Z;                                (* re.options *)
  pe_caps : option (list (Z * Z));               (* re.caps: nil, or group number -> slot *)
  pe_capsize : Z;                                (* re.capsize *)
  pe_capnames : option (list (list Z * Z))       (* re.capnames: nil, or name -> group number *)
}.

(* the children scanReplacement can hang under its concatenation node: (T, Ch, Str, M) *)
Record rnode : Type := mkN { n_t : Z; n_ch : Z; n_str : list Z; n_m : Z }.
Definition mk_one (c : Z) : rnode := mkN rg_NtOne c [] 0.
Definition mk_multi (s : list Z) : rnode := mkN rg_NtMulti 0 s 0.
Definition mk_ref (m : Z) : rnode := mkN rg_NtRef 0 [] m.

Definition is_digit (ch : Z) : bool := (48 <=? ch) && (ch <=? 57).

Section Parser.
Variable is_word_char : Z -> bool.       (* syntax.IsWordChar *)
Variable is_ecma_start : Z -> bool.      (* syntax.IsECMAIdentifierStartChar *)
Variable is_ecma_char : Z -> bool.       (* syntax.IsECMAIdentifierChar *)
Variable env : penv.

Definition use_e : bool := negb (Z.land (pe_options env) rg_opt_ECMAScript =? 0).   (* parser.go:2267 *)
Definition use_u : bool := negb (Z.land (pe_options env) rg_opt_Unicode =? 0).      (* parser.go:2277 *)

(* parser.go:2220-2227 *)
Definition is_capture_slot (i : Z) : bool :=
  match pe_caps env with
  | Some l => match zlist_assoc i l with Some _ => true | None => false end
  | None => (0 <=? i) && (i <? pe_capsize env)
  end.
(* parser.go:2230-2237 *)
Definition is_capture_name (name : list Z) : bool :=
  match pe_capnames env with
  | Some l => match name_assoc name l with Some _ => true | None => false end
  | None => false
  end.
(* parser.go:2215-2217 (a missing key reads as 0) *)
Definition capture_slot_from_name (name : list Z) : Z :=
  match pe_capnames env with
  | Some l => match name_assoc name l with Some v => v | None => 0 end
  | None => 0
  end.
(* parser.go:923-928 *)
Definition is_group_name_start (ch : Z) : bool :=
  if use_e then is_ecma_start ch || (ch =? 92) else is_word_char ch.

(* parser.go:2360-2389 addToConcatenate(pos, cch, isReplacement = true) *)
Definition add_to_concatenate (run : list Z) : list rnode :=
  match run with
  | [] => []
  | [c] => [mk_one c]
  | _ => [mk_multi run]
  end.

(* the inner loop of scanReplacement (parser.go:803-806): runes up to the next '$' *)
Fixpoint span_dollar (p : list Z) : list Z * list Z :=
  match p with
  | [] => ([], [])
  | ch :: p' => if ch =? 36 then ([], p)
                else let '(a, b) := span_dollar p' in (ch :: a, b)
  end.

(* parser.go:1914-1935 scanDecimal *)
Fixpoint scan_decimal_go (i : Z) (p : list Z) : res (Z * list Z) :=
  match p with
  | [] => Ok (i, [])
  | ch :: p' =>
      let d := ch - 48 in
      if (d <? 0) || (9 <? d) then Ok (i, p)
      else if (rg_maxValueDiv10 <? i) || ((i =? rg_maxValueDiv10) && (rg_maxValueMod10 <? d))
           then Err E_CapOutOfRange
           else scan_decimal_go (i * 10 + d) p'
  end.
Definition scan_decimal (p : list Z) : res (Z * list Z) := scan_decimal_go 0 p.

(* the ECMAScript digit loop of scanDollar (parser.go:846-880) after the first digit:
   newcapnum = value read so far, best = (capnum, suffix at lastEndPos) of the longest valid prefix *)
Fixpoint ecma_digits (newcapnum : Z) (best : option (Z * list Z)) (p : list Z) : res (option (Z * list Z)) :=
  match p with
  | [] => Ok best
  | ch :: p' =>
      if negb (is_digit ch) then Ok best
      else
        let digit := ch - 48 in
        if (rg_maxValueDiv10 <? newcapnum) || ((newcapnum =? rg_maxValueDiv10) && (rg_maxValueMod10 <? digit))
        then Err E_CapOutOfRange
        else
          let n := newcapnum * 10 + digit in
          ecma_digits n (if is_capture_slot n then Some (n, p') else best) p'
  end.

(* parser.go:1660-1670 scanWord *)
Fixpoint scan_word (p : list Z) : list Z * list Z :=
  match p with
  | [] => ([], [])
  | ch :: p' => if is_word_char ch
                then let '(a, b) := scan_word p' in (ch :: a, b)
                else ([], p)
  end.

(* parser.go:1600-1658 scanECMACapname.  acc = identifier characters read so far (escapes decoded).
   The returned name is string(...) / WriteRune of them, hence [map write_rune]. *)
Fixpoint scan_ecma_capname_go (fuel : nat) (index : Z) (acc : list Z) (p : list Z) : res (list Z * list Z) :=
  match fuel with
  | O => Fuel
  | S f =>
      match p with
      | [] => Ok (acc, [])
      | ch :: p1 =>
          if ch =? 92 then
            match p1 with
            | [] => Err E_InvalidECMAName
            | u :: p2 =>
                if negb (u =? 117) then Err E_InvalidECMAName
                else
                  do (c, p3) <- (match p2 with
                                 | b :: p2' => if b =? 123
                                               then (if use_u then scan_hex_brace 0 false p2' else Err E_InvalidECMAName)
                                               else scan_hex 4 p2
                                 | [] => scan_hex 4 p2
                                 end) ;
                  let valid := if index =? 0 then is_ecma_start c else is_ecma_char c in
                  if negb valid then Err E_InvalidECMAName
                  else scan_ecma_capname_go f (index + 1) (acc ++ [c]) p3
            end
          else
            let valid := if index =? 0 then is_ecma_start ch else is_ecma_char ch in
            if negb valid then Ok (acc, p)
            else scan_ecma_capname_go f (index + 1) (acc ++ [ch]) p1
      end
  end.

(* parser.go:1672-1678 scanCapname *)
Definition scan_capname (p : list Z) : res (list Z * list Z) :=
  if use_e
  then do (acc, rest) <- scan_ecma_capname_go (S (length p)) 0 [] p ; Ok (map write_rune acc, rest)
  else Ok (scan_word p).

(* parser.go:900-916: the one-character forms *)
Definition special_capnum (ch : Z) : Z :=
  if ch =? 38 then 0                                   (* $& *)
  else if ch =? 96 then s_replaceLeftPortion           (* $` *)
  else if ch =? 39 then s_replaceRightPortion          (* $' *)
  else if ch =? 43 then s_replaceLastGroup             (* $+ *)
  else if ch =? 95 then s_replaceWholeString           (* $_ *)
  else 1.

(* parser.go:822-921 scanDollar; p = what follows the '$' *)
Definition scan_dollar (p : list Z) : res (rnode * list Z) :=
  match p with
  | [] => Ok (mk_one 36, [])                                           (* :823-825 *)
  | ch0 :: p0 =>
      let literal := Ok (mk_one 36, p) in                              (* :919-920 textto(backpos) *)
      let angled := (ch0 =? 123) && (1 <? zlen p) in                   (* :834-838 *)
      let q := if angled then p0 else p in
      match q with
      | [] => Crash C_index                                            (* rightChar(0) past the end: unreachable *)
      | ch :: q1 =>
          if is_digit ch then
            if negb angled && use_e then                               (* :843-880 *)
              let n0 := ch - 48 in
              do r <- ecma_digits n0 (if is_capture_slot n0 then Some (n0, q1) else None) q1 ;
              match r with
              | Some (capnum, rest) => if 0 <=? capnum then Ok (mk_ref capnum, rest) else literal
              | None => literal
              end
            else                                                       (* :881-891 *)
              do (capnum, q2) <- scan_decimal q ;
              let '(closed, q3) := if negb angled then (true, q2)
                                   else match q2 with
                                        | c :: q3 => (c =? 125, q3)
                                        | [] => (false, q2)
                                        end in
              if closed && is_capture_slot capnum then Ok (mk_ref capnum, q3) else literal
          else if angled && is_group_name_start ch then                (* :892-903 *)
            match scan_capname q with                                  (* since /repo 273146b a name that cannot be scanned is no reference *)
            | Ok (name, q2) =>
                match q2 with
                | c :: q3 => if (c =? 125) && is_capture_name name
                             then Ok (mk_ref (capture_slot_from_name name), q3)
                             else literal
                | [] => literal
                end
            | Err _ => literal
            | Crash c => Crash c
            | Fuel => Fuel
            end
          else if negb angled then                                     (* :904-926 *)
            if ch =? 36 then Ok (mk_one 36, q1)
            else let capnum := special_capnum ch in
                 if negb (capnum =? 1) then Ok (mk_ref capnum, q1) else literal
          else literal
      end
  end.

(* parser.go:791-820 scanReplacement: the children of the concatenation node it returns *)
Fixpoint scan_replacement_go (fuel : nat) (p : list Z) : res (list rnode) :=
  match fuel with
  | O => Fuel
  | S f =>
      match p with
      | [] => Ok []
      | _ =>
          let '(run, rest) := span_dollar p in
          let pre := add_to_concatenate run in
          match rest with
          | [] => Ok pre
          | _ :: after =>
              do (n, rest') <- scan_dollar after ;
              do more <- scan_replacement_go f rest' ;
              Ok (pre ++ n :: more)
          end
      end
  end.
(* (node kind of the returned node, children) *)
Definition scan_replacement (rep : list Z) : res (Z * list rnode) :=
  do ch <- scan_replacement_go (S (length rep)) rep ; Ok (rg_NtConcatenate, ch).

(* replacerdata.go:50-84: the loop over concat.Children.  sb = pending literal text. *)
Definition flush (sb : list Z) (strings : list (list Z)) (rules : list Z) : list (list Z) * list Z :=
  if nonempty sb then (strings ++ [sb], rules ++ [zlen strings]) else (strings, rules).

Definition caps_nonempty : bool := match pe_caps env with Some (_ :: _) => true | _ => false end.
Definition caps_lookup (slot : Z) : Z :=
  match pe_caps env with
  | Some l => match zlist_assoc slot l with Some v => v | None => 0 end
  | None => 0
  end.

Fixpoint build_rules (children : list rnode) (sb : list Z) (strings : list (list Z)) (rules : list Z) : res rdata :=
  match children with
  | [] => let '(s, r) := flush sb strings rules in Ok (mkRD s r)
  | c :: rest =>
      if n_t c =? rg_NtMulti then build_rules rest (sb ++ n_str c) strings rules
      else if n_t c =? rg_NtOne then build_rules rest (sb ++ [n_ch c]) strings rules
      else if n_t c =? rg_NtRef then
        let '(s, r) := flush sb strings rules in
        let slot := n_m c in
        let slot' := if caps_nonempty && (0 <=? slot) then caps_lookup slot else slot in
        build_rules rest [] s (r ++ [- s_replaceSpecials - 1 - slot'])
      else Crash C_panic                                               (* default: panic(ErrReplacementError) *)
  end.

(* replacerdata.go:27-92 NewReplacerData *)
Definition new_replacer_data (rep : list Z) : res rdata :=
  do (t, children) <- scan_replacement rep ;
  if negb (t =? rg_NtConcatenate) then Crash C_panic
  else build_rules children [] [] [].

(* regexp.go:199-206 Replace *)
Definition replace_string (rtl : bool) (rep : list Z) (tw : list (Z * Z)) (startAt count : Z) (ms : list mtch) : res (list Z) :=
  do d <- new_replacer_data rep ;
  replace rtl (ByData d) tw startAt count ms.

(* ---- regexp.go:208-224 getReplacerData over the LRU of regexp.go:654-704 ----
   The cache is the list of (key, data), most recently used first; max_size > 0. *)
Definition cache := list (list Z * rdata).

Fixpoint cache_remove (key : list Z) (c : cache) : cache :=
  match c with
  | [] => []
  | (k, d) :: c' => if zlist_eqb key k then c' else (k, d) :: cache_remove key c'
  end.
Definition cache_get (key : list Z) (c : cache) : option (rdata * cache) :=
  match name_assoc key c with
  | Some d => Some (d, (key, d) :: cache_remove key c)                 (* MoveToFront *)
  | None => None
  end.
Definition cache_add (max_size : Z) (key : list Z) (d : rdata) (c : cache) : cache :=
  match name_assoc key c with
  | Some _ => (key, d) :: cache_remove key c
  | None => let c' := (key, d) :: c in
            if (0 <? max_size) && (max_size <? zlen c') then removelast c' else c'
  end.
(* should_cache = re.replaceCache != nil && optimizations.cacheReplacerData(replacement) *)
Definition get_replacer_data (should_cache : bool) (max_size : Z) (rep : list Z) (c : cache) : res rdata * cache :=
  match (if should_cache then cache_get rep c else None) with
  | Some (d, c') => (Ok d, c')
  | None =>
      match new_replacer_data rep with
      | Ok d => (Ok d, if should_cache then cache_add max_size rep d c else c)
      | other => (other, c)
      end
  end.

End Parser.

(* ------------------------------------------------------------------------------------------ *)
(** * Specification side                                                                        *)

(* What a rule list means. *)
Inductive rtok : Type :=
| TLit (s : list Z)        (* literal text *)
| TGroup (slot : Z)        (* text of the last capture of the slot, "" if it has none *)
| TLeft                    (* $` : text before the match *)
| TRight                   (* $' : text after the match *)
| TLast                    (* $+ : last slot *)
| TWhole.                  (* $_ : whole input *)

Definition cap_text (text : list Z) (caps : list (Z * Z)) : list Z :=
  match last_opt caps with
  | None => []
  | Some (i, l) => zslice text i (i + l)
  end.

Definition tok_text (m : mtch) (text : list Z) (t : rtok) : list Z :=
  match t with
  | TLit s => s
  | TGroup k => match znth (m_groups m) k with Some caps => cap_text text caps | None => [] end
  | TLeft => firstn (Z.to_nat (m_index m)) text
  | TRight => skipn (Z.to_nat (m_index m + m_length m)) text
  | TLast => match last_opt (m_groups m) with Some caps => cap_text text caps | None => [] end
  | TWhole => text
  end.

(* the expansion of a replacement against one match *)
Definition expand (toks : list rtok) (m : mtch) (text : list Z) : list Z :=
  concat (map (tok_text m text) toks).

(* reading a rule list back as tokens *)
Definition tok_of_rule (strings : list (list Z)) (r : Z) : option rtok :=
  if 0 <=? r then match znth strings r with Some s => Some (TLit s) | None => None end
  else if r =? -1 then Some TWhole
  else if r =? -2 then Some TLast
  else if r =? -3 then Some TRight
  else if r =? -4 then Some TLeft
  else Some (TGroup (-5 - r)).
Fixpoint toks_of_rules (strings : list (list Z)) (rules : list Z) : option (list rtok) :=
  match rules with
  | [] => Some []
  | r :: rs => match tok_of_rule strings r, toks_of_rules strings rs with
               | Some t, Some ts => Some (t :: ts)
               | _, _ => None
               end
  end.
Definition toks_of (d : rdata) : option (list rtok) := toks_of_rules (rd_strings d) (rd_rules d).

(* which matches a call processes: the first [count] in scan order, all of them for count < 0 *)
Definition take_count (count : Z) (ms : list mtch) : list mtch :=
  if count <? 0 then ms else zfirstn count ms.

(* the fold: [ms] in ascending text order, everything outside the matches kept *)
Fixpoint fold_matches (f : mtch -> list Z) (text : list Z) (prev : Z) (ms : list mtch) : list Z :=
  match ms with
  | [] => skipn (Z.to_nat prev) text
  | m :: ms' => zslice text prev (m_index m) ++ f m ++ fold_matches f text (m_index m + m_length m) ms'
  end.

Definition text_order (rtl : bool) (ms : list mtch) : list mtch := if rtl then rev ms else ms.

Definition replace_spec_f (rtl : bool) (ms : list mtch) (f : mtch -> list Z) (count : Z) (text : list Z) : list Z :=
  fold_matches f text 0 (text_order rtl (take_count count ms)).

Definition replace_spec (rtl : bool) (ms : list mtch) (toks : list rtok) (count : Z) (text : list Z) : list Z :=
  replace_spec_f rtl ms (fun m => expand toks m text) count text.

(* Split.  Which matches are processed (split.go:26-34 and the loop condition): *)
Definition split_processed (count : Z) (ms : list mtch) : list mtch :=
  if count =? -1 then zfirstn maxint ms
  else if count <=? 1 then []
  else zfirstn count ms.

Definition group_texts (text : list Z) (m : mtch) : list (list Z) :=
  map (cap_text text) (tl (m_groups m)).

(* left to right: text before the match, then its groups 1..n; the rest of the text at the end *)
Fixpoint split_fold (text : list Z) (prev : Z) (ms : list mtch) : list (list Z) :=
  match ms with
  | [] => [skipn (Z.to_nat prev) text]
  | m :: ms' => zslice text prev (m_index m) :: group_texts text m ++ split_fold text (m_index m + m_length m) ms'
  end.
(* right to left (.NET): the same walk from the end of the text, the whole list reversed *)
Fixpoint split_fold_rtl (text : list Z) (prev : Z) (ms : list mtch) : list (list Z) :=
  match ms with
  | [] => [firstn (Z.to_nat prev) text]
  | m :: ms' => zslice text (m_index m + m_length m) prev :: group_texts text m ++ split_fold_rtl text (m_index m) ms'
  end.

Definition split_spec (rtl : bool) (ms : list mtch) (count : Z) (text : list Z) : list (list Z) :=
  if count =? 0 then []
  else if rtl then rev (split_fold_rtl text (zlen text) (split_processed count ms))
  else split_fold text 0 (split_processed count ms).

(* re-joining: every (k+1)-th piece is text between matches; interleave with the matched texts *)
Fixpoint every_kth_go {A} (k : nat) (skip : nat) (l : list A) : list A :=
  match l with
  | [] => []
  | x :: l' => match skip with
               | O => x :: every_kth_go k k l'
               | S s => every_kth_go k s l'
               end
  end.
Definition every_kth {A} (k : nat) (l : list A) : list A := every_kth_go k 0 l.

Fixpoint interleave (betweens matched : list (list Z)) : list Z :=
  match betweens with
  | [] => []
  | b :: bs => match matched with
               | [] => b ++ concat bs
               | x :: xs => b ++ x ++ interleave bs xs
               end
  end.

Definition matched_text (text : list Z) (m : mtch) : list Z :=
  zslice text (m_index m) (m_index m + m_length m).

(* ------------------------------------------------------------------------------------------ *)
(** * Well-formed match sequences (what C07/C08 establish about the engine)                     *)

Definition cap_in_bounds (len : Z) (c : Z * Z) : Prop := 0 <= fst c /\ 0 <= snd c /\ fst c + snd c <= len.

Definition wf_match (len : Z) (m : mtch) : Prop :=
  0 <= m_index m /\ 0 <= m_length m /\ m_index m + m_length m <= len /\
  m_groups m <> [] /\
  Forall (Forall (cap_in_bounds len)) (m_groups m).

(* group 0 is the match itself *)
Definition group0_ok (m : mtch) : Prop :=
  exists caps rest, m_groups m = caps :: rest /\ last_opt caps = Some (m_index m, m_length m).

(* ascending and disjoint from position prev on *)
Fixpoint ordered_ltr (prev : Z) (ms : list mtch) : Prop :=
  match ms with
  | [] => True
  | m :: ms' => prev <= m_index m /\ ordered_ltr (m_index m + m_length m) ms'
  end.
(* descending and disjoint below position prev *)
Fixpoint ordered_rtl (prev : Z) (ms : list mtch) : Prop :=
  match ms with
  | [] => True
  | m :: ms' => m_index m + m_length m <= prev /\ ordered_rtl (m_index m) ms'
  end.

Definition wf_matches (rtl : bool) (text : list Z) (ms : list mtch) : Prop :=
  Forall (wf_match (zlen text)) ms /\
  (if rtl then ordered_rtl (zlen text) ms else ordered_ltr 0 ms).

(* replacer data that only refers to existing strings and to slots below n *)
Definition rule_ok (nstrings n : Z) (r : Z) : Prop :=
  (0 <= r -> r < nstrings) /\ (r < - 4 -> - 5 - r < n).
Definition data_ok (d : rdata) (n : Z) : Prop :=
  Forall (rule_ok (zlen (rd_strings d)) n) (rd_rules d).

(* a capture map that fits a match with n slots (C17 establishes this for real Regexps) *)
Definition env_ok (env : penv) (n : Z) : Prop :=
  1 <= n /\
  match pe_caps env with
  | None => pe_capsize env = n
  | Some l => Forall (fun kv => 0 <= snd kv < n) l /\ zlist_assoc 0 l = Some 0
  end /\
  match pe_capnames env with
  | None => True
  | Some l => Forall (fun kv => 0 <= snd kv /\
                                match pe_caps env with
                                | None => snd kv < n
                                | Some c => zlist_assoc (snd kv) c <> None
                                end) l
  end.

(* ------------------------------------------------------------------------------------------ *)
(** * Specification of the replacement-string parser: a declarative $-grammar                   *)

(* a parsed replacement: literal runes and references.  IRef n: n >= 0 is a group NUMBER,
   -1 = $` , -2 = $' , -3 = $+ , -4 = $_ *)
Inductive item : Type :=
| ILit (c : Z)
| IRef (n : Z).

Definition ref_tok (slot : Z) : rtok :=
  if slot =? -1 then TLeft else if slot =? -2 then TRight
  else if slot =? -3 then TLast else if slot =? -4 then TWhole else TGroup slot.

(* decimal value of a digit string *)
Fixpoint dval_go (acc : Z) (ds : list Z) : Z :=
  match ds with
  | [] => acc
  | c :: ds' => dval_go (acc * 10 + (c - 48)) ds'
  end.
Definition dval (ds : list Z) : Z := dval_go 0 ds.
Definition digits (ds : list Z) : Prop := Forall (fun c => is_digit c = true) ds.
Definition no_digit_head (p : list Z) : Prop :=
  match p with [] => True | c :: _ => is_digit c = false end.
(* the text contains no "\u" (a backslash immediately followed by 'u') *)
Definition no_u_escape (p : list Z) : Prop := forall pre post, p <> pre ++ 92 :: 117 :: post.

Section Grammar.
Variable is_word_char : Z -> bool.
Variable is_ecma_start : Z -> bool.
Variable is_ecma_char : Z -> bool.
Variable env : penv.

(* group number -> slot, as NewReplacerData maps it *)
Definition slot_of (n : Z) : Z :=
  if caps_nonempty env && (0 <=? n) then caps_lookup env n else n.

(* items -> tokens: adjacent literal runes form one literal string *)
Fixpoint compile_items (its : list item) (sb : list Z) : list rtok :=
  match its with
  | [] => if nonempty sb then [TLit sb] else []
  | ILit c :: r => compile_items r (sb ++ [c])
  | IRef n :: r => (if nonempty sb then [TLit sb] else []) ++ ref_tok (slot_of n) :: compile_items r []
  end.

(* [dollar_form p it rest]: the text p after a '$' starts with a recognised form meaning [it],
   followed by [rest].  (The grammar describes accepted replacements; numbers above MaxInt32
   are rejected by the parser, see parser_error_codes.  Since /repo 273146b an ECMAScript
   ${name whose name cannot be scanned -- a backslash that does not start a valid \u escape, as
   in "${n\", "${\x}" -- is NOT rejected any more: no form below matches a name containing a
   backslash, so by RS_literal the '$' is a literal '$' like every other unrecognised '$'.) *)
Inductive dollar_form : list Z -> item -> list Z -> Prop :=
| DF_dollar rest :                                                         (* $$ *)
    dollar_form (36 :: rest) (ILit 36) rest
| DF_special c rest :                                                      (* $& $` $' $+ $_ *)
    special_capnum c <> 1 ->
    dollar_form (c :: rest) (IRef (special_capnum c)) rest
| DF_num ds rest :                                                         (* $n: ALL the digits, must be a group *)
    use_e env = false -> ds <> [] -> digits ds -> no_digit_head rest ->
    is_capture_slot env (dval ds) = true ->
    dollar_form (ds ++ rest) (IRef (dval ds)) rest
| DF_num_ecma ds rest :                                                    (* ECMAScript $n: the longest digit prefix that is a group *)
    use_e env = true -> ds <> [] -> digits ds ->
    is_capture_slot env (dval ds) = true ->
    (forall more rest', more <> [] -> digits more -> rest = more ++ rest' ->
                        is_capture_slot env (dval (ds ++ more)) = false) ->
    dollar_form (ds ++ rest) (IRef (dval ds)) rest
| DF_bnum ds rest :                                                        (* ${n} *)
    ds <> [] -> digits ds -> is_capture_slot env (dval ds) = true ->
    dollar_form (123 :: ds ++ 125 :: rest) (IRef (dval ds)) rest
| DF_bname name rest :                                                     (* ${name} *)
    use_e env = false -> name <> [] -> Forall (fun c => is_word_char c = true) name ->
    is_digit (hd 0 name) = false -> is_word_char 125 = false ->
    is_capture_name env name = true ->
    dollar_form (123 :: name ++ 125 :: rest) (IRef (capture_slot_from_name env name)) rest
| DF_bname_ecma c cs rest :                                                (* ECMAScript ${name}, name without \u escapes *)
    use_e env = true -> is_digit c = false -> is_ecma_start c = true ->
    Forall (fun x => is_ecma_char x = true) cs -> ~ In 92 (c :: cs) -> is_ecma_char 125 = false ->
    is_capture_name env (map write_rune (c :: cs)) = true ->
    dollar_form (123 :: (c :: cs) ++ 125 :: rest)
                (IRef (capture_slot_from_name env (map write_rune (c :: cs)))) rest.

(* the whole replacement string *)
Inductive rep_spec : list Z -> list item -> Prop :=
| RS_nil : rep_spec [] []
| RS_char c s its :                                  (* any rune but '$' stands for itself *)
    c <> 36 -> rep_spec s its -> rep_spec (c :: s) (ILit c :: its)
| RS_form s it rest its :                            (* '$' followed by a recognised form *)
    dollar_form s it rest -> rep_spec rest its -> rep_spec (36 :: s) (it :: its)
| RS_literal s its :                                 (* any other '$' is a literal '$'; this includes ECMAScript "${" + a name with a bad escape *)
    (forall it rest, ~ dollar_form s it rest) -> rep_spec s its -> rep_spec (36 :: s) (ILit 36 :: its).

End Grammar.
