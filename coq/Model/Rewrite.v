(* C05 — definitions for the rewrite calculus over the reference semantics (Model/Spec.v).
   No proofs here; the rules are proved in Proofs/RewriteProofs.v.

   Two families of relations, all per environment [e] (the set oracle lives in the environment, and
   the side conditions of the rules talk about it):

   * same-fuel ("strong") equalities
        rw_eqs  e t t'   :  sem e f t s = sem e f t' s                         for every fuel f and state s
        rw_heqs e t t'   :  first_only (sem e f t s) = first_only (sem e f t' s)
     They hold for the rewrites that do not change the nesting depth of the tree (atomic loops,
     bump-along marker, branch swap).

   * fuel-independent ("denotational") relations.  [rw_evals e t s l]: with SOME fuel the reference
     semantics of [t] from [s] is the priority-ordered result list [l] (by monotonicity in the fuel,
     Proofs/RewriteProofs.rw_sem_mono, there is at most one such [l]).
        rw_refines  e t t'  (t ⊑ t')   : whenever t evaluates to l, so does t'
        rw_hrefines e t t'  (t ⊑ₕ t')  : whenever t evaluates to l, t' evaluates to some l' with the same FIRST result
        rw_eq  = ⊑ both ways (t ≈ t'),  rw_heq = ⊑ₕ both ways (t ≈ₕ t')
     They are needed for the rewrites that change the nesting depth (prefix factoring: the factored
     tree needs one more unit of fuel) or drop sub-trees (trimming after an Empty branch: the trimmed
     tree evaluates even where the model's fuel runs out inside a dropped branch — hence one-directional).
     [rw_eqs] implies [rw_eq], [rw_heqs] implies [rw_heq]. *)
From Verif Require Import Base.Prelude Model.Tree Model.Spec.

Definition hd_list {A} (l : list A) : list A := match l with [] => [] | a :: _ => [a] end.

Section Rel.
Variable e : env.

Definition rw_evals (t : node) (s : st) (l : list st) : Prop := exists f, sem e f t s = Ok l.

Definition rw_refines (t t' : node) : Prop := forall s l, rw_evals t s l -> rw_evals t' s l.
Definition rw_hrefines (t t' : node) : Prop :=
  forall s l, rw_evals t s l -> exists l', rw_evals t' s l' /\ hd_list l = hd_list l'.
Definition rw_eq (t t' : node) : Prop := rw_refines t t' /\ rw_refines t' t.
Definition rw_heq (t t' : node) : Prop := rw_hrefines t t' /\ rw_hrefines t' t.

Definition rw_eqs (t t' : node) : Prop := forall f s, sem e f t s = sem e f t' s.
Definition rw_heqs (t t' : node) : Prop := forall f s, first_only (sem e f t s) = first_only (sem e f t' s).

(* [t] evaluates from [s] and has no result *)
Definition rw_fails (t : node) (s : st) : Prop := rw_evals t s [].

(* the rest of a concatenation, as the semantics runs it (the local fixpoint of [sem] at NConcat) *)
Definition seq_sem (rec : node -> st -> res (list st)) : list node -> st -> res (list st) :=
  fix seq (l : list node) (s : st) : res (list st) :=
    match l with
    | [] => Ok [s]
    | x :: l' => bindr (rec x s) (seq l')
    end.
Definition alt_sem (rec : node -> st -> res (list st)) (s : st) : list node -> res (list st) :=
  fix alt (l : list node) : res (list st) :=
    match l with
    | [] => Ok []
    | x :: l' => appr (rec x s) (alt l')
    end.

(* the continuation [l] of a concatenation evaluates from [s] and has no result *)
Definition rw_seq_fails (l : list node) (s : st) : Prop := exists f, seq_sem (sem e f) l s = Ok [].

(* the state a single-character loop with options [o] reaches from [s] after [j] characters *)
Definition loop_state (o : Z) (s : st) (j : Z) : st := with_pos s (pos s + dir o * j).

(* the length of the run a {m,n} loop takes from [s] (Spec.sem_charloop) *)
Definition loop_run (k : ckind) (o c n : Z) (s : st) : Z :=
  let cap := if n =? INF then avail e o (pos s) else Z.min n (avail e o (pos s)) in
  run_len e k c o (Z.to_nat cap) (pos s).

(* "the next character in direction [o] exists and passes the test (k, c)": what is true of every
   state at which a single-character loop stopped early *)
Definition next_in (k : ckind) (o c : Z) (s : st) : Prop :=
  (0 <? avail e o (pos s)) = true /\ char_test e k c (next_char e o (pos s)) = true.

End Rel.

(* ---- syntax/tree.go makeLoopAtomic (710-740) ---- *)
Definition MULTI_VS_REPEATER_LIMIT : Z := 64.     (* tree.go:15 *)

Definition make_loop_atomic (t : node) : node :=
  match t with
  | NCharLoop k LGreedy o c m n => NCharLoop k LAtomic o c m n
  | NCharLoop k LLazy o c m _ =>
      if m =? 0 then NEmpty
      else match k with
           | COne => if (2 <=? m) && (m <=? MULTI_VS_REPEATER_LIMIT)
                     then NMulti o (repeat c (Z.to_nat m))
                     else NCharLoop k LAtomic o c m m
           | _ => NCharLoop k LAtomic o c m m
           end
  | _ => t
  end.

(* side condition under which makeLoopAtomic preserves the FIRST result of a loop: none for a greedy
   loop; for a lazy loop the bounds must be sane (the parser guarantees 0 <= m <= n and m < MaxInt32),
   and when the repeater is turned into a Multi under IgnoreCase (a Multi lower-cases the text, a One
   does not) the rune must be one the lower-casing leaves alone *)
Definition loop_atomic_ok (e : env) (k : ckind) (l : lkind) (o c m n : Z) : Prop :=
  match l with
  | LLazy => 0 <= m <= n /\ m < INF /\
             (k = COne -> is_ci o = true -> forall x, (c =? lower e x) = (x =? c))
  | _ => True
  end.

(* ---- the walk of syntax/tree.go eliminateEndingBacktracking (746-833) as a relation:
   [ends_to e t t'] = "t' is what the walk may leave in place of t".  Covered: single-character loops
   (makeLoopAtomic), Atomic / lookaround child, PLAIN capture child (u = -1), last child of a
   concatenation, every branch of an alternation, both branches of the two conditionals (and the
   condition of an expression conditional, which reduceExpressionConditional walks), and the
   Atomic wrapper the walk puts around a trailing alternation / loop / conditional; a Lazyloop's maximum
   lowered to its minimum (tree.go:811-812) and the descent into a loop whose maximum is 1 (815-821).
   NOT covered: the descent to the last expression of a loop with a larger maximum
   (FindLastExpressionInLoopForAutoAtomic, tree.go:823-827).
   A balancing capture (u <> -1) is deliberately absent: the rule is FALSE there
   (RewriteProofs.rw_capture_balancing_not_heq). *)
Section Ends.
Variable e : env.
Inductive ends_to : node -> node -> Prop :=
| ET_refl t : ends_to t t
| ET_loop k l o c m n : loop_atomic_ok e k l o c m n ->
    ends_to (NCharLoop k l o c m n) (make_loop_atomic (NCharLoop k l o c m n))
| ET_atomic t t' : ends_to t t' -> ends_to (NAtomic t) (NAtomic t')
| ET_wrap t t' : ends_to t t' -> ends_to t (NAtomic t')
| ET_poslook o t t' : ends_to t t' -> ends_to (NPosLook o t) (NPosLook o t')
| ET_neglook o t t' : ends_to t t' -> ends_to (NNegLook o t) (NNegLook o t')
| ET_capture o g t t' : ends_to t t' -> ends_to (NCapture o g (-1) t) (NCapture o g (-1) t')
| ET_group t t' : ends_to t t' -> ends_to (NGroup t) (NGroup t')
| ET_concat o pre t t' : ends_to t t' -> ends_to (NConcat o (pre ++ [t])) (NConcat o (pre ++ [t']))
| ET_alt o l l' : ends_to_list l l' -> ends_to (NAlternate o l) (NAlternate o l')
| ET_backref_cond o g y y' n n' : ends_to y y' -> ends_to_opt n n' ->
    ends_to (NBackRefCond o g y n) (NBackRefCond o g y' n')
| ET_expr_cond o c c' y y' n n' : ends_to c c' -> ends_to y y' -> ends_to_opt n n' ->
    ends_to (NExprCond o c y n) (NExprCond o c' y' n')
| ET_lazyloop_min o m n r : 0 <= m <= n -> m < INF -> ends_to (NLoop true o m n r) (NLoop true o m m r)
| ET_loop_one lazy o m r r' : m = 0 \/ m = 1 -> ends_to r r' -> ends_to (NLoop lazy o m 1 r) (NLoop lazy o m 1 r')
| ET_trans a b c : ends_to a b -> ends_to b c -> ends_to a c
with ends_to_list : list node -> list node -> Prop :=
| ETL_nil : ends_to_list [] []
| ETL_cons t t' l l' : ends_to t t' -> ends_to_list l l' -> ends_to_list (t :: l) (t' :: l')
with ends_to_opt : option node -> option node -> Prop :=
| ETO_none : ends_to_opt None None
| ETO_some t t' : ends_to t t' -> ends_to_opt (Some t) (Some t').
End Ends.

(* ---- first-character tests of alternation branches (tree.go findBranchOneOrMultiStart 1318-1327,
   generalised from One to any single-character leaf).  Left-to-right leaves only. ---- *)
Definition leaf_first_test (e : env) (t : node) : option (Z -> bool) :=
  match t with
  | NChar k o c => if is_rtl o then None else Some (char_test e k c)
  | NMulti o (c :: _) => if is_rtl o then None else Some (fun x => c =? (if is_ci o then lower e x else x))
  | _ => None
  end.
Definition branch_first_test (e : env) (t : node) : option (Z -> bool) :=
  match t with
  | NConcat _ (x :: _) => leaf_first_test e x
  | _ => leaf_first_test e t
  end.

(* the literal first character, as FirstCharOfOneOrMulti (tree.go:2392) reads it off a One / Multi *)
Definition leaf_first_char (t : node) : option (Z * Z) :=       (* (options, rune) *)
  match t with
  | NChar COne o c => Some (o, c)
  | NMulti o (c :: _) => Some (o, c)
  | _ => None
  end.
Definition branch_first_char (t : node) : option (Z * Z) :=
  match t with
  | NConcat _ (x :: _) => leaf_first_char x
  | _ => leaf_first_char t
  end.

(* ---- auto-atomicity of a loop that ENDS a nested group (processNode's descent, tree.go:401-424,
   459-474): the loop is not the head of the concatenation whose next element justifies the rewrite,
   so the two sub-trees are not equivalent by themselves — the rewritten one has FEWER results.
   [drops P l l']: l' is l with some elements satisfying P deleted (order kept).
   [rw_prunes e P t t']: from every state, the results of t' are those of t minus some P-states.
   [atomized e P t t']: t' is t with single-character loops at its END made atomic, where every state
   whose next character passes such a loop's test satisfies P. ---- *)
Inductive drops {A} (P : A -> Prop) : list A -> list A -> Prop :=
| drops_nil : drops P [] []
| drops_keep a l l' : drops P l l' -> drops P (a :: l) (a :: l')
| drops_drop a l l' : P a -> drops P l l' -> drops P (a :: l) l'.

Definition rw_prunes (e : env) (P : st -> Prop) (t t' : node) : Prop :=
  (forall s l, rw_evals e t s l -> exists l', rw_evals e t' s l' /\ drops P l l') /\
  (forall s l', rw_evals e t' s l' -> exists l, rw_evals e t s l /\ drops P l l').

Definition pos_pred (P : st -> Prop) : Prop := forall s s', pos s = pos s' -> P s -> P s'.

Section Atomized.
Variable e : env.
Variable P : st -> Prop.
Inductive atomized : node -> node -> Prop :=
| AZ_refl t : atomized t t
| AZ_loop k l o c m n : 0 <= m -> (forall s, next_in e k o c s -> P s) ->
    atomized (NCharLoop k l o c m n) (NCharLoop k LAtomic o c m n)           (* greedy, or lazy "to greedy" *)
| AZ_capture o g u t t' : atomized t t' -> atomized (NCapture o g u t) (NCapture o g u t')
| AZ_group t t' : atomized t t' -> atomized (NGroup t) (NGroup t')
| AZ_concat o pre t t' : atomized t t' -> atomized (NConcat o (pre ++ [t])) (NConcat o (pre ++ [t']))
| AZ_alt o l l' : atomized_list l l' -> atomized (NAlternate o l) (NAlternate o l')
| AZ_backref_cond o g y y' n n' : atomized y y' -> atomized_opt n n' ->
    atomized (NBackRefCond o g y n) (NBackRefCond o g y' n')
| AZ_expr_cond o c y y' n n' : atomized y y' -> atomized_opt n n' ->
    atomized (NExprCond o c y n) (NExprCond o c y' n')
with atomized_list : list node -> list node -> Prop :=
| AZL_nil : atomized_list [] []
| AZL_cons t t' l l' : atomized t t' -> atomized_list l l' -> atomized_list (t :: l) (t' :: l')
with atomized_opt : option node -> option node -> Prop :=
| AZO_none : atomized_opt None None
| AZO_some t t' : atomized t t' -> atomized_opt (Some t) (Some t').
End Atomized.
