(* Reference semantics: the leftmost, priority-ordered backtracking search.
   [sem t s] is the list of ALL ways node [t] can match from state [s], in priority order
   (DESIGN §3.4).  Written from the documented behaviour of each construct; it never looks at
   the compiled program.  Direction is the node's own Rtl bit. *)
From Verif Require Import Base.Prelude Model.Tree.

Record env := {
  txt : list Z;                 (* the input runes *)
  tstart : Z;                   (* where the search started: \G *)
  ecma : bool;                  (* ECMAScript option: unset back-reference matches empty *)
  endz_strict : bool;           (* RE2 or ECMAScript: $ / \Z only at the very end *)
  set_in : Z -> Z -> bool;      (* oracle: set id -> rune -> membership *)
  lower : Z -> Z;               (* oracle: unicode.ToLower *)
  is_word : Z -> bool;          (* oracle: syntax.IsWordChar *)
  is_eword : Z -> bool          (* oracle: syntax.IsECMAWordChar *)
}.

Definition tlen (e : env) : Z := zlen (txt e).
Definition char_at (e : env) (i : Z) : Z := nth (Z.to_nat i) (txt e) 0.

(* captures: per group number a stack of (index, length), newest first *)
Definition caps_t := list (Z * list (Z * Z)).
Record st := { pos : Z; caps : caps_t }.

Fixpoint cap_get (g : Z) (c : caps_t) : list (Z * Z) :=
  match c with
  | [] => []
  | (g', l) :: c' => if g =? g' then l else cap_get g c'
  end.
Fixpoint cap_set (g : Z) (l : list (Z * Z)) (c : caps_t) : caps_t :=
  match c with
  | [] => [(g, l)]
  | (g', l') :: c' => if g =? g' then (g, l) :: c' else (g', l') :: cap_set g l c'
  end.
Definition cap_push (g : Z) (iv : Z * Z) (c : caps_t) : caps_t := cap_set g (iv :: cap_get g c) c.
Definition cap_pop (g : Z) (c : caps_t) : caps_t := cap_set g (tl (cap_get g c)) c.
Definition is_matched (g : Z) (c : caps_t) : bool := match cap_get g c with [] => false | _ => true end.

Definition with_pos (s : st) (p : Z) : st := {| pos := p; caps := caps s |}.

(* result lists with fuel *)
Fixpoint bindl {A B} (l : list A) (f : A -> res (list B)) : res (list B) :=
  match l with
  | [] => Ok []
  | a :: l' => do x <- f a ; do y <- bindl l' f ; Ok (x ++ y)
  end.
Definition bindr {A B} (r : res (list A)) (f : A -> res (list B)) : res (list B) :=
  do l <- r ; bindl l f.
Definition appr {A} (a b : res (list A)) : res (list A) := do x <- a ; do y <- b ; Ok (x ++ y).

Section Sem.
Variable e : env.

Definition dir (o : Z) : Z := if is_rtl o then -1 else 1.
(* number of characters available in the node's direction *)
Definition avail (o : Z) (p : Z) : Z := if is_rtl o then p else tlen e - p.
(* the next character in the node's direction from p, and the position after it *)
Definition next_char (o : Z) (p : Z) : Z := if is_rtl o then char_at e (p - 1) else char_at e p.

Definition char_test (k : ckind) (c : Z) (x : Z) : bool :=
  match k with
  | COne => x =? c
  | CNotone => negb (x =? c)
  | CSet => set_in e c x
  end.

(* longest run (at most [maxn]) of characters satisfying the test, from p in direction o *)
Fixpoint run_len (k : ckind) (c o : Z) (maxn : nat) (p : Z) : Z :=
  match maxn with
  | O => 0
  | S m => if (0 <? avail o p) && char_test k c (next_char o p)
           then 1 + run_len k c o m (p + dir o) else 0
  end.

(* [count_down a b] = a, a-1, ..., b ; [count_up a b] = a, a+1, ..., b  (empty when out of order) *)
Fixpoint count_down_aux (n : nat) (a : Z) : list Z :=
  match n with O => [] | S n' => a :: count_down_aux n' (a - 1) end.
Definition count_down (a b : Z) : list Z := if a <? b then [] else count_down_aux (Z.to_nat (a - b + 1)) a.
Fixpoint count_up_aux (n : nat) (a : Z) : list Z :=
  match n with O => [] | S n' => a :: count_up_aux n' (a + 1) end.
Definition count_up (a b : Z) : list Z := if b <? a then [] else count_up_aux (Z.to_nat (b - a + 1)) a.

(* single-character loop {m,n}: positions reached, in priority order *)
Definition sem_charloop (k : ckind) (l : lkind) (o c m n : Z) (s : st) : list st :=
  let p := pos s in
  let cap := if n =? INF then avail o p else Z.min n (avail o p) in
  let r := run_len k c o (Z.to_nat cap) p in
  if r <? m then [] else
  let mk := fun j => with_pos s (p + dir o * j) in
  match l with
  | LGreedy => map mk (count_down r m)
  | LLazy => map mk (count_up m r)
  | LAtomic => [mk r]
  end.

(* literal string, in text order; under Ci the text side is lower-cased (the parser lower-cased the pattern) *)
Fixpoint str_match_at (ci : bool) (s : list Z) (p : Z) : bool :=
  match s with
  | [] => true
  | c :: s' => (c =? (if ci then lower e (char_at e p) else char_at e p)) && str_match_at ci s' (p + 1)
  end.
Definition sem_multi (o : Z) (str : list Z) (s : st) : list st :=
  let n := zlen str in
  if avail o (pos s) <? n then [] else
  let start := if is_rtl o then pos s - n else pos s in
  if str_match_at (is_ci o) str start then [with_pos s (pos s + dir o * n)] else [].

(* back-reference to the text [i, i+len) *)
Fixpoint ref_match_at (ci : bool) (len : nat) (i p : Z) : bool :=
  match len with
  | O => true
  | S l' => let a := char_at e i in let b := char_at e p in
            (if ci then lower e a =? lower e b else a =? b) && ref_match_at ci l' (i + 1) (p + 1)
  end.
Definition sem_ref (o g : Z) (s : st) : list st :=
  match cap_get g (caps s) with
  | [] => if ecma e then [s] else []
  | (i, len) :: _ =>
      if avail o (pos s) <? len then [] else
      let start := if is_rtl o then pos s - len else pos s in
      if ref_match_at (is_ci o) (Z.to_nat len) i start then [with_pos s (pos s + dir o * len)] else []
  end.

Definition is_boundary (w : Z -> bool) (i : Z) : bool :=
  xorb ((0 <? i) && w (char_at e (i - 1))) ((i <? tlen e) && w (char_at e i)).

Definition anchor_ok (a : anchor) (p : Z) : bool :=
  match a with
  | ABol => (p <=? 0) || (char_at e (p - 1) =? 10)
  | AEol => (tlen e <=? p) || (char_at e p =? 10)
  | ABoundary => is_boundary (is_word e) p
  | ANonboundary => negb (is_boundary (is_word e) p)
  | AECMABoundary => is_boundary (is_eword e) p
  | ANonECMABoundary => negb (is_boundary (is_eword e) p)
  | ABeginning => p <=? 0
  | AStart => p =? tstart e
  | AEndZ => let r := tlen e - p in
             if 1 <? r then false
             else if endz_strict e then r <=? 0
             else negb ((r =? 1) && negb (char_at e p =? 10))
  | AEnd => tlen e <=? p
  end.

(* the capture recorded for group g between mark and the current position *)
Definition span (a b : Z) : Z * Z := (Z.min a b, Z.abs (b - a)).

(* balancing group (?<g-u>...): the new capture of g is the innermost interval between the
   popped capture of u and the text just matched *)
Definition balance_span (a b : Z) (u : Z * Z) : Z * Z :=
  let '(s0, l0) := span a b in
  let e0 := s0 + l0 in
  let s2 := fst u in let e2 := s2 + snd u in
  if e2 <=? s0 then (e2, s0 - e2)
  else if e0 <=? s2 then (e0, s2 - e0)
  else let e1 := Z.min e0 e2 in let s1 := Z.max s0 s2 in (s1, e1 - s1).

Definition first_only {A} (r : res (list A)) : res (list A) :=
  do l <- r ; Ok (match l with [] => [] | a :: _ => [a] end).

(* generic repetition {m,n} of a sub-pattern; [mark] is where the current iteration started,
   [count] is (iterations completed - m) and [limit] is n - m.  An iteration that consumes nothing
   once the minimum is met ends the loop. *)
Fixpoint iter (fuel : nat) (body : st -> res (list st)) (lazy : bool) (limit : Z)
         (s : st) (mark count : Z) : res (list st) :=
  match fuel with
  | O => Fuel
  | S f =>
      let again := bindr (body s) (fun s' => iter f body lazy limit s' (pos s) (count + 1)) in
      if lazy then
        if count <? 0 then again
        else appr (Ok [s]) (if (count <? limit) && negb (pos s =? mark) then again else Ok [])
      else
        if (limit <=? count) || ((pos s =? mark) && (0 <=? count)) then Ok [s]
        else appr again (Ok (if 0 <=? count then [s] else []))
  end.

Fixpoint sem (fuel : nat) (t : node) (s : st) : res (list st) :=
  match fuel with
  | O => Fuel
  | S f =>
    let rec := sem f in
    match t with
    | NChar k o c =>
        Ok (if (0 <? avail o (pos s)) && char_test k c (next_char o (pos s))
            then [with_pos s (pos s + dir o)] else [])
    | NCharLoop k l o c m n => Ok (sem_charloop k l o c m n s)
    | NMulti o str => Ok (sem_multi o str s)
    | NRef o g => Ok (sem_ref o g s)
    | NAnchor a => Ok (if anchor_ok a (pos s) then [s] else [])
    | NNothing => Ok []
    | NEmpty => Ok [s]
    | NBump => Ok [s]
    | NConcat _ l =>
        (fix seq (l : list node) (s : st) : res (list st) :=
           match l with
           | [] => Ok [s]
           | x :: l' => bindr (rec x s) (seq l')
           end) l s
    | NAlternate _ l =>
        (fix alt (l : list node) : res (list st) :=
           match l with
           | [] => Ok []
           | x :: l' => appr (rec x s) (alt l')
           end) l
    | NLoop lazy _ m n r =>
        let limit := if n =? INF then INF else n - m in
        if m =? 0 then iter f (rec r) lazy limit s (-1) 0
        else bindr (rec r s) (fun s' => iter f (rec r) lazy limit s' (pos s) (1 - m))
    | NCapture _ g u r =>
        if u =? -1 then
          bindr (rec r s) (fun s' =>
            Ok [{| pos := pos s'; caps := cap_push g (span (pos s) (pos s')) (caps s') |}])
        else
          bindr (rec r s) (fun s' =>
            match cap_get u (caps s') with
            | [] => Ok []
            | top :: _ =>
                let c1 := cap_pop u (caps s') in
                Ok [{| pos := pos s';
                       caps := if g =? -1 then c1 else cap_push g (balance_span (pos s) (pos s') top) c1 |}]
            end)
    | NGroup r => rec r s
    | NPosLook _ r => do l <- first_only (rec r s) ; Ok (map (fun s' => with_pos s' (pos s)) l)
    | NNegLook _ r => do l <- rec r s ; Ok (match l with [] => [s] | _ => [] end)
    | NAtomic r => first_only (rec r s)
    | NBackRefCond _ g yes no =>
        if is_matched g (caps s) then rec yes s
        else match no with Some n => rec n s | None => Ok [s] end
    | NExprCond _ c yes no =>
        do l <- first_only (rec c s) ;
        match l with
        | s' :: _ => rec yes (with_pos s' (pos s))
        | [] => match no with Some n => rec n s | None => Ok [s] end
        end
    end
  end.

(* one attempt of the whole pattern (root = Capture 0) at position p *)
Definition attempt (fuel : nat) (root : node) (p : Z) : res (option st) :=
  do l <- sem fuel root {| pos := p; caps := [] |} ;
  Ok (match l with [] => None | s :: _ => Some s end).

(* the scan of runner.go:116-228 with every accelerator removed: attempt positions in scan
   order from [start]; an empty previous match (prevlen = 0) moves the first candidate one further *)
Fixpoint scan_from (fuel : nat) (n : nat) (root : node) (rtl : bool) (p : Z) : res (option st) :=
  match n with
  | O => Ok None
  | S n' =>
      do r <- attempt fuel root p ;
      match r with
      | Some s => Ok (Some s)
      | None => if (if rtl then p <=? 0 else tlen e <=? p) then Ok None
                else scan_from fuel n' root rtl (if rtl then p - 1 else p + 1)
      end
  end.

Definition find (fuel : nat) (root : node) (rtl : bool) (start prevlen : Z) : res (option st) :=
  let stop := if rtl then 0 else tlen e in
  if (prevlen =? 0) && (start =? stop) then Ok None
  else let p0 := if prevlen =? 0 then (if rtl then start - 1 else start + 1) else start in
       scan_from fuel (S (Z.to_nat (tlen e))) root rtl p0.

End Sem.

(* ------------------------------------------------------------------------------------------
   The same search in continuation-passing style: [semk t s k] is the first success of [k] over
   the results of [t] from [s] in priority order.  This is what the extracted code runs (it never
   materialises result lists); Proofs/SpecProofs.v proves  semk t s k = first_some k (sem t s). *)
Section SemK.
Variable e : env.

Definition kont := st -> res (option st).

Fixpoint first_some (k : kont) (l : list st) : res (option st) :=
  match l with
  | [] => Ok None
  | x :: l' => do r <- k x ; match r with Some y => Ok (Some y) | None => first_some k l' end
  end.

Definition or_else (a : res (option st)) (b : unit -> res (option st)) : res (option st) :=
  do r <- a ; match r with Some y => Ok (Some y) | None => b tt end.

Definition k_first : kont := fun s => Ok (Some s).

Fixpoint iterk (fuel : nat) (body : st -> kont -> res (option st)) (lazy : bool) (limit : Z)
         (s : st) (mark count : Z) (k : kont) : res (option st) :=
  match fuel with
  | O => Fuel
  | S f =>
      let again := fun (_ : unit) => body s (fun s' => iterk f body lazy limit s' (pos s) (count + 1) k) in
      if lazy then
        if count <? 0 then again tt
        else or_else (k s) (fun _ => if (count <? limit) && negb (pos s =? mark) then again tt else Ok None)
      else
        if (limit <=? count) || ((pos s =? mark) && (0 <=? count)) then k s
        else or_else (again tt) (fun _ => if 0 <=? count then k s else Ok None)
  end.

Fixpoint semk (fuel : nat) (t : node) (s : st) (k : kont) : res (option st) :=
  match fuel with
  | O => Fuel
  | S f =>
    let rec := semk f in
    match t with
    | NChar kd o c =>
        if (0 <? avail e o (pos s)) && char_test e kd c (next_char e o (pos s))
        then k (with_pos s (pos s + dir o)) else Ok None
    | NCharLoop kd l o c m n => first_some k (sem_charloop e kd l o c m n s)
    | NMulti o str => first_some k (sem_multi e o str s)
    | NRef o g => first_some k (sem_ref e o g s)
    | NAnchor a => if anchor_ok e a (pos s) then k s else Ok None
    | NNothing => Ok None
    | NEmpty => k s
    | NBump => k s
    | NConcat _ l =>
        (fix seq (l : list node) (s : st) (k : kont) : res (option st) :=
           match l with
           | [] => k s
           | x :: l' => rec x s (fun s' => seq l' s' k)
           end) l s k
    | NAlternate _ l =>
        (fix alt (l : list node) : res (option st) :=
           match l with
           | [] => Ok None
           | x :: l' => or_else (rec x s k) (fun _ => alt l')
           end) l
    | NLoop lazy _ m n r =>
        let limit := if n =? INF then INF else n - m in
        if m =? 0 then iterk f (rec r) lazy limit s (-1) 0 k
        else rec r s (fun s' => iterk f (rec r) lazy limit s' (pos s) (1 - m) k)
    | NCapture _ g u r =>
        if u =? -1 then
          rec r s (fun s' => k {| pos := pos s'; caps := cap_push g (span (pos s) (pos s')) (caps s') |})
        else
          rec r s (fun s' =>
            match cap_get u (caps s') with
            | [] => Ok None
            | top :: _ =>
                let c1 := cap_pop u (caps s') in
                k {| pos := pos s';
                     caps := if g =? -1 then c1 else cap_push g (balance_span (pos s) (pos s') top) c1 |}
            end)
    | NGroup r => rec r s k
    | NPosLook _ r =>
        do x <- rec r s k_first ;
        match x with Some s' => k (with_pos s' (pos s)) | None => Ok None end
    | NNegLook _ r =>
        do x <- rec r s k_first ;
        match x with Some _ => Ok None | None => k s end
    | NAtomic r =>
        do x <- rec r s k_first ;
        match x with Some s' => k s' | None => Ok None end
    | NBackRefCond _ g yes no =>
        if is_matched g (caps s) then rec yes s k
        else match no with Some n => rec n s k | None => k s end
    | NExprCond _ c yes no =>
        do x <- rec c s k_first ;
        match x with
        | Some s' => rec yes (with_pos s' (pos s)) k
        | None => match no with Some n => rec n s k | None => k s end
        end
    end
  end.

Definition attemptk (fuel : nat) (root : node) (p : Z) : res (option st) :=
  semk fuel root {| pos := p; caps := [] |} k_first.

Fixpoint scank_from (fuel : nat) (n : nat) (root : node) (rtl : bool) (p : Z) : res (option st) :=
  match n with
  | O => Ok None
  | S n' =>
      do r <- attemptk fuel root p ;
      match r with
      | Some s => Ok (Some s)
      | None => if (if rtl then p <=? 0 else tlen e <=? p) then Ok None
                else scank_from fuel n' root rtl (if rtl then p - 1 else p + 1)
      end
  end.

Definition findk (fuel : nat) (root : node) (rtl : bool) (start prevlen : Z) : res (option st) :=
  let stop := if rtl then 0 else tlen e in
  if (prevlen =? 0) && (start =? stop) then Ok None
  else let p0 := if prevlen =? 0 then (if rtl then start - 1 else start + 1) else start in
       scank_from fuel (S (Z.to_nat (tlen e))) root rtl p0.

End SemK.
