(* Model/Options.v — the token stream shared by C17/C18 and the parser's option stack.

   The parser (syntax/parser.go) threads [p.options] and [p.optionsStack] through BOTH of its
   passes over the pattern: the capture pre-scan [countCaptures] (parser.go:380-498) and the main
   pass [scanRegex] (parser.go:513-786).  This file models exactly that part, over a token
   abstraction of the pattern text; Model/GroupMap.v adds the capture bookkeeping on top of it.

   No proofs in this file. *)
From Verif Require Import Base.Prelude.

Definition name := list Z.        (* a group name: its runes *)

(* ---- option bits: syntax.RegexOptions, parser.go:13-23 (re-checked against the Go constants
        by leg c18-stamps on every run) ---- *)
Definition opt_i : Z := 1.        (* IgnoreCase              "i" *)
Definition opt_m : Z := 2.        (* Multiline               "m" *)
Definition opt_n : Z := 4.        (* ExplicitCapture         "n" *)
Definition opt_s : Z := 16.       (* Singleline              "s" *)
Definition opt_x : Z := 32.       (* IgnorePatternWhitespace "x" *)
Definition opt_r : Z := 64.       (* RightToLeft             "r"  (top level only) *)
Definition opt_e : Z := 256.      (* ECMAScript              "e"  (top level only) *)
Definition opt_re2 : Z := 512.    (* RE2                          (top level only) *)
Definition opt_u : Z := 1024.     (* Unicode                 "u" *)

(* useOptionN/useOptionX/... : (p.options & bit) != 0, parser.go:2242-2279 *)
Definition has (o b : Z) : bool := negb (Z.land o b =? 0).

(* ---- the characters of an inline option string "imnsxu+-" ---- *)
Inductive ochar : Type :=
| OMinus            (* '-' : following letters switch off *)
| OPlus             (* '+' : following letters switch on  *)
| OBit (b : Z).     (* a letter; b = optionFromCode(letter), parser.go:26-48.  Letters r, e (and unknown
                       ones) END the scan (isOnlyTopOption) and are therefore not part of a token. *)

(* scanOptions, parser.go:1943-1966 *)
Fixpoint scan_options (off : bool) (cs : list ochar) (o : Z) : Z :=
  match cs with
  | [] => o
  | OMinus :: r => scan_options true r o
  | OPlus :: r => scan_options false r o
  | OBit b :: r => scan_options off r (if off then Z.ldiff o b else Z.lor o b)
  end.

(* ---- tokens ----
   A pattern is abstracted to the sequence of its group-structure tokens.  Everything that has no
   group structure (literals, classes, escapes, anchors, quantifiers, '|') is a [TLit]; the
   payload only selects a spelling in the harness' printer and is ignored by the model.

   Lexical conventions (enforced by the printer; theorems name the ones they need):
   - a [TNamed]/[TCondName]/[TBackName] name is a non-empty word that does not start with a digit
     (a name starting with 1-9 is scanned as a number: parser.go:427, 1042);
   - a [TNumbered]/[TCondNum]/[TBackNum] number is printed in decimal without leading zeros;
   - [TCondHead] is "(?" immediately in front of the "(" of the NEXT token (which must be a
     group-opening token), i.e. the head of an alternation construct "(?(" whose condition is
     not a group reference;
   - the first literal inside "TCondHead; TOpen" is not a word character. *)
Inductive gkind : Type := GNonCap | GAtomic | GAheadPos | GAheadNeg | GBehindPos | GBehindNeg.

Inductive gtok : Type :=
| TLit (c : Z)                 (* anything without group structure *)
| TOpen                        (* "("                      *)
| TNamed (s : name)            (* "(?<s>"  "(?'s'"  and, in RE2 mode, "(?P<s>" *)
| TNumbered (n : Z)            (* "(?<n>"  "(?'n'"         *)
| TGroup (k : gkind)           (* "(?:" "(?>" "(?=" "(?!" "(?<=" "(?<!" *)
| TOptGroup (cs : list ochar)  (* "(?cs:"                  *)
| TOptSet (cs : list ochar)    (* "(?cs)"                  *)
| TClose                       (* ")"                      *)
| TCondHead                    (* "(?" of "(?(" + condition group *)
| TCondNum (n : Z)             (* "(?(n)"                  *)
| TCondName (s : name)         (* "(?(s)"                  *)
| TBackNum (angled : bool) (n : Z)   (* "\n"  /  "\k<n>" "\<n>" "\k'n'" *)
| TBackName (s : name)         (* "\k<s>" "\k's'" "\<s>", RE2 "(?P=s)" *)
| TComment                     (* "(?#...)" (the text may contain "(")     *)
| THash                        (* "#": starts a comment up to the next newline when x is on *)
| TNewline.                    (* "\n" *)

(* ---- the option stack machine ---- *)
Inductive pass : Type := PreScan | MainPass.

Record ostate : Type := mkO {
  o_opts : Z;            (* p.options *)
  o_stack : list Z;      (* p.optionsStack, top first *)
  o_skip : bool          (* inside an x-mode "#..." comment: the scanner is skipping to the next newline *)
}.

Definition o_init (o : Z) : ostate := mkO o [] false.

Definition e_unexpected_paren : Z := 10.      (* ErrUnexpectedParen *)

(* pushOptions, parser.go:2355 *)
Definition o_push (st : ostate) : ostate := mkO (o_opts st) (o_opts st :: o_stack st) (o_skip st).
(* popOptions, parser.go:2347: index -1 on an empty stack is a run-time fault *)
Definition o_pop (st : ostate) : res ostate :=
  match o_stack st with
  | [] => Crash 1
  | o :: r => Ok (mkO o r (o_skip st))
  end.
(* popKeepOptions, parser.go:2341 *)
Definition o_pop_keep (st : ostate) : res ostate :=
  match o_stack st with
  | [] => Crash 2
  | _ :: r => Ok (mkO (o_opts st) r (o_skip st))
  end.
Definition o_set (f : Z -> Z) (st : ostate) : ostate := mkO (f (o_opts st)) (o_stack st) (o_skip st).
Definition o_set_skip (b : bool) (st : ostate) : ostate := mkO (o_opts st) (o_stack st) b.

(* One token, option part only.
   Pre-scan: countCaptures, parser.go:387-494 ('#': 396-400; ')': 405-408; '(': 410-489).
   Main pass: scanRegex, parser.go:594-632 (pushOptions 604, popKeepOptions 609, popOptions 632),
   scanGroupOpen's default case (1243-1262), scanBlank (1553-1598) for comments.
   Not modelled: the RightToLeft bit that the main pass flips inside lookarounds (parser.go:998,
   1002, 1023, 1031); the harness masks that bit.  *)
Definition ostep (p : pass) (st : ostate) (t : gtok) : res ostate :=
  if o_skip st then
    match t with
    | TNewline => Ok (o_set_skip false st)
    | _ => Ok st
    end
  else
    match t with
    | TLit _ | TBackNum _ _ | TBackName _ | TComment | TNewline => Ok st
    | THash => Ok (if has (o_opts st) opt_x then o_set_skip true st else st)
    | TOpen | TNamed _ | TNumbered _ | TGroup _ | TCondHead => Ok (o_push st)
    | TOptGroup cs => Ok (o_set (scan_options false cs) (o_push st))
    | TOptSet cs => o_pop_keep (o_set (scan_options false cs) (o_push st))
    | TClose =>
        match o_stack st with
        | [] => match p with PreScan => Ok st | MainPass => Err e_unexpected_paren end
        | _ => o_pop st
        end
    | TCondNum _ | TCondName _ =>
        match p with
        | PreScan => o_pop (o_push (o_push st))   (* "(?(" then "(" ... ")" : push, push, pop *)
        | MainPass => Ok (o_push st)              (* one group: the condition is consumed by scanGroupOpen *)
        end
    end.

(* The states in force at each token (the state BEFORE the token is processed), and the outcome.
   On an error the list ends with the state at the failing token. *)
Fixpoint otrace (p : pass) (st : ostate) (ts : list gtok) : list ostate * res ostate :=
  match ts with
  | [] => ([], Ok st)
  | t :: r =>
      match ostep p st t with
      | Ok st' => let (l, f) := otrace p st' r in (st :: l, f)
      | Err c => ([st], Err c)
      | Crash w => ([st], Crash w)
      | Fuel => ([st], Fuel)
      end
  end.

(* the option word stamped on each token *)
Definition stamps (p : pass) (o : Z) (ts : list gtok) : list Z := map o_opts (fst (otrace p (o_init o) ts)).
Definition ofinal (p : pass) (o : Z) (ts : list gtok) : res ostate := snd (otrace p (o_init o) ts).

(* "(?O" for a set O of option bits given as a list *)
Definition opt_on (bs : list Z) : list ochar := map OBit bs.
Definition opt_off (bs : list Z) : list ochar := OMinus :: map OBit bs.
Definition union_bits (bs : list Z) (o : Z) : Z := fold_left Z.lor bs o.
Definition clear_bits (bs : list Z) (o : Z) : Z := fold_left Z.ldiff bs o.
