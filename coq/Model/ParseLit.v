(* Model of the pattern parser (syntax/parser.go Parse -> countCaptures -> scanRegex) on the
   sub-language {ordinary characters, backslash escapes, x-mode blanks}: the fragment that the
   output of Escape can reach.  Executable, no proofs.

   What is modelled, as the code is:
     - countCaptures (parser.go:380) as far as it can be decided without groups: the model answers
       [POutside] as soon as the pre-scan stands on '(' '[' ')' or sees \p / \P;
     - scanRegex (513): scanBlank, the run of ordinary characters (isSpecial / isStopperX with the
       '{' exception of isTrueQuantifier), the "last character of the run belongs to the following
       quantifier" rule (only reachable here for a '{' that is not a quantifier, after x-mode blanks),
       addToConcatenate (One / Multi / one node per character under IgnoreCase), the '\\' case;
     - scanBackslash (1280), scanBasicBackslash (1362: \k<..> \<..> \'..' \N back-references with
       the capture table {0}, then the character code), scanCharEscape (1982) with scanOctal,
       scanHex, scanHexUntilBrace, scanControl under the options ECMAScript / RE2 / Unicode;
     - newRegexNodeCh / nodeWithCaseConversion (tree.go:140,180), RegexNode.reduce for the node
       kinds above (reduceSet singleton case), reduceConcatenation (1422: adjacent equal sets
       become a Setloop{k,k}, adjacent One/Multi become one Multi), the wrapping of the root.
   Every other special character met unescaped ( ( ) [ * + ? | ^ $ . and a '{' that is a true
   quantifier ) makes the model answer [POutside] ("not in the fragment"), never a guess; so do
   RightToLeft, \p, \P and ECMAScript group names (\k<name> under ECMAScript+Unicode).

   The pattern is the rune list Parse builds with `for _, r := range pattern` (so 0 <= r).
   Oracles (Section variables; the harness ships their values on the runes of the case):
     is_word_char = syntax.IsWordChar, to_lower = unicode.ToLower,
     is_cased c = (unicode.SimpleFold c != c)   (the test of nodeWithCaseConversion),
     participates = participatesInCaseConversion,
     ci_single c = the set {c} closed under case equivalences is a singleton,
     ci_set_id c = an identity of that set (equal ids <-> CharSet.Equals).
   Generated from the source on every run: Gen/ParseLitGen.v (category table, the four
   classifier bounds/thresholds, simple escapes, hex digit counts, option bits). *)
From Verif Require Import Base.Prelude Gen.ParseLitGen Model.Escape.

(* further error codes (Model/Escape.v has 1..7); the harness maps syntax.ErrorCode to them *)
Definition E_MalformedNameRef : Z := 8.
Definition E_UndefinedBackRef : Z := 9.
Definition E_UndefinedNameRef : Z := 10.
Definition E_CaptureGroupOutOfRange : Z := 11.

(* node types (syntax/tree.go) used for the zero-width assertions *)
Definition NT_Boundary : Z := 16.
Definition NT_Nonboundary : Z := 17.
Definition NT_Beginning : Z := 18.
Definition NT_Start : Z := 19.
Definition NT_EndZ : Z := 20.
Definition NT_End : Z := 21.
Definition NT_ECMABoundary : Z := 41.
Definition NT_NonECMABoundary : Z := 42.

(* ---- options ---- *)
Definition pl_bit (o b : Z) : bool := negb (Z.land o b =? 0).
Definition useI (o : Z) : bool := pl_bit o PL_IgnoreCase.
Definition useX (o : Z) : bool := pl_bit o PL_IgnorePatternWhitespace.
Definition useE (o : Z) : bool := pl_bit o PL_ECMAScript.
Definition useRE2 (o : Z) : bool := pl_bit o PL_RE2.
Definition useU (o : Z) : bool := pl_bit o PL_Unicode.
Definition useRTL (o : Z) : bool := pl_bit o PL_RightToLeft.
(* n.Options &= ^IgnoreCase *)
Definition clear_I (o : Z) : Z := Z.ldiff o PL_IgnoreCase.

(* ---- character categories (parser.go:2454-2492) ---- *)
Definition pl_cat (ch : Z) : Z := nth (Z.to_nat ch) pl_category 0.
Definition is_space (ch : Z) : bool := (ch <=? pl_space_bound) && (pl_cat ch =? pl_space_cat).
Definition is_special (ch : Z) : bool := (ch <=? pl_special_bound) && (pl_special_min <=? pl_cat ch).
Definition is_stopper_x (ch : Z) : bool := (ch <=? pl_stopperx_bound) && (pl_stopperx_min <=? pl_cat ch).
Definition is_quantifier (ch : Z) : bool := (ch <=? pl_quant_bound) && (pl_quant_min <=? pl_cat ch).
(* `_category[ch]` is a Go index expression: it faults for a bound beyond the table.  With the
   generated bounds this is [true]; otherwise the model refuses to answer (Crash). *)
Definition pl_bounds_ok : bool :=
  let n := Z.of_nat (length pl_category) in
  (pl_space_bound <? n) && (pl_special_bound <? n) && (pl_stopperx_bound <? n) && (pl_quant_bound <? n).

Definition is_digit (ch : Z) : bool := (48 <=? ch) && (ch <=? 57).

Fixpoint skip_digits (p : list Z) : list Z :=
  match p with
  | ch :: p' => if is_digit ch then skip_digits p' else p
  | [] => []
  end.

(* isTrueQuantifier (2494): p is the pattern from the current position *)
Definition is_true_quantifier (p : list Z) : bool :=
  match p with
  | [] => false
  | ch :: rest =>
      if negb (ch =? 123) then is_quantifier ch
      else match rest with
           | d :: _ =>
               if negb (is_digit d) then false              (* pos-startpos == 1 *)
               else match skip_digits rest with
                    | [] => false                              (* nChars == 0 *)
                    | c :: r2 =>
                        if c =? 125 then true
                        else if negb (c =? 44) then false
                        else match skip_digits r2 with
                             | c2 :: _ => c2 =? 125
                             | [] => false
                             end
                    end
           | [] => false
           end
  end.

(* scanBlank (1557).  x-mode: whitespace and #-comments, repeatedly; [inc] = inside a comment.
   (The Go comment loop stops in front of '\n', which the next round skips as whitespace.)
   A "(?#" comment starts with '(' : both branches stop in front of it and every caller then
   answers POutside, so the model never has to skip one (nor report ErrUnterminatedComment). *)
Fixpoint blank_x (inc : bool) (p : list Z) : list Z :=
  match p with
  | [] => []
  | ch :: p' =>
      if inc then blank_x (negb (ch =? 10)) p'
      else if is_space ch then blank_x false p'
      else if ch =? 35 then blank_x true p'
      else p
  end.
Definition scan_blank (o : Z) (p : list Z) : list Z := if useX o then blank_x false p else p.

(* scanDecimal (1928) *)
Fixpoint scan_decimal (i : Z) (p : list Z) : res (Z * list Z) :=
  match p with
  | [] => Ok (i, [])
  | ch :: p' =>
      let d := ch - 48 in
      if (d <? 0) || (9 <? d) then Ok (i, p)
      else if (214748364 <? i) || ((i =? 214748364) && (7 <? d)) then Err E_CaptureGroupOutOfRange
      else scan_decimal (i * 10 + d) p'
  end.

(* scanOctal (2146): at most 3 digits; under ECMAScript stops once the value reached 0x20 *)
Fixpoint pl_octal_loop (e : bool) (c : nat) (i : Z) (p : list Z) : Z * list Z :=
  match c with
  | O => (i, p)
  | S c' => match p with
            | ch :: p' => if (48 <=? ch) && (ch <=? 55)
                          then if (32 <=? i) && e then (i, p)
                               else pl_octal_loop e c' (i * 8 + (ch - 48)) p'
                          else (i, p)
            | [] => (i, p)
            end
  end.
Definition pl_scan_octal (o : Z) (p : list Z) : Z * list Z :=
  let '(i, p') := pl_octal_loop (useE o) 3 0 p in ((if useRE2 o then i else Z.land i 255), p').   (* RE2 keeps the value: \777 is U+01FF (/repo 533e628) *)

Fixpoint pl_lookup (k : Z) (l : list (Z * Z)) : option Z :=
  match l with
  | [] => None
  | (k', v) :: l' => if k =? k' then Some v else pl_lookup k l'
  end.

Section WithOracles.
Variable is_word_char : Z -> bool.
Variable to_lower : Z -> Z.
Variable is_cased : Z -> bool.
Variable participates : Z -> bool.
Variable ci_single : Z -> bool.
Variable ci_set_id : Z -> Z.

(* scanCharEscape (1982); p = pattern after the backslash, non-empty at every call site.
   scan_hex, scan_hex_brace, scan_control are those of Model/Escape.v. *)
Definition pl_scan_char_escape (o : Z) (p : list Z) : res (Z * list Z) :=
  match p with
  | [] => Crash 1
  | ch :: p' =>
      (* `if err != nil && p.useOptionE() { p.textto(pos); return ch, nil }` *)
      let fallback := fun (r : res (Z * list Z)) =>
        match r with Err c => if useE o then Ok (ch, p') else Err c | _ => r end in
      if (48 <=? ch) && (ch <=? 55) then Ok (pl_scan_octal o p)
      else if ch =? 120 then
        match p' with
        | c2 :: p'' => if c2 =? 123
                       then (if useE o then Ok (ch, p') else scan_hex_brace 0 false p'')
                       else fallback (scan_hex pl_x_digits p')
        | [] => fallback (scan_hex pl_x_digits p')
        end
      else if ch =? 117 then
        match p' with
        | c2 :: p'' => if (c2 =? 123) && useE o && useU o
                       then scan_hex_brace 0 false p''
                       else fallback (scan_hex pl_u_digits p')
        | [] => fallback (scan_hex pl_u_digits p')
        end
      else match pl_lookup ch pl_simple_escapes with
           | Some v => Ok (v, p')
           | None =>
               if ch =? 99 then fallback (scan_control p')
               else if negb (useE o) && negb (useRE2 o) && is_word_char ch
                    then Err E_UnrecognizedEscape
                    else Ok (ch, p')
           end
  end.

(* what scanBackslash hands back *)
Inductive esc :=
| EsChar (c : Z)        (* NtOne with this character (already lower-cased under IgnoreCase) *)
| EsType (t : Z)        (* zero-width assertion of node type t *)
| EsClass (letter : Z)  (* \w \W \s \S \d \D *)
| EsRef (g : Z)         (* back-reference *)
| EsNil.                (* scanOnly: (nil, nil) *)
Inductive bsk :=
| BOut                               (* outside the fragment *)
| BGot (e : esc) (rest : list Z).

(* scanWord (1663) *)
Fixpoint scan_word (p : list Z) : list Z * list Z :=
  match p with
  | ch :: p' => if is_word_char ch then let '(w, r) := scan_word p' in (ch :: w, r) else ([], p)
  | [] => ([], [])
  end.

(* "Not backreference: must be char code": p.textto(backpos); scanCharEscape *)
Definition char_code (o : Z) (scan_only : bool) (p0 : list Z) : res bsk :=
  do (c, rest) <- pl_scan_char_escape o p0 ;
  if scan_only then Ok (BGot EsNil rest)
  else Ok (BGot (EsChar (if useI o then to_lower c else c)) rest).

(* the angled forms \k<..> \k'..' \<..> \'..' : p0 = pattern after the backslash,
   cur = pattern at the first character of the name (non-empty at both call sites).
   Capture table of the fragment: slot 0 only, no names (parser.go:383, 496). *)
Definition name_ref (o : Z) (scan_only k : bool) (close : Z) (p0 cur : list Z) : res bsk :=
  match cur with
  | [] => Crash 1
  | ch :: _ =>
      if is_digit ch then
        do (capnum, r1) <- scan_decimal 0 cur ;
        match r1 with
        | c :: r2 =>
            if c =? close
            then (if capnum =? 0 then Ok (BGot (EsRef 0) r2) else Err E_UndefinedBackRef)
            else char_code o scan_only p0
        | [] => char_code o scan_only p0
        end
      else if useE o then Ok BOut        (* scanECMACapname is not modelled *)
      else
        let '(name, r1) := scan_word cur in
        match name, r1 with
        | _ :: _, c :: r2 =>
            if c =? close
            then (if scan_only then Ok (BGot EsNil r2) else Err E_UndefinedNameRef)
            else if k then Err E_MalformedNameRef else char_code o scan_only p0
        | _, _ => if k then Err E_MalformedNameRef else char_code o scan_only p0
        end
  end.

(* scanBasicBackslash (1362); p = pattern after the backslash *)
Definition scan_basic_backslash (o : Z) (scan_only : bool) (p : list Z) : res bsk :=
  match p with
  | [] => Err E_IllegalEndEscape
  | ch :: p1 =>
      if (ch =? 107) && (negb (useE o) || useU o)      (* || len(p.capnames) > 0 : no names here *)
      then match p1 with
           | c2 :: p2 =>
               let angled := (c2 =? 60) || (negb (useE o) && (c2 =? 39)) in
               let close := if c2 =? 39 then 39 else 62 in
               if negb angled then Err E_MalformedNameRef
               else match p2 with
                    | [] => Err E_MalformedNameRef
                    | _ => name_ref o scan_only true close p p2
                    end
           | [] => Err E_MalformedNameRef
           end
      else if negb (useE o) && ((ch =? 60) || (ch =? 39)) && (match p1 with [] => false | _ => true end)
      then name_ref o scan_only false (if ch =? 39 then 39 else 62) p p1
      else if (49 <=? ch) && (ch <=? 57) then
        do (capnum, rest) <- scan_decimal 0 p ;
        if scan_only then Ok (BGot EsNil rest)
        else (* isCaptureSlot(capnum) is false: capnum >= 1 and only slot 0 exists *)
          if (capnum <=? 9) && negb (useE o) then Err E_UndefinedBackRef
          else char_code o scan_only p
      else char_code o scan_only p
  end.

(* typeFromCode (1531) *)
Definition type_from_code (o : Z) (ch : Z) : Z :=
  if ch =? 98 then (if useE o then NT_ECMABoundary else NT_Boundary)
  else if ch =? 66 then (if useE o then NT_NonECMABoundary else NT_Nonboundary)
  else if ch =? 65 then NT_Beginning
  else if ch =? 71 then NT_Start
  else if ch =? 90 then NT_EndZ
  else NT_End.

(* scanBackslash (1280); p = pattern after the backslash *)
Definition scan_backslash (o : Z) (scan_only : bool) (p : list Z) : res bsk :=
  match p with
  | [] => Err E_IllegalEndEscape
  | ch :: p1 =>
      if zmem ch pl_assert_letters then Ok (BGot (EsType (type_from_code o ch)) p1)
      else if zmem ch pl_class_letters then Ok (BGot (EsClass ch) p1)
      else if (ch =? 112) || (ch =? 80) then
        (if useE o && negb (useU o) then scan_basic_backslash o scan_only p else Ok BOut)
      else scan_basic_backslash o scan_only p
  end.

(* ---- tree nodes of the fragment ---- *)
Inductive pnode :=
| PnOne (o c : Z)
| PnMulti (o : Z) (s : list Z)
| PnSet (o id : Z)               (* id < 0: class escape -letter; id >= 0: ci_set_id of a letter *)
| PnSetLoop (o id k : Z)         (* Setloop{k,k}: only made by reduceConcatenation *)
| PnType (t o : Z)               (* zero-width assertion *)
| PnRef (o g : Z).

(* newRegexNodeCh(NtOne, o, ch) (tree.go:140) followed by the reduce() of addChild (261, 486):
   under IgnoreCase a cased letter becomes a set (a singleton set goes back to One, 1855) *)
Definition mk_one (o ch : Z) : pnode :=
  if useI o && (0 <? ch) && is_cased ch
  then (if ci_single ch then PnOne (clear_I o) ch else PnSet (clear_I o) (ci_set_id ch))
  else PnOne (clear_I o) ch.

(* the node scanBackslash built, after addChild's reduce() *)
Definition node_of_esc (o : Z) (e : esc) : option pnode :=
  match e with
  | EsChar c => Some (mk_one o c)
  | EsType t => Some (PnType t (clear_I o))
  | EsClass l => Some (PnSet (clear_I o) (- l))
  | EsRef g => Some (PnRef o g)              (* reduce keeps IgnoreCase on a back-reference *)
  | EsNil => None
  end.

(* addToConcatenate (2373), isReplacement = false *)
Definition add_to_concat (o : Z) (s : list Z) : list pnode :=
  match s with
  | [] => []
  | [c] => [mk_one o c]
  | _ => if negb (useI o) || negb (existsb participates s)
         then [PnMulti (clear_I o) s]
         else map (mk_one o) s
  end.

(* the run of ordinary characters (scanRegex 531-547) *)
Definition is_stopper (o : Z) (ch : Z) : bool := if useX o then is_stopper_x ch else is_special ch.
Fixpoint take_run (o : Z) (p : list Z) : list Z * list Z :=
  match p with
  | [] => ([], [])
  | ch :: p' =>
      if is_stopper o ch && (negb (ch =? 123) || is_true_quantifier p) then ([], p)
      else let '(r, rest) := take_run o p' in (ch :: r, rest)
  end.

Inductive scanres :=
| SLeaves (l : list pnode)     (* children of the top-level concatenation, in pattern order *)
| SOutside.

(* scanRegex (513) on the fragment: one round of the outer loop.  acc = children added so far,
   [rec] = the following rounds. *)
Definition scan_body (rec : list Z -> list pnode -> res scanres) (o : Z) (p : list Z) (acc : list pnode)
  : res scanres :=
  match p with
  | [] => Ok (SLeaves acc)
  | _ =>
      let p1 := scan_blank o p in
      let '(run, p2) := take_run o p1 in
      let p3 := scan_blank o p2 in
      match p3 with
      | [] => Ok (SLeaves (acc ++ add_to_concat o run))                    (* ch = '!' *)
      | ch :: p4 =>
          if negb (is_special ch)
          then rec p3 (acc ++ add_to_concat o run)                          (* ch = ' ' *)
          else
            (* isQuant = isQuantifier(ch): the run loses its last character to the unit *)
            let acc' := if is_quantifier ch
                        then match run with
                             | [] => acc
                             | _ => acc ++ add_to_concat o (removelast run)
                             end
                        else acc ++ add_to_concat o run in
            if ch =? 92 then
              do r <- scan_backslash o false p4 ;
              match r with
              | BOut => Ok SOutside
              | BGot e p5 =>
                  match node_of_esc o e with
                  | None => Crash 4
                  | Some n =>
                      let p6 := scan_blank o p5 in
                      if is_true_quantifier p6 then Ok SOutside
                      else rec p6 (acc' ++ [n])                              (* addConcatenate *)
                  end
              end
            else if (ch =? 123) && is_quantifier ch && negb (is_true_quantifier p3) then
              (* only after x-mode blanks: case '{' with unit = One(last of run); moveLeft;
                 isTrueQuantifier is false; addConcatenate *)
              match run with
              | [] => Ok SOutside      (* unreachable: the run loop would have taken the '{' *)
              | _ => rec p3 (acc' ++ [mk_one o (last run 0)])
              end
            else Ok SOutside
      end
  end.

Fixpoint scan_loop (fuel : nat) (o : Z) (p : list Z) (acc : list pnode) : res scanres :=
  match fuel with
  | O => Fuel
  | S f => scan_body (scan_loop f o) o p acc
  end.

(* countCaptures (380) on the fragment: true = the pre-scan never stood on '(' '[' ')' nor saw
   \p (so it returned nil and left caps = {0}, no names, options unchanged).  Errors of
   scanBackslash are ignored by the Go code and it resumes wherever the cursor was left; the
   model does not track that position: it answers true only if no '(' '[' ')' follows at all. *)
Definition is_paren (ch : Z) : bool := (ch =? 40) || (ch =? 41) || (ch =? 91).
Definition prepass_body (rec : list Z -> res bool) (o : Z) (p : list Z) : res bool :=
  match p with
  | [] => Ok true
  | ch :: p' =>
      if ch =? 92 then
        match p' with
        | [] => Ok true
        | _ => match scan_backslash o true p' with
               | Ok (BGot _ rest) => rec rest
               | Ok BOut => Ok false
               | Err _ => Ok (negb (existsb is_paren p'))
               | Crash w => Crash w
               | Fuel => Fuel
               end
        end
      else if (ch =? 35) && useX o then rec (scan_blank o p)
      else if is_paren ch then Ok false
      else rec p'
  end.
Fixpoint prepass (fuel : nat) (o : Z) (p : list Z) : res bool :=
  match fuel with
  | O => Fuel
  | S f => prepass_body (prepass f o) o p
  end.

(* reduceConcatenationWithAdjacentLoops (1523) on the node kinds of the fragment: equal adjacent
   sets (same options) fold into Setloop{2,2}, {3,3}, ...; canCombineCounts (1501) *)
Definition combine (cur nx : pnode) : option pnode :=
  match cur, nx with
  | PnSet o a, PnSet o2 b =>
      if (o =? o2) && (a =? b) then Some (PnSetLoop o a 2) else None
  | PnSetLoop o a k, PnSet o2 b =>
      if (o =? o2) && (a =? b) && (k + 1 <? 2147483647) then Some (PnSetLoop o a (k + 1)) else None
  | _, _ => None
  end.
Fixpoint coalesce (cur : pnode) (l : list pnode) : list pnode :=
  match l with
  | [] => [cur]
  | nx :: l' => match combine cur nx with
                | Some c => coalesce c l'
                | None => cur :: coalesce nx l'
                end
  end.

(* reduceConcatenationWithAdjacentStrings (1649), left-to-right: [pend] is the string node the
   next One/Multi would be appended to (it keeps its own Options; T becomes Multi) *)
Definition str_of (n : pnode) : option (Z * list Z) :=
  match n with
  | PnOne o c => Some (o, [c])
  | PnMulti o s => Some (o, s)
  | _ => None
  end.
Definition opt_mask (o : Z) : Z := Z.land o (PL_RightToLeft + PL_IgnoreCase).
Definition flush (pend : option pnode) : list pnode := match pend with Some n => [n] | None => [] end.
Fixpoint merge_strs (pend : option pnode) (l : list pnode) : list pnode :=
  match l with
  | [] => flush pend
  | at_ :: l' =>
      match str_of at_ with
      | Some (oa, s) =>
          match pend with
          | Some pv =>
              match str_of pv with
              | Some (ol, sl) =>
                  if opt_mask ol =? opt_mask oa then merge_strs (Some (PnMulti ol (sl ++ s))) l'
                  else pv :: merge_strs (Some at_) l'
              | None => pv :: merge_strs (Some at_) l'    (* unreachable: pend is a string node *)
              end
          | None => merge_strs (Some at_) l'
          end
      | None => flush pend ++ at_ :: merge_strs None l'
      end
  end.

(* the final tree: Capture(0) over Empty / the single child / Concatenate (tree.go:1422-1453,
   1057-1063, parser.go:2338-2351, 784).  Node types 45 (Setloopatomic) and 5 (Setloop) are not
   distinguished: findAndMakeLoopsAtomic / eliminateEndingBacktracking are not modelled here. *)
Inductive pbody :=
| BEmpty (o : Z)
| BSingle (n : pnode)
| BConcat (o : Z) (l : list pnode).
Inductive ptree := PRoot (o : Z) (b : pbody).

Definition reduce_concat (o : Z) (l : list pnode) : pbody :=
  match l with
  | [] => BEmpty (clear_I o)
  | [x] => BSingle x
  | x :: l' =>
      match merge_strs None (coalesce x l') with
      | [] => BEmpty (clear_I o)
      | [y] => BSingle y
      | l2 => BConcat (clear_I o) l2
      end
  end.

Inductive pres :=
| PTree (t : ptree)
| POutside.

Definition parse_lit (o : Z) (p : list Z) : res pres :=
  if negb pl_bounds_ok then Crash 2
  else if negb (forallb (fun c => 0 <=? c) p) then Crash 3
  else if useRTL o then Ok POutside
  else
    do pre <- prepass (S (length p)) o p ;
    if negb pre then Ok POutside
    else
      do r <- scan_loop (S (length p)) o p [] ;
      match r with
      | SOutside => Ok POutside
      | SLeaves l => Ok (PTree (PRoot o (reduce_concat o l)))
      end.

End WithOracles.
