(* Model/FinalOptParse.v — syntax.Parse under a verif gate mask, start to finish (C05).  No proofs.

   Model/Parser.v models the parser with every optional rewrite family switched off (mask 31); its main
   loop calls its own [reduce].  This file repeats that main loop (scanRegex and its add* helpers,
   parser.go 513-786, 2304-2460: everything below that calls RegexNode.addChild) over an abstract reducer
   [red ptype node] = "node.reduce() while node.Parent has type ptype", and instantiates it with the gated
   reducer of Model/FinalOpt.v, followed by finalOptimize's passes.  Everything else (blank / option /
   escape / class / group-open scanners, the capture pre-scan, the node constructors) IS Model/Parser.v.
   With [red _ := Parser.reduce] the definitions below are those of Model/Parser.v word for word.

   This is the exact reference for leg c05-opt (no information is lost: the Group and lookahead nodes the
   parser removes are there while the gated branches run).  The post-pass Model/FinalOpt.fo_final_optimize,
   which the theorems are about, works from the finished gate-31 tree and is compared with the same real
   trees; where the gate-31 tree does not determine the result the two legitimately differ. *)
From Verif Require Import Base.Prelude Gen.ParseLitGen Model.Escape Model.ParseLit Model.GroupMap Model.CharClass
  Model.Parser Model.FinalOpt.

Section GatedParse.
Variable is_word_char : Z -> bool.
Variable to_lower : Z -> Z.
Variable simple_fold : Z -> Z.
Variable participates : Z -> bool.
Variable cat_in : Z -> Z -> bool.
Variable cat_name : list Z -> Z.
Variable red : Z -> rnode -> res rnode.

(* addChild (261-267): child.Parent = n; reduced := child.reduce() *)
Definition gp_add_child (parent child : rnode) : res rnode :=
  do r <- red (n_t parent) child ; Ok (set_kids parent (n_kids parent ++ [r])).

(* makeQuantifier (1879-1922) *)
Definition gp_make_quantifier (x : rnode) (lazy : bool) (mn mx : Z) : res rnode :=
  let 'RN t o ch m n str st kids := x in
  if (mn =? 0) && (mx =? 0) then Ok (mk_node T_Empty o)
  else if (mn =? 1) && (mx =? 1) then Ok x
  else if (mn =? mx) && (mx <=? pp_multi_limit) && (t =? T_One)
  then Ok (RN T_Multi o 0 m n (repeat_rune ch mx) st kids)
  else if (t =? T_One) || (t =? T_Notone) || (t =? T_Set)
  then Ok (make_rep x (if lazy then T_Onelazy else T_Oneloop) mn mx)
  else gp_add_child (mk_node_mn (if lazy then T_Lazyloop else T_Loop) o mn mx) x.

Definition gp_add_concatenate (st : mst) : pr mst :=
  match ms_unit st with
  | None => PC 37
  | Some u => pdo c <- of_res (gp_add_child (ms_concat st) u) [] ; POk (set_unit (set_concat st c) None)
  end.
Definition gp_add_concatenate3 (st : mst) (lazy : bool) (mn mx : Z) : pr mst :=
  match ms_unit st with
  | None => PC 38
  | Some u =>
      pdo q <- of_res (gp_make_quantifier u lazy mn mx) [] ;
      pdo c <- of_res (gp_add_child (ms_concat st) q) [] ;
      POk (set_unit (set_concat st c) None)
  end.

Fixpoint gp_add_ones (o : Z) (c : rnode) (s : list Z) : pr rnode :=
  match s with
  | [] => POk c
  | ch :: s' => pdo x <- mk_node_ch simple_fold cat_in T_One o ch ; pdo c' <- of_res (gp_add_child c x) [] ; gp_add_ones o c' s'
  end.
Definition gp_add_to_concatenate (o : Z) (c : rnode) (s : list Z) : pr rnode :=
  match s with
  | [] => POk c
  | [ch] => gp_add_ones o c s
  | _ => if negb (useI o) || negb (existsb participates s)
         then of_res (gp_add_child c (mk_node_str T_Multi (clear_I o) s)) []
         else gp_add_ones o c s
  end.

Definition gp_add_alternate (st : mst) : pr mst :=
  let c := reverse_left (ms_concat st) in
  let fresh := mk_node T_Concatenate (ms_o st) in
  if is_cond_t (n_t (ms_group st)) then
    pdo g <- of_res (gp_add_child (ms_group st) c) [] ;
    POk (mkMS (ms_stack st) g (ms_alt st) fresh (ms_unit st) (ms_o st) (ms_os st) (ms_ign st) (ms_autocap st))
  else
    pdo a <- of_res (gp_add_child (ms_alt st) c) [] ;
    POk (mkMS (ms_stack st) (ms_group st) a fresh (ms_unit st) (ms_o st) (ms_os st) (ms_ign st) (ms_autocap st)).

Definition gp_add_group (st : mst) : pr mst :=
  let c := reverse_left (ms_concat st) in
  let g := ms_group st in
  if is_cond_t (n_t g) then
    pdo g' <- of_res (gp_add_child g c) [] ;
    if ((n_t g' =? T_BackRefCond) && (2 <? zlen (n_kids g'))) || (3 <? zlen (n_kids g'))
    then PE PE_TooManyAlternates []
    else POk (mkMS (ms_stack st) g' (ms_alt st) (ms_concat st) (Some g') (ms_o st) (ms_os st) (ms_ign st) (ms_autocap st))
  else
    pdo a <- of_res (gp_add_child (ms_alt st) c) [] ;
    pdo g' <- of_res (gp_add_child g a) [] ;
    POk (mkMS (ms_stack st) g' a (ms_concat st) (Some g') (ms_o st) (ms_os st) (ms_ign st) (ms_autocap st)).

Definition gp_pop_group (st : mst) : pr mst :=
  match ms_stack st with
  | [] => PC 39
  | (g, a, c) :: r =>
      if (n_t g =? T_ExprCond) && (match n_kids g with [] => true | _ => false end) then
        match ms_unit st with
        | None => PE PE_ConditionalExpression []
        | Some u =>
            pdo g' <- of_res (gp_add_child g u) [] ;
            POk (mkMS r g' a c None (ms_o st) (ms_os st) (ms_ign st) (ms_autocap st))
        end
      else POk (mkMS r g a c (ms_unit st) (ms_o st) (ms_os st) (ms_ign st) (ms_autocap st))
  end.

Definition gp_scan_quantifier (st : mst) (p : list Z) : pr (mst * list Z) :=
  match p with
  | [] => PC 41
  | ch :: p1 =>
      match ms_unit st with
      | None => POk (st, p1)
      | Some _ =>
          pdo r <-
            (if ch =? 42 then POk (Some (0, pp_inf, p1))
             else if ch =? 63 then POk (Some (0, 1, p1))
             else if ch =? 43 then POk (Some (1, pp_inf, p1))
             else if ch =? 123 then brace_counts p1
             else PE PE_InternalError p1) ;
          match r with
          | None => pdo st' <- gp_add_concatenate st ; POk (st', p)
          | Some (mn, mx, q) =>
              pdo q1 <- scan_blank_full (ms_o st) q ;
              let '(lazy, q2) := if hd_is q1 63 then (true, tl q1) else (false, q1) in
              if mx <? mn then PE PE_InvalidRepeatSize q2
              else pdo st' <- gp_add_concatenate3 st lazy mn mx ; POk (st', q2)
          end
      end
  end.

Definition gp_after_unit (st : mst) (p : list Z) : pr (mst * list Z * bool) :=
  pdo p1 <- scan_blank_full (ms_o st) p ;
  if is_nil p1 || negb (is_true_quantifier p1) then pdo st' <- gp_add_concatenate st ; POk (st', p1, false)
  else pdo r <- gp_scan_quantifier st p1 ; let '(st', q) := r in POk (st', q, true).

Definition gp_add_run (st : mst) (run : list Z) (isq : bool) : pr mst :=
  match run with
  | [] => POk st
  | _ =>
      let o := ms_o st in
      pdo c <- gp_add_to_concatenate o (ms_concat st) (if isq then removelast run else run) ;
      let st' := set_concat st c in
      if isq then pdo u <- mk_node_ch simple_fold cat_in T_One o (last run 0) ; POk (set_unit st' (Some u)) else POk st'
  end.

Definition gp_round_open (tb : captab) (mco : bool) (st1 : mst) (p3 : list Z) : pr (mst * option (list Z * bool)) :=
  let o := ms_o st1 in
  if useRE2 o && hd_is p3 63 && nth_is 1 p3 80 && nth_is 2 p3 61 then
    pdo r <- python_backref is_word_char tb o (skipn 3 p3) ;
    let '(x, q) := r in
    pdo r2 <- gp_after_unit (set_unit st1 (Some x)) q ;
    let '(st', q', wq) := r2 in POk (st', Some (q', wq))
  else
    pdo r <- group_open is_word_char tb mco (n_t (ms_group st1)) (mkGV o (ms_ign st1) (ms_autocap st1)) p3 ;
    let '(g, v, q) := r in
    match g with
    | None =>
        POk (mkMS (ms_stack st1) (ms_group st1) (ms_alt st1) (ms_concat st1) (ms_unit st1)
                  (gv_o v) (ms_os st1) (gv_ign v) (gv_autocap v), Some (q, false))
    | Some gn =>
        let st2 := mkMS (ms_stack st1) (ms_group st1) (ms_alt st1) (ms_concat st1) (ms_unit st1)
                        (gv_o v) (o :: ms_os st1) (gv_ign v) (gv_autocap v) in
        POk (start_group (push_group st2) gn, Some (q, false))
    end.

Definition gp_round_close (st1 : mst) (p3 : list Z) : pr (mst * option (list Z * bool)) :=
  match ms_stack st1 with
  | [] => PE PE_UnexpectedParen p3
  | _ =>
      pdo st2 <- gp_add_group st1 ;
      pdo st3 <- gp_pop_group st2 ;
      pdo st4 <- pop_options st3 ;
      match ms_unit st4 with
      | None => POk (st4, Some (p3, false))
      | Some _ => pdo r <- gp_after_unit st4 p3 ; let '(st', q', wq) := r in POk (st', Some (q', wq))
      end
  end.

Definition gp_scan_round (tb : captab) (mco : bool) (st : mst) (p : list Z) (wasq : bool) : pr (mst * option (list Z * bool)) :=
  let o := ms_o st in
  pdo p0 <- scan_blank_full o p ;
  let '(run, p1) := take_run o p0 in
  pdo p2 <- scan_blank_full o p1 ;
  match p2 with
  | [] => pdo st1 <- gp_add_run st run false ; POk (st1, None)
  | ch :: p3 =>
      if negb (is_special ch) then pdo st1 <- gp_add_run st run false ; POk (st1, Some (p2, false))
      else
        let wasq := if is_nil run then wasq else false in
        pdo st1 <- gp_add_run st run (is_quantifier ch) ;
        let unit_then (u : pr rnode) (q : list Z) : pr (mst * option (list Z * bool)) :=
          pdo x <- u ;
          pdo r <- gp_after_unit (set_unit st1 (Some x)) q ;
          let '(st', q', wq) := r in POk (st', Some (q', wq)) in
        if ch =? 91 then
          pdo r <- cs_scan is_word_char cat_name (S (length p3)) false o p3 ;
          let '(syn, q) := r in
          unit_then (class_node to_lower simple_fold cat_in o syn) q
        else if ch =? 40 then gp_round_open tb mco st1 p3
        else if ch =? 124 then pdo st2 <- gp_add_alternate st1 ; POk (st2, Some (p3, false))
        else if ch =? 41 then gp_round_close st1 p3
        else if ch =? 92 then
          pdo r <- scan_backslash_full is_word_char to_lower simple_fold cat_in cat_name false tb o p3 ;
          let '(b, q) := r in
          match b with
          | BNode x => unit_then (POk x) q
          | BNil => PC 42
          end
        else if (ch =? 94) || (ch =? 36) || (ch =? 46) then unit_then (simple_unit simple_fold cat_in o ch) p3
        else if (ch =? 123) || (ch =? 42) || (ch =? 43) || (ch =? 63) then
          match ms_unit st1 with
          | None => PE (if wasq then PE_InvalidRepeatOp else PE_MissingRepeatArgument) p3
          | Some _ => pdo r <- gp_after_unit st1 p2 ; let '(st', q', wq) := r in POk (st', Some (q', wq))
          end
        else PE PE_InternalError p3
  end.

Fixpoint gp_scan_loop (fuel : nat) (tb : captab) (mco : bool) (st : mst) (p : list Z) (wasq : bool) : pr mst :=
  match fuel with
  | O => PF
  | S f =>
      match p with
      | [] => POk st
      | _ =>
          pdo r <- gp_scan_round tb mco st p wasq ;
          let '(st', nxt) := r in
          match nxt with
          | None => POk st'
          | Some (q, wq) => gp_scan_loop f tb mco st' q wq
          end
      end
  end.

(* scanRegex (513-786); [final] = RegexNode.finalOptimize *)
Definition gp_scan_regex (final : rnode -> res rnode) (tb : captab) (mco : bool) (o : Z) (p : list Z) : pr rnode :=
  let st0 := mkMS [] (mk_node_mn T_Capture o 0 (-1)) (mk_node T_Alternate o) (mk_node T_Concatenate o) None o [] false 1 in
  pdo st <- gp_scan_loop (S (length p)) tb mco st0 p false ;
  match ms_stack st with
  | _ :: _ => PE PE_MissingParen []
  | [] =>
      pdo st' <- gp_add_group st ;
      match ms_unit st' with
      | Some u => of_res (final u) []
      | None => PC 43
      end
  end.

Definition gp_parse_with (final : rnode -> res rnode) (o : Z) (mco_flag : bool) (p : list Z) : res presult :=
  if negb pl_bounds_ok then Crash 2
  else if negb (forallb (fun c => 0 <=? c) p) then Crash 3
  else
    let mco := mco_flag || useE o || useRE2 o in
    match (pdo tb <- count_captures is_word_char to_lower simple_fold cat_in cat_name mco o p ;
           pdo t <- gp_scan_regex final (captab_main tb) mco o p ;
           POk (PR_Tree t (GroupMap.t_caps tb) (GroupMap.t_captop tb))) with
    | POk r => Ok r
    | PE c _ => Ok (PR_Err c)
    | PO => Ok PR_Outside
    | PC w => Crash w
    | PF => Fuel
    end.

End GatedParse.

(* syntax.Parse under gate mask g *)
Definition fo_parse (is_word_char : Z -> bool) (to_lower simple_fold : Z -> Z) (participates : Z -> bool)
           (cat_in : Z -> Z -> bool) (cat_name : list Z -> Z) (is_ecma_word_char : Z -> bool)
           (fuel : nat) (g : Z) (o : Z) (mco : bool) (p : list Z) : res presult :=
  gp_parse_with is_word_char to_lower simple_fold participates cat_in cat_name
    (fo_reduce cat_in is_word_char is_ecma_word_char fuel g 0 false 0)
    (fo_final_passes cat_in is_word_char is_ecma_word_char fuel g 0 false)
    o mco p.
