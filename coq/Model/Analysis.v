(* Compile-time analyses of the regular-expression tree (C04): executable models, written line by
   line from the Go code, of

     min_len            syntax/tree.go:1875-1943  RegexNode.ComputeMinLength
     max_len            syntax/tree.go:1947-2056  RegexNode.computeMaxLength
     lead_anchor        syntax/prefix.go:880-944  findLeadingOrTrailingAnchor (leading / trailing)
     try_find_prefix    syntax/prefixanalyzer.go:242-352  tryFindPrefix / findPrefix
     get_anchors        syntax/prefix.go:782-819  getAnchors (the legacy Code.Anchors bit set)
     get_prefix         syntax/prefix.go:318-372  getPrefix (+ syntax/writer.go:147-158: Boyer-Moore prefix)
     lead_pos_look      syntax/prefixanalyzer.go:1454-1492 findLeadingPositiveLookahead
     facts_for_node     syntax/optimizations.go:363-405 newFindOptimizationsForNode (up to the
                        LeadingString decision; the rest of the ladder is "mode 99": not modelled)
     facts              syntax/optimizations.go:344-361 newFindOptimizations (leading-lookahead wrapper)

   Integers are Z.  Go's int is 64 bits here; every operand is at most MaxInt32, so no product or sum
   below can wrap and Z arithmetic is exact.  "No bound" is -1 exactly as in the code; NtUnknown is
   [None] (wire value -1).  No proofs in this file. *)
From Verif Require Import Base.Prelude Base.Utf8 Model.Tree.

(* ---------- saturating arithmetic, tree.go:1414-1470 ---------- *)

Definition MAX_MIN_LENGTH : Z := 2147483646.              (* const maxMinLength = math.MaxInt32 - 1 *)

(* tree.go:1414 addMinLength *)
Definition add_min_length (x y : Z) : Z :=
  if (MAX_MIN_LENGTH <=? x) || (MAX_MIN_LENGTH <=? y) || (MAX_MIN_LENGTH - y <? x) then MAX_MIN_LENGTH
  else x + y.

(* tree.go:1422 multiplyMinLength (Go's / truncates: Z.quot) *)
Definition multiply_min_length (x y : Z) : Z :=
  if (x =? 0) || (y =? 0) then 0
  else if (MAX_MIN_LENGTH <=? x) || (MAX_MIN_LENGTH <=? y) || (Z.quot MAX_MIN_LENGTH y <? x) then MAX_MIN_LENGTH
  else x * y.

(* tree.go:1433 addMaxLength *)
Definition add_max_length (x y : Z) : Z :=
  if (x <? 0) || (y <? 0) || (INF <=? x) || (INF <=? y) || ((INF - 1) - y <? x) then -1
  else x + y.

(* tree.go:1440 multiplyMaxLength *)
Definition multiply_max_length (x y : Z) : Z :=
  if (x <? 0) || (y <? 0) then -1
  else if (x =? 0) || (y =? 0) then 0
  else if (INF <=? x) || (INF <=? y) || (Z.quot (INF - 1) y <? x) then -1
  else x * y.

(* ---------- ComputeMinLength, tree.go:1875 ---------- *)

(* tree.go:1892-1901: min over the branches; the loop stops as soon as min is 0 *)
Definition alt_min_step (mn c : Z) : Z := if 0 <? mn then (if c <? mn then c else mn) else mn.

Fixpoint min_len (t : node) : Z :=
  match t with
  | NChar _ _ _ => 1                                                  (* :1877 One, Notone, Set *)
  | NMulti _ s => zlen s                                              (* :1880 *)
  | NCharLoop _ _ _ _ m _ => m                                        (* :1883-1886 *)
  | NLoop _ _ m _ r => multiply_min_length m (min_len r)              (* :1887-1889 *)
  | NAlternate _ l =>                                                 (* :1890-1901; Children[0] faults on [] *)
      match map min_len l with
      | [] => 0
      | c0 :: cs => fold_left alt_min_step cs c0
      end
  | NBackRefCond _ _ yes no =>                                        (* :1902-1912 *)
      match no with
      | None => min_len yes
      | Some n => let b1 := min_len yes in let b2 := min_len n in if b1 <? b2 then b1 else b2
      end
  | NExprCond _ _ yes no =>                                           (* :1913-1923 *)
      match no with
      | None => min_len yes
      | Some n => let b1 := min_len yes in let b2 := min_len n in if b1 <? b2 then b1 else b2
      end
  | NConcat _ l => fold_left add_min_length (map min_len l) 0         (* :1924-1930 *)
  | NAtomic r => min_len r                                            (* :1931-1933 *)
  | NCapture _ _ _ r => min_len r
  | NGroup r => min_len r
  | NNothing | NEmpty | NBump | NAnchor _ | NRef _ _
  | NPosLook _ _ | NNegLook _ _ => 0                                  (* :1934-1942 and the final return 0 *)
  end.

(* ---------- computeMaxLength, tree.go:1947 ---------- *)

Definition alt_max_step (c c2 : Z) : Z := if (c <? 0) || (c2 <? 0) then -1 else Z.max c c2.
Definition concat_max_step (sum c : Z) : Z := if (sum <? 0) || (c <? 0) then -1 else add_max_length sum c.

Fixpoint max_len (t : node) : Z :=
  match t with
  | NChar _ _ _ => 1                                                  (* :1949 *)
  | NMulti _ s => zlen s                                              (* :1951 *)
  | NCharLoop _ _ _ _ _ n => if n =? INF then -1 else n               (* :1953-1960 *)
  | NLoop _ _ _ n r =>                                                (* :1961-1968 *)
      if n =? INF then -1
      else let c := max_len r in if 0 <=? c then multiply_max_length n c else -1
  | NAlternate _ l =>                                                 (* :1969-1985; Children[0] faults on [] *)
      match map max_len l with
      | [] => -1
      | c0 :: cs => fold_left alt_max_step cs (if c0 <? 0 then -1 else c0)
      end
  | NBackRefCond _ _ yes no =>                                        (* :1986-1996; Children[1] faults when absent *)
      match no with
      | None => -1
      | Some n => let b1 := max_len yes in let b2 := max_len n in
                  if b1 <? 0 then -1 else if b2 <? 0 then -1 else Z.max b1 b2
      end
  | NExprCond _ _ yes no =>                                           (* :1998-2008; Children[2] faults when absent *)
      match no with
      | None => -1
      | Some n => let b1 := max_len yes in let b2 := max_len n in
                  if b1 <? 0 then -1 else if b2 <? 0 then -1 else Z.max b1 b2
      end
  | NConcat _ l => fold_left concat_max_step (map max_len l) 0        (* :2010-2024 *)
  | NAtomic r => max_len r                                            (* :2025-2027: Atomic, Capture only *)
  | NCapture _ _ _ r => max_len r
  | NNothing | NEmpty | NBump | NAnchor _ | NPosLook _ _ | NNegLook _ _ => 0   (* :2028-2032 *)
  | NRef _ _ => -1                                                    (* :2034-2038 *)
  | NGroup _ => -1                                                    (* not in the switch: final return -1 *)
  end.

(* ---------- findLeadingOrTrailingAnchor, prefix.go:880 ---------- *)

(* prefix.go:883: the eight anchor kinds that are reported *)
Definition anchor_findable (a : anchor) : bool :=
  match a with
  | ABol | AEol | ABeginning | AStart | AEndZ | AEnd | ABoundary | AECMABoundary => true
  | ANonboundary | ANonECMABoundary => false
  end.

Definition anchor_eqb (a b : anchor) : bool := anchor_code a =? anchor_code b.
Definition oanchor_eqb (a b : option anchor) : bool :=
  match a, b with
  | Some x, Some y => anchor_eqb x y
  | None, None => true
  | _, _ => false
  end.

(* prefix.go:900 / :908: children a concatenation skips while looking for its first / last child *)
Definition skip_in_concat (t : node) : bool :=
  match t with NEmpty | NPosLook _ _ | NNegLook _ _ => true | _ => false end.

(* first entry whose skip flag is false *)
Fixpoint pick_first {A} (l : list (bool * A)) : option A :=
  match l with
  | [] => None
  | (sk, a) :: l' => if sk then pick_first l' else Some a
  end.

Fixpoint lead_anchor (leading : bool) (t : node) : option anchor :=
  match t with
  | NAnchor a => if anchor_findable a then Some a else None          (* :883-885 *)
  | NAtomic r => lead_anchor leading r                                (* :886-889 *)
  | NCapture _ _ _ r => lead_anchor leading r
  | NConcat _ l =>                                                    (* :890-917 *)
      let cs := map (fun x => (skip_in_concat x, lead_anchor leading x)) l in
      match pick_first (if leading then cs else rev cs) with
      | Some r => r
      | None => None
      end
  | NAlternate _ l =>                                                 (* :919-938; Children[0] faults on [] *)
      match map (lead_anchor leading) l with
      | [] => None
      | None :: _ => None
      | Some a :: rest => if forallb (fun b => oanchor_eqb b (Some a)) rest then Some a else None
      end
  | _ => None                                                         (* :941-942 *)
  end.

(* ---------- tryFindPrefix, prefixanalyzer.go:242 ---------- *)
(* The builder holds BYTES (bytes.Buffer): runes are written UTF-8 encoded and the common prefix of
   alternation branches is cut at byte level.  Result: (bytes appended, "continue with the next node"). *)

Fixpoint common_prefix_len (a b : list Z) : nat :=                    (* :354 commonPrefixLen *)
  match a, b with
  | x :: a', y :: b' => if x =? y then S (common_prefix_len a' b') else O
  | _, _ => O
  end.

Fixpoint repeat_bytes (n : nat) (b : list Z) : list Z :=
  match n with O => [] | S n' => b ++ repeat_bytes n' b end.

(* :250-257 the concatenation loop *)
Fixpoint concat_prefix (rs : list (list Z * bool)) (last : bool) : list Z * bool :=
  match rs with
  | [] => ([], last)
  | (b, c) :: rs' => if c then let (b', c') := concat_prefix rs' last in (b ++ b', c') else (b, false)
  end.

(* :270-292 after the fix "re-slice with the current addedLength" (as .NET does); [fixed = false] is the
   code before the fix: every branch is compared with the WHOLE prefix of the first branch *)
Definition alt_prefix_step (fixed : bool) (first : list Z) (added : nat) (br : list Z) : nat :=
  match added with
  | O => O                                                             (* loop condition addedLength != 0 *)
  | _ => common_prefix_len (if fixed then firstn added first else first) br
  end.

Fixpoint try_find_prefix_gen (fixed : bool) (t : node) : list Z * bool :=
  match t with
  | NConcat o l => concat_prefix (map (try_find_prefix_gen fixed) l) (negb (is_rtl o))     (* :250-257 *)
  | NAlternate o l =>                                                                       (* :259-298 *)
      if is_rtl o then ([], false)
      else match map (fun x => fst (try_find_prefix_gen fixed x)) l with
           | [] => ([], false)                                                              (* Children[0] faults *)
           | first :: others =>
               (firstn (fold_left (alt_prefix_step fixed first) others (length first)) first, false)
           end
  | NChar COne o c => (encode c, negb (is_rtl o))                                           (* :301-303 *)
  | NMulti o s => (encode_string s, negb (is_rtl o))                                        (* :306-308 *)
  | NCharLoop COne l o c m n =>                                                             (* :311-321 Oneloop, Onelazy *)
      match l with
      | LAtomic => ([], false)
      | _ => if m <=? 0 then ([], false)
             else let count := if m <? 32 then m else 32 in
                  (repeat_bytes (Z.to_nat count) (encode c), (count =? n) && negb (is_rtl o))
      end
  | NLoop _ o m n r =>                                                                      (* :324-339 *)
      if m <=? 0 then ([], false)
      else let limit := if m <? 4 then m else 4 in
           let (b, c) := try_find_prefix_gen fixed r in
           if c then (repeat_bytes (Z.to_nat limit) b, (limit =? n) && negb (is_rtl o)) else (b, false)
  | NAtomic r => try_find_prefix_gen fixed r                                                (* :342-343 *)
  | NCapture _ _ _ r => try_find_prefix_gen fixed r
  | NAnchor _ | NEmpty | NBump | NPosLook _ _ | NNegLook _ _ => ([], true)                  (* :346-348 *)
  | _ => ([], false)                                                                        (* :351 *)
  end.

Definition try_find_prefix := try_find_prefix_gen true.
Definition find_prefix (t : node) : list Z := fst (try_find_prefix t).                     (* :234 findPrefix *)
Definition find_prefix_unfixed (t : node) : list Z := fst (try_find_prefix_gen false t).

(* ---------- getAnchors, prefix.go:782 and getPrefix, prefix.go:318 ---------- *)
(* Both walk: Concatenate (non-empty) -> its children in turn; Atomic/Capture -> child, forgetting the
   concatenation; a skipped node -> next child of the remembered concatenation, or stop. *)

Inductive walk (A : Type) := WDone (a : A) | WSkip.
Arguments WDone {A} a.
Arguments WSkip {A}.

Fixpoint first_done {A} (l : list (walk A)) (d : A) : A :=
  match l with
  | [] => d
  | WDone a :: _ => a
  | WSkip :: l' => first_done l' d
  end.

(* prefix.go:821 anchorFromType *)
Definition anchor_bit (a : anchor) : Z :=
  match a with
  | ABeginning => 1 | ABol => 2 | AStart => 4 | AEol => 8 | AEndZ => 16 | AEnd => 32
  | ABoundary => 64 | AECMABoundary => 128 | ANonboundary => 0 | ANonECMABoundary => 0
  end.

Fixpoint get_anchors_walk (t : node) : walk Z :=
  match t with
  | NConcat _ l =>                                                     (* :792-796 *)
      match l with
      | [] => WSkip
      | _ => WDone (first_done (map get_anchors_walk l) 0)
      end
  | NAtomic r => WDone (match get_anchors_walk r with WDone z => z | WSkip => 0 end)   (* :798-801 *)
  | NCapture _ _ _ r => WDone (match get_anchors_walk r with WDone z => z | WSkip => 0 end)
  | NAnchor a => if anchor_findable a then WDone (anchor_bit a) else WDone 0            (* :803-805 *)
  | NEmpty | NPosLook _ _ | NNegLook _ _ => WSkip                                      (* :807 *)
  | _ => WDone 0                                                                        (* :809-810 *)
  end.
Definition get_anchors (t : node) : Z := match get_anchors_walk t with WDone z => z | WSkip => 0 end.

Definition MAX_PREFIX_SIZE : Z := 50.                                   (* writer.go:58 *)

(* (runes, CaseInsensitive) *)
Fixpoint get_prefix_walk (t : node) : walk (option (list Z * bool)) :=
  match t with
  | NConcat _ l =>                                                     (* :327-331 *)
      match l with
      | [] => WSkip
      | _ => WDone (first_done (map get_prefix_walk l) None)
      end
  | NAtomic r => WDone (match get_prefix_walk r with WDone z => z | WSkip => None end)  (* :333-336 *)
  | NCapture _ _ _ r => WDone (match get_prefix_walk r with WDone z => z | WSkip => None end)
  | NCharLoop COne l o c m _ =>                                        (* :338-345 Oneloop, Onelazy *)
      match l with
      | LAtomic => WDone None
      | _ => if 0 <? m
             then WDone (Some (repeat c (Z.to_nat (if MAX_PREFIX_SIZE <? m then MAX_PREFIX_SIZE else m)), is_ci o))
             else WDone None
      end
  | NChar COne o c => WDone (Some ([c], is_ci o))                     (* :347-351 *)
  | NMulti o s => WDone (Some (s, is_ci o))                           (* :353-357 *)
  | NAnchor a => if anchor_findable a then WSkip else WDone None      (* :359-360: Nonboundary is not listed *)
  | NEmpty | NPosLook _ _ | NNegLook _ _ => WSkip
  | _ => WDone None                                                    (* :362-363 *)
  end.

(* writer.go:147-158: the Boyer-Moore prefix exists only when the prefix is non-empty, and
   prefix.go:577-581 newBmPrefix gives up (nil) when a rune lies beyond U+FFFF.
   (Under CaseInsensitive newBmPrefix lower-cases the pattern, prefix.go:420-429; not modelled: the bit is
   never set on a literal of a real tree, see [no_ci_lit].) *)
(* writer.go:150-160: the literal is cut to MaxPrefixSize runes: its head for a left-to-right pattern, its
   tail for a right-to-left one (a right-to-left scan is positioned by the END of the literal) *)
Definition bm_prefix_dir (rtl : bool) (t : node) : option (list Z * bool) :=
  match (match get_prefix_walk t with WDone z => z | WSkip => None end) with
  | Some (s, ci) =>
      match s with
      | [] => None
      | _ => let k := Z.to_nat MAX_PREFIX_SIZE in
             let s' := if rtl then skipn (length s - k) s else firstn k s in
             if existsb (fun c => 65535 <? c) s' then None else Some (s', ci)
      end
  | None => None
  end.
Definition bm_prefix (t : node) : option (list Z * bool) := bm_prefix_dir false t.

(* ---------- findLeadingPositiveLookahead, prefixanalyzer.go:1454 ---------- *)
(* (child of the lookahead, keepLooking).  Nodes that carry no option word in Tree.node (anchors, Empty,
   Atomic) are taken as left-to-right: the function is only called on a left-to-right pattern and never
   descends into a lookaround, so every node it visits has the pattern's direction. *)
Fixpoint look_first (rs : list (option node * bool)) : option node * bool :=
  match rs with
  | [] => (None, true)                                                 (* :1488 *)
  | (la, keep) :: rs' =>
      match la with
      | Some _ => (la, false)                                          (* :1484-1486 *)
      | None => if keep then look_first rs' else (None, false)
      end
  end.

Fixpoint lead_pos_look (t : node) : option node * bool :=
  match t with
  | NPosLook o r => if is_rtl o then (None, false) else (Some r, false)           (* :1456, :1461-1462 *)
  | NAnchor a => (None, anchor_findable a)                                        (* :1464-1466; Nonboundary: default *)
  | NNegLook o _ => if is_rtl o then (None, false) else (None, true)
  | NEmpty => (None, true)
  | NAtomic r => lead_pos_look r                                                  (* :1468-1470 *)
  | NCapture o _ _ r => if is_rtl o then (None, false) else lead_pos_look r
  | NLoop _ o m _ r =>                                                            (* :1472-1477 *)
      if is_rtl o then (None, false)
      else if m <? 1 then (None, false) else (fst (lead_pos_look r), false)
  | NConcat o l => if is_rtl o then (None, false) else look_first (map lead_pos_look l)   (* :1479-1488 *)
  | _ => (None, false)                                                            (* :1490-1491 *)
  end.

(* ---------- newFindOptimizationsForNode, optimizations.go:363-405 ---------- *)

Definition oanchor_code (a : option anchor) : Z := match a with Some x => anchor_code x | None => -1 end.

Record facts_t := {
  f_min : Z;              (* MinRequiredLength *)
  f_max : Z;              (* MaxPossibleLength, -1 = not known *)
  f_lead : Z;             (* LeadingAnchor: NodeType, -1 = NtUnknown *)
  f_trail : Z;            (* TrailingAnchor: NodeType, -1 = NtUnknown, 0 = never computed *)
  f_mode : Z;             (* FindMode 1..12 as in optimizations.go:110-123; 99 = decided further down the ladder *)
  f_prefix : list Z       (* bytes of LeadingPrefix when f_mode is LeadingString_{LeftToRight,RightToLeft} *)
}.

Definition MODE_LATER : Z := 99.

(* optimizations.go:603 getFindMode *)
Definition get_find_mode (rtl : bool) (a : option anchor) : Z :=
  match a with
  | Some ABeginning => if rtl then 5 else 1
  | Some AStart => if rtl then 6 else 2
  | Some AEndZ => if rtl then 7 else 3
  | Some AEnd => if rtl then 8 else 4
  | _ => 0
  end.

Definition facts_for_node (rtl partial : bool) (t : node) : facts_t :=
  let mn := min_len t in                                                          (* :366 *)
  let la0 := lead_anchor true t in                                                (* :367 *)
  let la := match la0 with Some ABol => if rtl then None else la0 | _ => la0 end in   (* :371-374 *)
  let mode := get_find_mode rtl la in                                             (* :376 *)
  if negb (mode =? 0) then
    {| f_min := mn; f_max := -1; f_lead := oanchor_code la; f_trail := 0; f_mode := mode; f_prefix := [] |}   (* :377-379 *)
  else
    let ta := if negb rtl && negb partial then oanchor_code (lead_anchor false t) else 0 in                   (* :383-384 *)
    let is_end := (ta =? 21) || (ta =? 20) in
    let mx := if is_end then max_len t else -1 in                                                             (* :385-386 *)
    if is_end && (mn =? mx) then                                                                              (* :387-394 *)
      {| f_min := mn; f_max := mx; f_lead := oanchor_code la; f_trail := ta;
         f_mode := (if ta =? 21 then 9 else 10); f_prefix := [] |}
    else
      let p := find_prefix t in                                                                               (* :398 *)
      if 1 <? zlen p then                                                                                     (* :399-407 *)
        {| f_min := mn; f_max := mx; f_lead := oanchor_code la; f_trail := ta;
           f_mode := (if rtl then 12 else 11); f_prefix := p |}
      else
        {| f_min := mn; f_max := mx; f_lead := oanchor_code la; f_trail := ta; f_mode := MODE_LATER; f_prefix := [] |}.

(* optimizations.go:344-361.  Whether the whole-pattern analysis was "useful" (:578: FindMode != NoSearch
   or a leading Bol) depends on the part of the ladder that is not modelled; [later_useful] is that one
   bit, taken from the implementation by the correspondence leg (it is observable: only the lookahead
   analysis leaves TrailingAnchor at 0 once the leading-anchor modes are excluded). *)
Definition facts (rtl later_useful : bool) (t : node) : facts_t :=
  let f := facts_for_node rtl false t in
  let useful := if f_mode f =? MODE_LATER then later_useful || (f_lead f =? 14) else true in
  if negb rtl && negb useful then
    match fst (lead_pos_look t) with
    | Some c =>
        let g := facts_for_node rtl true c in
        {| f_min := Z.max (f_min f) (f_min g); f_max := f_max f; f_lead := f_lead g; f_trail := f_trail g;
           f_mode := f_mode g; f_prefix := f_prefix g |}
    | None => f
    end
  else f.

(* ---------- trees on which the Go code faults (index out of range) ---------- *)
(* An alternation without branches or a conditional without its "no" branch never leaves the parser
   (tree.go reduceAlternation / reduceBackreferenceConditional / reduceExpressionConditional add them);
   on such a tree ComputeMinLength / computeMaxLength / findLeadingOrTrailingAnchor / tryFindPrefix index
   Children[0], [1] or [2] out of range. *)
Fixpoint may_fault (t : node) : bool :=
  match t with
  | NConcat _ l => existsb may_fault l
  | NAlternate _ l => match l with [] => true | _ => existsb may_fault l end
  | NLoop _ _ _ _ r => may_fault r
  | NCapture _ _ _ r => may_fault r
  | NGroup r => may_fault r
  | NPosLook _ r => may_fault r
  | NNegLook _ r => may_fault r
  | NAtomic r => may_fault r
  | NBackRefCond _ _ yes no => match no with None => true | Some n => may_fault yes || may_fault n end
  | NExprCond _ c yes no => match no with None => true | Some n => may_fault c || may_fault yes || may_fault n end
  | _ => false
  end.

(* ---------- tree predicates used as hypotheses of the C04 theorems ---------- *)
(* (checked on every tree exported from the implementation by leg c04-analysis) *)

(* [shape_ok d t]: every node outside a lookaround has direction d (d = true: right-to-left; the
   parser only changes direction inside lookarounds: RightToLeft is a top-level-only option,
   parser.go:1951 isOnlyTopOption), loop counts satisfy 0 <= m <= n, alternations are non-empty and
   conditionals have both branches (tree.go:533, :546).  Nothing is required inside lookarounds and
   inside the condition of an expression conditional (their effect on the position is undone). *)
Fixpoint shape_ok (d : bool) (t : node) : bool :=
  match t with
  | NChar _ o _ => Bool.eqb (is_rtl o) d
  | NCharLoop _ _ o _ m n => Bool.eqb (is_rtl o) d && (0 <=? m) && (m <=? n)
  | NMulti o _ => Bool.eqb (is_rtl o) d
  | NRef o _ => Bool.eqb (is_rtl o) d
  | NConcat _ l => forallb (shape_ok d) l
  | NAlternate _ l => match l with [] => false | _ => forallb (shape_ok d) l end
  | NLoop _ _ m n r => (0 <=? m) && (m <=? n) && shape_ok d r
  | NCapture _ _ _ r => shape_ok d r
  | NGroup r => shape_ok d r
  | NAtomic r => shape_ok d r
  | NPosLook _ _ => true
  | NNegLook _ _ => true
  | NBackRefCond _ _ yes no => shape_ok d yes && match no with Some n => shape_ok d n | None => false end
  | NExprCond _ _ yes no => shape_ok d yes && match no with Some n => shape_ok d n | None => false end
  | NAnchor _ | NNothing | NEmpty | NBump => true
  end.

(* no literal carries the IgnoreCase bit (tree.go:480-482 clears it on everything but back-references) *)
Fixpoint no_ci_lit (t : node) : bool :=
  match t with
  | NMulti o _ => negb (is_ci o)
  | NChar _ o _ => negb (is_ci o)
  | NCharLoop _ _ o _ _ _ => negb (is_ci o)
  | NConcat _ l => forallb no_ci_lit l
  | NAlternate _ l => forallb no_ci_lit l
  | NLoop _ _ _ _ r => no_ci_lit r
  | NCapture _ _ _ r => no_ci_lit r
  | NGroup r => no_ci_lit r
  | NAtomic r => no_ci_lit r
  | NPosLook _ r => no_ci_lit r
  | NNegLook _ r => no_ci_lit r
  | NBackRefCond _ _ yes no => no_ci_lit yes && match no with Some n => no_ci_lit n | None => true end
  | NExprCond _ c yes no => no_ci_lit c && no_ci_lit yes && match no with Some n => no_ci_lit n | None => true end
  | _ => true
  end.

(* the child of the leading positive lookahead found by findLeadingPositiveLookahead (if any) is a
   well-shaped left-to-right tree without case-insensitive literals *)
Definition look_ok (t : node) : bool :=
  match fst (lead_pos_look t) with Some c => shape_ok false c && no_ci_lit c | None => true end.
