(* Model of syntax/writer.go: codeFromTree / emitFragment, instruction by instruction, with
   absolute jump targets in code words, so that [compile] is comparable word for word with the
   real Code.Codes (and QuickCodes).  Also captureSlotsInUse (code.go:123-150) and the
   TrackCount computed by the counting pass. *)
From Verif Require Import Base.Prelude Model.Tree Model.VM Gen.CodeGen.

Definition bits_of (o : Z) : Z := (if is_rtl o then RtlBit else 0) + (if is_ci o then CiBit else 0).

Record wcfg := {
  capmap : option (list (Z * Z));   (* sparse group number -> slot (writer.caps); None = identity *)
  quick : option (list bool)        (* quickCaptureSlots *)
}.

(* mapCapnum: a missing key of the Go map reads as 0 *)
Definition map_capnum (c : wcfg) (g : Z) : Z :=
  if g =? -1 then -1 else
  match capmap c with
  | None => g
  | Some m => zassoc g m 0
  end.

Definition emit_capture (c : wcfg) (g u : Z) : bool :=
  match quick c with
  | None => true
  | Some q =>
      let cg := map_capnum c g in let cu := map_capnum c u in
      if negb (cu =? -1) then true
      else (0 <=? cg) && ((zlen q <=? cg) || nth (Z.to_nat cg) q false)
  end.

Definition rep_op (k : ckind) : Z := match k with COne => Onerep | CNotone => Notonerep | CSet => Setrep end.
Definition loop_op (k : ckind) (l : lkind) : Z :=
  match l, k with
  | LGreedy, COne => Oneloop | LGreedy, CNotone => Notoneloop | LGreedy, CSet => Setloop
  | LLazy, COne => Onelazy | LLazy, CNotone => Notonelazy | LLazy, CSet => Setlazy
  | LAtomic, COne => Oneloopatomic | LAtomic, CNotone => Notoneloopatomic | LAtomic, CSet => Setloopatomic
  end.
Definition char_op (k : ckind) : Z := match k with COne => One | CNotone => Notone | CSet => SetOp end.

Definition counted (m n : Z) : bool := (n <? INF) || (1 <? m).

(* number of code words a node compiles to *)
Fixpoint csize (c : wcfg) (t : node) : Z :=
  match t with
  | NChar _ _ _ => 2
  | NCharLoop _ _ _ _ m n => (if 0 <? m then 3 else 0) + (if m <? n then 3 else 0)
  | NMulti _ _ => 2
  | NRef _ _ => 2
  | NAnchor _ => 1
  | NNothing => 1
  | NEmpty => 0
  | NBump => 1
  | NConcat _ l => (fix go (l : list node) : Z := match l with [] => 0 | x :: l' => csize c x + go l' end) l
  | NAlternate _ l =>
      (fix go (l : list node) : Z :=
         match l with
         | [] => 0
         | [x] => csize c x
         | x :: l' => 2 + csize c x + 2 + go l'
         end) l
  | NLoop _ _ m n r =>
      (if counted m n then 2 else 1) + (if m =? 0 then 2 else 0) + csize c r + (if counted m n then 3 else 2)
  | NCapture _ g u r => if emit_capture c g u then 1 + csize c r + 3 else csize c r
  | NGroup r => csize c r
  | NPosLook _ r => 2 + csize c r + 2
  | NNegLook _ r => 3 + csize c r + 2
  | NAtomic r => 1 + csize c r + 1
  | NBackRefCond _ _ yes no => 6 + csize c yes + 2 + 1 + match no with Some x => csize c x | None => 0 end
  | NExprCond _ cnd yes no => 4 + csize c cnd + 2 + csize c yes + 2 + 2 + match no with Some x => csize c x | None => 0 end
  end.

(* string table: index of a string, adding it when new (writer.stringCode) *)
Fixpoint str_index (s : list Z) (tbl : list (list Z)) (i : Z) : option Z :=
  match tbl with
  | [] => None
  | x :: tbl' => if zlist_eqb s x then Some i else str_index s tbl' (i + 1)
  end.
Definition string_code (s : list Z) (tbl : list (list Z)) : Z * list (list Z) :=
  match str_index s tbl 0 with
  | Some i => (i, tbl)
  | None => (zlen tbl, tbl ++ [s])
  end.

(* emit the code of [t] placed at absolute word offset [a]; threads the string table *)
Fixpoint emit (c : wcfg) (t : node) (a : Z) (tbl : list (list Z)) : list Z * list (list Z) :=
  match t with
  | NChar k o ch => ([char_op k + bits_of o; ch], tbl)
  | NCharLoop k l o ch m n =>
      ((if 0 <? m then [rep_op k + bits_of o; ch; m] else []) ++
       (if m <? n then [loop_op k l + bits_of o; ch; if n =? INF then INF else n - m] else []), tbl)
  | NMulti o s => let '(i, tbl') := string_code s tbl in ([Multi + bits_of o; i], tbl')
  | NRef o g => ([Ref + bits_of o; map_capnum c g], tbl)
  | NAnchor an => ([anchor_code an], tbl)
  | NNothing => ([Nothing], tbl)
  | NEmpty => ([], tbl)
  | NBump => ([UpdateBumpalong], tbl)
  | NConcat _ l =>
      (fix go (l : list node) (a : Z) (tbl : list (list Z)) : list Z * list (list Z) :=
         match l with
         | [] => ([], tbl)
         | x :: l' => let '(cx, t1) := emit c x a tbl in
                      let '(cr, t2) := go l' (a + zlen cx) t1 in (cx ++ cr, t2)
         end) l a tbl
  | NAlternate _ l =>
      let lend := a + csize c t in
      (fix go (l : list node) (a : Z) (tbl : list (list Z)) : list Z * list (list Z) :=
         match l with
         | [] => ([], tbl)
         | [x] => emit c x a tbl
         | x :: l' =>
             let '(cx, t1) := emit c x (a + 2) tbl in
             let nxt := a + 2 + zlen cx + 2 in
             let '(cr, t2) := go l' nxt t1 in
             ([Lazybranch; nxt] ++ cx ++ [Goto; lend] ++ cr, t2)
         end) l a tbl
  | NLoop lazy _ m n r =>
      let cnt := counted m n in
      let pre := if cnt then (if m =? 0 then [Nullcount; 0] else [Setcount; 1 - m])
                 else (if m =? 0 then [Nullmark] else [Setmark]) in
      let lbody := a + zlen pre + (if m =? 0 then 2 else 0) in
      let '(cr, t1) := emit c r lbody tbl in
      let ltest := lbody + zlen cr in
      let lz := if lazy then 1 else 0 in
      (pre ++ (if m =? 0 then [Goto; ltest] else []) ++ cr ++
       (if cnt then [Branchcount + lz; lbody; if n =? INF then INF else n - m] else [Branchmark + lz; lbody]), t1)
  | NCapture _ g u r =>
      if emit_capture c g u then
        let '(cr, t1) := emit c r (a + 1) tbl in
        ([Setmark] ++ cr ++ [Capturemark; map_capnum c g; map_capnum c u], t1)
      else emit c r a tbl
  | NGroup r => emit c r a tbl
  | NPosLook _ r =>
      let '(cr, t1) := emit c r (a + 2) tbl in ([Setjump; Setmark] ++ cr ++ [Getmark; Forejump], t1)
  | NNegLook _ r =>
      let '(cr, t1) := emit c r (a + 3) tbl in
      ([Setjump; Lazybranch; a + 3 + zlen cr + 1] ++ cr ++ [Backjump; Forejump], t1)
  | NAtomic r =>
      let '(cr, t1) := emit c r (a + 1) tbl in ([Setjump] ++ cr ++ [Forejump], t1)
  | NBackRefCond _ g yes no =>
      let '(cy, t1) := emit c yes (a + 6) tbl in
      let ln := a + 6 + zlen cy + 2 in
      let '(cn, t2) := match no with Some x => emit c x (ln + 1) t1 | None => ([], t1) end in
      ([Setjump; Lazybranch; ln; Testref; map_capnum c g; Forejump] ++ cy ++ [Goto; ln + 1 + zlen cn] ++ [Forejump] ++ cn, t2)
  | NExprCond _ cnd yes no =>
      let '(cc, t1) := emit c cnd (a + 4) tbl in
      let ay := a + 4 + zlen cc + 2 in
      let '(cy, t2) := emit c yes ay t1 in
      let ln := ay + zlen cy + 2 in
      let '(cn, t3) := match no with Some x => emit c x (ln + 2) t2 | None => ([], t2) end in
      ([Setjump; Setmark; Lazybranch; ln] ++ cc ++ [Getmark; Forejump] ++ cy ++ [Goto; ln + 2 + zlen cn] ++
       [Getmark; Forejump] ++ cn, t3)
  end.

(* codeFromTree: Lazybranch Lend ; root ; Lend: Stop *)
Definition compile (c : wcfg) (root : node) : list Z * list (list Z) :=
  let '(cr, tbl) := emit c root 2 [] in
  ([Lazybranch; 2 + zlen cr] ++ cr ++ [Stop], tbl).

Definition opcode_size (op : Z) : Z := zassoc (Z.land op 63) opcode_size_tbl 0.
Definition opcode_backtracks (op : Z) : bool := zmem (Z.land op 63) opcode_backtracks_list.

(* the counting pass: how many emitted instructions use backtracking *)
Fixpoint track_count_aux (fuel : nat) (code : list Z) : Z :=
  match fuel with
  | O => 0
  | S f => match code with
           | [] => 0
           | op :: _ => let sz := opcode_size op in
                        if sz <=? 0 then 0
                        else (if opcode_backtracks op then 1 else 0) + track_count_aux f (skipn (Z.to_nat sz) code)
           end
  end.
Definition track_count (code : list Z) : Z := track_count_aux (length code) code.

(* captureSlotsInUse (code.go:123-150) *)
Fixpoint slots_in_use_aux (fuel : nat) (code : list Z) (acc : list bool) : list bool :=
  match fuel with
  | O => acc
  | S f =>
      match code with
      | [] => acc
      | op :: rest =>
          let o := Z.land op 63 in
          let sz := opcode_size op in
          let mark (acc : list bool) (g : Z) :=
            if (0 <=? g) && (g <? zlen acc) then list_set acc (Z.to_nat g) true else acc in
          let acc1 :=
            if (o =? Ref) || (o =? Testref) then mark acc (nth 0 rest (-1))
            else if o =? Capturemark then
              (if negb (nth 1 rest (-1) =? -1) then mark (mark acc (nth 0 rest (-1))) (nth 1 rest (-1)) else acc)
            else acc in
          if sz <=? 0 then acc1 else slots_in_use_aux f (skipn (Z.to_nat sz) code) acc1
      end
  end.
Definition slots_in_use (code : list Z) (capsize : Z) : list bool :=
  let init := if 0 <? capsize then true :: repeat false (Z.to_nat capsize - 1) else [] in
  slots_in_use_aux (length code) code init.

(* syntax.Write: the full program, and the quick program when some capture slot is unobservable *)
Definition write_full (capmap : option (list (Z * Z))) (root : node) : list Z * list (list Z) :=
  compile {| capmap := capmap; quick := None |} root.
Definition write_quick (capmap : option (list (Z * Z))) (capsize : Z) (root : node) : option (list Z) :=
  let full := fst (write_full capmap root) in
  let inuse := slots_in_use full capsize in
  if existsb negb inuse then Some (fst (compile {| capmap := capmap; quick := Some inuse |} root)) else None.
