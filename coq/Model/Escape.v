(* Model of syntax/escape.go (Escape, escape, Unescape) and of the character-escape
   scanner of syntax/parser.go (scanCharEscape, scanHex, scanHexUntilBrace, scanOctal,
   scanControl) as used by Unescape (a zero-option parser).
   Text is a list of runes (Z).  Oracles: is_print (unicode.IsPrint), is_word_char
   (syntax.IsWordChar).  [Gen.EscapeGen.meta] is regenerated from escape.go on every run. *)
From Verif Require Import Base.Prelude Gen.EscapeGen.

(* error codes (small enum; the harness maps Go error texts to the same numbers) *)
Definition E_IllegalEndEscape : Z := 1.
Definition E_UnrecognizedEscape : Z := 2.
Definition E_MissingControl : Z := 3.
Definition E_UnrecognizedControl : Z := 4.
Definition E_TooFewHex : Z := 5.
Definition E_InvalidHex : Z := 6.
Definition E_MissingBrace : Z := 7.

Definition hex_char (d : Z) : Z := if d <? 10 then 48 + d else 97 + (d - 10).

(* strconv.FormatInt(n, 16) for n >= 0 : most significant digit first, no padding *)
Fixpoint to_hex_aux (fuel : nat) (n : Z) (acc : list Z) : list Z :=
  match fuel with
  | O => acc
  | S f => if n <? 16 then hex_char n :: acc
           else to_hex_aux f (n / 16) (hex_char (n mod 16) :: acc)
  end.
Definition to_hex (n : Z) : list Z := to_hex_aux 16 n [].

Section WithOracles.
Variable is_print : Z -> bool.
Variable is_word_char : Z -> bool.

(* escape.go:19-55, force=false *)
Definition escape_rune (r : Z) : list Z :=
  if is_print r then
    if zmem r meta then [92; r] else [r]
  else if r =? 7 then [92; 97]
  else if r =? 12 then [92; 102]
  else if r =? 10 then [92; 110]
  else if r =? 13 then [92; 114]
  else if r =? 9 then [92; 116]
  else if r =? 11 then [92; 118]
  else if r <? 256 then
    let s := to_hex r in
    [92; 120] ++ (match s with [_] => [48] | _ => [] end) ++ s
  else
    let s := to_hex r in
    if 65535 <? r then [r]                       (* beyond the BMP: the rune itself *)
    else [92; 117] ++ repeat 48 (4 - length s) ++ s.

Definition escape (s : list Z) : list Z := flat_map escape_rune s.

(* parser.go hexDigit *)
Definition hex_digit (ch : Z) : Z :=
  if (48 <=? ch) && (ch <=? 57) then ch - 48
  else if (97 <=? ch) && (ch <=? 102) then ch - 97 + 10
  else if (65 <=? ch) && (ch <=? 70) then ch - 65 + 10
  else -1.

(* scanHex(c): exactly c hex digits; the cursor only matters on success *)
Fixpoint scan_hex_loop (c : nat) (i : Z) (p : list Z) : res (Z * list Z) :=
  match c with
  | O => Ok (i, p)
  | S c' => match p with
            | [] => Err E_TooFewHex
            | ch :: p' => let d := hex_digit ch in
                          if d <? 0 then Err E_TooFewHex else scan_hex_loop c' (i * 16 + d) p'
            end
  end.
Definition scan_hex (c : nat) (p : list Z) : res (Z * list Z) :=
  if Nat.leb c (length p) then scan_hex_loop c 0 p else Err E_TooFewHex.

(* scanHexUntilBrace; structural on the remaining pattern *)
Fixpoint scan_hex_brace (i : Z) (has : bool) (p : list Z) : res (Z * list Z) :=
  match p with
  | [] => Err E_MissingBrace
  | ch :: p' =>
      if ch =? 125 then (if has then Ok (i, p') else Err E_TooFewHex)
      else let d := hex_digit ch in
           if d <? 0 then Err E_MissingBrace
           else let i' := i * 16 + d in
                if 1114111 <? i' then Err E_InvalidHex else scan_hex_brace i' true p'
  end.

(* scanOctal without option E: up to 3 octal digits, value masked to 8 bits.
   The Go loop keeps the stale digit d when it reaches the end of the pattern, but c
   was clamped to charsRight so it stops; modelled as "while c > 0 and next is octal". *)
Fixpoint scan_octal_loop (c : nat) (i : Z) (p : list Z) : Z * list Z :=
  match c with
  | O => (i, p)
  | S c' => match p with
            | ch :: p' => if (48 <=? ch) && (ch <=? 55)
                          then scan_octal_loop c' (i * 8 + (ch - 48)) p'
                          else (i, p)
            | [] => (i, p)
            end
  end.
Definition scan_octal (p : list Z) : Z * list Z :=
  let '(i, p') := scan_octal_loop 3 0 p in (Z.land i 255, p').

Definition scan_control (p : list Z) : res (Z * list Z) :=
  match p with
  | [] => Err E_MissingControl
  | ch :: p' =>
      let ch1 := if (97 <=? ch) && (ch <=? 122) then ch - 32 else ch in
      let ch2 := ch1 - 64 in
      if (0 <=? ch2) && (ch2 <? 32) then Ok (ch2, p') else Err E_UnrecognizedControl
  end.

(* scanCharEscape with no ECMAScript/RE2/Unicode option; p is the pattern after the backslash and
   is non-empty at every call site *)
Definition scan_char_escape (p : list Z) : res (Z * list Z) :=
  match p with
  | [] => Crash 1
  | ch :: p' =>
      if (48 <=? ch) && (ch <=? 55) then Ok (scan_octal p)
      else if ch =? 120 then
        match p' with
        | c2 :: p'' => if c2 =? 123 then scan_hex_brace 0 false p'' else scan_hex 2 p'
        | [] => scan_hex 2 p'
        end
      else if ch =? 117 then scan_hex 4 p'
      else if ch =? 97 then Ok (7, p')
      else if ch =? 98 then Ok (8, p')
      else if ch =? 101 then Ok (27, p')
      else if ch =? 102 then Ok (12, p')
      else if ch =? 110 then Ok (10, p')
      else if ch =? 114 then Ok (13, p')
      else if ch =? 116 then Ok (9, p')
      else if ch =? 118 then Ok (11, p')
      else if ch =? 99 then scan_control p'
      else if is_word_char ch then Err E_UnrecognizedEscape
      else Ok (ch, p')
  end.

(* copy runes up to (not including) the next backslash; returns the copied runes and
   what follows the backslash, or None when there is no further backslash *)
Fixpoint split_backslash (p : list Z) : list Z * option (list Z) :=
  match p with
  | [] => ([], None)
  | ch :: p' => if ch =? 92 then ([], Some p')
                else let '(a, b) := split_backslash p' in (ch :: a, b)
  end.

(* bytes.Buffer.WriteRune: an invalid code point is written as U+FFFD *)
Definition write_rune (r : Z) : Z :=
  if (r <? 0) || (1114111 <? r) || ((55296 <=? r) && (r <=? 57343)) then 65533 else r.

(* Unescape, escape.go:57-94.  p = pattern text after a backslash. *)
Fixpoint unescape_loop (fuel : nat) (p : list Z) : res (list Z) :=
  match fuel with
  | O => Fuel
  | S f =>
      match p with
      | [] => Err E_IllegalEndEscape
      | _ => do (r, p1) <- scan_char_escape p ;
             let '(lit, nxt) := split_backslash p1 in
             match nxt with
             | None => Ok (write_rune r :: lit)
             | Some p2 => do rest <- unescape_loop f p2 ; Ok (write_rune r :: lit ++ rest)
             end
      end
  end.

Definition unescape (s : list Z) : res (list Z) :=
  let '(pre, nxt) := split_backslash s in
  match nxt with
  | None => Ok s
  | Some p => do rest <- unescape_loop (S (length s)) p ; Ok (pre ++ rest)
  end.

End WithOracles.
