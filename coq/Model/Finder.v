(* The optimized candidate finders of runner.go (C03): executable models, written line by line from
   the Go code (line numbers: runner.go at /repo commit f63ffa6 unless another file is named;
   the landmark-chain finder is modelled after the repairs 573b074, 563c473, 5218d84).

     fd_should_use_optimized          runner.go:1468-1495  shouldUseFindFirstCharOptimized
     fd_find_first_char_optimized     runner.go:1497-1529  findFirstCharOptimized (dispatch on FindMode)
     fd_find_trailing_fixed_length_end         1531-1539   findTrailingFixedLengthEnd
     fd_find_leading_string                    1541-1569   findLeadingStringLeftToRight (incl. ignoreCase)
     fd_find_leading_strings                   1571-1617   findLeadingStringsLeftToRight
     fd_index_of_any_runes                     1619-1632   indexOfAnyRunes
     fd_find_fixed_distance_char               1634-1656   findFixedDistanceCharLeftToRight
     fd_find_fixed_distance_string             1658-1684   findFixedDistanceStringLeftToRight
     fd_find_fixed_distance_sets               1686-1714   findFixedDistanceSetsLeftToRight
     fd_find_literal_after_loop                1716-1742   findLiteralAfterLoopLeftToRight
     fd_find_landmark_chain                    1744-1790   findRequiredLandmarkChainLeftToRight
     fd_landmark_min_width                     1793-1808   requiredLandmarkMinWidth
     fd_landmark_leading_ws                    1811-1818   requiredLandmarkLeadingWhitespace
     fd_find_next_landmark                     1826-1835   findNextRequiredLandmarkRunes
     fd_landmark_alt_match                     1837-1892   requiredLandmarkAlternativeMatch
     fd_index_of_literal_after_loop            1894-1921   indexOfLiteralAfterLoop
     fd_is_ascii_runes                         1923-1930   isASCIIRunes
     fd_index_of_set                           1932-1948   indexOfSet
     fd_sets_match_at                          1950-1958   fixedDistanceSetsMatchAt
     fd_char_in_fds                            1960-1976   charInFixedDistanceSet
     fd_latest_possible_start                  1978-1987   latestPossibleStart
     fd_has_required_length_at                 1989-1991   hasRequiredLengthAt
     fd_first_char_loop                        1438-1465   the first-character loop of findFirstCharDefault
     fd_ffc_nobm                               1432-1465   findFirstCharDefault below the Boyer-Moore branch
     fd_find_first_char_default                1386-1466   all of findFirstCharDefault (anchor part = Scan.ffc_default)
     fd_verif_find_first_char                  verif_hooks.go VerifFindFirstChar (minimum-length cut-off first)
     fd_leading_prefix_first_runes    syntax/optimizations.go:593-601 leadingPrefixFirstRunes
   and of helpers/indexof.go: IndexOfAny, IndexOfAny1/2/3, IndexOfAnyInRange, IndexOfAnyExcept,
   IndexOfAnyExceptInRange, IndexFunc, IndexOf, IndexOfIgnoreCase, IndexOfIgnoreCaseAscii, foldASCII,
   StartsWith, StartsWithIgnoreCase.

   NOT modelled: the Boyer-Moore machine.  BmPrefix.IsMatch / BmPrefix.Scan (syntax/prefix.go) enter
   [fd_find_first_char_default] as the oracles [bm] / [bm_scan] (answers recorded from the real
   machine by the correspondence leg); what is modelled is what findFirstCharDefault does with their
   answers (runner.go:1412-1414, 1417-1430).

   Conventions: the text is [list Z], positions are [Z]; a rune slice r.Runtext[i:] is the list
   [skipn i text], and slicing / indexing outside the bounds is [Crash] (Go: slice bounds / index
   out of range).  Set membership (CharSet.CharIn) is the oracle [set_in : set id -> rune -> bool]
   as in Spec.env; unicode.ToLower is the oracle [lower].  A nil *CharSet is [None].
   Every finder answers [Ok (found, Runtextpos it left)]; loops take fuel (text length + 2 turns
   always suffice: Proofs/FinderProofs.v).  No proofs in this file. *)
From Verif Require Import Base.Prelude Model.Scan.

(* ====================================================================================
   helpers/indexof.go on rune slices
   ==================================================================================== *)

(* the shape shared by every "for i, c := range in { if test(c) { return i } } return -1" *)
Fixpoint fd_index_where (f : Z -> bool) (l : list Z) : Z :=
  match l with
  | [] => -1
  | c :: l' => if f c then 0 else let r := fd_index_where f l' in if r <? 0 then -1 else r + 1
  end.

(* indexof.go:13 IndexOfAny (slices.Contains(find, c)) *)
Definition fd_index_of_any (l find : list Z) : Z :=
  match find with
  | [] => -1                                                         (* :15-17 *)
  | _ => fd_index_where (fun c => zmem c find) l                     (* :19-24 *)
  end.
(* indexof.go:27 IndexOfAny1 (slices.Index) *)
Definition fd_index_of_any1 (l : list Z) (a : Z) : Z := fd_index_where (fun c => c =? a) l.
(* indexof.go:32 IndexOfAny2 *)
Definition fd_index_of_any2 (l : list Z) (a b : Z) : Z := fd_index_where (fun c => (c =? a) || (c =? b)) l.
(* indexof.go:42 IndexOfAny3 *)
Definition fd_index_of_any3 (l : list Z) (a b d : Z) : Z :=
  fd_index_where (fun c => (c =? a) || (c =? b) || (c =? d)) l.
(* indexof.go:52 IndexOfAnyInRange *)
Definition fd_index_of_any_in_range (l : list Z) (first last : Z) : Z :=
  fd_index_where (fun c => (first <=? c) && (c <=? last)) l.
(* indexof.go:61 IndexOfAnyExcept: the first c equal to no element of bad *)
Definition fd_index_of_any_except (l bad : list Z) : Z := fd_index_where (fun c => negb (zmem c bad)) l.
(* indexof.go:106 IndexOfAnyExceptInRange *)
Definition fd_index_of_any_except_in_range (l : list Z) (first last : Z) : Z :=
  fd_index_where (fun c => (last <? c) || (c <? first)) l.
(* indexof.go:118 IndexFunc *)
Definition fd_index_func (l : list Z) (f : Z -> bool) : Z := fd_index_where f l.

(* indexof.go:286 foldASCII *)
Definition fd_fold_ascii (c : Z) : Z := if (65 <=? c) && (c <=? 90) then c + 32 else c.

(* [find] compared rune by rune with the front of [l] under [eqc text_rune pattern_rune]; false when
   [l] is shorter.  This is bytesEqual(in[i:i+len(find)], find) (indexof.go:363) for eqc = equality,
   and the inner j-loops of IndexOfIgnoreCase / IndexOfIgnoreCaseAscii / StartsWithIgnoreCase. *)
Fixpoint fd_prefix_match (eqc : Z -> Z -> bool) (find l : list Z) : bool :=
  match find with
  | [] => true
  | c :: find' => match l with
                  | [] => false
                  | x :: l' => eqc x c && fd_prefix_match eqc find' l'
                  end
  end.

(* the shape shared by IndexOf / IndexOfIgnoreCase / IndexOfIgnoreCaseAscii: for i := 0; i <= len(in) -
   len(find); i++ { if in[i..i+len(find)) matches find { return i } } return -1.  (Beyond that bound
   [fd_prefix_match] is false because the rest is too short; the separate test of the first rune in the
   Go loops is the first step of [fd_prefix_match].) *)
Fixpoint fd_index_of_gen (eqc : Z -> Z -> bool) (find l : list Z) : Z :=
  match l with
  | [] => -1
  | _ :: l' => if fd_prefix_match eqc find l then 0
               else let r := fd_index_of_gen eqc find l' in if r <? 0 then -1 else r + 1
  end.

Definition fd_eq_exact (x c : Z) : bool := x =? c.
Definition fd_eq_fold_ascii (x c : Z) : bool := fd_fold_ascii x =? fd_fold_ascii c.

(* indexof.go:293 IndexOf: find[0] faults on an empty needle *)
Definition fd_index_of (l find : list Z) : res Z :=
  match find with
  | [] => Crash 1                                                    (* :301 first := find[0] *)
  | _ => Ok (fd_index_of_gen fd_eq_exact find l)
  end.
(* indexof.go:212 IndexOfIgnoreCaseAscii *)
Definition fd_index_of_ic_ascii (l find : list Z) : res Z :=
  match find with
  | [] => Ok 0                                                       (* :215-217 *)
  | _ => Ok (fd_index_of_gen fd_eq_fold_ascii find l)
  end.
(* indexof.go:321 StartsWith: bytesEqual takes &a[0] of an empty slice when find is empty *)
Definition fd_starts_with (l find : list Z) : res bool :=
  if zlen l <? zlen find then Ok false                               (* :323-325 *)
  else match find with
       | [] => Crash 2                                               (* :327 -> :364 &a[0] *)
       | _ => Ok (fd_prefix_match fd_eq_exact find l)
       end.

Section Finder.
Variable text : list Z.                 (* r.Runtext; r.Runtextend = len *)
Variable set_in : Z -> Z -> bool.       (* CharSet.CharIn of the set with this id *)
Variable lower : Z -> Z.                (* unicode.ToLower *)
Variable minreq : Z.                    (* r.code.FindOptimizations.MinRequiredLength *)

Definition fd_n : Z := zlen text.

(* indexof.go:189 IndexOfIgnoreCase / :341 StartsWithIgnoreCase: "find should always be sent in lower-case" *)
Definition fd_eq_lower (x c : Z) : bool := (x =? c) || (lower x =? c).
Definition fd_index_of_ic (l find : list Z) : res Z :=
  match find with
  | [] => Crash 3                                                    (* :192 first := find[0] *)
  | _ => Ok (fd_index_of_gen fd_eq_lower find l)
  end.
Definition fd_starts_with_ic (l find : list Z) : bool :=             (* never faults: plain loops *)
  if zlen l <? zlen find then false else fd_prefix_match fd_eq_lower find l.

(* r.Runtext[i:] and r.Runtext[i:j] *)
Definition fd_slice_from (i : Z) : res (list Z) :=
  if (i <? 0) || (fd_n <? i) then Crash 10 else Ok (skipn (Z.to_nat i) text).
Definition fd_slice (i j : Z) : res (list Z) :=
  if (i <? 0) || (j <? i) || (fd_n <? j) then Crash 11
  else Ok (firstn (Z.to_nat (j - i)) (skipn (Z.to_nat i) text)).
(* r.Runtext[i] *)
Definition fd_rune_at (i : Z) : res Z :=
  match znth text i with Some c => Ok c | None => Crash 12 end.

(* runner.go:1978 latestPossibleStart, 1989 hasRequiredLengthAt (r.code and FindOptimizations are
   non-nil whenever an optimized finder runs) *)
Definition fd_latest_possible_start : Z := if minreq <=? 0 then fd_n else fd_n - minreq.
Definition fd_has_required_length_at (start : Z) : bool :=
  (0 <=? start) && (start <=? fd_latest_possible_start).

Definition fd_far : res (bool * Z) := Ok (false, fd_n).        (* r.Runtextpos = r.Runtextend; return false *)

(* ---- runner.go:1531 findTrailingFixedLengthEnd ---- *)
Definition fd_find_trailing_fixed_length_end (p fixed_length : Z) : res (bool * Z) :=
  let start := fd_n - fixed_length in                                (* 1532 *)
  if (start <? p) || (start <? 0) then fd_far                        (* 1533-1536 *)
  else Ok (true, start).                                             (* 1537-1538 *)

(* ---- runner.go:1923 isASCIIRunes ---- *)
Definition fd_is_ascii_runes (l : list Z) : bool := forallb (fun ch => negb (127 <? ch)) l.

(* ---- runner.go:1541 findLeadingStringLeftToRight ---- *)
Definition fd_find_leading_string (p : Z) (prefix : list Z) (ignore_case : bool) : res (bool * Z) :=
  match prefix with
  | [] => Ok (true, p)                                               (* 1542-1544 *)
  | _ =>
    do search <- fd_slice_from p ;                                   (* 1546 *)
    do offset <- (if ignore_case then                                (* 1548-1556 *)
                    if fd_is_ascii_runes prefix then fd_index_of_ic_ascii search prefix
                    else fd_index_of_ic search prefix
                  else fd_index_of search prefix) ;
    if offset <? 0 then fd_far                                       (* 1557-1560 *)
    else let start := p + offset in                                  (* 1562 *)
         if negb (fd_has_required_length_at start) then fd_far       (* 1563-1566 *)
         else Ok (true, start)                                       (* 1567-1568 *)
  end.

(* ---- runner.go:1619 indexOfAnyRunes ---- *)
Definition fd_index_of_any_runes (l find : list Z) : Z :=
  match find with
  | [] => -1
  | [a] => fd_index_of_any1 l a
  | [a; b] => fd_index_of_any2 l a b
  | [a; b; c] => fd_index_of_any3 l a b c
  | _ => fd_index_of_any l find
  end.

(* ---- runner.go:1571 findLeadingStringsLeftToRight ---- *)
(* 1582-1592: the first prefix that matches at r.Runtext[start:] *)
Fixpoint fd_any_prefix_at (ignore_case : bool) (sl : list Z) (prefixes : list (list Z)) : res bool :=
  match prefixes with
  | [] => Ok false
  | pr :: rest =>
      if ignore_case then
        if fd_starts_with_ic sl pr then Ok true else fd_any_prefix_at ignore_case sl rest
      else
        do b <- fd_starts_with sl pr ;
        if b then Ok true else fd_any_prefix_at ignore_case sl rest
  end.

(* 1581-1595 *)
Fixpoint fd_leading_strings_slow (fuel : nat) (ignore_case : bool) (prefixes : list (list Z)) (start : Z)
  : res (bool * Z) :=
  match fuel with
  | O => Fuel
  | S f =>
      if negb (start <=? fd_latest_possible_start) then fd_far       (* 1581 loop test; 1594-1595 *)
      else
        do sl <- fd_slice_from start ;                               (* 1584 / 1588 *)
        do hit <- fd_any_prefix_at ignore_case sl prefixes ;
        if hit then Ok (true, start)                                 (* 1585-1586 / 1589-1590 *)
        else fd_leading_strings_slow f ignore_case prefixes (start + 1)
  end.

(* 1606-1611: len(prefix) > 0 && prefix[0] == first && StartsWith(r.Runtext[start:], prefix) *)
Fixpoint fd_any_prefix_first_at (first : Z) (sl : list Z) (prefixes : list (list Z)) : res bool :=
  match prefixes with
  | [] => Ok false
  | pr :: rest =>
      match pr with
      | c :: _ =>
          if c =? first then
            do b <- fd_starts_with sl pr ;
            if b then Ok true else fd_any_prefix_first_at first sl rest
          else fd_any_prefix_first_at first sl rest
      | [] => fd_any_prefix_first_at first sl rest
      end
  end.

(* 1599-1616 *)
Fixpoint fd_leading_strings_fast (fuel : nat) (prefixes : list (list Z)) (first_runes : list Z)
                                 (latest search_at : Z) : res (bool * Z) :=
  match fuel with
  | O => Fuel
  | S f =>
      if negb (search_at <=? latest) then fd_far                     (* 1599 loop test; 1615-1616 *)
      else
        do win <- fd_slice search_at (latest + 1) ;                  (* 1600 *)
        let offset := fd_index_of_any_runes win first_runes in
        if offset <? 0 then fd_far                                   (* 1601-1603 break *)
        else
          let start := search_at + offset in                         (* 1604 *)
          do first <- fd_rune_at start ;                             (* 1605 *)
          do sl <- fd_slice_from start ;
          do hit <- fd_any_prefix_first_at first sl prefixes ;       (* 1606-1611 *)
          if hit then Ok (true, start)
          else fd_leading_strings_fast f prefixes first_runes latest (start + 1)   (* 1612 *)
  end.

(* the loops below advance by at least one position per turn and stop beyond the text: len+2 turns suffice *)
Definition fd_fuel : nat := S (S (length text)).

Definition fd_find_leading_strings (p : Z) (prefixes : list (list Z)) (first_runes : list Z)
                                   (ignore_case : bool) : res (bool * Z) :=
  match prefixes with
  | [] => Ok (false, p)                                              (* 1572-1574: Runtextpos untouched *)
  | _ =>
      if ignore_case || match first_runes with [] => true | _ => false end then      (* 1580 *)
        fd_leading_strings_slow fd_fuel ignore_case prefixes p
      else
        let latest := Z.min fd_latest_possible_start (fd_n - 1) in   (* 1598 *)
        fd_leading_strings_fast fd_fuel prefixes first_runes latest p
  end.

(* ---- runner.go:1634 findFixedDistanceCharLeftToRight ---- *)
Fixpoint fd_fdchar_loop (fuel : nat) (p ch distance search_start : Z) : res (bool * Z) :=
  match fuel with
  | O => Fuel
  | S f =>
      if negb (search_start <? fd_n) then fd_far                     (* 1636 loop test; 1654-1655 *)
      else
        do sl <- fd_slice_from search_start ;                        (* 1637 *)
        let offset := fd_index_of_any1 sl ch in
        if offset <? 0 then fd_far                                   (* 1638-1641 *)
        else
          let literal_index := search_start + offset in              (* 1642 *)
          let start := literal_index - distance in                   (* 1643 *)
          if (p <=? start) && fd_has_required_length_at start then Ok (true, start)   (* 1644-1647 *)
          else if fd_latest_possible_start <? start then fd_far      (* 1648-1650 break *)
          else fd_fdchar_loop f p ch distance (literal_index + 1)    (* 1651 *)
  end.
Definition fd_find_fixed_distance_char (p ch distance : Z) : res (bool * Z) :=
  fd_fdchar_loop fd_fuel p ch distance (p + distance).               (* 1635 *)

(* ---- runner.go:1658 findFixedDistanceStringLeftToRight ---- *)
Fixpoint fd_fdstring_loop (fuel : nat) (p : Z) (literal : list Z) (distance search_start : Z)
  : res (bool * Z) :=
  match fuel with
  | O => Fuel
  | S f =>
      if negb (search_start <=? fd_n - zlen literal) then fd_far     (* 1664 loop test; 1682-1683 *)
      else
        do sl <- fd_slice_from search_start ;                        (* 1665 *)
        do offset <- fd_index_of sl literal ;
        if offset <? 0 then fd_far                                   (* 1666-1669 *)
        else
          let literal_index := search_start + offset in              (* 1670 *)
          let start := literal_index - distance in                   (* 1671 *)
          if (p <=? start) && fd_has_required_length_at start then Ok (true, start)   (* 1672-1675 *)
          else if fd_latest_possible_start <? start then fd_far      (* 1676-1678 break *)
          else fd_fdstring_loop f p literal distance (literal_index + 1)            (* 1679 *)
  end.
Definition fd_find_fixed_distance_string (p : Z) (literal : list Z) (distance : Z) : res (bool * Z) :=
  match literal with
  | [] => Ok (true, p)                                               (* 1659-1661 *)
  | _ => fd_fdstring_loop fd_fuel p literal distance (p + distance)  (* 1663 *)
  end.

(* ---- syntax.FixedDistanceSet (optimizations.go:40) ---- *)
Record fdset := {
  fs_set : option Z;             (* Set *CharSet: id of the set, None = nil *)
  fs_chars : list Z;             (* Chars *)
  fs_negated : bool;             (* Negated *)
  fs_range : option (Z * Z);     (* Range *SingleRange (First, Last) *)
  fs_distance : Z                (* Distance *)
}.

(* ---- runner.go:1960 charInFixedDistanceSet ---- *)
Definition fd_char_in_fds (s : fdset) (ch : Z) : bool :=
  match fs_chars s with
  | _ :: _ =>                                                        (* 1961-1967 *)
      let found := zmem ch (fs_chars s) in
      if fs_negated s then negb found else found
  | [] =>
      match fs_range s with
      | Some (first, last) =>                                        (* 1968-1974 *)
          let found := (first <=? ch) && (ch <=? last) in
          if fs_negated s then negb found else found
      | None =>                                                      (* 1975 *)
          match fs_set s with Some id => set_in id ch | None => false end
      end
  end.

(* ---- runner.go:1932 indexOfSet ---- *)
Definition fd_index_of_set (chars : list Z) (s : fdset) : Z :=
  match fs_chars s with
  | _ :: _ =>
      if negb (fs_negated s) then fd_index_of_any chars (fs_chars s)           (* 1933-1935 *)
      else fd_index_of_any_except chars (fs_chars s)                           (* 1936-1938 *)
  | [] =>
      match fs_range s with
      | Some (first, last) =>                                                  (* 1939-1944 *)
          if fs_negated s then fd_index_of_any_except_in_range chars first last
          else fd_index_of_any_in_range chars first last
      | None => fd_index_func chars (fd_char_in_fds s)                         (* 1945-1947 *)
      end
  end.

(* ---- runner.go:1950 fixedDistanceSetsMatchAt ---- *)
Fixpoint fd_sets_match_at (sets : list fdset) (start : Z) : bool :=
  match sets with
  | [] => true
  | s :: rest =>
      let index := start + fs_distance s in                          (* 1952 *)
      if (index <? 0) || (fd_n <=? index) then false                 (* 1953 *)
      else if negb (fd_char_in_fds s (nth (Z.to_nat index) text 0)) then false
      else fd_sets_match_at rest start
  end.

(* ---- runner.go:1686 findFixedDistanceSetsLeftToRight ---- *)
Fixpoint fd_fdsets_loop (fuel : nat) (p : Z) (sets : list fdset) (primary : fdset) (search_start : Z)
  : res (bool * Z) :=
  match fuel with
  | O => Fuel
  | S f =>
      if negb (search_start <? fd_n) then fd_far                     (* 1693 loop test; 1712-1713 *)
      else
        do sl <- fd_slice_from search_start ;                        (* 1694 *)
        let offset := fd_index_of_set sl primary in
        if offset <? 0 then fd_far                                   (* 1695-1698 *)
        else
          let char_index := search_start + offset in                 (* 1700 *)
          let start := char_index - fs_distance primary in           (* 1701 *)
          if fd_latest_possible_start <? start then fd_far           (* 1702-1704 break *)
          else if (p <=? start) && fd_has_required_length_at start && fd_sets_match_at sets start
               then Ok (true, start)                                 (* 1705-1708 *)
          else fd_fdsets_loop f p sets primary (char_index + 1)      (* 1709 *)
  end.
Definition fd_find_fixed_distance_sets (p : Z) (sets : list fdset) : res (bool * Z) :=
  match sets with
  | [] => Ok (false, p)                                              (* 1687-1689 *)
  | primary :: _ =>
      match fs_set primary with
      | None => Ok (false, p)                                        (* 1687-1689: sets[0].Set == nil *)
      | Some _ => fd_fdsets_loop fd_fuel p sets primary (p + fs_distance primary)   (* 1691-1692 *)
      end
  end.

(* ---- syntax.LiteralAfterLoop (optimizations.go:31) ---- *)
Record fdlal := {
  lal_string : list Z;           (* []rune(String); String != "" iff non-empty *)
  lal_string_ic : bool;          (* StringIgnoreCase *)
  lal_char : Z;                  (* Char *)
  lal_chars : list Z;            (* Chars *)
  lal_loop_set : option Z        (* LoopNode.Set; None when LoopNode or its Set is nil *)
}.

(* ---- runner.go:1894 indexOfLiteralAfterLoop ---- *)
Definition fd_index_of_literal_after_loop (l : fdlal) (search_start : Z) : res Z :=
  do sl <- fd_slice_from search_start ;
  match lal_string l with
  | _ :: _ =>                                                        (* 1896-1910 *)
      do offset <- (if lal_string_ic l then
                      (* 1900 isASCIIString(literal.String): every byte < 0x80 iff every rune < 0x80 *)
                      if fd_is_ascii_runes (lal_string l) then fd_index_of_ic_ascii sl (lal_string l)
                      else fd_index_of_ic sl (lal_string l)
                    else fd_index_of sl (lal_string l)) ;
      if 0 <=? offset then Ok (search_start + offset) else Ok (-1)
  | [] =>
      match lal_chars l with
      | _ :: _ =>                                                    (* 1911-1914 *)
          let offset := fd_index_of_any sl (lal_chars l) in
          if 0 <=? offset then Ok (search_start + offset) else Ok (-1)
      | [] =>                                                        (* 1915-1918 *)
          let offset := fd_index_of_any1 sl (lal_char l) in
          if 0 <=? offset then Ok (search_start + offset) else Ok (-1)
      end
  end.

(* "for start > low && set.CharIn(r.Runtext[start-1]) { start-- }" (1730-1732, 1774-1779, 1882-1884);
   [k] bounds the number of steps (start - low suffices) *)
Fixpoint fd_walk_back (k : nat) (f : Z -> bool) (low start : Z) : Z :=
  match k with
  | O => start
  | S k' => if (low <? start) && f (nth (Z.to_nat (start - 1)) text 0)
            then fd_walk_back k' f low (start - 1) else start
  end.

(* ---- runner.go:1716 findLiteralAfterLoopLeftToRight ---- *)
Fixpoint fd_lal_loop (fuel : nat) (p : Z) (l : fdlal) (loop_set : Z) (search_start : Z) : res (bool * Z) :=
  match fuel with
  | O => Fuel
  | S f =>
      if negb (search_start <? fd_n) then fd_far                     (* 1722 loop test; 1740-1741 *)
      else
        do literal_index <- fd_index_of_literal_after_loop l search_start ;   (* 1723 *)
        if literal_index <? 0 then fd_far                            (* 1724-1727 *)
        else
          let start := fd_walk_back (Z.to_nat (literal_index - p)) (set_in loop_set) p literal_index in  (* 1729-1732 *)
          if fd_has_required_length_at start then Ok (true, start)   (* 1733-1736 *)
          else fd_lal_loop f p l loop_set (literal_index + 1)        (* 1737 *)
  end.
Definition fd_find_literal_after_loop (p : Z) (l : option fdlal) : res (bool * Z) :=
  match l with
  | None => Ok (false, p)                                            (* 1717-1719 *)
  | Some l =>
      match lal_loop_set l with
      | None => Ok (false, p)                                        (* 1717-1719 *)
      | Some ls => fd_lal_loop fd_fuel p l ls p                      (* 1721 *)
      end
  end.

(* ---- syntax.RequiredLandmarkAlternative / RequiredLandmarkChain (optimizations.go:54-107) ---- *)
Record fdalt := {
  la_literal : list Z;           (* Literal *)
  la_set : option Z;             (* Set *)
  la_lead_ws : option Z;         (* LeadingWhitespaceSet *)
  la_trail_ws : option Z;        (* TrailingWhitespaceSet *)
  la_min : Z;                    (* MinRepeat *)
  la_max : Z;                    (* MaxRepeat *)
  la_req_before : bool;          (* RequireWhitespaceBefore *)
  la_req_after : bool            (* RequireWhitespaceAfter *)
}.
Record fdchain := {
  lc_loop_set : option Z;                (* LeadingLoopSet *)
  lc_landmarks : list (list fdalt)       (* Landmarks[i].Alternatives *)
}.
(* requiredLandmarkMatch (runner.go:1785) *)
Record fdlm := { lm_start : Z; lm_core_start : Z; lm_end : Z }.

Definition fd_opt_set_in (s : option Z) (c : Z) : bool :=
  match s with Some id => set_in id c | None => false end.

(* 1854-1856: for end < endAt && end-start < maxRepeat && alt.Set.CharIn(input[end]) { end++ } *)
Fixpoint fd_run_fwd (k : nat) (f : Z -> bool) (start end_at max_repeat e : Z) : Z :=
  match k with
  | O => e
  | S k' => if (e <? end_at) && (e - start <? max_repeat) && f (nth (Z.to_nat e) text 0)
            then fd_run_fwd k' f start end_at max_repeat (e + 1) else e
  end.

(* 1871-1874: for e := shortest; e <= end && e < endAt && !found; e++ { found = ws.CharIn(input[e]) } *)
Fixpoint fd_ws_after (k : nat) (f : Z -> bool) (e_max end_at e : Z) : bool :=
  match k with
  | O => false
  | S k' => if (e <=? e_max) && (e <? end_at)
            then (if f (nth (Z.to_nat e) text 0) then true else fd_ws_after k' f e_max end_at (e + 1))
            else false
  end.

(* ---- runner.go:1836 requiredLandmarkAlternativeMatch (input = r.Runtext), in its four steps ---- *)
(* 1837-1840: required whitespace before the core is missing *)
Definition fd_alt_before_bad (start : Z) (alt : fdalt) : res bool :=
  if la_req_before alt then
    if start =? 0 then Ok true
    else match la_lead_ws alt with
         | None => Ok true
         | Some ws => do c <- fd_rune_at (start - 1) ; Ok (negb (set_in ws c))
         end
  else Ok false.

(* 1842-1862: the core: Some end | None *)
Definition fd_alt_core (start end_at : Z) (alt : fdalt) : res (option Z) :=
  match la_literal alt with
  | _ :: _ =>                                                        (* 1843-1847 *)
      if end_at <? start + zlen (la_literal alt) then Ok None
      else do sl <- fd_slice_from start ;
           do b <- fd_starts_with sl (la_literal alt) ;
           if b then Ok (Some (start + zlen (la_literal alt))) else Ok None
  | [] =>
      match la_set alt with
      | Some sid =>
          if 0 <? la_min alt then                                    (* 1848-1859 *)
            let max_repeat := if la_max alt <=? 0 then la_min alt else la_max alt in
            let e := fd_run_fwd (Z.to_nat (end_at - start)) (set_in sid) start end_at max_repeat start in
            if e - start <? la_min alt then Ok None else Ok (Some e)
          else Ok None                                               (* 1860-1862 *)
      | None => Ok None                                              (* 1860-1862 *)
      end
  end.

(* 1864-1879: required whitespace after the core is missing ([e] = end of the literal / of the longest run) *)
Definition fd_alt_after_bad (start end_at e : Z) (alt : fdalt) : bool :=
  if la_req_after alt then
    let shortest := match la_literal alt with [] => start + la_min alt | _ => e end in   (* 1867-1870 *)
    negb (match la_trail_ws alt with
          | Some ws => fd_ws_after (Z.to_nat (e - shortest + 1)) (set_in ws) e end_at shortest   (* 1871-1874 *)
          | None => false                                            (* found stays false *)
          end)
  else false.

Definition fd_landmark_alt_match (start end_at : Z) (alt : fdalt) : res (option fdlm) :=
  do before_bad <- fd_alt_before_bad start alt ;
  if before_bad then Ok None
  else
    do core <- fd_alt_core start end_at alt ;
    match core with
    | None => Ok None
    | Some e =>
        if fd_alt_after_bad start end_at e alt then Ok None
        else
          let match_start :=                                         (* 1881-1884 *)
            match la_lead_ws alt with
            | Some ws => fd_walk_back (Z.to_nat start) (set_in ws) 0 start
            | None => start
            end in
          let e' := match la_literal alt with [] => start + la_min alt | _ => e end in   (* 1885-1890 *)
          Ok (Some {| lm_start := match_start; lm_core_start := start; lm_end := e' |})  (* 1891 *)
    end.

(* 1828-1832: the first alternative that matches at i *)
Fixpoint fd_first_alt_at (i end_at : Z) (alts : list fdalt) : res (option fdlm) :=
  match alts with
  | [] => Ok None
  | a :: rest =>
      do m <- fd_landmark_alt_match i end_at a ;
      match m with Some _ => Ok m | None => fd_first_alt_at i end_at rest end
  end.

(* ---- runner.go:1826 findNextRequiredLandmarkRunes; [k] bounds the number of positions tried ---- *)
Fixpoint fd_find_next_landmark (k : nat) (i end_at : Z) (alts : list fdalt) : res (option fdlm) :=
  match k with
  | O => Ok None
  | S k' =>
      if negb (i <? end_at) then Ok None                             (* 1827 loop test; 1834 *)
      else do m <- fd_first_alt_at i end_at alts ;
           match m with
           | Some _ => Ok m                                          (* 1829-1831 *)
           | None => fd_find_next_landmark k' (i + 1) end_at alts
           end
  end.
Definition fd_next_landmark (start_at : Z) (alts : list fdalt) : res (option fdlm) :=
  fd_find_next_landmark (Z.to_nat (fd_n - start_at)) start_at fd_n alts.

(* ---- runner.go:1793 requiredLandmarkMinWidth ---- *)
Fixpoint fd_min_width_acc (alts : list fdalt) (width : Z) : Z :=
  match alts with
  | [] => width
  | a :: rest =>
      let w := match la_literal a with [] => la_min a | _ => zlen (la_literal a) end in   (* 1796-1799 *)
      fd_min_width_acc rest (if (width <? 0) || (w <? width) then w else width)          (* 1800-1802 *)
  end.
Definition fd_landmark_min_width (alts : list fdalt) : Z :=
  let width := fd_min_width_acc alts (-1) in
  if width <? 0 then 0 else width.                                   (* 1804-1807 *)

(* ---- runner.go:1811 requiredLandmarkLeadingWhitespace ---- *)
Definition fd_landmark_leading_ws (alts : list fdalt) (ch : Z) : bool :=
  existsb (fun a => fd_opt_set_in (la_lead_ws a) ch) alts.

(* 1759-1766: the remaining landmarks, each searched from the core start of the previous one plus the
   least width of that landmark; false = some landmark is missing *)
Fixpoint fd_rest_landmarks (next_start : Z) (lms : list (list fdalt)) : res bool :=
  match lms with
  | [] => Ok true
  | alts :: rest =>
      do m <- fd_next_landmark next_start alts ;                     (* 1760 *)
      match m with
      | None => Ok false                                             (* 1761-1764 *)
      | Some lm => fd_rest_landmarks (lm_core_start lm + fd_landmark_min_width alts) rest   (* 1765 *)
      end
  end.

(* ---- runner.go:1744 findRequiredLandmarkChainLeftToRight ---- *)
Fixpoint fd_chain_loop (fuel : nat) (p loop_set : Z) (first_alts : list fdalt) (rest : list (list fdalt))
                       (search_start : Z) : res (bool * Z) :=
  match fuel with
  | O => Fuel
  | S f =>
      if negb (search_start <=? fd_latest_possible_start) then fd_far      (* 1749 loop test; 1781-1782 *)
      else
        do first <- fd_next_landmark search_start first_alts ;       (* 1750 *)
        match first with
        | None => fd_far                                             (* 1751-1754 *)
        | Some first =>
            do all <- fd_rest_landmarks (lm_core_start first + fd_landmark_min_width first_alts) rest ;   (* 1758-1766 *)
            if negb all then fd_far                                  (* 1761-1764 *)
            else
              let candidate := if lm_core_start first <? p then p else lm_core_start first in   (* 1770-1773 *)
              let candidate := fd_walk_back (Z.to_nat (candidate - p)) (fd_landmark_leading_ws first_alts) p candidate in  (* 1774-1776 *)
              let candidate := fd_walk_back (Z.to_nat (candidate - p)) (set_in loop_set) p candidate in  (* 1777-1779 *)
              if fd_has_required_length_at candidate then Ok (true, candidate)             (* 1780-1783 *)
              else fd_chain_loop f p loop_set first_alts rest (lm_core_start first + 1)    (* 1785 *)
        end
  end.
Definition fd_find_landmark_chain (p : Z) (c : option fdchain) : res (bool * Z) :=
  match c with
  | None => Ok (false, p)                                            (* 1745-1747 *)
  | Some c =>
      match lc_loop_set c, lc_landmarks c with
      | Some ls, first_alts :: rest => fd_chain_loop fd_fuel p ls first_alts rest p   (* 1749 *)
      | _, _ => Ok (false, p)                                        (* 1745-1747 *)
      end
  end.

End Finder.

(* ====================================================================================
   FindOptimizations as the runner reads it, and the dispatch
   ==================================================================================== *)

(* FindNextStartingPositionMode (optimizations.go:111-165, iota) *)
Definition FM_NoSearch : Z := 0.
Definition FM_TrailingAnchor_FixedLength_LeftToRight_End : Z := 9.
Definition FM_LeadingString_LeftToRight : Z := 11.
Definition FM_LeadingString_OrdinalIgnoreCase_LeftToRight : Z := 13.
Definition FM_LeadingStrings_LeftToRight : Z := 14.
Definition FM_LeadingStrings_OrdinalIgnoreCase_LeftToRight : Z := 15.
Definition FM_LeadingSet_LeftToRight : Z := 16.
Definition FM_FixedDistanceChar_LeftToRight : Z := 19.
Definition FM_FixedDistanceString_LeftToRight : Z := 20.
Definition FM_FixedDistanceSets_LeftToRight : Z := 21.
Definition FM_LiteralAfterLoop_LeftToRight : Z := 22.
Definition FM_RequiredLandmarkChain_LeftToRight : Z := 23.

Record fdopts := {
  fo_mode : Z;                           (* FindMode *)
  fo_minreq : Z;                         (* MinRequiredLength *)
  fo_prefix : list Z;                    (* []rune(LeadingPrefix) *)
  fo_prefixes : list (list Z);           (* LeadingPrefixesRunes *)
  fo_first_runes : list Z;               (* LeadingPrefixFirstRunes *)
  fo_fdl_c : Z;                          (* FixedDistanceLiteral.C *)
  fo_fdl_s : list Z;                     (* []rune(FixedDistanceLiteral.S) *)
  fo_fdl_distance : Z;                   (* FixedDistanceLiteral.Distance *)
  fo_sets : list fdset;                  (* FixedDistanceSets *)
  fo_lal : option fdlal;                 (* LiteralAfterLoop *)
  fo_chain : option fdchain              (* LandmarkChain *)
}.

(* runner.go:1468 shouldUseFindFirstCharOptimized *)
Definition fd_should_use_optimized (o : fdopts) : bool :=
  let m := fo_mode o in
  if (m =? FM_TrailingAnchor_FixedLength_LeftToRight_End)            (* 1475-1484 *)
     || (m =? FM_LeadingString_OrdinalIgnoreCase_LeftToRight)
     || (m =? FM_LeadingStrings_LeftToRight)
     || (m =? FM_LeadingStrings_OrdinalIgnoreCase_LeftToRight)
     || (m =? FM_FixedDistanceChar_LeftToRight)
     || (m =? FM_FixedDistanceString_LeftToRight)
     || (m =? FM_FixedDistanceSets_LeftToRight)
     || (m =? FM_LiteralAfterLoop_LeftToRight)
     || (m =? FM_RequiredLandmarkChain_LeftToRight) then true
  else if m =? FM_LeadingSet_LeftToRight then                        (* 1485-1491 *)
    match fo_sets o with
    | [] => false
    | s :: _ => ((0 <? zlen (fs_chars s)) && (zlen (fs_chars s) <=? 5))
                || match fs_range s with Some _ => true | None => false end
    end
  else false.                                                        (* 1492-1493 *)

(* runner.go:1497 findFirstCharOptimized: (handled, found, Runtextpos left) *)
Definition fd_find_first_char_optimized (text : list Z) (set_in : Z -> Z -> bool) (lower : Z -> Z)
                                        (o : fdopts) (p : Z) : res (bool * bool * Z) :=
  let m := fo_mode o in
  let mr := fo_minreq o in
  let handled (r : res (bool * Z)) : res (bool * bool * Z) := do x <- r ; Ok (true, fst x, snd x) in
  if m =? FM_NoSearch then Ok (false, false, p)                                            (* 1504-1505 *)
  else if m =? FM_TrailingAnchor_FixedLength_LeftToRight_End then                          (* 1506-1507 *)
    handled (fd_find_trailing_fixed_length_end text p mr)
  else if m =? FM_LeadingString_LeftToRight then                                           (* 1508-1509 *)
    handled (fd_find_leading_string text lower mr p (fo_prefix o) false)
  else if m =? FM_LeadingString_OrdinalIgnoreCase_LeftToRight then                         (* 1510-1511 *)
    handled (fd_find_leading_string text lower mr p (fo_prefix o) true)
  else if m =? FM_LeadingStrings_LeftToRight then                                          (* 1512-1513 *)
    handled (fd_find_leading_strings text lower mr p (fo_prefixes o) (fo_first_runes o) false)
  else if m =? FM_LeadingStrings_OrdinalIgnoreCase_LeftToRight then                        (* 1514-1515 *)
    handled (fd_find_leading_strings text lower mr p (fo_prefixes o) (fo_first_runes o) true)
  else if (m =? FM_LeadingSet_LeftToRight) || (m =? FM_FixedDistanceSets_LeftToRight) then (* 1516-1517 *)
    handled (fd_find_fixed_distance_sets text set_in mr p (fo_sets o))
  else if m =? FM_FixedDistanceChar_LeftToRight then                                       (* 1518-1519 *)
    handled (fd_find_fixed_distance_char text mr p (fo_fdl_c o) (fo_fdl_distance o))
  else if m =? FM_FixedDistanceString_LeftToRight then                                     (* 1520-1521 *)
    handled (fd_find_fixed_distance_string text mr p (fo_fdl_s o) (fo_fdl_distance o))
  else if m =? FM_LiteralAfterLoop_LeftToRight then                                        (* 1522-1523 *)
    handled (fd_find_literal_after_loop text set_in lower mr p (fo_lal o))
  else if m =? FM_RequiredLandmarkChain_LeftToRight then                                   (* 1524-1525 *)
    handled (fd_find_landmark_chain text set_in mr p (fo_chain o))
  else Ok (false, false, p).                                                               (* 1526-1527 *)

(* ====================================================================================
   findFirstCharDefault (runner.go:1386-1466)
   ==================================================================================== *)

(* Code.FcPrefix.PrefixSet as the loop uses it: IsSingleton/SingletonChar, else CharIn *)
Record fdfc := { fc_singleton : option Z; fc_set : Z }.

Section Default.
Variable text : list Z.
Variable set_in : Z -> Z -> bool.
Variable lower : Z -> Z.
Variable rtl : bool.                    (* r.code.RightToLeft *)

(* 1446-1463: for i := r.forwardchars(); i > 0; i-- { if test(r.forwardcharnext()) { r.backwardnext(); return true } }
   forwardcharnext (1261) reads text[pos] and advances (right-to-left: steps back, then reads);
   it does NOT lower-case (the ToLower lines are commented out), so FcPrefix.CaseInsensitive is unused *)
Fixpoint fd_fc_loop (i : nat) (test : Z -> bool) (pos : Z) : res (bool * Z) :=
  match i with
  | O => Ok (false, pos)                                             (* 1465 *)
  | S i' =>
      let pos' := if rtl then pos - 1 else pos + 1 in
      do ch <- fd_rune_at text (if rtl then pos - 1 else pos) ;
      if test ch then Ok (true, pos)                                 (* backwardnext undoes the step *)
      else fd_fc_loop i' test pos'
  end.

Definition fd_first_char_loop (fc : option fdfc) (p : Z) : res (bool * Z) :=
  match fc with
  | None => Ok (true, p)                                             (* 1438-1440 *)
  | Some fc =>
      let forwardchars := if rtl then p else fd_n text - p in        (* 1254 *)
      let test := match fc_singleton fc with
                  | Some ch => fun c => ch =? c                      (* 1446-1453 *)
                  | None => set_in (fc_set fc)                       (* 1455-1462 *)
                  end in
      fd_fc_loop (Z.to_nat forwardchars) test p
  end.

(* 1432-1465: below the Boyer-Moore branch *)
Definition fd_ffc_nobm (o : option fdopts) (fc : option fdfc) (p : Z) : res (bool * Z) :=
  let fallback := fd_first_char_loop fc p in
  match o with
  | None => fallback                                                 (* 1469-1471, 1498-1500 *)
  | Some o =>
      if fd_should_use_optimized o then                              (* 1432 *)
        do r <- fd_find_first_char_optimized text set_in lower o p ; (* 1433 *)
        let '(handled, found, q) := r in
        if handled then Ok (found, q)                                (* 1434 *)
        else fd_first_char_loop fc q
      else fallback
  end.

(* all of findFirstCharDefault.  [bm] = BmPrefix.IsMatch per position, [bm_scan] = BmPrefix.Scan per
   position (-1 = not found); both None when BmPrefix == nil.  Oracles, see the head of this file. *)
Definition fd_find_first_char_default (anchors ts : Z) (bm : option (Z -> bool)) (bm_scan : option (Z -> Z))
                                      (o : option fdopts) (fc : option fdfc) (p : Z) : res (bool * Z) :=
  if abit anchors (ANCH_BEGINNING + ANCH_START + ANCH_ENDZ + ANCH_END) then             (* 1387-1416 *)
    Ok (ffc_default text rtl anchors ts bm (fun q => (false, q)) p)
  else
    match bm_scan with
    | Some scan =>                                                   (* 1417-1430 *)
        let q := scan p in
        if q =? -1 then Ok (false, if rtl then 0 else fd_n text)
        else Ok (true, q)
    | None => fd_ffc_nobm o fc p
    end.

(* verif_hooks.go VerifFindFirstChar = runner.go:170-180 (minimum-length cut-off) then the finder:
   (cut, found, newpos) *)
Definition fd_verif_find_first_char (anchors ts : Z) (bm : option (Z -> bool)) (bm_scan : option (Z -> Z))
                                    (o : option fdopts) (fc : option fdfc) (p : Z) : res (bool * bool * Z) :=
  let mr := match o with Some o => fo_minreq o | None => 0 end in
  if min_cut (fd_n text) rtl mr p then Ok (true, false, p)
  else do r <- fd_find_first_char_default anchors ts bm bm_scan o fc p ; Ok (false, fst r, snd r).

End Default.

(* syntax/optimizations.go:593 leadingPrefixFirstRunes *)
Fixpoint fd_leading_prefix_first_runes_acc (prefixes : list (list Z)) (first : list Z) : list Z :=
  match prefixes with
  | [] => first
  | pr :: rest =>
      match pr with
      | c :: _ => if zmem c first then fd_leading_prefix_first_runes_acc rest first
                  else fd_leading_prefix_first_runes_acc rest (first ++ [c])
      | [] => fd_leading_prefix_first_runes_acc rest first
      end
  end.
Definition fd_leading_prefix_first_runes (prefixes : list (list Z)) : list Z :=
  fd_leading_prefix_first_runes_acc prefixes [].

(* a finder as the scan loop of Model/Scan.v takes it.  The finders above never answer Crash / Fuel on
   a position inside the text when the published data is well-formed (Proofs/FinderProofs.v); the
   default branch is only there to make the function total. *)
Definition fd_total (f : Z -> res (bool * Z)) (p : Z) : bool * Z :=
  match f p with Ok r => r | _ => (false, p) end.
