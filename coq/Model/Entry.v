(* C02 — the string entry points: raw-string prefilter (stringprefixfilter.go) and the glue of
   regexp.go around the engine.  Executable model, no proofs (see Proofs/EntryProofs.v).

   A Go string is a [list Z] of bytes (0..255).  [for i, r := range s] is Offsets.go_range
   (Base/Utf8.decode with the running byte index); []rune(s) is Utf8.runes_of.

   Part 1  the functions of package strings / unicode/utf8 / helpers the filter calls, by their
           documented meaning on byte strings (strings.Index is "first byte offset at which the
           needle occurs", IndexAny/IndexRune enumerate the range loop, ...).
   Part 2  stringprefixfilter.go line by line: the filter closures are the constructors of
           [filter], [run_filter] is a call of the closure, [new_string_prefix_filter] is the
           constructor's decision (which filter, or none).
   Part 3  regexp.go / runner.go glue: findStringMatchStart, findStringPrefixCandidate,
           getRunesAndStart, decodeStringWithStart, FindStringMatch(StartingAt), MatchString,
           matchStringAt, run(), and the rune entry points.  The engine (Runner.scan from a
           rune start on a fresh scan, previousMatchLength = -1) is a Section variable
           [search]; the bool-only scan on the quick program is [search_quick].

   Line numbers: /repo stringprefixfilter.go, regexp.go, runner.go at commit 882062c. *)
From Verif Require Import Base.Prelude Base.Utf8 Gen.CodeGen Model.Offsets.

(* ================================================================================================
   Part 1: library functions
   ================================================================================================ *)

(* s[i:] for 0 <= i <= len(s) (every use below is guarded by the Go code) *)
Definition en_from (s : list Z) (i : Z) : list Z := skipn (Z.to_nat i) s.
(* s[:i] *)
Definition en_upto (s : list Z) (i : Z) : list Z := firstn (Z.to_nat i) s.
(* s[i] *)
Definition en_at (s : list Z) (i : Z) : Z := nth (Z.to_nat i) s 0.

(* strings.HasPrefix(s, p) *)
Fixpoint en_has_prefix (s p : list Z) : bool :=
  match p, s with
  | [], _ => true
  | x :: p', y :: s' => (x =? y) && en_has_prefix s' p'
  | _ :: _, [] => false
  end.

(* strings.Index(s, sub): byte offset of the first occurrence, -1 if none; Index(s, "") = 0 *)
Fixpoint en_index_from (s sub : list Z) (i : Z) : Z :=
  if en_has_prefix s sub then i
  else match s with
       | [] => -1
       | _ :: t => en_index_from t sub (i + 1)
       end.
Definition en_index (s sub : list Z) : Z := en_index_from s sub 0.

(* strings.IndexByte(s, c) *)
Fixpoint en_index_byte_from (s : list Z) (c : Z) (i : Z) : Z :=
  match s with
  | [] => -1
  | b :: t => if b =? c then i else en_index_byte_from t c (i + 1)
  end.
Definition en_index_byte (s : list Z) (c : Z) : Z := en_index_byte_from s c 0.

(* first byte index of the range loop whose rune satisfies f *)
Fixpoint en_range_find (f : Z -> bool) (items : list (Z * Z)) : Z :=
  match items with
  | [] => -1
  | (i, r) :: t => if f r then i else en_range_find f t
  end.

(* strings.IndexRune(s, r) (strings.go): a byte search for ASCII, the range loop for RuneError,
   -1 for other invalid runes, else a search for the encoding *)
Definition en_index_rune (s : list Z) (r : Z) : Z :=
  if (0 <=? r) && (r <? 128) then en_index_byte s r
  else if r =? rune_error then en_range_find (fun c => c =? rune_error) (go_range s)
  else if negb (valid_rune r) then -1
  else en_index s (encode r).

(* strings.IndexAny(s, chars): first position of the range loop over s whose rune occurs in chars
   (an invalid byte of s is RuneError and matches RuneError / an invalid byte of chars) *)
Definition en_index_any (s chars : list Z) : Z :=
  match chars with
  | [] => -1
  | _ => en_range_find (fun c => zmem c (runes_of chars)) (go_range s)
  end.

Definition en_contains (s sub : list Z) : bool := 0 <=? en_index s sub.
Definition en_contains_rune (s : list Z) (r : Z) : bool := 0 <=? en_index_rune s r.
Definition en_contains_any (s chars : list Z) : bool := 0 <=? en_index_any s chars.

(* utf8.RuneStart(b) = b&0xC0 != 0x80 (for a byte: not a continuation byte) *)
Definition en_rune_start (b : Z) : bool := negb (is_cont b).

(* utf8.DecodeLastRuneInString(s) (utf8.go).  The backward loop
     for start--; start >= lim; start-- { if RuneStart(s[start]) { break } }
   runs at most UTFMax-1 = 3 times; it is written out.  [e] = len(s). *)
Definition en_dlr_start (s : list Z) (e : Z) : Z :=
  let lim := Z.max (e - 4) 0 in
  let st1 := e - 2 in
  if st1 <? lim then st1 else if en_rune_start (en_at s st1) then st1 else
  let st2 := e - 3 in
  if st2 <? lim then st2 else if en_rune_start (en_at s st2) then st2 else
  let st3 := e - 4 in
  if st3 <? lim then st3 else if en_rune_start (en_at s st3) then st3 else
  e - 5.

Definition en_decode_last_rune (s : list Z) : Z * Z :=
  let e := zlen s in
  if e =? 0 then (rune_error, 0)
  else
    let r := en_at s (e - 1) in
    if r <? 128 then (r, 1)
    else
      let start0 := en_dlr_start s e in
      let start := if start0 <? 0 then 0 else start0 in
      let '(r', size) := decode_rune (en_from s start) in
      if negb (start + Z.of_nat size =? e) then (rune_error, 1)
      else (r', Z.of_nat size).

(* helpers/indexof.go:286-291 foldASCII *)
Definition en_fold_ascii (c : Z) : Z := if (65 <=? c) && (c <=? 90) then c + 32 else c.

(* helpers/indexof.go:258-268 EqualStringIgnoreCaseASCII *)
Fixpoint en_equal_fold_prefix (s prefix : list Z) : bool :=
  match prefix, s with
  | [], _ => true
  | x :: p', y :: s' => (en_fold_ascii y =? en_fold_ascii x) && en_equal_fold_prefix s' p'
  | _ :: _, [] => false                                              (* 259-261 *)
  end.

(* helpers/indexof.go:270-284 indexASCIIByteIgnoreCase *)
Definition en_index_ascii_byte_ci (s : list Z) (ch : Z) : Z :=
  let ch := en_fold_ascii ch in
  let lower := en_index_byte s ch in
  if (ch <? 97) || (122 <? ch) then lower
  else
    let upper := en_index_byte s (ch - 32) in
    if lower <? 0 then upper
    else if (0 <=? upper) && (upper <? lower) then upper
    else lower.

(* helpers/indexof.go:238-256 IndexStringIgnoreCaseASCII *)
Fixpoint en_index_ci_loop (fuel : nat) (s prefix : list Z) (start : Z) : res Z :=
  match fuel with
  | O => Fuel
  | S f =>
    let e := zlen s - zlen prefix in
    if start <=? e then
      let offset := en_index_ascii_byte_ci (en_from s start) (en_at prefix 0) in
      if (offset <? 0) || (e <? start + offset) then Ok (-1)
      else
        let i := start + offset in
        if en_equal_fold_prefix (en_from s i) prefix then Ok i      (* s[i:i+len(prefix)] *)
        else en_index_ci_loop f s prefix (i + 1)
    else Ok (-1)
  end.
Definition en_index_ci (s prefix : list Z) : res Z :=
  match prefix with
  | [] => Ok 0
  | _ => en_index_ci_loop (S (length s)) s prefix 0
  end.

(* isASCIIString (stringprefixfilter.go:492-499) *)
Definition en_is_ascii (s : list Z) : bool := forallb (fun b => b <? 128) s.

(* ================================================================================================
   Part 2: stringprefixfilter.go
   ================================================================================================ *)

(* 467-472 hasMinRequiredBytes *)
Definition en_has_min_bytes (input : list Z) (startAt minreq : Z) : bool :=
  if (startAt <? 0) || (zlen input <? startAt) then false
  else (minreq <=? 0) || (minreq <=? zlen input - startAt).

(* 474-490 isStringRuneBoundary *)
Fixpoint en_boundary_scan (items : list (Z * Z)) (index : Z) : bool :=
  match items with
  | [] => false
  | (i, _) :: t => if i =? index then true else if index <? i then false else en_boundary_scan t index
  end.
Definition en_is_boundary (s : list Z) (index : Z) : bool :=
  if (index =? 0) || (index =? zlen s) then true
  else if (index <? 0) || (zlen s <? index) then false
  else en_boundary_scan (go_range s) index.

(* 418-431 stringFixedDistanceCandidateStart: walk [distance] runes back from byteIndex, never
   to or past startAt before the last step.  None = (0, false). *)
Fixpoint en_candidate_start (input : list Z) (startAt cand : Z) (distance : nat) : option Z :=
  match distance with
  | O => Some cand
  | S d =>
    if cand <=? startAt then None
    else
      let size := snd (en_decode_last_rune (en_upto input cand)) in
      if size =? 0 then None
      else en_candidate_start input startAt (cand - size) d
  end.

(* 96-102 asciiSetStringScanner *)
Record en_scanner := { sc_chars : list Z; sc_first : Z; sc_last : Z; sc_use_range : bool; sc_distance : Z }.

(* 40-46 of syntax/optimizations.go: FixedDistanceSet as far as the filter reads it *)
Record en_fdset := { fs_chars : list Z; fs_negated : bool; fs_range : option (Z * Z); fs_distance : Z }.

(* 31-38 LiteralAfterLoop; [la_loop_set] = LoopNode != nil && LoopNode.Set != nil *)
Record en_lal := { la_string : list Z; la_string_ci : bool; la_char : Z; la_chars : list Z; la_loop_set : bool }.

(* 104-130 newASCIISetStringScanner *)
Definition en_new_scanner (set : en_fdset) : option en_scanner :=
  if fs_negated set || (fs_distance set <? 0) then None
  else match fs_range set with
       | Some (first, last) =>
         if (first <? 0) || (127 <? last) then None
         else Some {| sc_chars := []; sc_first := first; sc_last := last; sc_use_range := true;
                      sc_distance := fs_distance set |}
       | None =>
         match fs_chars set with
         | [] => None
         | chars =>
           if forallb (fun ch => negb ((ch <? 0) || (127 <? ch))) chars
           then Some {| sc_chars := chars; sc_first := 0; sc_last := 0; sc_use_range := false;
                        sc_distance := fs_distance set |}
           else None
         end
       end.

(* 162-175 (s asciiSetStringScanner) index *)
Fixpoint en_index_in_range (s : list Z) (first last : Z) (i : Z) : Z :=
  match s with
  | [] => -1
  | b :: t => if (first <=? b) && (b <=? last) then i else en_index_in_range t first last (i + 1)
  end.
Definition en_scanner_index (sc : en_scanner) (input : list Z) : Z :=
  if negb (sc_use_range sc) then
    match sc_chars sc with
    | [c] => en_index_byte input c
    | chars => en_index_any input chars
    end
  else en_index_in_range input (sc_first sc) (sc_last sc) 0.

(* The closures returned by the constructor functions. *)
Inductive en_filter : Type :=
| FPrefix (prefix : list Z) (ci : bool) (minreq : Z)                  (* 185-200 *)
| FPrefixes (prefixes : list (list Z)) (ci : bool) (minreq : Z)        (* 219-221 -> 224-246 *)
| FAsciiSet (prefixes : list (list Z)) (minreq : Z)                    (* 299-319; tables below *)
| FSet (sc : en_scanner) (minreq : Z)                                  (* 138-159 *)
| FChar (ch distance minreq : Z)                                       (* 326-351 *)
| FString (lit : list Z) (distance minreq : Z)                         (* 359-381 *)
| FLitLoop (l : en_lal) (minreq : Z).                                  (* 392-400 *)

Definition en_kind (f : en_filter) : Z :=
  match f with
  | FPrefix _ ci _ => if ci then 2 else 1
  | FPrefixes _ ci _ => if ci then 4 else 3
  | FAsciiSet _ _ => 5
  | FSet _ _ => 6
  | FChar _ _ _ => 7
  | FString _ _ _ => 8
  | FLitLoop _ _ => 9
  end.

Definition en_none : res (Z * bool) := Ok (0, false).

(* strings.Index / helpers.IndexStringIgnoreCaseASCII, as selected by ignoreCase (191-195, 233-237) *)
Definition en_index_maybe_ci (ci : bool) (s prefix : list Z) : res Z :=
  if ci then en_index_ci s prefix else Ok (en_index s prefix).

(* 224-246 indexAnyPrefixFallback, after the length test: the loop over prefixes *)
Fixpoint en_best_offset (ci : bool) (remaining : list Z) (prefixes : list (list Z)) (best : Z) : res Z :=
  match prefixes with
  | [] => Ok best
  | p :: ps =>
    do offset <- en_index_maybe_ci ci remaining p ;
    let best' := if (0 <=? offset) && ((best <? 0) || (offset <? best)) then offset else best in
    en_best_offset ci remaining ps best'
  end.

(* 259-297 compileASCIIStringSetPrefixFilter: the tables are functions of the prefix list.
   prefixesByFirst[b] = the prefixes starting with byte b, in slice order;
   firstChars = the bytes b with a non-empty bucket, ascending. *)
Definition en_first_byte (p : list Z) : Z := en_at p 0.
Definition en_bucket (prefixes : list (list Z)) (b : Z) : list (list Z) :=
  filter (fun p => en_first_byte p =? b) prefixes.
Definition en_first_chars (prefixes : list (list Z)) : list Z :=
  filter (fun b => existsb (fun p => en_first_byte p =? b) prefixes) (iota 256).
Definition en_has_shared_first (prefixes : list (list Z)) : bool :=
  existsb (fun p => 1 <? zlen (en_bucket prefixes (en_first_byte p))) prefixes.

Definition en_compile_ascii_set (prefixes : list (list Z)) (ci : bool) (minreq : Z) : option en_filter :=
  if ci then None                                                                   (* 260-262 *)
  else if negb (forallb (fun p => negb (zlen p =? 0) && en_is_ascii p) prefixes) then None   (* 270-272 *)
  else if negb (en_has_shared_first prefixes) then None                             (* 282-284 *)
  else match en_first_chars prefixes with
       | [] => None                                                                 (* 292-294 *)
       | _ => Some (FAsciiSet prefixes minreq)
       end.

(* 311-315 *)
Fixpoint en_bucket_hit (input : list Z) (i : Z) (bucket : list (list Z)) : bool :=
  match bucket with
  | [] => false
  | p :: ps =>
    if (zlen p <=? zlen input - i) && en_has_prefix (en_from input i) p then true
    else en_bucket_hit input i ps
  end.

(* 304-318 *)
Fixpoint en_ascii_set_loop (fuel : nat) (prefixes : list (list Z)) (input : list Z) (searchAt : Z)
  : res (Z * bool) :=
  match fuel with
  | O => Fuel
  | S f =>
    if searchAt <? zlen input then
      let offset := en_index_any (en_from input searchAt) (en_first_chars prefixes) in
      if offset <? 0 then en_none
      else
        let i := searchAt + offset in
        let first := en_at input i in
        if en_bucket_hit input i (en_bucket prefixes first) then Ok (i, true)
        else en_ascii_set_loop f prefixes input (i + 1)
    else en_none
  end.

(* 143-158 *)
Fixpoint en_set_loop (fuel : nat) (sc : en_scanner) (minreq : Z) (input : list Z) (startAt searchAt : Z)
  : res (Z * bool) :=
  match fuel with
  | O => Fuel
  | S f =>
    if searchAt <? zlen input then
      let offset := en_scanner_index sc (en_from input searchAt) in
      if offset <? 0 then en_none
      else
        let setByteIndex := searchAt + offset in
        match en_candidate_start input startAt setByteIndex (Z.to_nat (sc_distance sc)) with
        | Some c => if en_has_min_bytes input c minreq then Ok (c, true) else en_none
        | None => en_set_loop f sc minreq input startAt (setByteIndex + 1)
        end
    else en_none
  end.

(* 331-350 *)
Fixpoint en_char_loop (fuel : nat) (ch distance minreq : Z) (input : list Z) (startAt searchAt : Z)
  : res (Z * bool) :=
  match fuel with
  | O => Fuel
  | S f =>
    let offset := en_index_rune (en_from input searchAt) ch in
    if offset <? 0 then en_none
    else
      let byteIndex := searchAt + offset in
      match en_candidate_start input startAt byteIndex (Z.to_nat distance) with
      | Some c => if en_has_min_bytes input c minreq then Ok (c, true) else en_none
      | None =>
        let size := Z.of_nat (snd (decode_rune (en_from input byteIndex))) in
        if size =? 0 then en_none
        else en_char_loop f ch distance minreq input startAt (byteIndex + size)
      end
  end.

(* 364-380 *)
Fixpoint en_string_loop (fuel : nat) (lit : list Z) (distance minreq : Z) (input : list Z) (startAt searchAt : Z)
  : res (Z * bool) :=
  match fuel with
  | O => Fuel
  | S f =>
    if searchAt <=? zlen input - zlen lit then
      let offset := en_index (en_from input searchAt) lit in
      if offset <? 0 then en_none
      else
        let literalIndex := searchAt + offset in
        match en_candidate_start input startAt literalIndex (Z.to_nat distance) with
        | Some c => if en_has_min_bytes input c minreq then Ok (c, true) else en_none
        | None => en_string_loop f lit distance minreq input startAt (literalIndex + 1)
        end
    else en_none
  end.

(* 403-416 stringHasLiteralAfterLoop *)
Definition en_has_literal_after_loop (input : list Z) (searchAt : Z) (l : en_lal) : res bool :=
  match la_string l with
  | _ :: _ =>
    if la_string_ci l then
      do i <- en_index_ci (en_from input searchAt) (la_string l) ; Ok (0 <=? i)
    else Ok (en_contains (en_from input searchAt) (la_string l))
  | [] =>
    match la_chars l with
    | _ :: _ => Ok (en_contains_any (en_from input searchAt) (encode_string (la_chars l)))
    | [] => Ok (en_contains_rune (en_from input searchAt) (la_char l))
    end
  end.

(* one call of the closure: filter(input, startAt) = (candidateByteIndex, ok).
   Every loop advances its search position by at least one byte: len(input)+1 turns suffice. *)
Definition en_run_filter (flt : en_filter) (input : list Z) (startAt : Z) : res (Z * bool) :=
  let fuel := S (length input) in
  match flt with
  | FPrefix prefix ci minreq =>
    if negb (en_has_min_bytes input startAt minreq) then en_none                  (* 186-188 *)
    else
      do offset <- en_index_maybe_ci ci (en_from input startAt) prefix ;          (* 190-195 *)
      if offset <? 0 then en_none else Ok (startAt + offset, true)               (* 196-199 *)
  | FPrefixes prefixes ci minreq =>
    if negb (en_has_min_bytes input startAt minreq) then en_none                  (* 225-227 *)
    else
      do best <- en_best_offset ci (en_from input startAt) prefixes (-1) ;         (* 229-241 *)
      if best <? 0 then en_none else Ok (startAt + best, true)                   (* 242-245 *)
  | FAsciiSet prefixes minreq =>
    if negb (en_has_min_bytes input startAt minreq) then en_none                  (* 300-302 *)
    else en_ascii_set_loop fuel prefixes input startAt
  | FSet sc minreq =>
    if negb (en_has_min_bytes input startAt minreq) then en_none                  (* 139-141 *)
    else en_set_loop fuel sc minreq input startAt startAt
  | FChar ch distance minreq =>
    if negb (en_has_min_bytes input startAt minreq) then en_none                  (* 327-329 *)
    else en_char_loop fuel ch distance minreq input startAt startAt
  | FString lit distance minreq =>
    if negb (en_has_min_bytes input startAt minreq) then en_none                  (* 360-362 *)
    else en_string_loop fuel lit distance minreq input startAt startAt
  | FLitLoop l minreq =>
    if negb (en_has_min_bytes input startAt minreq) then en_none                  (* 393-395 *)
    else
      do has <- en_has_literal_after_loop input startAt l ;                      (* 396-398 *)
      if has then Ok (startAt, true) else en_none
  end.

(* ---- the data newStringPrefixFilter reads ---- *)

(* FindNextStartingPositionMode (syntax/optimizations.go:110-165, iota order); leg c02-filter
   compares these numbers with the Go constants on every run *)
Definition MODE_LeadingString_LeftToRight : Z := 11.
Definition MODE_LeadingString_OrdinalIgnoreCase_LeftToRight : Z := 13.
Definition MODE_LeadingStrings_LeftToRight : Z := 14.
Definition MODE_LeadingStrings_OrdinalIgnoreCase_LeftToRight : Z := 15.
Definition MODE_LeadingSet_LeftToRight : Z := 16.
Definition MODE_FixedDistanceChar_LeftToRight : Z := 19.
Definition MODE_FixedDistanceString_LeftToRight : Z := 20.
Definition MODE_LiteralAfterLoop_LeftToRight : Z := 22.

Record en_opts := {
  fo_mode : Z;                       (* FindMode *)
  fo_min : Z;                        (* MinRequiredLength *)
  fo_prefix : list Z;                (* LeadingPrefix (bytes) *)
  fo_prefixes : list (list Z);       (* LeadingPrefixes *)
  fo_lit_s : list Z;                 (* FixedDistanceLiteral.S *)
  fo_lit_c : Z;                      (* FixedDistanceLiteral.C *)
  fo_lit_dist : Z;                   (* FixedDistanceLiteral.Distance *)
  fo_sets : list en_fdset;           (* FixedDistanceSets *)
  fo_lal : option en_lal             (* LiteralAfterLoop *)
}.

Record en_code := {
  cd_rtl : bool;                     (* code.RightToLeft *)
  cd_codes : list Z;                 (* code.Codes *)
  cd_opts : option en_opts           (* code.FindOptimizations *)
}.

(* syntax/code.go:175-182 HasOpcode; opcodeSize panics on an unknown operation *)
Fixpoint en_has_opcode (fuel : nat) (codes : list Z) (op : Z) : res bool :=
  match fuel with
  | O => Fuel
  | S f =>
    match codes with
    | [] => Ok false
    | c :: _ =>
      if Z.land c G_Mask =? op then Ok true
      else
        let sz := zassoc (Z.land c G_Mask) opcode_size_tbl 0 in
        if sz <=? 0 then Crash 9
        else en_has_opcode f (skipn (Z.to_nat sz) codes) op
    end
  end.

(* 73-94 stringFilterLiteralsContain *)
Definition en_literals_contain (o : en_opts) (r : Z) : bool :=
  en_contains_rune (fo_prefix o) r || en_contains_rune (fo_lit_s o) r || (fo_lit_c o =? r)        (* 75 *)
  || existsb (fun p => en_contains_rune p r) (fo_prefixes o)                                      (* 78-82 *)
  || existsb (fun set => en_contains_rune (encode_string (fs_chars set)) r                        (* 83-87 *)
                         || match fs_range set with
                            | Some (first, last) => (first <=? r) && (r <=? last)
                            | None => false
                            end) (fo_sets o)
  || match fo_lal o with                                                                          (* 88-92 *)
     | Some l => en_contains_rune (la_string l) r || (la_char l =? r)
                 || en_contains_rune (encode_string (la_chars l)) r
     | None => false
     end.

(* 177-201 stringIndexPrefixFilter *)
Definition en_index_prefix_filter (prefix : list Z) (ci : bool) (minreq : Z) : option en_filter :=
  match prefix with
  | [] => None
  | _ => if ci && negb (en_is_ascii prefix) then None else Some (FPrefix prefix ci minreq)
  end.

(* 203-222 stringIndexPrefixesFilter *)
Definition en_index_prefixes_filter (prefixes : list (list Z)) (ci : bool) (minreq : Z) : option en_filter :=
  match prefixes with
  | [] => None
  | _ =>
    if ci && negb (forallb en_is_ascii prefixes) then None
    else match en_compile_ascii_set prefixes ci minreq with
         | Some f => Some f
         | None => Some (FPrefixes prefixes ci minreq)
         end
  end.

(* 132-136 stringFixedDistanceSetFilter *)
Definition en_set_filter (set : en_fdset) (minreq : Z) : option en_filter :=
  match en_new_scanner set with
  | Some sc => Some (FSet sc minreq)
  | None => None
  end.

(* 321-324 *)
Definition en_char_filter (ch distance minreq : Z) : option en_filter :=
  if distance <? 0 then None else Some (FChar ch distance minreq).

(* 354-357; maxStringFilterLiteralLen = 8 *)
Definition en_string_filter (lit : list Z) (distance minreq : Z) : option en_filter :=
  match lit with
  | [] => None
  | _ => if (distance <? 0) || (8 <? zlen lit) then None else Some (FString lit distance minreq)
  end.

(* 384-390 *)
Definition en_lit_loop_filter (l : option en_lal) (minreq : Z) : option en_filter :=
  match l with
  | None => None
  | Some l =>
    if negb (la_loop_set l) then None
    else if la_string_ci l && ((zlen (la_string l) =? 0) || negb (en_is_ascii (la_string l))) then None
    else Some (FLitLoop l minreq)
  end.

(* 25-71 newStringPrefixFilter *)
Definition en_new_filter (c : en_code) : res (option en_filter) :=
  match cd_opts c with
  | None => Ok None                                                               (* 26-28 *)
  | Some o =>
    if cd_rtl c then Ok None
    else
      let minreq := fo_min o in
      do has_start <- en_has_opcode (S (length (cd_codes c))) (cd_codes c) G_Start ;   (* 35-37 *)
      if has_start then Ok None
      else if en_literals_contain o rune_error then Ok None                       (* 40-42 *)
      else
        let m := fo_mode o in
        if m =? MODE_LeadingString_LeftToRight then Ok (en_index_prefix_filter (fo_prefix o) false minreq)
        else if m =? MODE_LeadingString_OrdinalIgnoreCase_LeftToRight then Ok (en_index_prefix_filter (fo_prefix o) true minreq)
        else if m =? MODE_LeadingStrings_LeftToRight then Ok (en_index_prefixes_filter (fo_prefixes o) false minreq)
        else if m =? MODE_LeadingStrings_OrdinalIgnoreCase_LeftToRight then Ok (en_index_prefixes_filter (fo_prefixes o) true minreq)
        else if m =? MODE_LeadingSet_LeftToRight then                             (* 53-61 *)
          match fo_sets o with
          | [] => Ok None
          | set :: _ =>
            match fs_range set with
            | None => if (zlen (fs_chars set) =? 0) || (5 <? zlen (fs_chars set)) then Ok None
                      else Ok (en_set_filter set minreq)
            | Some _ => Ok (en_set_filter set minreq)
            end
          end
        else if m =? MODE_FixedDistanceChar_LeftToRight then Ok (en_char_filter (fo_lit_c o) (fo_lit_dist o) minreq)
        else if m =? MODE_FixedDistanceString_LeftToRight then Ok (en_string_filter (fo_lit_s o) (fo_lit_dist o) minreq)
        else if m =? MODE_LiteralAfterLoop_LeftToRight then Ok (en_lit_loop_filter (fo_lal o) minreq)
        else Ok None
  end.

(* ================================================================================================
   Part 3: the entry points (regexp.go, runner.go)
   ================================================================================================ *)

(* errStringStartAtTooLarge; errStringStartAtNotRuneBoundary (the error built at regexp.go:269
   has the same text and is given the same number) *)
Definition ERR_START_TOO_LARGE : Z := 1.
Definition ERR_START_NOT_BOUNDARY : Z := 2.

(* the loop shared by getRunesAndStart (regexp.go:498-511) and decodeStringWithStart
   (runner.go:2207-2223): runes of s and the rune index of byte index startAt, -1 if startAt is not
   the byte index of a rune (nor len(s)) *)
Definition en_runes_and_index (s : list Z) (startAt : Z) : list Z * Z :=
  let '(n, idx) :=
    fold_left (fun (st : Z * Z) (it : Z * Z) =>
                 let '(n, idx) := st in
                 (n + 1, if fst it =? startAt then n else idx))
              (go_range s) (0, -1) in
  (runes_of s, if startAt =? zlen s then n else idx).

Section Entry.
Variable M : Type.                           (* a finished match *)
Variable search : list Z -> Z -> option M.   (* Runner.scan(input, text, textstart, -1, false) on the full program *)
Variable search_quick : list Z -> Z -> bool. (* Runner.scan(input, nil, textstart, -1, true) on the bool-only program: m != nil *)
Variable rtl : bool.                         (* re.RightToLeft() *)
Variable flt : option en_filter.             (* re.stringPrefixFilter *)

(* runner.go:80-107 run, for an initial scan (previousMatchLength = -1) *)
Definition en_run (textstart : Z) (input : list Z) : res (option M) :=
  let ts := if textstart <? 0 then (if rtl then zlen input else 0) else textstart in
  if zlen input <? ts then Err ERR_START_TOO_LARGE
  else Ok (search input ts).
Definition en_run_quick (textstart : Z) (input : list Z) : res bool :=
  let ts := if textstart <? 0 then (if rtl then zlen input else 0) else textstart in
  if zlen input <? ts then Err ERR_START_TOO_LARGE
  else Ok (search_quick input ts).

(* stringprefixfilter.go:433-445 findStringPrefixCandidate *)
Definition en_prefix_candidate (input : list Z) (startAt : Z) : res (Z * bool) :=
  match flt with
  | None => Ok (startAt, true)
  | Some f =>
    if rtl then Ok (startAt, true)
    else
      do r <- en_run_filter f input startAt ;
      let '(c, ok) := r in
      if negb ok then en_none
      else if (c <? startAt) || (zlen input <? c) || negb (en_is_boundary input c) then Ok (startAt, true)
      else Ok (c, true)
  end.

(* stringprefixfilter.go:447-465 findStringMatchStart *)
Definition en_match_start (input : list Z) (startAt : Z) : res (Z * bool) :=
  if zlen input <? startAt then Err ERR_START_TOO_LARGE
  else if (0 <=? startAt) && negb (en_is_boundary input startAt) then Err ERR_START_NOT_BOUNDARY
  else
    let startAt := if startAt <? 0 then (if rtl then zlen input else 0) else startAt in
    en_prefix_candidate input startAt.

(* regexp.go:490-512 getRunesAndStart *)
Definition en_get_runes_and_start (s : list Z) (startAt : Z) : list Z * Z :=
  if startAt <? 0 then
    let r := runes_of s in (r, if rtl then zlen r else 0)
  else en_runes_and_index s startAt.

(* runner.go:2207-2223 decodeStringWithStart *)
Definition en_decode_with_start (s : list Z) (startAt : Z) : list Z * Z :=
  if startAt <? 0 then (runes_of s, -1) else en_runes_and_index s startAt.

(* regexp.go:235-249 FindStringMatch *)
Definition en_find_string_match (s : list Z) : res (option M) :=
  do r <- en_match_start s (-1) ;
  let '(startAt, ok) := r in
  if negb ok then Ok None
  else
    let '(rs, runeStart) := en_get_runes_and_start s startAt in
    let runeStart := if runeStart <? 0 then 0 else runeStart in
    en_run runeStart rs.

(* regexp.go:257-273 FindStringMatchStartingAt *)
Definition en_find_string_match_starting_at (s : list Z) (startAt : Z) : res (option M) :=
  do r <- en_match_start s startAt ;
  let '(startAt, ok) := r in
  if negb ok then Ok None
  else
    let '(rs, runeStart) := en_get_runes_and_start s startAt in
    if runeStart =? -1 then Err ERR_START_NOT_BOUNDARY
    else en_run runeStart rs.

(* regexp.go:456-488 matchStringAt *)
Definition en_match_string_at (s : list Z) (startAt : Z) : res bool :=
  let '(input, runeStart) :=
    if startAt <=? 0 then
      let input := runes_of s in (input, if rtl then zlen input else 0)
    else
      let '(input, rs) := en_decode_with_start s startAt in
      (input, if rs <? 0 then 0 else rs) in
  Ok (search_quick input runeStart).

(* regexp.go:440-450 MatchString: the filter closure is called directly (no candidate validation) *)
Definition en_match_string (s : list Z) : res bool :=
  match flt with
  | Some f =>
    if negb rtl then
      do r <- en_run_filter f s 0 ;
      let '(c, ok) := r in
      if negb ok then Ok false else en_match_string_at s c
    else en_match_string_at s (-1)
  | None => en_match_string_at s (-1)
  end.

(* regexp.go:252-254, 276-278, 520-526: the rune entry points *)
Definition en_find_runes_match (r : list Z) : res (option M) := en_run (-1) r.
Definition en_find_runes_match_starting_at (r : list Z) (startAt : Z) : res (option M) := en_run startAt r.
Definition en_match_runes (r : list Z) : res bool := en_run_quick (-1) r.

(* regexp.go:287-314 FindAllStringIndex up to the first scan: the rune slice and rune start handed to
   findAllRunesIndex (None = "return nil, nil" at 291-293); the iteration itself is C07's *)
Definition en_find_all_string_start (s : list Z) : res (option (list Z * Z)) :=
  do r <- en_match_start s (-1) ;
  let '(startAt, ok) := r in
  if negb ok then Ok None
  else
    let '(input, runeStart) :=
      if startAt =? 0 then (runes_of s, 0) else en_decode_with_start s startAt in
    Ok (Some (input, if runeStart <? 0 then 0 else runeStart)).

End Entry.
