package main

// leg c05-opt: the model of the optional tree rewrites (coq/Model/FinalOpt.v, model leg 501) against syntax.Parse:
// the real tree compiled with every rewrite family off (verif gate mask 31) is exported, the model is applied to it
// under mask g, and the result must be EXACTLY the real tree compiled under mask g (every node: T, Options, Ch, M, N,
// Str, the CharSet structurally, children), for g = 0 (all on), 30, 29, 27, 23, 15 (one family on) and 31.

import (
	"fmt"
	"os"
	"time"
	"regexp"
	"sort"
	"strings"

	"github.com/dlclark/regexp2/v2/syntax"
)

func init() {
	registerLeg("c05-opt", "C05", legC05Opt)
}

var c05OptMasks = []uint32{31, 0, 30, 29, 27, 23, 15, 16}

var c05FamilyOfMask = map[uint32]string{30: "1 auto-atomic", 29: "2 ending backtracking", 27: "4 bump-along", 23: "8 atomic alternation", 15: "16 prefix factoring"}

// shapes aimed at the model's own branches, on top of rewriteShapes
var c05OptShapes = []string{
	// canBeMadeAtomic: every successor kind, nullable successors stepped over, the walk up
	`a*b`, `a*[^a]`, `a*[bc]`, `a*b+`, `a*[^a]+`, `a*[bc]+`, `a*bc`, `a*\z`, `a*\Z`, `a*$`, `\n*$`, `a*b*`, `a*[^a]*c`, `a*[bc]*d`, `a+\b`, `-+\B`, `a+\b.`, `-+\Ba`,
	`[^a]*a`, `[^a]*a+`, `[^a]*ab`, `[^a]*\z`, `[^a]*a*b`, `[^a]*b`, `[ab]*c`, `[ab]*[cd]`, `[ab]*c+`, `[ab]*[cd]+`, `[ab]*cd`, `[ab]*\z`, `[ab]*$`, `[ab]*c*d`, `[ab]*[cd]*e`,
	`\w+\b`, `\d+\b`, `\W+\B`, `\D+\B`, `\w+\b!`, `\W+\Ba`, `\s*\d`, `\s+\w`, `\d*\s`, `\w*\s+`, `[ab]*[^ab]`, `[a-c]*[d-f]`, `\p{L}*\d`, `\p{L}*\p{Nd}`, `[\w-[a]]*a`,
	`a*(b)`, `a*(?:bc)`, `a*(?>b)`, `a*(?=b)`, `a*(?<=b)`, `a*(?:b)+`, `a*(?:b)+?`, `a*(?:b)*`, `a*(?:b|c)`, `a*(?:b|a)`, `a*(?(x)b|c)`, `a*(?(x)b)`, `(x)?a*(?(1)b|c)`,
	`a*(b*)c`, `a*(?>b*)c`, `a*(?:b*|c*)d`, `(a*b*)c`, `(?>a*b*)c`, `(?:a*b*|x)c`, `((a*)b*)c*d`, `a*(?:b*c*)*d`, `(?=a*b*)c`, `a*(?=b*)c`,
	`(xa*)b`, `(?:xa*|y)b`, `(x(ya*))b`, `(?:xa*)+b`, `(?:xa*)*b`, `(?:ba*)+b`, `(?:ba*)+c`, `(?:[bc]a*)+d`, `(?:(b)a*)+c`, `((?:ba*)+)c`, `(?(x)ya*|za*)b`, `(x)?(?(1)ya*|za*)b`,
	`a*?b`, `a+?b`, `a*?b*`, `[ab]*?c`, `[^a]*?a`, `a*?(?:b|c)`, `(xa*?)b`, `a{2,}?b`, `a{2,5}?b`, `a??b`,
	`(?>a*\B|a)b`, `(?>-+\B|-+)a`, `(?>-+\B(?:1*|x*)|-+)a`, `(?>-+\B(?:1*|\B)x*|-+)a`, `(?>\W+\B(?:\d*|x)|-)a`, `(?>-+\B)a`, `(?:-+\B|-+)a`, `(?<x>-)(?<y-x>-+\B)`, `(?<x>-)(?<y-x>-*b*)`, `(?<x>-)(?<y-x>-*)b`,
	// eliminateEndingBacktracking: the walk
	`a*`, `a*?`, `a+?`, `a{2,3}?`, `a{70,}?`, `[ab]+?`, `xa*`, `(xa*)`, `x(?:a|b*)`, `x(?:a|b)*`, `x(?:ab)+?`, `x(?:ab){2,}?`, `x(?:ab)?`, `x(?:ab*)?`, `x(?:ab*)*`, `x(?:a*b)*`, `x(?:(a)b*)*`,
	`x(?(y)a*|b*)`, `(y)?x(?(1)a*|b*)`, `x(?(y)a*)`, `(?>x(?:a|b*))`, `(?>(x)(?:a|b*))`, `(?=x(?:a|b*))`, `(?!xa*)`, `(?<=a*x)`, `(?(xa*)b|c)`, `(?((?=xa*))b|c)`,
	`(?=a*?)`, `(?!a*?)b`, `x(?=a*?)y`, `(?>a*?)`, `(?>a{2}?)`, `(?>[ab]{2,}?)`, `(?<a-b>xa*)`, `x(?<a>y)(?<b-a>a*)`, `((a*))`, `(?:(?:a*)?)?`,
	// bump-along
	`a*b`, `a+b`, `a*?b`, `(?>a*)b`, `(?>a*?b)c`, `(?>a*?)b`, `(?>(?>a*)b)c`, `(?>a*b)c`, `a{2,}b`, `a{2,5}b`, `(a*)b`, `a*`, `[ab]*c`, `[^a]*a`, `.*a`, `(?>.*?a)b`, `(?>x.*?a)b`, `(?:a*b)c`,
	// atomic alternations: trimming and reordering
	`(?>|a)`, `(?>a|)`, `(?>a||b)`, `(?>a|b||c|d)`, `(?>a|b|)`, `(?>ab|cd|ae)`, `(?>ab|cd|ae|cf|ag)`, `(?>ab|cd|ef)`, `(?>ab|c*|ad|ae|af)`, `(?>ab|cd|ae|x*|gh|ij|gk)`, `(?>abc|def|axy|dzz|aqq)x`,
	`(?>ab|[cd]e|af)`, `(?>a|b|a)`, `(?>ab|cd|a)`, `(?>(?:ab|cd|ae))`, `(?>x(?:ab|cd|ae))`, `(?>ab|cd|ae)+`, `(?=ab|cd|ae)`, `(?<=ab|cd|ae)`, `(?>ab|cd|aeb*)`, `(?>ab*|cd*|ae*)`,
	// prefix factoring
	`abc|abd`, `abc|abd|abe`, `abc|abd|xyz`, `xyz|abc|abd`, `abc|ab`, `ab|abc`, `a|ab|abc`, `abc|abd|aef|aeg`, `abcd|abce|abxf`, `ab*|ac*`, `abx*|aby*`, `(?:abc|abd)e`, `x(?:abc|abd)`, `(abc|abd)`,
	`(?>abc|abd)`, `(?>(?:abc|abd))`, `(?=abc|abd)`, `(?i)abc|abd`, `a(?i)bc|abd`, `\d1|\d2`, `\d+1|\d+2`, `\d{2}1|\d{2}2`, `\d{2}1|\d{2}2|\w3|\w4`, `[ab]x|[ab]y|[cd]z`, `.x|.y`, `[^a]x|[^a]y`,
	`(?>\d1|\d2)`, `\d*?1|\d*?2`, `(?>a*)1|(?>a*)2`, `a{2}1|a{2}2`, `aa1|aa2`, `[ab]{3}1|[ab]{3}2`, `\dx*|\dy*`, `\d(?:a|b)|\d(?:c|d)`, `ab|ac|ad|ae`, `ab1|ab2|ac1|ac2`,
}

// An atomic group written directly around a non-capturing group, (?>(?:a|b)): while the alternation is reduced its
// parent is the Group node, not the Atomic one (tree.go:1183, 1263 look at n.Parent.T), and reduceGroup removes
// the Group afterwards.  The gate-31 tree the model starts from no longer shows that Group, so with prefix
// factoring on such patterns are outside the post-pass formulation (counted, not compared).
var c05optGroupInAtomic = regexp.MustCompile(`\(\?>\s*(\(\?#[^)]*\)\s*)*\(\?[imnsx-]*:`)

// (?(?=X)yes|no): reduceExpressionConditional takes X out of the lookahead; the gate-31 tree does not show whether
// a condition was written that way.  One bit per pattern: every "(?(" of the text is followed by "?=" (true), none is
// (false); mixed spellings are outside the post-pass formulation when ending-backtracking removal is on.
func c05optCondLook(pat string) (look bool, mixed bool) {
	n, nl := strings.Count(pat, "(?("), strings.Count(pat, "(?(?=")
	return n > 0 && nl == n, nl > 0 && nl < n
}

func c05optParse(pat string, o syntax.RegexOptions, g uint32) (t *syntax.RegexTree, err error, panicked string) {
	gateMu.Lock()
	defer gateMu.Unlock()
	syntax.VerifGates = g
	defer func() { syntax.VerifGates = 0 }()
	defer func() {
		if x := recover(); x != nil {
			panicked = fmt.Sprint(x)
		}
	}()
	t, err = syntax.Parse(pat, syntax.ParseOptions{RegexOptions: o})
	return
}

// every CharSet of the tree: the runes of its ranges (when they are few) and of the node fields
func c05optCollect(n *syntax.RegexNode, runes map[rune]bool, spans *int) {
	add := func(r rune) {
		for _, x := range []rune{r - 1, r, r + 1} {
			if x >= 0 && x <= 0x10FFFF {
				runes[x] = true
			}
		}
	}
	add(n.Ch)
	for _, r := range n.Str {
		add(r)
	}
	var set func(cs *syntax.CharSet)
	set = func(cs *syntax.CharSet) {
		if cs == nil {
			return
		}
		ranges, _, sub, _, _, _, _ := syntax.VerifCharSetFields(cs)
		for _, rg := range ranges {
			add(rg.First)
			add(rg.Last)
			if int(rg.Last-rg.First) <= 600 && *spans < 4000 {
				*spans += int(rg.Last - rg.First)
				for r := rg.First; r <= rg.Last; r++ {
					runes[r] = true
				}
			}
		}
		set(sub)
	}
	set(n.Set)
	for _, k := range n.Children {
		c05optCollect(k, runes, spans)
	}
}

func c05optModelIn(g uint32, want, condLook bool, root *syntax.RegexNode) []int64 {
	return c05optModelInWith(g, want, condLook, c05optModelTail(root))
}

// the mask-independent part of the input of leg 501 is built once per pattern
func c05optModelInWith(g uint32, want, condLook bool, tail []int64) []int64 {
	in := make([]int64, 0, len(tail)+3)
	in = append(in, int64(g), b2i(want), b2i(condLook))
	return append(in, tail...)
}

func c05optModelTail(root *syntax.RegexNode) []int64 {
	used := map[string]bool{}
	types := map[int]bool{}
	enc := c10EncNode(root, used, types)
	runes := map[rune]bool{'\n': true}
	spans := 0
	c05optCollect(root, runes, &spans)
	var dom []rune
	for r := range runes {
		dom = append(dom, r)
	}
	sort.Slice(dom, func(i, j int) bool { return dom[i] < dom[j] })
	in := []int64{int64(len(dom))}
	for _, r := range dom {
		in = append(in, int64(r), b2i(syntax.IsWordChar(r)), b2i(syntax.IsECMAWordChar(r)))
	}
	cats := append([]string{}, c10BaseCats...)
	have := map[string]bool{}
	for _, c := range cats {
		have[c] = true
	}
	var extra []string
	for c := range used {
		if !have[c] {
			extra = append(extra, c)
		}
	}
	sort.Strings(extra)
	cats = append(cats, extra...)
	if len(cats) > 60 {
		cats = cats[:60]
	}
	in = append(in, int64(len(cats)))
	for _, c := range cats {
		in = append(in, c16CatID(c))
	}
	in = append(in, int64(len(dom)))
	for _, r := range dom {
		var mask int64
		for j, c := range cats {
			if c16CatIn(c, r) {
				mask |= 1 << uint(j)
			}
		}
		in = append(in, int64(r), mask)
	}
	return append(in, enc...)
}

// input of model leg 502: gate mask, (rune, IsECMAWordChar) pairs, then the input of leg 1001
func c05optParseIn(g uint32, pr []rune, o syntax.RegexOptions, full bool) []int64 {
	return append([]int64{int64(g)}, c05optParseTail(pr, o, full)...)
}

func c05optParseTail(pr []rune, o syntax.RegexOptions, full bool) []int64 {
	dom := c10Domain(pr)
	in := []int64{int64(len(dom))}
	for _, r := range dom {
		in = append(in, int64(r), b2i(syntax.IsECMAWordChar(r)))
	}
	return append(in, c10ModelIn(pr, o, false, full)...)
}

type c05optEntry struct {
	desc    string
	key     string
	g       uint32
	encg    []int64
	in501   []int64
	in502   []int64
	differs bool
	class   string // "" or the name of the information the gate-31 tree lacks for this pattern and mask
}

func legC05Opt(c *Ctx) {
	c.Rule("(1) exact reference: the model of syntax.Parse under a gate mask (coq/Model/FinalOptParse.v = the main loop of Model/Parser.v over the gated reducer of Model/FinalOpt.v, then finalOptimize's passes; model leg 502) must give EXACTLY the real tree compiled under mask g (T, Options, Ch, M, N, Str, CharSet fields, children), g in {31, 0, 30, 29, 27, 23, 15, 16}: findAndMakeLoopsAtomic / processNode / canBeMadeAtomic with the walk to the root, eliminateEndingBacktracking with FindLastExpressionInLoopForAutoAtomic, the bump-along marker, reduceAtomic's alternation trimming / reordering, reduceAlternation's two prefix extractions. (2) the post-pass the theorems are about (Model/FinalOpt.fo_final_optimize, model leg 501) applied to the REAL tree compiled with every family off (mask 31) is compared with the same real tree under g; it must agree except where the gate-31 tree does not carry what the gated parse looked at (counted by class; coverage gate: at most 1% of the compared trees). Patterns: the c05-gates shapes and the shapes of this leg x {none, i, s, m, RightToLeft, ECMAScript}, patterns printed from random ASTs, harvested test patterns, the c10-parse corpus. Side conditions of the theorems are evaluated per tree under mask 16 (every family on but prefix factoring: the widest mask C05_final_optimize_sound_partial covers) (histogram): strict-nb (no \\B stepped over before the end of the expression), strict-bal (no walk through a balancing capture), strict-desc (no walk up out of an atomic group the walk descended into), strict-rtl-lead (no RightToLeft One/Multi node keys a branch in reduceAtomic), lite (the mandatory reducers are the identity wherever a gated branch re-reduces). non-trivial = the real tree under g differs from the tree under 31 (distinct by pattern, options, mask)")
	type pc struct {
		pat  string
		o    syntax.RegexOptions
		kind string
	}
	var pats []pc
	seen := map[string]bool{}
	addp := func(p string, o syntax.RegexOptions, kind string) {
		k := fmt.Sprintf("%d/%s", int(o), p)
		if !seen[k] {
			seen[k] = true
			pats = append(pats, pc{p, o, kind})
		}
	}
	shapeOpts := []syntax.RegexOptions{0, syntax.IgnoreCase, syntax.Singleline, syntax.Multiline, syntax.RightToLeft, syntax.ECMAScript}
	for _, s := range c05OptShapes {
		for _, o := range shapeOpts {
			addp(s, o, "shape")
		}
	}
	for i, s := range rewriteShapes {
		addp(s, 0, "shape")
		addp(s, shapeOpts[1+i%5], "shape")
	}
	for _, p := range genPatterns(c.Rng, c.N(1000, 40000), true) {
		addp(p.pat, syntax.RegexOptions(p.o.bits()), "ast")
	}
	for _, h := range harvestedPatterns() {
		addp(h, 0, "harvest")
		if c.Rng.Chance(30) {
			addp(h, Pick(c.Rng, c10OptSets), "harvest")
		}
	}
	for _, p := range c10Corpus {
		addp(p, 0, "corpus")
	}

	tStart := time.Now()
	var ents []*c05optEntry
	var flagLegs []int
	var flagIns [][]int64
	var flagDesc []string
	fired := map[uint32]int{}
	nTrees := 0
	for _, p := range pats {
		t31, err, pan := c05optParse(p.pat, p.o, 31)
		if err != nil || pan != "" || t31 == nil {
			continue
		}
		nTrees++
		types := map[int]bool{}
		enc31 := c10EncNode(t31.Root, map[string]bool{}, types)
		if len(enc31) > 6000 {
			c.Hist("skipped: very large tree")
			continue
		}
		condLook, condMixed := c05optCondLook(p.pat)
		pr := []rune(p.pat)
		tail502 := c05optParseTail(pr, p.o, false)
		tail501 := c05optModelTail(t31.Root)
		for _, g := range c05OptMasks {
			tg, err, pan := c05optParse(p.pat, p.o, g)
			desc := fmt.Sprintf("pattern %q opts=%#x (%s) gate mask %d", p.pat, int(p.o), p.kind, g)
			if pan != "" {
				c.Add(&Case{Desc: desc, Direct: "syntax.Parse panicked with rewrites on: " + pan, Class: "panic"})
				continue
			}
			if err != nil {
				c.Add(&Case{Desc: desc, Direct: "pattern parses with every rewrite off but not under this mask: " + err.Error()})
				continue
			}
			encg := c10EncNode(tg.Root, map[string]bool{}, types)
			differs := !eqInts(encg, enc31)
			if differs {
				fired[g]++
			}
			if g == 31 && differs {
				c.Add(&Case{Desc: desc, Direct: "two parses under mask 31 gave different trees"})
				continue
			}
			// the all-off mask and unchanged trees are compared for a sample only
			if !differs && g != 0 && g != 16 && !c.Rng.Chance(c.N(12, 40)) {
				continue
			}
			if g == 16 && !((differs && c.Rng.Chance(c.N(50, 100))) || c.Rng.Chance(4)) {
				continue
			}
			e := &c05optEntry{desc: desc + ": real tree " + strings.ReplaceAll(tg.Dump(), "\n", " / "), key: fmt.Sprintf("%q/%d/%d", p.pat, int(p.o), g),
				g: g, encg: encg, differs: differs}
			e.in502 = append([]int64{int64(g)}, tail502...)
			e.in501 = c05optModelInWith(g, false, condLook, tail501)
			switch {
			case g&16 == 0 && c05optGroupInAtomic.MatchString(p.pat):
				e.class = "an atomic group directly around a non-capturing group (prefix factoring on)"
			case g&2 == 0 && condMixed:
				e.class = "expression conditionals with and without a lookahead condition (ending-backtracking removal on)"
			}
			ents = append(ents, e)
			if g == 16 && len(flagIns) < c.N(450, 20000) {
				flagLegs = append(flagLegs, 501)
				flagIns = append(flagIns, c05optModelInWith(g, true, condLook, tail501))
				flagDesc = append(flagDesc, desc)
			}
		}
	}
	tPrep := time.Now()
	// (1) the exact reference
	l2 := make([]int, len(ents))
	i2 := make([][]int64, len(ents))
	l1 := make([]int, len(ents))
	i1 := make([][]int64, len(ents))
	for k, e := range ents {
		l2[k], i2[k], l1[k], i1[k] = 502, e.in502, 501, e.in501
	}
	o2, err := runModel(c.ModelBin, l2, i2)
	if err != nil {
		c.Add(&Case{Desc: "c05-opt: model execution failed: " + err.Error(), Direct: "model execution failed"})
		return
	}
	t502 := time.Now()
	o1, err := runModel(c.ModelBin, l1, i1)
	if os.Getenv("VERIF_C05_DEBUG") != "" {
		fmt.Fprintf(os.Stderr, "TIMING prepare %.1fs, model 502 %.1fs, model 501 %.1fs (%d cases)\n", tPrep.Sub(tStart).Seconds(), t502.Sub(tPrep).Seconds(), time.Since(t502).Seconds(), len(ents))
	}
	if err != nil {
		c.Add(&Case{Desc: "c05-opt: model execution failed: " + err.Error(), Direct: "model execution failed"})
		return
	}
	compared, agree, differ, unexplained, outside, incomplete := 0, 0, 0, 0, 0, 0
	firedRef := map[uint32]int{}
	firedPost := map[uint32]int{}
	for k, e := range ents {
		mo := o2[k]
		if len(mo) == 1 && mo[0] == -998 {
			incomplete++
			c.Add(&Case{Desc: e.desc, Class: "oracle-incomplete"})
			continue
		}
		if len(mo) == 2 && mo[0] == 0 && mo[1] == 2 {
			outside++
			c.Add(&Case{Desc: e.desc, Class: "outside the parser model's fragment"})
			continue
		}
		compared++
		impl := append([]int64{0, 0}, e.encg...)
		if eqInts(mo, impl) {
			// evaluated above; only a disagreement is handed to the framework again (which re-evaluates it and files the replay)
			c.Add(&Case{Desc: e.desc, Nontrivial: e.differs, Key: e.key, Class: fmt.Sprintf("mask%d", e.g)})
			c.res.ModelEvals++
			if e.differs {
				firedRef[e.g]++
			}
		} else {
			c.Add(&Case{Desc: e.desc, ModelLeg: 502, ModelIn: e.in502, ImplOut: impl, Nontrivial: e.differs, Key: e.key, Class: fmt.Sprintf("mask%d", e.g)})
		}
		// (2) the post-pass
		post := o1[k]
		switch {
		case len(post) == 1 && post[0] == -998:
			c.Hist("post-pass: oracle-incomplete")
		case eqInts(post, append([]int64{0}, e.encg...)):
			agree++
			if e.differs {
				firedPost[e.g]++
			}
		default:
			differ++
			if e.class != "" {
				c.Hist("post-pass differs, the gate-31 tree lacks: " + e.class)
			} else {
				unexplained++
				c.Hist("post-pass differs, other (e.g. a group whose alternation was factored before the enclosing alternation absorbed it)")
				if os.Getenv("VERIF_C05_DEBUG") != "" {
					fmt.Fprintln(os.Stderr, "POSTPASS", e.desc)
				}
			}
		}
	}
	c.Flush()
	// the theorem's side conditions, per tree (all families on)
	if len(flagIns) > 0 {
		outs, err := runModel(c.ModelBin, flagLegs, flagIns)
		if err != nil {
			c.Add(&Case{Desc: "c05-opt: model execution failed: " + err.Error(), Direct: "model execution failed"})
		} else {
			for i, o := range outs {
				if len(o) < 8 || o[0] != 0 {
					c.Hist("side-conditions: model gave no tree")
					continue
				}
				fl := o[len(o)-7:]
				all := true
				for j, nm := range []string{"strict-nb fails (a \\B stepped over before the end of the expression)", "strict-bal fails (a balancing capture on the way)", "strict-desc fails (walk up out of an atomic group the walk descended into)", "strict-rtl-lead fails (reduceAtomic keyed a branch by a One/Multi node with the RightToLeft bit)", "lite fails (a mandatory reducer changes a re-reduced node)", "fo_wf fails (the shape facts the theorems assume)", "theorem model differs (strict 15 + lite)"} {
					if fl[j] == 0 {
						all = false
						c.Hist("side-condition " + nm)
						if os.Getenv("VERIF_C05_DEBUG") != "" {
							fmt.Fprintln(os.Stderr, "SIDE", j, flagDesc[i])
						}
					}
				}
				if all {
					c.Hist("side-conditions all hold")
				}
			}
		}
	}
	c.Hist(fmt.Sprintf("trees=%d compared=%d outside-parser-fragment=%d oracle-incomplete=%d post-pass: agrees=%d differs=%d (unexplained %d)", nTrees, compared, outside, incomplete, agree, differ, unexplained))
	for _, g := range []uint32{30, 29, 27, 23, 15} {
		c.Gate("rewrite family "+c05FamilyOfMask[g]+" changed a tree and the parse model reproduced it", firedRef[g] > 0)
		c.Gate("rewrite family "+c05FamilyOfMask[g]+" changed a tree and the post-pass reproduced it", firedPost[g] > 0)
		c.res.Histogram[fmt.Sprintf("family-mask%d-fired", g)] = fired[g]
	}
	c.Gate("most patterns inside the parser model's fragment", outside*5 <= len(ents))
	c.Gate("oracle tables complete on all but a few cases", incomplete*50 <= len(ents))
	c.Gate("the post-pass agrees with the real tree on all but 1% of the compared trees", differ*100 <= compared)
}
