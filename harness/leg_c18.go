package main

// C18 — inline options equal compile-time options.
//
// Legs:
//   c18-stamps     token lists x 4 modes x initial option subsets: the option word the real parser stamps on the
//                  nodes it creates (read back from syntax.Parse's tree) vs Model/Options.v + GroupMap.v (leg 1801).
//   c18-spellings  generated regex patterns x all 32 subsets O of {i,m,n,s,x}: Compile(P, O0|O), Compile("(?O)"+P, O0),
//                  Compile("(?O:"+P+")", O0), Compile(P with every inline setting rewritten as a scoped group, O0|O)
//                  must give the same match and captures on bounded-exhaustive inputs (and, per instance, the same
//                  program); Compile("(?-O)"+P, O0|O) must equal Compile(P, O0&^O).
//   c18-harvest    the same for every pattern literal passed to Compile/MustCompile in /repo's tests.

import (
	"fmt"
	"go/ast"
	"go/parser"
	"go/token"
	"path/filepath"
	"sort"
	"strconv"
	"strings"
	"time"

	"github.com/dlclark/regexp2/v2"
	"github.com/dlclark/regexp2/v2/syntax"
)

func init() {
	registerLeg("c18-stamps", "C18", legC18Stamps)
	registerLeg("c18-spellings", "C18", legC18Spellings)
	registerLeg("c18-harvest", "C18", legC18Harvest)
}

var c18Bits = []syntax.RegexOptions{syntax.IgnoreCase, syntax.Multiline, syntax.ExplicitCapture, syntax.Singleline, syntax.IgnorePatternWhitespace}
var c18Letters = []string{"i", "m", "n", "s", "x"}

func subsetOpts(k int) syntax.RegexOptions {
	var o syntax.RegexOptions
	for i, b := range c18Bits {
		if k&(1<<uint(i)) != 0 {
			o |= b
		}
	}
	return o
}

func optLettersOf(o syntax.RegexOptions, r *Rng) string {
	var ls []string
	for i, b := range c18Bits {
		if o&b != 0 {
			l := c18Letters[i]
			if r != nil && r.Chance(20) {
				l = strings.ToUpper(l)
			}
			ls = append(ls, l)
		}
	}
	if r != nil && len(ls) > 1 && r.Chance(40) {
		i, j := r.Intn(len(ls)), r.Intn(len(ls))
		ls[i], ls[j] = ls[j], ls[i]
	}
	return strings.Join(ls, "")
}

// ---------- c18-stamps ----------

func isBoundary(t syntax.NodeType) bool {
	return t == syntax.NtBoundary || t == syntax.NtNonboundary || t == syntax.NtECMABoundary || t == syntax.NtNonECMABoundary
}

func walkStamps(n *syntax.RegexNode, root bool, out *[]int64) {
	if n == nil {
		return
	}
	o := int64(n.Options &^ syntax.RightToLeft)
	if isBoundary(n.T) {
		*out = append(*out, 0, o)
	} else if n.T == syntax.NtCapture && !root {
		*out = append(*out, 1, o, int64(n.M))
	} else if n.T == syntax.NtRef {
		*out = append(*out, 2, o)
	}
	if n.T == syntax.NtConcatenate && n.Options&syntax.RightToLeft != 0 {
		for i := len(n.Children) - 1; i >= 0; i-- {
			walkStamps(n.Children[i], false, out)
		}
		return
	}
	for _, ch := range n.Children {
		walkStamps(ch, false, out)
	}
}

const c18LitB = 12 // gLits[12] = `\b`

func legC18Stamps(c *Ctx) {
	c.Rule("random token lists as in c17-maps but every literal spelled \\b and no alternation (so the optimizer deletes nothing), x {default, MaintainCaptureOrder, ECMAScript, RE2} x initial options: random subset of {i,m,n,s,x}; " +
		"compared: error code, or the Options field of every boundary and capture node in pattern order (RightToLeft bit masked); non-trivial = compiles and contains an inline option construct (distinct by mode+options+pattern)")
	if gLits[c18LitB] != `\b` {
		c.Add(&Case{Desc: "internal: literal table moved", Direct: "gLits[12] is not \\b"})
		return
	}
	n := c.N(4000, 60000)
	var withOpt, withHash, errs, nodes int
	for i := 0; i < n; i++ {
		g := &gGen{r: c.Rng, nameSeen: map[string]bool{}}
		base := g.wild()
		var ts []gTok
		for _, t := range base {
			if t.Tag == tLit {
				if t.N == gLitBar {
					continue
				}
				t.N = c18LitB
			}
			if t.Tag == tGroup && (t.N == 3 || t.N == 5) {
				t.N-- // an empty negative lookaround is NtNothing and takes its whole concatenation with it
			}
			ts = append(ts, t)
		}
		// back-references are the only nodes that keep the IgnoreCase bit: add some to names that occur
		if len(g.names) > 0 {
			for k := c.Rng.Intn(4); k > 0 && len(ts) > 0; k-- {
				i := c.Rng.Intn(len(ts) + 1)
				ts = append(ts[:i:i], append([]gTok{{Tag: tBackName, S: Pick(c.Rng, g.names), Sp: c.Rng.Intn(10)}}, ts[i:]...)...)
			}
		}
		ts = c17Printable(ts)
		m := gModes[c.Rng.Intn(len(gModes))]
		if m.ordered() && hasTag(ts, tNumbered) && c.Rng.Chance(85) {
			ts = dropNumbered(c.Rng, ts)
		}
		o0 := subsetOpts(c.Rng.Intn(32))
		if c.Rng.Chance(40) {
			o0 = 0
		}
		opts := m.Opts | o0
		pat := printToks(ts, m)
		desc := fmt.Sprintf("stamps mode=%s options=%#x pattern=%+q", m.Name, int(opts), pat)
		var out []int64
		func() {
			defer func() {
				if p := recover(); p != nil {
					c.Add(&Case{Desc: desc, Direct: fmt.Sprint("panic: ", p)})
					out = nil
				}
			}()
			tree, err := syntax.Parse(pat, syntax.ParseOptions{RegexOptions: opts, MaintainCaptureOrder: m.MCO})
			if err != nil {
				errs++
				out = []int64{1, c17ErrCode(err)}
				return
			}
			out = []int64{0}
			walkStamps(tree.Root, true, &out)
			nodes += (len(out) - 1) / 3
		}()
		if out == nil {
			continue
		}
		in := []int64{b2i(m.MCO), int64(opts)}
		in = append(in, encToks(ts)...)
		hasOpt := hasTag(ts, tOptGroup) || hasTag(ts, tOptSet)
		if hasOpt {
			withOpt++
		}
		if g.hasHash {
			withHash++
		}
		c.Add(&Case{Desc: desc, ModelLeg: 1801, ModelIn: in, ImplOut: out, Nontrivial: out[0] == 0 && hasOpt,
			Key: fmt.Sprintf("%s|%x|%s", m.Name, int(opts), pat), Class: fmt.Sprintf("%s/err=%v", m.Name, out[0] != 0)})
	}
	c.Gate("inline option constructs generated", withOpt > n/3)
	c.Gate("hash comments generated", withHash > n/20)
	c.Gate("errors are a minority", errs < n/2)
	c.Gate("stamped nodes observed", nodes > n)
}

// ---------- pattern generator for the spelling legs ----------

type rxGen struct {
	r        *Rng
	names    []string
	groupNo  int
	usedX    bool
	usedN    bool
	usedOnOf bool
	usedRef  bool
}

var rxAtoms = []string{"a", "b", "A", "B", "a", "b", ".", "^", "$", "[ab]", "[^a]", "[a-bA]", `\w`, `\s`, `\S`, `\n`, " ", `\ `, "[ ]", "é", `\b`, "ab", "Ab", "a b"}

func (g *rxGen) optCS() (string, bool) {
	// an inline option string over imnsx with on and off parts
	on := subsetOpts(g.r.Intn(32))
	off := subsetOpts(g.r.Intn(32)) &^ on
	if g.r.Chance(50) {
		off = 0
	}
	if g.r.Chance(20) {
		on = 0
	}
	if on == 0 && off == 0 {
		on = syntax.IgnoreCase
	}
	s := optLettersOf(on, g.r)
	if off != 0 {
		s += "-" + optLettersOf(off, g.r)
		g.usedOnOf = true
	}
	if (on|off)&syntax.IgnorePatternWhitespace != 0 {
		g.usedX = true
	}
	if (on|off)&syntax.ExplicitCapture != 0 {
		g.usedN = true
	}
	return s, true
}

func (g *rxGen) quant(s string) string {
	switch g.r.Intn(12) {
	case 0:
		return s + "*"
	case 1:
		return s + "+"
	case 2:
		return s + "?"
	case 3:
		return s + "{1,2}"
	case 4:
		return s + "*?"
	case 5:
		return s + "+?"
	}
	return s
}

// seq returns the sequence in two spellings: with inline settings "(?cs)" as generated, and with every
// setting rewritten as a group "(?cs: ... )" that extends to the end of the sequence.
func (g *rxGen) seq(depth int, allowSet bool) (string, string) {
	a, b, cl := g.seq3(depth, allowSet)
	return a, b + cl
}

// seq3 returns the closing parentheses of the rewritten spelling separately
func (g *rxGen) seq3(depth int, allowSet bool) (string, string, string) {
	var a, b strings.Builder
	open := 0
	n := 1 + g.r.Intn(4)
	for i := 0; i < n; i++ {
		switch k := g.r.Intn(100); {
		case k < 45:
			at := Pick(g.r, rxAtoms)
			q := at
			if len([]rune(at)) == 1 || strings.HasPrefix(at, "[") || (strings.HasPrefix(at, `\`) && at != `\b`) {
				q = g.quant(at)
			}
			a.WriteString(q)
			b.WriteString(q)
		case k < 52:
			cm := Pick(g.r, []string{"#c\n", "# (a)\n", "(?#c)", "(?#(a)", "#()\n", "# (?<n>a)\n"}) // balanced: neutral with x on (comment) and off (text)
			a.WriteString(cm)
			b.WriteString(cm)
		case k < 62 && allowSet:
			cs, _ := g.optCS()
			a.WriteString("(?" + cs + ")")
			b.WriteString("(?" + cs + ":")
			open++
		case k < 92 && depth < 3:
			x, y := g.group(depth)
			a.WriteString(x)
			b.WriteString(y)
		case k < 96 && len(g.names) > 0:
			nm := Pick(g.r, g.names)
			g.usedRef = true
			a.WriteString(`\k<` + nm + ">")
			b.WriteString(`\k<` + nm + ">")
		default:
			at := Pick(g.r, []string{"a", "b", "A"})
			a.WriteString(at)
			b.WriteString(at)
		}
	}
	return a.String(), b.String(), strings.Repeat(")", open)
}

func (g *rxGen) group(depth int) (string, string) {
	var pre string
	alt := false
	switch k := g.r.Intn(100); {
	case k < 30:
		pre = "("
		g.groupNo++
	case k < 45:
		nm := fmt.Sprintf("g%d", len(g.names)+1)
		g.names = append(g.names, nm)
		pre = "(?<" + nm + ">"
	case k < 60:
		pre = "(?:"
		alt = g.r.Chance(60)
	case k < 75:
		cs, _ := g.optCS()
		pre = "(?" + cs + ":"
	case k < 80:
		pre = "(?="
	case k < 84:
		pre = "(?!"
	case k < 88:
		pre = "(?<="
	case k < 91:
		pre = "(?<!"
	case k < 94:
		pre = "(?>"
	default:
		if len(g.names) > 0 {
			pre = "(?(" + Pick(g.r, g.names) + ")"
			x1, y1 := g.seq(depth+1, false)
			x2, y2 := g.seq(depth+1, false)
			return pre + x1 + "|" + x2 + ")", pre + y1 + "|" + y2 + ")"
		}
		pre = "("
		g.groupNo++
	}
	if alt || g.r.Chance(15) {
		// alternatives: no bare settings at this level (a setting would reach into the next alternative)
		x1, y1 := g.seq(depth+1, false)
		x2, y2 := g.seq(depth+1, false)
		return g.quant2(pre+x1+"|"+x2+")", pre+y1+"|"+y2+")")
	}
	x, y := g.seq(depth+1, true)
	return g.quant2(pre+x+")", pre+y+")")
}

func (g *rxGen) quant2(x, y string) (string, string) {
	if strings.HasPrefix(x, "(?=") || strings.HasPrefix(x, "(?!") || strings.HasPrefix(x, "(?<=") || strings.HasPrefix(x, "(?<!") {
		return x, y
	}
	switch g.r.Intn(10) {
	case 0:
		return x + "*", y + "*"
	case 1:
		return x + "?", y + "?"
	case 2:
		return x + "+?", y + "+?"
	}
	return x, y
}

// ---------- comparison of spellings ----------

func dumpNode(n *syntax.RegexNode, root bool, sb *strings.Builder) {
	if n == nil {
		sb.WriteString("nil")
		return
	}
	// the writer reads only these two bits of a node's options (writer.go emitFragment); the others differ
	// legitimately, e.g. on the root group's nodes, which are created before a leading (?O) is scanned
	o := n.Options & (syntax.RightToLeft | syntax.IgnoreCase)
	if root {
		o = 0 // the root capture keeps the options the pattern was compiled with (it is never reduced)
	}
	set := ""
	if n.Set != nil {
		set = n.Set.String()
	}
	fmt.Fprintf(sb, "(%d m%d n%d c%d s%q S%s o%x", n.T, n.M, n.N, n.Ch, string(n.Str), set, int(o))
	for _, ch := range n.Children {
		sb.WriteByte(' ')
		dumpNode(ch, false, sb)
	}
	sb.WriteByte(')')
}

type c18Compiled struct {
	err     error
	tree    string
	prog    string
	re      *regexp2.Regexp
	ngroups int
}

func c18Compile(pat string, o syntax.RegexOptions) (res c18Compiled) {
	defer func() {
		if p := recover(); p != nil {
			res.err = fmt.Errorf("panic: %v", p)
		}
	}()
	tree, err := syntax.Parse(pat, syntax.ParseOptions{RegexOptions: o})
	if err != nil {
		res.err = err
		return
	}
	var sb strings.Builder
	dumpNode(tree.Root, true, &sb)
	fmt.Fprintf(&sb, " caps=%d top=%d names=%q", len(tree.Caps), tree.Captop, tree.Caplist)
	res.tree = sb.String()
	code, err := syntax.Write(tree)
	if err != nil {
		res.err = err
		return
	}
	var pb strings.Builder
	fmt.Fprintf(&pb, "%v|", code.Codes)
	for _, s := range code.Strings {
		fmt.Fprintf(&pb, "%q,", string(s))
	}
	pb.WriteByte('|')
	for _, s := range code.Sets {
		pb.WriteString(s.String() + ",")
	}
	fmt.Fprintf(&pb, "|%d|%d|%v|%d", code.TrackCount, code.Capsize, code.RightToLeft, code.Anchors)
	res.prog = pb.String()
	re, err := regexp2.Compile(pat, regexp2.RegexOptions(o))
	if err != nil {
		res.err = err
		return
	}
	re.MatchTimeout = 2 * time.Second
	res.re = re
	return
}

func c18Result(re *regexp2.Regexp, in string) (s string) {
	defer func() {
		if p := recover(); p != nil {
			s = fmt.Sprint("panic: ", p)
		}
	}()
	m, err := re.FindStringMatch(in)
	if err != nil {
		return "err:" + err.Error()
	}
	if m == nil {
		return "-"
	}
	var sb strings.Builder
	for k := 0; m != nil && k < 3; k++ {
		for _, g := range m.Groups() {
			fmt.Fprintf(&sb, "%s:", g.Name)
			for _, cp := range g.Captures {
				fmt.Fprintf(&sb, "%d+%d,", cp.RuneIndex, cp.RuneLength)
			}
			sb.WriteByte(';')
		}
		sb.WriteByte('/')
		m, err = re.FindNextMatch(m)
		if err != nil {
			sb.WriteString("err:" + err.Error())
			break
		}
	}
	return sb.String()
}

func c18AllStrings(alpha []rune, maxLen int) []string {
	out := []string{""}
	prev := []string{""}
	for l := 1; l <= maxLen; l++ {
		var cur []string
		for _, p := range prev {
			for _, a := range alpha {
				cur = append(cur, p+string(a))
			}
		}
		out = append(out, cur...)
		prev = cur
	}
	return out
}

type c18Stats struct {
	combos, treeEq, progEq, compiled, errBoth, evals, inconclusive int
	progDiff                                          []string
}

// c18CheckPattern runs all spellings of pattern p (p4: the same with scoped settings) under base options o0.
// p4 + p4close is the rewritten spelling; a newline that terminates a trailing comment goes before p4close.
func c18CheckPattern(c *Ctx, kind, p, p4, p4close string, o0 syntax.RegexOptions, inputs []string, st *c18Stats, nontrivial bool) {
	base := map[syntax.RegexOptions]c18Compiled{}
	compileBase := func(o syntax.RegexOptions, pat string) c18Compiled {
		if r, ok := base[o]; ok && pat == p {
			return r
		}
		r := c18Compile(pat, o)
		if pat == p {
			base[o] = r
		}
		return r
	}
	for k := 0; k < 32; k++ {
		O := subsetOpts(k) &^ o0
		pp, pp4 := p, p4+p4close
		if O&syntax.IgnorePatternWhitespace != 0 || o0&syntax.IgnorePatternWhitespace != 0 {
			// a trailing "#..." comment must not swallow the wrapper's ")": terminate it in every spelling alike
			pp, pp4 = p+"\n", p4+"\n"+p4close
		}
		letters := optLettersOf(O, c.Rng)
		s1 := c18Compile(pp, o0|O)
		type sp struct {
			name string
			pat  string
			opts syntax.RegexOptions
			ref  c18Compiled
		}
		var sps []sp
		if O != 0 {
			sps = append(sps, sp{"leading (?O)", "(?" + letters + ")" + pp, o0, s1}, sp{"wrapping (?O:...)", "(?" + letters + ":" + pp + ")", o0, s1})
		} else {
			sps = append(sps, sp{"wrapping (?:...)", "(?:" + pp + ")", o0, s1})
		}
		if pp4 != pp {
			sps = append(sps, sp{"settings rewritten as scoped groups", pp4, o0 | O, s1})
		}
		if O != 0 {
			off := compileBase(o0, p)
			if pp != p {
				off = c18Compile(pp, o0)
			}
			sps = append(sps, sp{"leading (?-O) under O vs compiled without O", "(?-" + letters + ")" + pp, o0 | O, off})
		}
		for _, s := range sps {
			st.combos++
			desc := fmt.Sprintf("%s pattern=%+q base-options=%#x O=%q spelling %q: %+q", kind, pp, int(o0), optLettersOf(O, nil), s.name, s.pat)
			cs := &Case{Desc: desc, Nontrivial: nontrivial && s.ref.err == nil, Key: fmt.Sprintf("%s|%x|%x", pp, int(o0), int(O)), Class: "spelling/" + strings.Fields(s.name)[0]}
			got := c18Compile(s.pat, s.opts)
			switch {
			case s.ref.err != nil && got.err != nil:
				st.errBoth++
			case s.ref.err != nil:
				if s.name == "leading (?O)" || strings.HasPrefix(s.name, "leading (?-O)") {
					cs.Direct = fmt.Sprintf("reference spelling fails to compile (%v) but this one compiles", s.ref.err)
				}
			case got.err != nil:
				cs.Direct = fmt.Sprintf("reference spelling compiles but this one fails: %v", got.err)
			default:
				st.compiled++
				if got.tree == s.ref.tree {
					st.treeEq++
				} else if c.Tier == "debug" && st.treeEq%50 == 0 {
					fmt.Printf("TREE-DIFF %s\n  ref  %s\n  this %s\n", desc, s.ref.tree, got.tree)
				}
				if got.prog == s.ref.prog {
					st.progEq++
				}
				if got.re.GetGroupNames() != nil && fmt.Sprint(got.re.GetGroupNames()) != fmt.Sprint(s.ref.re.GetGroupNames()) {
					cs.Direct = fmt.Sprintf("group names differ: %q vs %q", got.re.GetGroupNames(), s.ref.re.GetGroupNames())
				}
				for _, in := range inputs {
					if cs.Direct != "" {
						break
					}
					st.evals++
					r1, r2 := c18Result(s.ref.re, in), c18Result(got.re, in)
					if strings.Contains(r1, "err:") || strings.Contains(r2, "err:") {
						st.inconclusive++ // a resource limit (match timeout, backtracking stack) was hit: load dependent
						continue
					}
					if r1 != r2 {
						cs.Direct = fmt.Sprintf("on input %+q the reference spelling gives %s, this spelling %s", in, r1, r2)
					}
				}
				if cs.Direct == "" && got.prog != s.ref.prog {
					cs.Class = "spelling/program-differs"
					if len(st.progDiff) < 8 {
						st.progDiff = append(st.progDiff, desc)
					}
				}
			}
			c.Add(cs)
		}
	}
}

func legC18Spellings(c *Ctx) {
	c.Rule("random patterns (literals of both cases, . ^ $ classes \\w \\s, spaces, # and (?#) comments, capturing/named/non-capturing/lookaround/atomic groups, alternation, greedy and lazy loops, named back-references and conditionals, " +
		"nested inline on/off option groups and settings) x base options {0 mostly, a random subset, RE2, ECMAScript} x all 32 subsets O of {i,m,n,s,x} x spellings {compile option, (?O)P, (?O:P), settings rewritten as scoped groups, (?-O)P under O vs P without O}; " +
		"inputs: all strings of length <= 3 over {a,A,b,newline,space} plus longer samples; non-trivial = reference compiles (distinct by pattern+options)")
	n := c.N(120, 2500)
	alpha := []rune{'a', 'A', 'b', '\n', ' '}
	inputs := c18AllStrings(alpha, 3)
	inputs = append(inputs, "ab ab", "aAbB\nab", "a b\n#c", "éÉab", "abab", "B a\nA")
	var st c18Stats
	var usedX, usedN, usedOnOff, usedRef int
	for i := 0; i < n; i++ {
		g := &rxGen{r: c.Rng}
		p, p4, p4close := g.seq3(0, true)
		if g.usedX {
			usedX++
		}
		if g.usedN {
			usedN++
		}
		if g.usedOnOf {
			usedOnOff++
		}
		if g.usedRef {
			usedRef++
		}
		var o0 syntax.RegexOptions
		switch k := c.Rng.Intn(100); {
		case k < 60:
		case k < 80:
			o0 = subsetOpts(c.Rng.Intn(32))
		case k < 90:
			o0 = syntax.RE2
		default:
			o0 = syntax.ECMAScript
		}
		c18CheckPattern(c, "generated", p, p4, p4close, o0, inputs, &st, true)
	}
	c.Hist("programs")
	c.res.Histogram["programs"] = st.compiled
	c.res.Histogram["tree-equal"] = st.treeEq
	c.res.Histogram["program-equal"] = st.progEq
	c.res.Histogram["both-fail"] = st.errBoth
	c.res.Histogram["match-evaluations"] = st.evals
	c.Gate("patterns with inline x", usedX > n/10)
	c.Gate("patterns with inline n", usedN > n/10)
	c.Gate("patterns with on-off option strings", usedOnOff > n/10)
	c.Gate("patterns with back-references", usedRef > n/20)
	c.Gate("most spellings compile", st.compiled > st.combos/2)
	c.Gate("trees equal for most spellings", st.treeEq*10 > st.compiled*8)
	if len(st.progDiff) > 0 && c.Tier == "debug" {
		fmt.Println(strings.Join(st.progDiff, "\n"))
	}
}

// ---------- harvested patterns ----------

func harvestPatterns(dir string) []string {
	seen := map[string]bool{}
	var out []string
	files, _ := filepath.Glob(filepath.Join(dir, "*_test.go"))
	more, _ := filepath.Glob(filepath.Join(dir, "*", "*_test.go"))
	files = append(files, more...)
	sort.Strings(files)
	fset := token.NewFileSet()
	for _, f := range files {
		af, err := parser.ParseFile(fset, f, nil, 0)
		if err != nil {
			continue
		}
		ast.Inspect(af, func(n ast.Node) bool {
			call, ok := n.(*ast.CallExpr)
			if !ok || len(call.Args) == 0 {
				return true
			}
			name := ""
			switch fn := call.Fun.(type) {
			case *ast.Ident:
				name = fn.Name
			case *ast.SelectorExpr:
				name = fn.Sel.Name
			}
			if name != "Compile" && name != "MustCompile" {
				return true
			}
			lit, ok := call.Args[0].(*ast.BasicLit)
			if !ok || lit.Kind != token.STRING {
				return true
			}
			s, err := strconv.Unquote(lit.Value)
			if err != nil || seen[s] || len(s) > 200 {
				return true
			}
			seen[s] = true
			out = append(out, s)
			return true
		})
	}
	return out
}

func legC18Harvest(c *Ctx) {
	c.Rule("every distinct string literal (<= 200 bytes) passed to Compile/MustCompile in /repo/**/*_test.go (extracted with go/ast at run time) x all 32 subsets O x spellings {compile option, (?O)P, (?O:P), (?-O)P under O vs P}; " +
		"inputs: strings of length <= 3 over up to four letters taken from the pattern plus newline, and the pattern text itself; non-trivial = reference compiles (distinct by pattern+options)")
	pats := harvestPatterns("/repo")
	c.Gate("patterns harvested", len(pats) > 100)
	if !c.Thorough && len(pats) > 110 {
		// a seed-dependent sample in the quick tier
		for i := len(pats) - 1; i > 0; i-- {
			j := c.Rng.Intn(i + 1)
			pats[i], pats[j] = pats[j], pats[i]
		}
		pats = pats[:110]
	}
	var st c18Stats
	for _, p := range pats {
		var alpha []rune
		seen := map[rune]bool{}
		for _, r := range p {
			if (r >= 'a' && r <= 'z' || r >= 'A' && r <= 'Z' || r >= '0' && r <= '9') && !seen[r] && len(alpha) < 3 {
				seen[r] = true
				alpha = append(alpha, r)
			}
		}
		if len(alpha) > 0 {
			up := []rune(strings.ToUpper(string(alpha[0])))[0]
			if !seen[up] {
				alpha = append(alpha, up)
			}
		}
		alpha = append(alpha, '\n')
		inputs := append(c18AllStrings(alpha, 3), p, strings.ToUpper(p), "a b\nc")
		c18CheckPattern(c, "harvested", p, p, "", 0, inputs, &st, true)
	}
	c.Hist("programs")
	c.res.Histogram["programs"] = st.compiled
	c.res.Histogram["tree-equal"] = st.treeEq
	c.res.Histogram["program-equal"] = st.progEq
	c.res.Histogram["both-fail"] = st.errBoth
	c.res.Histogram["match-evaluations"] = st.evals
	c.res.Histogram["resource-limit-inconclusive"] = st.inconclusive
	c.Gate("most spellings compile", st.compiled > st.combos/2)
}
