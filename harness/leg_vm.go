package main

import (
	"errors"
	"fmt"
	"strings"
	"time"

	"github.com/dlclark/regexp2/v2"
	"github.com/dlclark/regexp2/v2/syntax"
)

func init() {
	registerLeg("c13-vm", "C13", legVM)
}

func encProgram(code *syntax.Code, codes []int) []int64 {
	out := []int64{int64(len(codes))}
	for _, w := range codes {
		out = append(out, int64(w))
	}
	out = append(out, int64(len(code.Strings)))
	for _, s := range code.Strings {
		out = append(out, encRunes(s)...)
	}
	out = append(out, int64(code.TrackCount), int64(code.Capsize))
	return out
}

func codeSets(code *syntax.Code) []setFn {
	var sets []setFn
	for _, cs := range code.Sets {
		cs := cs
		sets = append(sets, func(r rune) bool { return cs.CharIn(r) })
	}
	return sets
}

// encVMResult encodes what the accelerator-free scan of the implementation returned, in e_vm_match format.
func encVMResult(m *regexp2.Match, trackCap int, err error, panicked any) []int64 {
	if panicked != nil {
		return []int64{2, 0}
	}
	if err != nil {
		if errors.Is(err, regexp2.ErrBacktrackingStackLimit) {
			return []int64{1, 1}
		}
		return []int64{1, 99}
	}
	if m == nil {
		return []int64{0, 0}
	}
	out := []int64{0, 1, int64(m.VerifTextpos())}
	gs := m.Groups()
	out = append(out, int64(len(gs)))
	for _, g := range gs {
		out = append(out, int64(len(g.Captures)))
		for _, cp := range g.Captures {
			out = append(out, int64(cp.RuneIndex), int64(cp.RuneLength))
		}
	}
	return append(out, int64(trackCap))
}

func fullCfg(r *Rng, o Opts, depth int) GenCfg {
	return GenCfg{Lits: Pick(r, litPool), MaxDepth: depth, NullableReps: true, Look: true, Behind: true, Backref: true,
		Cond: true, Atomic: true, Named: true, OptGroup: true, Anchors: []string{"^", "$", `\A`, `\z`, `\Z`, `\b`, `\B`, `\G`},
		Classes: true, Shorthand: true, MaxRep: 4, Opts: o}
}

var vmLimits = []int{-1, 100000, 0, 1, 2, 3, 7, 8, 15, 16, 31, 32, 33, 47, 48, 63, 64, 65, 100, 127, 128, 129, 200, 257, 300, 1000}

const vmFuel = 3000 // chunks of 1000 opcodes

// stress patterns for the capacity argument: optional-item loop bodies push more per iteration than 2*trackcount
func stressPatterns() []string {
	return []string{
		`(?:a?b?c?d?e?f?g?h?i?j?k?)*z`, `(?:ab?)*c`, `(a|b)*z`, `(\w)*z`, `(?:(a)|(b)|(c))*d`, `(?:a??b??c??)*?z`,
		`((a)*b?)*c`, `(?:a{0,3}b{1,2}?)*c`, `(?>(?:a?b?)*)z`, `(?=(?:a?b?)*z)a`, `(?:(?<x>a)|(?<-x>b))*c`, `(?<![ab]*c)(?:a|b)*z`, `(?<u>a)(?<=(?<g-u>a)aa)\\k<g>`, `(?<a>a)+(?<b-a>b)+\\k<b>?c`, `(?<o>\\()*[^()]*(?<c-o>\\))*`, `(?<x>a)(?<y-x>b)(?(y)c|d)`, `(?:(?<o>a)|(?<c-o>b))+`, `^(?:(?<o>a)|(?<-o>b))+=\\k<o>$`, `(?:(?<o>a)|(?<c-o>b)|c)*(?(o)x|y)`,
	}
}

// legVM: the model interpreter on the REAL code words against the implementation's accelerator-free scan,
// for a range of backtracking stack limits; compares result, captures, text position, error kind and
// the capacity the backtracking stack grew to.
func legVM(c *Ctx) {
	c.Rule("random ASTs over the full generator syntax (nullable loops, lookaround, conditionals, backrefs, \\G; depth<=5) and capacity stress patterns, compiled with MaxBacktrackingStackSize L from {-1,default,0..3,7,8,15,16,31..33,47,48,63..65,100,127..129,200,257,300,1000}; inputs: short strings over the pattern alphabet and long repetitive strings; the model VM runs the exported Code.Codes; non-trivial = match found or stack-limit error (distinct by pattern,L,input,start)")
	nPat := c.N(160, 3000)
	classes := map[string]int{}
	pats := []struct {
		pat string
		o   Opts
		ast *Ast
	}{}
	for _, p := range stressPatterns() {
		pats = append(pats, struct {
			pat string
			o   Opts
			ast *Ast
		}{p, Opts{}, nil})
	}
	// the same for right-to-left code (opcodes carrying the Rtl bit count towards TrackCount like their left-to-right
	// forms): chains of character loops under RightToLeft and inside lookbehinds
	rtlStress := []string{`a*b*a*b*a*`, `[ab]+-[ab]+-[ab]+-[ab]+`, `a*b*a*b*a*b*a*b*a*b*a*b*z?`, `(?:ab?)*c`, `(a|b)*z`, `(?:a?b?)*z`}
	for _, p := range rtlStress {
		pats = append(pats, struct {
			pat string
			o   Opts
			ast *Ast
		}{p, Opts{RTL: true}, nil})
	}
	for _, p := range []string{`(?<=a*b*a*b*a*b*a*b*a*b*a*)z`, `(?<=[ab]+-[ab]+-[ab]+)z`, `(?<!a*b*a*b*a*b*c)z`} {
		pats = append(pats, struct {
			pat string
			o   Opts
			ast *Ast
		}{p, Opts{}, nil})
	}
	nStress := len(stressPatterns()) + len(rtlStress) + 3
	for i := 0; i < nPat; i++ {
		o := randOpts(c.Rng, c.Rng.Chance(20))
		o.RE2 = false
		if c.Rng.Chance(10) {
			o.ECMA = true
		}
		ast := GenAst(c.Rng, fullCfg(c.Rng, o, 2+c.Rng.Intn(4)))
		pats = append(pats, struct {
			pat string
			o   Opts
			ast *Ast
		}{ast.Pattern(o, c.Rng), o, ast})
	}
	for pi, pp := range pats {
		nl := 3
		if pi < nStress {
			nl = len(vmLimits)
		}
		for li := 0; li < nl; li++ {
			L := vmLimits[li]
			if nl == 3 {
				L = Pick(c.Rng, vmLimits)
			}
			re, err := regexp2.Compile(pp.pat, toRegexOptions(pp.o), regexp2.OptionMaxBacktrackingStackSize(L))
			if err != nil {
				classes["compile-error"]++
				break
			}
			re.MatchTimeout = 150 * time.Millisecond
			code := re.VerifCode()
			prog := encProgram(code, code.Codes)
			sets := codeSets(code)
			var alpha []rune
			if pp.ast != nil {
				alpha = append(pp.ast.alphabet(pp.o), '\n')
			} else {
				alpha = []rune("abcdefghijkz")
			}
			var inputs [][]rune
			if pp.ast == nil {
				allStrings([]rune{'a', 'b'}, 6, func(x []rune) {
					if len(x) >= 4 && c.Rng.Chance(60) {
						inputs = append(inputs, x)
					}
				})
				inputs = append(inputs, []rune("ab=a"), []rune("aab=a"), []rune("abab=a"), []rune("aabab=a"), []rune("ab-ba-ab-ba"), []rune("aabbaabbaabbz"), []rune("ab-ab-abz"), []rune("z"))
				for _, n := range []int{0, 1, 3, 8, 12, 13, 16, 31, 40} {
					inputs = append(inputs, []rune(strings.Repeat("ab", n)+"z"), []rune(strings.Repeat("abcdefghijk", n)+"z"), []rune(strings.Repeat("ab", n)+"c"), []rune(strings.Repeat("abc", n)+"d"))
				}
			} else {
				for k := 0; k < 6; k++ {
					inputs = append(inputs, randString(c.Rng, alpha, 3+c.Rng.Intn(12)))
				}
				inputs = append(inputs, []rune(strings.Repeat(string(alpha[:min(2, len(alpha))]), 10+c.Rng.Intn(30))))
			}
			for _, in := range inputs {
				start := 0
				if pp.o.RTL {
					start = len(in)
				}
				if c.Rng.Chance(20) && len(in) > 0 {
					start = c.Rng.Intn(len(in) + 1)
				}
				prevlen := -1
				if c.Rng.Chance(15) {
					prevlen = 0
				}
				var m *regexp2.Match
				var tcap int
				var err error
				var pan any
				t0 := time.Now()
				func() {
					defer func() { pan = recover() }()
					m, tcap, err = re.VerifNaiveScanCap(in, start, start, prevlen)
				}()
				slow := time.Since(t0) > 3*time.Millisecond
				desc := fmt.Sprintf("pattern %q opts=%s L=%d input %+q start=%d prevlen=%d", pp.pat, pp.o, L, string(in), start, prevlen)
				if err != nil && !errors.Is(err, regexp2.ErrBacktrackingStackLimit) {
					classes["timeout-skipped"]++
					continue // timeout: the model has no clock
				}
				cs := &Case{Desc: desc, ModelLeg: 1301, ImplOut: encVMResult(m, tcap, err, pan),
					Nontrivial: m != nil || err != nil, Key: desc}
				if pan != nil {
					cs.Direct = fmt.Sprintf("interpreter panicked: %v", pan)
				}
				if L >= 0 && tcap > L {
					cs.Direct = fmt.Sprintf("backtracking stack capacity %d exceeds the limit %d", tcap, L)
				}
				switch {
				case err != nil:
					cs.Class = "stack-limit"
				case m != nil:
					cs.Class = "match"
				default:
					cs.Class = "no-match"
				}
				classes[cs.Class]++
				if slow {
					// too many interpreter steps for the (much slower) model: keep the direct observables only
					classes["model-skipped-slow"]++
					cs.ModelLeg = 0
					c.Add(cs)
					continue
				}
				env := encEnv(in, start, pp.o, sets, nil)
				cs.ModelIn = append(append(env, prog...), int64(L), b2i(pp.o.RTL), int64(start), int64(prevlen), vmFuel)
				c.Add(cs)
			}
		}
	}
	for _, k := range []string{"stack-limit", "match", "no-match"} {
		c.Gate("result class "+k+" exercised", classes[k] > 0)
	}
	for k, v := range classes {
		c.Hist(k + "-total")
		c.res.Histogram[k+"-total"] = v
	}
}
