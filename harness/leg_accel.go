package main

// Direct observables for C03 (search acceleration is transparent) and C04 (published compile-time
// facts hold at every real match), using the accelerator-free scan / single-position attempt hooks.

import (
	"fmt"
	"strings"
	"time"
	"unicode"
	"unicode/utf8"

	"github.com/dlclark/regexp2/v2"
	"github.com/dlclark/regexp2/v2/syntax"
)

func init() {
	registerLeg("c03-accel", "C03", legAccel)
	registerLeg("c04-facts", "C04", legFacts)
}

type patCase struct {
	pat   string
	o     Opts
	ast   *Ast
	alpha []rune
	cg    bool // OptionIsCodeGen
}

// shapes each FindMode recognises (instantiated over a few literals)
var accelShapes = []string{
	`^abc`, `\Aab+c`, `\Gab`, `(?=\G)abc`, `\G{2}abc`, `ab(?<=\Gab)c`, `abc$`, `ab\z`, `a[bc]d\z`, `^\s*a`, `$`, `\z`, `\Z`,
	`abc\w+`, `abcd`, `ab+c`, `(?i)abc\d`, `(?i)ab[cd]`, `(?:abc|abd|xyz)\d`, `(?i)(?:abc|xbd)\w`, `abc|abd|ab`, `(abc|def)+x`,
	`.b`, `\w\wc`, `[ab].[cd]`, `..abc`, `[ab]b`, `[^a]b`, `a.c`, `\d[a-c]x`,
	`\w*@x`, `[^,]*,`, `a*b`, `\s*=`, `[ab]*c+d`, `a*?b`, `\w+:`, `(?>a*)b`,
	`\w+@\w+\.com`, `[\w-]+\s*=\s*\d+`, `[a-z]+ = [0-9]+;`,
	`[abc]\d`, `\d+x`, `[a-c]+`, `a|b|c`, `ab|.c`, `a|.`, `(?:a|b)c|d`, `a?b`, `(a)?b`, `(?=ab)a.`, `(?=a)\w+`, `(?!b)\w`, `(?<=a)b`,
	`\W?[^a]`, `(\W|)[^a]`, `\D?[^1]`, `\S?[^ ]`, `[\x00-\x60]?[^b]`,
	`(?((a))\1)-`, `(?((a))\1|)-`, `(a)?(?(1)\1|)b`, `(?(?=a)\w\w|)-`,
	`[ae]*(?:\s*x| )b[cd]`, `[xy]*(?:abc|b)c(d)`, `[xy]*(?:[a ]{1,3}\s+|q)b(d)`, `[ab]*(?:\s+c|cd?)d\w`, `\w*(?:ab|a)b(c)`,
	`[ac]*[ab]{1,2}a`, `a*[ab]{1,2}[a-]`, `[ac]+[ab]{1,3}b[ab]{1,2}a`, `\w*[ab]{2,3}b`, `(?>a+)?ab`, `(?>a*)?aab`, `(?>a{1,2}){2}`, `(?<=(?:a*ba){2})`, `(?<=(?:a*$){2})`,
	`(a*c?)b\1`, `(\w+,)\1`, `(a+b?)\1c`, `(?<w>\w+ )\k<w>`, `([ab]+c?)d\1`,
	// several leading literals whose occurrences overlap in the text (the earliest START wins, whichever literal is found first)
	`cd|bcde`, `(?:cd|bcde)\d`, `bc|abcd`, `(?i)cd|bcde`, `(?:ab|ba)c`, `bcd|abc|cde`, `(?:da|ab|bcd)x`, `(?i:bc|abcd)e`,
	// literals longer than the Boyer-Moore prefix limit (50 runes): the scan keeps the head (left-to-right) or the tail (right-to-left)
	`abcdefghijklmnopqrstuvwxyzabcdefghijklmnopqrstuvwxyzabc`, `abcdefghijklmnopqrstuvwxyzabcdefghijklmnopqrstuvwxyz`, `(?i)abcdefghijklmnopqrstuvwxyzabcdefghijklmnopqrstuvwxyzabcdefgh`, `abcdefghijklmnopqrstuvwxyzabcdefghijklmnopqrstuvwx\d`,
	// shapes straddling the size thresholds of the analyses: MultiVsRepeaterLimit 64, maxPrefixes 16, maxPrefixLength 8,
	// maxStringFilterLiteralLen 8, maxLoopExpansion 20, MaxSetsToUse 3, nesting depth 32
	`a{63}b`, `a{64}b`, `a{65}b`, `(?:ab){33}c`, `[ab]{19}c`, `[ab]{20}c`, `[ab]{21}c`,
	`(?:aa|ab|ac|ad|ba|bb|bc|bd|ca|cb|cc|cd|da|db|dc|dd)z`, `(?:aa|ab|ac|ad|ba|bb|bc|bd|ca|cb|cc|cd|da|db|dc|dd|xa)z`, `(?i:aa|ab|ac|ad|ba|bb|bc|bd|ca|cb|cc|cd|da|db|dc|dd|xa)z`,
	`(?:abcdefgh|abcdefgx)y`, `(?:abcdefghij|abcdefghix)k`, `(?i)abcdefghijk`, `(?i:abcdefghi|abcdefghx)z`, `.abcdefgh`, `.abcdefghijk`, `[ab]abcdefghi\d`, `\w\dabcdefghij`,
	`[ab][cd][xy][ab]z`, `[ab][cd][xy][ab][cd]`, `(?:(?:(?:(?:(?:(?:(?:(?:(?:(?:(?:(?:(?:(?:(?:(?:(?:(?:(?:(?:(?:(?:(?:(?:(?:(?:(?:(?:(?:(?:(?:(?:(?:(?:ab))))))))))))))))))))))))))))))))))c`,
	`.aa`, `[^x]aba`, `..abab`, `.éé`, `[ab]aa\d`, `(?i).aa`,
	`(?:ab)*c`, `(ab)?c`, `(?:ab){0,3}c`, `(?:ab)+c`, `(?:ab){2}c`, `(?:[ab]c)*d`, `(?:a|b)*c`, `(?=ab)a?b`,
	`abab`, `abca\d`, `abab\w`, `aba`, `abcab`, `(?i)abab`,
	`[ab]{25}c`, `[ab]{21}cd`, `\w{22}x`, `[a-c]{30}`, `a{25}b`, `[a-z]+(?:@|\d+)[a-z]+(?:\.|,)[a-z]+`, `\w+(?:-|\s+)\w+(?:=|\d)\w+`, `[a-z]+(?:x|[0-9]{2})[a-z]+(?:;|y+)z`,
	`\bab`, `\Bab`, `a{3}`, `a{2,}b`, `(?:ab){2}`, `(?:ab*){2}`, `(ab*)+c`, `[a-c]{2}d`, `é+a`, `a😀b`,
}

// shapes that need their own alphabet (astral runes, surrogates in rune slices, multi-byte literals sharing a lead byte)
var accelWideShapes = []struct {
	pat   string
	alpha []rune
}{
	{`[^\x{10000}]`, []rune{'a', 0xfffe, 0xffff, 0x10000, 0x10001, 0x10ffff}},
	{`a[^\x{10000}]`, []rune{'a', 0xffff, 0x10000, 0x10001}},
	{`[^\x{ffff}]b`, []rune{'b', 0xfffe, 0xffff, 0x10000, 0x10001}},
	{`[^\x{10ffff}]`, []rune{'a', 0x10fffe, 0x10ffff, 0}},
	{`[^\x00]a`, []rune{'a', 0, 1, 0x10ffff}},
	{`[xy]\x{D800}a`, []rune{'x', 'y', 'a', 0xd800, 0xfffd, 'b'}},
	{`ab\x{DFFF}`, []rune{'a', 'b', 0xdfff, 0xfffd}},
	{`x[a\x{D800}]|y[a\x{D801}]`, []rune{'x', 'y', 'a', 0xd800, 0xd801}},
	{`[a\x{D800}][a\x{D801}]`, []rune{'a', 0xd800, 0xd801}},
	{`xb\x{D800}|yb\x{D801}`, []rune{'x', 'y', 'b', 0xd800, 0xd801}},
	{`\x{D800}{2}a?`, []rune{'a', 0xd800, 0xfffd}},
	{`(?>\x{D800}{2}?)b`, []rune{'b', 0xd800, 0xfffd}},
	{`\x{DC00}{3}`, []rune{0xdc00, 0xfffd, 'a'}},
	{`[^ÃÂ]*(?:éx|èy)`, []rune{'a', 'x', 'y', 'é', 'è', 'Ã', 'Â'}},
	{`[^ÃÂ]*(?:(é)|(è))`, []rune{'a', 'é', 'è', 'Ã', 'Â', 'ê'}},
	{`[^x]*(?:€a|₭b)`, []rune{'a', 'b', 'x', '€', '₭', '₮'}},
	{`\w*(?:é|è)x`, []rune{'a', 'x', 'é', 'è', 'Ã', ' '}},
	{`(?:éx|èy)z`, []rune{'x', 'y', 'z', 'é', 'è', 'Ã'}},
	{`aéx|aèy`, []rune{'a', 'x', 'y', 'é', 'è', 'Ã'}},
	{`(?:aé|aè)+z`, []rune{'a', 'z', 'é', 'è', 'Ã'}},
	{`\x{ffff}b`, []rune{'b', 'x', 0xffff, 0xfffe}},
	{`b\x{ffff}`, []rune{'b', 'y', 0xffff, 0xfffe}},
	{`a\x{ffff}\x{ffff}b`, []rune{'a', 'b', 0xffff}},
	// two non-letters that differ only in bit 0x20 are NOT a case pair (an ordinal-ignore-case prefix may fold letters only)
	{`[\[{]"\w+`, []rune{'[', '{', '"', 'k', ';'}},
	{`[\]}],`, []rune{']', '}', ',', 'a'}},
	{`(?:[\[{]1|[\]}]2)x`, []rune{'[', '{', ']', '}', '1', '2', 'x'}},
	{`[@\x60]1\d`, []rune{'@', '`', '1', '2'}},
	{`[\\|]-a`, []rune{'\\', '|', '-', 'a'}},
	{`[\t)]2`, []rune{'\t', ')', '2', '('}},
	{`(?i)(?:_id\d)+`, []rune{'_', '?', 'i', 'I', 'd', 'D', '1'}},
	{`(?i)(?:@at)+x`, []rune{'@', '`', 'a', 'A', 't', 'T', 'x'}},
	{`(?i)(?:\[k\])+`, []rune{'[', '{', ']', '}', 'k', 'K'}},
	{`(?i)ǅa`, []rune{'a', 'A', 'ǅ', 'ǆ', 'Ǆ'}},
	{`(?i)Ⅰb`, []rune{'b', 'B', 'Ⅰ', 'ⅰ'}},
}

// string-valued facts (LeadingPrefix, LeadingPrefixes, FixedDistanceLiteral.S, LiteralAfterLoop.String) are Go strings and
// cannot hold a lone surrogate: they are compared with the text in string space, i.e. after the conversion string(runes)
// that replaces every invalid rune by U+FFFD (that the RUNNER handles such runes correctly is C03's business: c03-accel)
func strView(rs []rune) []rune {
	out := make([]rune, len(rs))
	for i, r := range rs {
		if !utf8.ValidRune(r) {
			r = utf8.RuneError
		}
		out[i] = r
	}
	return out
}

func shapePatterns(r *Rng) []patCase {
	var out []patCase
	for _, w := range accelWideShapes {
		for _, rtl := range []bool{false, true} {
			for _, cg := range []bool{false, true} {
				out = append(out, patCase{pat: w.pat, o: Opts{RTL: rtl}, alpha: w.alpha, cg: cg})
			}
		}
	}
	for _, s := range accelShapes {
		for _, rtl := range []bool{false, true} {
			for _, cg := range []bool{false, true} {
				o := Opts{RTL: rtl}
				if strings.Contains(s, `\G`) && rtl {
					continue
				}
				out = append(out, patCase{pat: s, o: o, alpha: []rune{'a', 'b', 'c', 'd', 'x', '@', '.', '1', ' ', '=', ',', 'A', '\n', 'é', '😀', ';', ':', 'o', 'm', 'y', 'z', 'e', 'f'}, cg: cg})
			}
		}
		// the shorthand classes differ under ECMAScript and RE2 (ranges instead of categories)
		if strings.Contains(s, `\W`) || strings.Contains(s, `\D`) || strings.Contains(s, `\S`) || strings.Contains(s, `\w`) || strings.Contains(s, `\d`) || strings.Contains(s, `\s`) {
			for _, o := range []Opts{{ECMA: true}, {RE2: true}} {
				out = append(out, patCase{pat: s, o: o, alpha: []rune{'a', 'b', 'c', 'x', '@', '.', '1', ' ', '=', ',', 'A', '\n', 'é', '_', '-'}})
			}
		}
	}
	return out
}

func genPatterns(r *Rng, n int, full bool) []patCase {
	var out []patCase
	for i := 0; i < n; i++ {
		o := randOpts(r, r.Chance(20))
		o.X = false
		var cfg GenCfg
		if full {
			cfg = fullCfg(r, o, 2+r.Intn(3))
		} else {
			cfg = c01Cfg(r, o, 2+r.Intn(3))
		}
		ast := GenAst(r, cfg)
		al := append(ast.alphabet(o), '\n', 'Z')
		out = append(out, patCase{pat: ast.Pattern(o, r), o: o, ast: ast, alpha: al, cg: r.Chance(30)})
	}
	return out
}

func (p patCase) compile(extra ...regexp2.CompileOption) (*regexp2.Regexp, error) {
	opts := []regexp2.CompileOption{toRegexOptions(p.o)}
	if p.cg {
		opts = append(opts, regexp2.OptionIsCodeGen())
	}
	opts = append(opts, extra...)
	re, err := regexp2.Compile(p.pat, opts...)
	if err == nil {
		re.MatchTimeout = 300 * time.Millisecond
	}
	return re, err
}

// inputs with near-misses of the pattern's literals at every offset and lengths around the minimum
func accelInputs(r *Rng, p patCase, n int) [][]rune {
	var out [][]rune
	lits := []rune{}
	for _, c := range p.pat {
		if unicode.IsLetter(c) || unicode.IsDigit(c) || c == '@' || c == '.' || c == '=' || c == ',' || c == ' ' || c == ';' || c == ':' {
			lits = append(lits, c)
		}
	}
	if len(lits) == 0 {
		lits = []rune{'a'}
	}
	al := append([]rune{}, p.alpha...)
	if !strings.ContainsAny(p.pat, `\.+*?()|[]{}^$#`) {
		// a plain literal: the text itself, embedded, doubled, and with its first / last rune damaged
		lit := []rune(p.pat)
		out = append(out, append([]rune{}, lit...), append(append([]rune{'x', 'x'}, lit...), 'y', 'y'), append(append([]rune{}, lit...), lit...))
		if len(lit) > 1 {
			out = append(out, append(append([]rune{}, lit[1:]...), lit...), append(append([]rune{}, lit...), lit[:len(lit)-1]...))
		}
	}
	for i := 0; i < n; i++ {
		switch r.Intn(4) {
		case 0:
			out = append(out, randString(r, al, 8))
		case 1:
			// the pattern's own literal letters, shuffled around with one foreign rune
			s := append([]rune{}, lits...)
			for k := 0; k < 3 && len(s) > 0; k++ {
				s[r.Intn(len(s))] = Pick(r, al)
			}
			pre := randString(r, al, 3)
			out = append(out, append(pre, s...))
		case 2:
			s := randString(r, lits, 2+len(lits))
			out = append(out, append(randString(r, al, 2), s...))
		default:
			out = append(out, randString(r, append(lits, '\n', ' '), 6))
		}
	}
	if strings.Contains(p.pat, "{2") || strings.Contains(p.pat, "{3") {
		for _, n := range []int{19, 20, 21, 22, 24, 25, 26, 29, 30, 31} {
			run := randString(r, []rune{'a', 'b'}, 0)
			for len(run) < n {
				run = append(run, Pick(r, []rune{'a', 'b', 'a', 'b', 'c'}[:2+r.Intn(2)]))
			}
			out = append(out, append(append(randString(r, []rune{'x', 'a'}, 2), run...), []rune(Pick(r, []string{"c", "cd", "x", "b", "", "cx"}))...))
		}
	}
	// an occurrence of the pattern's letters right after / before a non-ASCII rune and after a partial occurrence
	if len(lits) >= 2 {
		full := append([]rune{}, lits...)
		half := full[:len(full)/2+1]
		out = append(out, append([]rune("c\u00e9"), full...), append(append(append([]rune{}, full...), []rune(" c\u00e9")...), full...),
			append(append([]rune{}, full...), []rune("\u00e9c")...), append(append(append([]rune{}, half...), '\u00e9'), full...), append(append([]rune{}, half...), full...))
	}
	out = append(out, nil, []rune{lits[0]})
	return out
}

func matchEq(a, b *regexp2.Match) bool {
	if (a == nil) != (b == nil) {
		return false
	}
	if a == nil {
		return true
	}
	return eqInts(encMatch(a, nil), encMatch(b, nil))
}

func matchStr(m *regexp2.Match) string {
	if m == nil {
		return "nil"
	}
	return fmt.Sprint(encMatch(m, nil)[2:])
}

// legAccel: real search (with every accelerator) == accelerator-free scan of the same program;
// and the candidate finder never skips a position at which an attempt succeeds.
func legAccel(c *Ctx) {
	c.Rule("patterns: shapes recognised by each FindMode x {LTR,RTL} x {code-gen analysis off,on}, random ASTs, harvested test patterns; inputs: near-misses of the pattern literals at every offset, short inputs around the minimum length, multi-byte runes; every start offset; compared: FindRunesMatchStartingAt / FindStringMatchStartingAt vs the accelerator-free scan (hook), and the candidate finder's answer at every position vs the positions where a single attempt succeeds; non-trivial = a match exists and the pattern has a FindMode other than NoSearch or a string prefilter (distinct by pattern,options,input,start)")
	pats := shapePatterns(c.Rng)
	pats = append(pats, genPatterns(c.Rng, c.N(500, 12000), true)...)
	for _, h := range harvestedPatterns() {
		pats = append(pats, patCase{pat: h, alpha: []rune("abcxyz01 \n-_@.AZé")})
	}
	modes := map[string]int{}
	for _, p := range pats {
		re, err := p.compile()
		if err != nil {
			continue
		}
		code := re.VerifCode()
		mode := "nil"
		if code.FindOptimizations != nil {
			mode = code.FindOptimizations.FindMode.String()
		}
		modes[mode]++
		if re.VerifHasStringPrefixFilter() {
			modes["string-prefilter"]++
		}
		accelerated := mode != "NoSearch" || re.VerifHasStringPrefixFilter() || code.FcPrefix != nil || code.BmPrefix != nil || code.Anchors != 0
		for _, in := range accelInputs(c.Rng, p, c.N(14, 40)) {
			n := len(in)
			// success table of single attempts (origin = start of this search)
			for _, start := range []int{0, n, c.Rng.Intn(n + 1)} {
				if p.o.RTL && start == 0 && n > 0 && c.Rng.Bool() {
					start = n
				}
				desc := fmt.Sprintf("pattern %q opts=%s cg=%v mode=%s input %+q start=%d", p.pat, p.o, p.cg, mode, string(in), start)
				real, err1 := re.FindRunesMatchStartingAt(in, start)
				naive, err2 := re.VerifNaiveScan(in, start, start, -1)
				if err1 != nil || err2 != nil {
					c.Hist("timeout-skipped")
					continue
				}
				cs := &Case{Desc: desc, Nontrivial: naive != nil && accelerated, Key: desc, Class: "rune-entry"}
				if !matchEq(real, naive) {
					cs.Direct = fmt.Sprintf("accelerated search returned %s, accelerator-free scan returned %s", matchStr(real), matchStr(naive))
				}
				c.Add(cs)
				// string entry point (raw-string prefilter) when the runes are a valid string and start is representable
				if !p.o.RTL {
					s := string(in)
					if []rune(s) != nil && len([]rune(s)) == n && validRunes(in) {
						bstart := len(string(in[:start]))
						sm, err := re.FindStringMatchStartingAt(s, bstart)
						if err == nil {
							cs2 := &Case{Desc: desc + " [string entry]", Nontrivial: naive != nil && re.VerifHasStringPrefixFilter(), Key: desc + "s", Class: "string-entry"}
							if !matchEq(sm, naive) {
								cs2.Direct = fmt.Sprintf("string search returned %s, accelerator-free scan returned %s", matchStr(sm), matchStr(naive))
							}
							c.Add(cs2)
						}
						// bool entry (quick program + prefilter)
						if start == 0 {
							ok, err := re.MatchString(s)
							if err == nil && ok != (naive != nil) {
								c.Add(&Case{Desc: desc + " [MatchString]", Direct: fmt.Sprintf("MatchString=%v but accelerator-free scan match=%v", ok, naive != nil), Class: "bool-entry"})
							}
						}
					}
				}
				// candidate finder vs attempt table, from a few positions
				if c.Rng.Chance(35) {
					succ := make([]bool, n+1)
					for q := 0; q <= n; q++ {
						m, err := re.VerifAttemptAt(in, q, start)
						succ[q] = err == nil && m != nil
					}
					for _, q := range []int{start, c.Rng.Intn(n + 1)} {
						if (!p.o.RTL && q < start) || (p.o.RTL && q > start) {
							continue
						}
						cut, found, np := re.VerifFindFirstChar(in, q, start)
						first := -1
						if !p.o.RTL {
							for x := q; x <= n; x++ {
								if succ[x] {
									first = x
									break
								}
							}
						} else {
							for x := q; x >= 0; x-- {
								if succ[x] {
									first = x
									break
								}
							}
						}
						cs3 := &Case{Desc: fmt.Sprintf("%s finder from %d -> cut=%v found=%v pos=%d; first successful attempt at %d", desc, q, cut, found, np, first), Class: "finder", Nontrivial: first >= 0 && accelerated}
						if first >= 0 {
							switch {
							case cut || !found:
								// the scan loop bumps once after a failed finder call unless it ended at the far end
								stop := n
								if p.o.RTL {
									stop = 0
								}
								if cut || np == stop || beyond(p.o.RTL, np, first) {
									cs3.Direct = "candidate finder gave up although an attempt succeeds at a later position"
								}
							case beyond(p.o.RTL, np, first):
								cs3.Direct = "candidate finder skipped past a position at which an attempt succeeds"
							}
						}
						c.Add(cs3)
					}
				}
			}
		}
	}
	for _, m := range []string{"LeadingAnchor_LeftToRight_Beginning", "LeadingAnchor_LeftToRight_Start", "TrailingAnchor_FixedLength_LeftToRight_End",
		"LeadingString_LeftToRight", "LeadingString_RightToLeft", "LeadingString_OrdinalIgnoreCase_LeftToRight", "LeadingStrings_OrdinalIgnoreCase_LeftToRight",
		"LeadingSet_LeftToRight", "LeadingSet_RightToLeft", "LeadingChar_RightToLeft", "FixedDistanceChar_LeftToRight", "FixedDistanceString_LeftToRight",
		"FixedDistanceSets_LeftToRight", "LiteralAfterLoop_LeftToRight", "RequiredLandmarkChain_LeftToRight", "NoSearch", "string-prefilter"} {
		c.Gate("find mode "+m+" exercised", modes[m] > 0)
	}
	for k, v := range modes {
		c.res.Histogram["mode:"+k] = v
	}
}

func beyond(rtl bool, np, first int) bool {
	if rtl {
		return np < first
	}
	return np > first
}

func validRunes(rs []rune) bool {
	for _, r := range rs {
		if r < 0 || r > unicode.MaxRune || (r >= 0xD800 && r <= 0xDFFF) {
			return false
		}
	}
	return true
}

func hasPrefixFold(text, prefix []rune, ci bool) bool {
	if len(text) < len(prefix) {
		return false
	}
	for i, c := range prefix {
		x := text[i]
		if ci {
			if unicode.ToLower(x) != unicode.ToLower(c) {
				return false
			}
		} else if x != c {
			return false
		}
	}
	return true
}

// legFacts: every published compile-time fact is true at every position where the pattern really matches.
func legFacts(c *Ctx) {
	c.Rule("patterns: FindMode shapes x {LTR,RTL} x {code-gen analysis off,on}, random ASTs, harvested patterns; for every string up to length 4 (quick; 5 thorough, sampled when large) over the pattern alphabet plus random longer strings, at EVERY position where a single anchored attempt (hook) succeeds, check: MinRequiredLength, MaxPossibleLength, LeadingAnchor, TrailingAnchor, LeadingPrefix, LeadingPrefixes, FixedDistanceLiteral, FixedDistanceSets, LiteralAfterLoop, first-char set (FcPrefix), Boyer-Moore prefix, legacy Anchors, the exported FindStartingLiteral of the tree; non-trivial = a successful attempt with at least one non-default fact (distinct by pattern,options,input,position)")
	pats := shapePatterns(c.Rng)
	pats = append(pats, genPatterns(c.Rng, c.N(400, 8000), true)...)
	for _, h := range harvestedPatterns() {
		pats = append(pats, patCase{pat: h, alpha: []rune("abcxyz01 \n-_@.AZ")})
	}
	factHits := map[string]int{}
	for _, p := range pats {
		re, err := p.compile()
		if err != nil {
			continue
		}
		code := re.VerifCode()
		fo := code.FindOptimizations
		if fo == nil {
			continue
		}
		// the exported "guaranteed starting literal" of the parsed tree (consumed by external code generators)
		var startLit *syntax.StartingLiteral
		if tr, perr := syntax.Parse(p.pat, syntax.ParseOptions{RegexOptions: syntax.RegexOptions(toRegexOptions(p.o))}); perr == nil && !p.o.RTL {
			startLit = tr.Root.FindStartingLiteral()
		}
		al := p.alpha
		if len(al) > 5 {
			al = append([]rune{}, al...)
			for i := range al {
				j := i + c.Rng.Intn(len(al)-i)
				al[i], al[j] = al[j], al[i]
			}
			al = al[:5]
			for _, ch := range p.pat {
				if (unicode.IsLetter(ch) || ch == '@' || ch == '.') && len(al) < 8 && !containsRune(al, ch) {
					al = append(al, ch)
				}
			}
		}
		var inputs [][]rune
		// a multi-prefix pattern gets inputs that start with each of its prefixes (always run: index < 30),
		// so that the LeadingPrefixes fact is exercised whatever alphabet sample the seed picked
		for _, s := range fo.LeadingPrefixes {
			inputs = append(inputs, append([]rune(s), '1', 'a'), append([]rune(s), 'a', '1'))
		}
		maxLen := c.N(3, 4)
		if len(al) <= 4 {
			maxLen++
		}
		allStrings(al, maxLen, func(s []rune) { inputs = append(inputs, s) })
		budget := c.N(120, 600)
		for k := 0; k < 8; k++ {
			inputs = append(inputs, randString(c.Rng, al, 12))
		}
		if strings.Contains(p.pat, "{2") || strings.Contains(p.pat, "{3") || strings.Contains(p.pat, "(?:") {
			inputs = append(inputs, accelInputs(c.Rng, p, 12)...)
		}
		if fo.FindMode == syntax.RequiredLandmarkChain_LeftToRight || fo.FindMode == syntax.LiteralAfterLoop_LeftToRight {
			for _, s := range []string{"ab@cd.com", "x=12", "ab12cd.ef", "a@b,c", "ab = 12;", "a-b=c", "a b1c", "ab12cd,ef", "q@r.s", "ab  =  7", "abx12yz;yz", "ab42cdyyz", "a1b.c", "xx-yy1zz", "k \t= 3"} {
				inputs = append(inputs, []rune(s), append([]rune("zz "), []rune(s)...))
			}
		}
		rtl := p.o.RTL
		for idx, in := range inputs {
			if idx > 30 && len(inputs) > budget && c.Rng.Intn(len(inputs)) >= budget {
				continue
			}
			n := len(in)
			for q := 0; q <= n; q++ {
				origin := 0
				if rtl {
					origin = n
				}
				if c.Rng.Chance(20) {
					origin = q
				}
				m, err := re.VerifAttemptAt(in, q, origin)
				if err != nil || m == nil {
					continue
				}
				mlen := m.RuneLength
				mend := m.RuneIndex + m.RuneLength
				var bad []string
				chk := func(name string, applies, ok bool) {
					if applies {
						factHits[name]++
						if !ok {
							bad = append(bad, name)
						}
					}
				}
				// the text ahead of the attempt position in match direction
				var ahead []rune
				if rtl {
					for i := q - 1; i >= 0; i-- {
						ahead = append(ahead, in[i])
					}
				} else {
					ahead = in[q:]
				}
				// MinRequiredLength is the input that must remain ahead of the attempt position (a leading lookahead contributes to it)
				chk("MinRequiredLength", fo.MinRequiredLength > 0, len(ahead) >= fo.MinRequiredLength)
				chk("MaxPossibleLength", fo.MaxPossibleLength >= 0, mlen <= fo.MaxPossibleLength)
				anchorOK := func(a syntax.NodeType, pos int) bool {
					switch a {
					case syntax.NtBeginning:
						return pos == 0
					case syntax.NtStart:
						return pos == origin
					case syntax.NtEnd:
						return pos == n
					case syntax.NtEndZ:
						return pos == n || (pos == n-1 && in[pos] == '\n')
					case syntax.NtBol:
						return pos == 0 || in[pos-1] == '\n'
					case syntax.NtEol:
						return pos == n || in[pos] == '\n'
					}
					return true
				}
				la := fo.LeadingAnchor
				chk("LeadingAnchor", la == syntax.NtBeginning || la == syntax.NtStart || la == syntax.NtEnd || la == syntax.NtEndZ || la == syntax.NtBol, anchorOK(la, q))
				ta := fo.TrailingAnchor
				tend := mend
				if rtl {
					tend = m.RuneIndex
				}
				chk("TrailingAnchor", ta == syntax.NtEnd || ta == syntax.NtEndZ, anchorOK(ta, tend))
				if fo.LeadingPrefix != "" {
					pr := []rune(fo.LeadingPrefix)
					ci := fo.FindMode == syntax.LeadingString_OrdinalIgnoreCase_LeftToRight
					if rtl {
						// a right-to-left prefix is the text that ends at the attempt position
						rev := make([]rune, len(pr))
						for i, ch := range pr {
							rev[len(pr)-1-i] = ch
						}
						pr = rev
					}
					if !utf8.ValidString(fo.LeadingPrefix) && !rtl && !ci {
						// the common prefix of alternation branches is cut at BYTE level (aéx|aèy: "a\xc3"): the fact
						// is a fact about the UTF-8 bytes of the text, which is also how C04_find_prefix_sound states it
						chk("LeadingPrefix", true, strings.HasPrefix(string(strView(ahead)), fo.LeadingPrefix))
					} else {
						chk("LeadingPrefix", true, hasPrefixFold(strView(ahead), pr, ci))
					}
				}
				if len(fo.LeadingPrefixes) > 0 {
					ok := false
					ci := fo.FindMode == syntax.LeadingStrings_OrdinalIgnoreCase_LeftToRight
					for _, s := range fo.LeadingPrefixes {
						if hasPrefixFold(strView(ahead), []rune(s), ci) || (!utf8.ValidString(s) && !ci && strings.HasPrefix(string(strView(ahead)), s)) {
							ok = true
						}
					}
					chk("LeadingPrefixes", true, ok)
				}
				fl := fo.FixedDistanceLiteral
				switch fo.FindMode {
				case syntax.FixedDistanceChar_LeftToRight:
					chk("FixedDistanceChar", true, fl.Distance < len(ahead) && ahead[fl.Distance] == fl.C)
				case syntax.FixedDistanceString_LeftToRight:
					chk("FixedDistanceString", true, fl.Distance <= len(ahead) && hasPrefixFold(strView(ahead[fl.Distance:]), []rune(fl.S), false))
				case syntax.LeadingChar_RightToLeft:
					chk("LeadingChar_RightToLeft", true, len(ahead) > 0 && ahead[0] == fl.C)
				}
				for _, fs := range fo.FixedDistanceSets {
					chk("FixedDistanceSets", true, fs.Distance < len(ahead) && fs.Set.CharIn(ahead[fs.Distance]))
					if len(fs.Chars) > 0 && fs.Distance < len(ahead) {
						chk("FixedDistanceSets.Chars", true, containsRune(fs.Chars, ahead[fs.Distance]) != fs.Negated)
					}
					if fs.Range != nil && fs.Distance < len(ahead) {
						x := ahead[fs.Distance]
						chk("FixedDistanceSets.Range", true, (x >= fs.Range.First && x <= fs.Range.Last) != fs.Negated)
					}
				}
				if startLit != nil {
					ok := false
					switch {
					case len(startLit.String) > 0:
						ok = hasPrefixFold(ahead, startLit.String, false)
					case len(startLit.SetChars) > 0:
						ok = len(ahead) > 0 && containsRune(startLit.SetChars, ahead[0]) != startLit.Negated
					default:
						ok = len(ahead) > 0 && (ahead[0] >= startLit.Range.First && ahead[0] <= startLit.Range.Last) != startLit.Negated
					}
					chk("StartingLiteral", true, ok)
				}
				if lal := fo.LiteralAfterLoop; lal != nil && lal.LoopNode != nil {
					// some run of loop-set characters from the attempt position is followed by the literal
					ok := false
					for k := 0; k <= len(ahead); k++ {
						rest := ahead[k:]
						switch {
						case lal.String != "":
							if hasPrefixFold(strView(rest), []rune(lal.String), lal.StringIgnoreCase) {
								ok = true
							}
						case len(lal.Chars) > 0:
							if len(rest) > 0 && containsRune(lal.Chars, rest[0]) {
								ok = true
							}
						default:
							if len(rest) > 0 && rest[0] == lal.Char {
								ok = true
							}
						}
						if ok || k == len(ahead) || !lal.LoopNode.Set.CharIn(ahead[k]) {
							break
						}
					}
					chk("LiteralAfterLoop", true, ok)
				}
				if lc := fo.LandmarkChain; lc != nil && fo.FindMode == syntax.RequiredLandmarkChain_LeftToRight {
					// every landmark must be satisfiable, in order, somewhere ahead of the attempt position
					// (whitespace requirements are not re-checked: the check is weaker, never stricter, than the fact)
					cursor, ok := 0, true
					for _, lm := range lc.Landmarks {
						best := -1
						for _, alt := range lm.Alternatives {
							for k := cursor; k <= len(ahead); k++ {
								end := -1
								if len(alt.Literal) > 0 {
									if hasPrefixFold(ahead[k:], alt.Literal, false) {
										end = k + len(alt.Literal)
									}
								} else if alt.Set != nil {
									n := 0
									for k+n < len(ahead) && alt.Set.CharIn(ahead[k+n]) {
										n++
									}
									need := alt.MinRepeat
									if need < 1 {
										need = 1
									}
									if n >= need {
										end = k + need
									}
								}
								if end >= 0 {
									if best < 0 || end < best {
										best = end
									}
									break
								}
							}
						}
						if best < 0 {
							ok = false
							break
						}
						cursor = best
					}
					chk("LandmarkChain", true, ok)
				}
				if fc := code.FcPrefix; fc != nil && mlen > 0 {
					x := ahead[0]
					ok := fc.PrefixSet.CharIn(x)
					if fc.CaseInsensitive {
						ok = ok || fc.PrefixSet.CharIn(unicode.ToLower(x))
					}
					chk("FcPrefix", true, ok)
				}
				if bm := code.BmPrefix; bm != nil {
					pat, ci, brtl := bm.VerifFields()
					pr := pat
					if brtl {
						rev := make([]rune, len(pat))
						for i, ch := range pat {
							rev[len(pat)-1-i] = ch
						}
						pr = rev
					}
					chk("BmPrefix", true, hasPrefixFold(ahead, pr, ci))
				}
				an := code.Anchors
				chk("Anchors.Beginning", an&syntax.AnchorBeginning != 0, q == 0)
				chk("Anchors.Start", an&syntax.AnchorStart != 0, q == origin)
				chk("Anchors.End", an&syntax.AnchorEnd != 0, q == n)
				chk("Anchors.EndZ", an&syntax.AnchorEndZ != 0, q == n || (q == n-1 && in[q] == '\n'))
				chk("Anchors.Bol", an&syntax.AnchorBol != 0, q == 0 || in[q-1] == '\n')
				cs := &Case{Desc: fmt.Sprintf("pattern %q opts=%s cg=%v mode=%s input %+q attempt at %d (origin %d) matched [%d,%d)", p.pat, p.o, p.cg, fo.FindMode, string(in), q, origin, m.RuneIndex, mend),
					Nontrivial: true, Class: "facts"}
				cs.Key = cs.Desc
				if len(bad) > 0 {
					cs.Direct = "published fact(s) false at a real match: " + strings.Join(bad, ", ")
				}
				c.Add(cs)
			}
		}
	}
	for _, f := range []string{"MinRequiredLength", "MaxPossibleLength", "LeadingAnchor", "TrailingAnchor", "LeadingPrefix", "LeadingPrefixes", "FixedDistanceChar",
		"FixedDistanceString", "FixedDistanceSets", "LiteralAfterLoop", "StartingLiteral", "LandmarkChain", "FcPrefix", "BmPrefix", "Anchors.Beginning", "Anchors.Start", "LeadingChar_RightToLeft"} {
		c.Gate("fact "+f+" checked at some match", factHits[f] > 0)
	}
	for k, v := range factHits {
		c.res.Histogram["fact:"+k] = v
	}
}

func containsRune(rs []rune, r rune) bool {
	for _, x := range rs {
		if x == r {
			return true
		}
	}
	return false
}
