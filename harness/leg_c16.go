package main

import (
	"fmt"
	"os"
	"path/filepath"
	"sort"
	"strings"
	"sync"
	"time"
	"unicode"

	"github.com/dlclark/regexp2/v2"
	"github.com/dlclark/regexp2/v2/syntax"
)

// Property C16: character-class membership is exact set algebra.
//
// Exported helpers other legs may use:  encCls (wire encoding read by CharClass.d_cls),
// c16CatID (category name -> model id), c16EncOracle (oracle tables read by Drv16.d_oracle).

func init() {
	for i := 0; i < 4; i++ {
		registerLeg(fmt.Sprintf("c16-class-%d", i), "C16", legC16Class)
	}
}

// ---------------------------------------------------------------- category names

var (
	c16Once    sync.Once
	c16Names   []string         // sorted keys of syntax.unicodeCategories
	c16IDs     map[string]int64 // name -> model id
	c16D       []rune           // plain upper/lower pairs (ASCII, Latin-1, Greek, Cyrillic)
	c16InD     map[rune]bool
	c16CaseTab []rune // runes whose SimpleFold/ToLower are shipped with IgnoreCase cases (closed under both)
	c16InCaseTab map[rune]bool
	c16SparseOnce sync.Once
	c16SparseTab  []rune // every code point on which SimpleFold or ToLower is not the identity (legs 1608/1609)
)

// c16SparseCase: the case table for IgnoreCase classes with complement-shaped ranges, where the model asks
// for SimpleFold of every code point of the range: all code points that are not fixed points of both functions.
func c16SparseCase() []rune {
	c16SparseOnce.Do(func() {
		for r := rune(0); r <= 0x10ffff; r++ {
			if unicode.SimpleFold(r) != r || unicode.ToLower(r) != r {
				c16SparseTab = append(c16SparseTab, r)
			}
		}
	})
	return c16SparseTab
}

func c16Setup() {
	c16Once.Do(func() {
		c16Names = syntax.VerifCategoryNames()
		c16IDs = map[string]int64{syntax.SpaceCategoryText: 0, syntax.WordCategoryText: 1, "Ll": 2, "Lu": 3, "Lt": 4, "Nd": 5,
			"Lowercase_Letter": 2, "Uppercase_Letter": 3, "Titlecase_Letter": 4} // aliases of the same tables (addCategory compares tables)
		for i, n := range c16Names {
			if _, ok := c16IDs[n]; !ok {
				c16IDs[n] = int64(16 + i)
			}
		}
		c16InD = map[rune]bool{}
		blocks := [][2]rune{{0x41, 0x7a}, {0xc0, 0xff}, {0x370, 0x3ff}, {0x400, 0x4ff}}
		for _, b := range blocks {
			for r := b[0]; r <= b[1]; r++ {
				if o, ok := c16PlainPair(r); ok {
					c16InD[r] = true
					c16InD[o] = true
				}
			}
		}
		for r := range c16InD {
			c16D = append(c16D, r)
		}
		sort.Slice(c16D, func(i, j int) bool { return c16D[i] < c16D[j] })
		// case table: 0..0x24F, D, the ECMAScript space characters, closed under SimpleFold and ToLower
		seen := map[rune]bool{}
		var work []rune
		add := func(r rune) {
			if !seen[r] {
				seen[r] = true
				work = append(work, r)
			}
		}
		for r := rune(0); r <= 0x24f; r++ {
			add(r)
		}
		for _, r := range c16D {
			add(r)
		}
		for _, p := range c16EcmaSpace {
			for r := p[0]; r <= p[1]; r++ {
				add(r)
			}
		}
		for i := 0; i < len(work); i++ {
			add(unicode.SimpleFold(work[i]))
			add(unicode.ToLower(work[i]))
		}
		sort.Slice(work, func(i, j int) bool { return work[i] < work[j] })
		c16CaseTab = work
		c16InCaseTab = seen
	})
}

// r and its partner form a plain upper/lower pair: the SimpleFold orbit is exactly the two of them
// and ToLower/ToUpper map both to the lower/upper member.
func c16PlainPair(r rune) (rune, bool) {
	l, u := unicode.ToLower(r), unicode.ToUpper(r)
	if l == u || (r != l && r != u) {
		return 0, false
	}
	o := l
	if r == l {
		o = u
	}
	if unicode.SimpleFold(r) != o || unicode.SimpleFold(o) != r || unicode.ToLower(o) != l || unicode.ToUpper(o) != u {
		return 0, false
	}
	return o, true
}

func c16CatID(name string) int64 {
	c16Setup()
	id, ok := c16IDs[name]
	if !ok {
		panic("c16: unknown category name " + name)
	}
	return id
}

// what charInCategories consults for a category name
func c16CatIn(name string, r rune) bool {
	switch name {
	case syntax.SpaceCategoryText:
		return unicode.IsSpace(r)
	case syntax.WordCategoryText:
		return syntax.IsWordChar(r)
	}
	return unicode.Is(syntax.VerifCategoryTable(name), r)
}

// ---------------------------------------------------------------- encoders

// encCls: flags, [bitmap halves], ranges, categories, [sub]; category names are collected in used.
func encCls(cs *syntax.CharSet, used map[string]bool) []int64 {
	ranges, cats, sub, negate, anything, hasASCII, bits := syntax.VerifCharSetFields(cs)
	fl := b2i(negate) + 2*b2i(anything)
	if sub != nil {
		fl += 4
	}
	if hasASCII {
		fl += 8
	}
	out := []int64{fl}
	if hasASCII {
		out = append(out, int64(bits[0]&0xffffffff), int64(bits[0]>>32), int64(bits[1]&0xffffffff), int64(bits[1]>>32))
	}
	out = append(out, int64(len(ranges)))
	for _, r := range ranges {
		out = append(out, int64(r.First), int64(r.Last))
	}
	// canonical form: a second spelling of a table already listed with the same polarity (Lu and Uppercase_Letter)
	// is the same member; addCategories only keeps it because its duplicate test compares names
	var enc [][2]int64
	for _, c := range cats {
		used[c.Cat] = true
		e := [2]int64{b2i(c.Negate), c16CatID(c.Cat)}
		dup := false
		for _, x := range enc {
			dup = dup || x == e
		}
		if !dup {
			enc = append(enc, e)
		}
	}
	out = append(out, int64(len(enc)))
	for _, e := range enc {
		out = append(out, e[0], e[1])
	}
	if sub != nil {
		out = append(out, encCls(sub, used)...)
	}
	return out
}

func sortedKeys(m map[string]bool) []string {
	var ks []string
	for k := range m {
		ks = append(ks, k)
	}
	sort.Strings(ks)
	return ks
}

func dedupRunes(rs []rune) []rune {
	seen := make(map[rune]bool, len(rs))
	out := make([]rune, 0, len(rs))
	for _, r := range rs {
		if !seen[r] {
			seen[r] = true
			out = append(out, r)
		}
	}
	return out
}

// c16EncOracle: category ids, (rune, membership mask) for catRunes, (rune, SimpleFold, ToLower) for caseRunes.
func c16EncOracle(cats []string, catRunes []rune, caseRunes []rune) []int64 {
	out := []int64{int64(len(cats))}
	for _, n := range cats {
		out = append(out, c16CatID(n))
	}
	catRunes = dedupRunes(catRunes)
	if len(cats) == 0 {
		catRunes = nil
	}
	out = append(out, int64(len(catRunes)))
	for _, r := range catRunes {
		var mask int64
		for j, n := range cats {
			if c16CatIn(n, r) {
				mask |= 1 << uint(j)
			}
		}
		out = append(out, int64(r), mask)
	}
	out = append(out, int64(len(caseRunes)))
	for _, r := range caseRunes {
		out = append(out, int64(r), int64(unicode.SimpleFold(r)), int64(unicode.ToLower(r)))
	}
	return out
}

// ---------------------------------------------------------------- bracket expressions

const (
	c16Range = iota
	c16Digit
	c16Space
	c16Word
	c16Prop
	c16Posix
)

type c16Item struct {
	kind int
	neg  bool
	a, b rune   // c16Range
	name string // c16Prop: canonical category name
	k    int    // c16Posix: index in c16PosixNames
}

type c16Syn struct {
	neg   bool
	items []c16Item
	sub   *c16Syn
}

var c16PosixNames = []string{"alnum", "alpha", "ascii", "blank", "cntrl", "digit", "graph", "lower", "print", "punct", "space", "upper", "word", "xdigit"}

var c16EcmaSpace = [][2]rune{{9, 13}, {32, 32}, {160, 160}, {0x1680, 0x1680}, {0x2000, 0x200a}, {0x2028, 0x2029}, {0x202f, 0x202f}, {0x205f, 0x205f}, {0x3000, 0x3000}, {0xfeff, 0xfeff}}

// category / script / property names the generator uses with \p{..}
var c16PropNames = []string{"L", "Lu", "Ll", "Lt", "Lm", "Lo", "N", "Nd", "Nl", "No", "P", "Pd", "Ps", "S", "Sm", "Sc", "Z", "Zs", "C", "Cc", "Cs", "M", "Mn",
	"Lu", "Ll", "L", "Greek", "Latin", "Cyrillic", "Han", "Arabic", "Hebrew", "Common", "Inherited", "Armenian",
	"White_Space", "Hex_Digit", "ASCII_Hex_Digit", "Dash", "Uppercase_Letter", "Lowercase_Letter", "Titlecase_Letter", "LC", "Letter", "punct", "Word_Break=ALetter", "Sentence_Break=Lower"}

type c16Mode struct {
	name string
	opts regexp2.RegexOptions
	ci   bool
	ecma bool
	re2  bool
}

func (m c16Mode) bits() int64 { return b2i(m.ci) + 2*b2i(m.ecma) + 4*b2i(m.re2) }

var c16Modes = []c16Mode{
	{"none", 0, false, false, false},
	{"ignorecase", regexp2.IgnoreCase, true, false, false},
	{"ecma", regexp2.ECMAScript, false, true, false},
	{"re2", regexp2.RE2, false, false, true},
	{"ignorecase+ecma", regexp2.IgnoreCase | regexp2.ECMAScript, true, true, false},
	{"ignorecase+re2", regexp2.IgnoreCase | regexp2.RE2, true, false, true},
}

func isAlnumASCII(r rune) bool {
	return r >= '0' && r <= '9' || r >= 'A' && r <= 'Z' || r >= 'a' && r <= 'z'
}

// one literal class member as pattern text
func c16Lit(rg *Rng, r rune, m c16Mode) string {
	switch {
	case r < 0x80:
		if isAlnumASCII(r) && rg.Chance(80) {
			return string(r)
		}
		return fmt.Sprintf(`\x%02x`, r)
	case r >= 0xd800 && r <= 0xdfff:
		return fmt.Sprintf(`\u%04X`, r)
	case r <= 0xffff:
		if rg.Chance(50) && unicode.IsPrint(r) {
			return string(r)
		}
		return fmt.Sprintf(`\u%04x`, r)
	default:
		if m.ecma || rg.Chance(50) {
			return string(r)
		}
		return fmt.Sprintf(`\x{%X}`, r)
	}
}

func (s *c16Syn) print(rg *Rng, m c16Mode) string {
	var sb strings.Builder
	sb.WriteByte('[')
	if s.neg {
		sb.WriteByte('^')
	}
	for _, it := range s.items {
		switch it.kind {
		case c16Range:
			sb.WriteString(c16Lit(rg, it.a, m))
			if it.b != it.a {
				sb.WriteByte('-')
				sb.WriteString(c16Lit(rg, it.b, m))
			}
		case c16Digit:
			sb.WriteString(map[bool]string{false: `\d`, true: `\D`}[it.neg])
		case c16Space:
			sb.WriteString(map[bool]string{false: `\s`, true: `\S`}[it.neg])
		case c16Word:
			sb.WriteString(map[bool]string{false: `\w`, true: `\W`}[it.neg])
		case c16Prop:
			sb.WriteString(map[bool]string{false: `\p{`, true: `\P{`}[it.neg] + it.name + "}")
		case c16Posix:
			sb.WriteString(map[bool]string{false: `[:`, true: `[:^`}[it.neg] + c16PosixNames[it.k] + ":]")
		}
	}
	if s.sub != nil {
		sb.WriteByte('-')
		sb.WriteString(s.sub.print(rg, m))
	}
	sb.WriteByte(']')
	return sb.String()
}

func (s *c16Syn) enc(out []int64) []int64 {
	out = append(out, b2i(s.neg), int64(len(s.items)))
	for _, it := range s.items {
		switch it.kind {
		case c16Range:
			out = append(out, 0, int64(it.a), int64(it.b))
		case c16Prop:
			out = append(out, 4, b2i(it.neg), c16CatID(it.name))
		case c16Posix:
			out = append(out, 5, b2i(it.neg), int64(it.k))
		default:
			out = append(out, int64(it.kind), b2i(it.neg), 0)
		}
	}
	if s.sub != nil {
		out = append(out, 1)
		return s.sub.enc(out)
	}
	return append(out, 0)
}

// generator-side facts about an expression (for gates, guards and the rune domain)
type c16Facts struct {
	endpoints  []rune
	cats       map[string]bool
	depth      int
	nItems     int
	ciNegCase  bool // IgnoreCase with \P{Ll|Lu|Lt}: known finding ci_negated_case_category
	hasPosix   bool
	hasShort   bool
	hasProp    bool
	bigRange   bool
	ciBig      bool // IgnoreCase with a complement-shaped range (upper endpoint beyond the BMP)
}

func (s *c16Syn) facts(m c16Mode, f *c16Facts, depth int) {
	if depth > f.depth {
		f.depth = depth
	}
	for _, it := range s.items {
		f.nItems++
		switch it.kind {
		case c16Range:
			f.endpoints = append(f.endpoints, it.a, it.b)
			if it.b-it.a > 0x1000 {
				f.bigRange = true
			}
			if m.ci && it.b >= 0x10000 {
				f.ciBig = true
			}
		case c16Digit:
			f.hasShort = true
			if !m.ecma && !m.re2 {
				f.cats["Nd"] = true
			}
		case c16Space:
			f.hasShort = true
			if !m.ecma && !m.re2 {
				f.cats[syntax.SpaceCategoryText] = true
			}
		case c16Word:
			f.hasShort = true
			if !m.ecma && !m.re2 {
				f.cats[syntax.WordCategoryText] = true
			}
		case c16Prop:
			f.hasProp = true
			f.cats[it.name] = true
			if id := c16CatID(it.name); m.ci && id >= 2 && id <= 4 {
				f.cats["Ll"], f.cats["Lu"], f.cats["Lt"] = true, true, true
				if it.neg {
					f.ciNegCase = true
				}
			}
		case c16Posix:
			f.hasPosix = true
		}
	}
	if s.sub != nil {
		s.sub.facts(m, f, depth+1)
	}
}

var c16EdgeRunes = []rune{0, 1, 9, 10, 13, 32, '-', '0', '9', 'A', 'Z', '[', ']', '^', '_', 'a', 'k', 's', 'z', 0x7f, 0x80, 0xa0, 0xb5, 0xdf, 0xe5, 0xff, 0x100,
	0x130, 0x131, 0x17f, 0x1c4, 0x1c5, 0x1c6, 0x24f, 0x250, 0x345, 0x390, 0x3a3, 0x3c2, 0x3c3, 0x3f4, 0x410, 0x430, 0x660, 0x1680, 0x1e9e, 0x2000, 0x200c,
	0x200d, 0x2028, 0x212a, 0x212b, 0x3000, 0xd7ff, 0xe000, 0xfeff, 0xff10, 0xff21, 0xfffd, 0xffff, 0x10000, 0x10400, 0x1d7ce, 0x1f600, 0xe0001, 0x10fffe, 0x10ffff}

func c16RandRune(rg *Rng, m c16Mode, near []rune) rune {
	if m.ci {
		// IgnoreCase: members are ASCII or letters of D
		if rg.Chance(65) {
			return rune(rg.Intn(128))
		}
		return Pick(rg, c16D)
	}
	switch x := rg.Intn(100); {
	case x < 40:
		return rune(0x20 + rg.Intn(0x5f))
	case x < 50:
		return rune(rg.Intn(0x250))
	case x < 62 && len(near) > 0:
		r := Pick(rg, near) + rune(rg.Intn(5)) - 2
		if r < 0 || r > 0x10ffff {
			r = 'm'
		}
		return r
	case x < 75:
		return Pick(rg, c16EdgeRunes)
	case x < 85:
		return rune(rg.Intn(0x10000))
	case x < 90:
		return rune(0xd800 + rg.Intn(0x800))
	default:
		return rune(0x10000 + rg.Intn(0x100000))
	}
}

// how often a complement-shaped range is drawn under IgnoreCase (the extracted model then folds all 1.1M code
// points of the class): a few per run in the quick tier (the deterministic corpus always has them), 40% in the thorough tier
var c16CiComplementPct = 6

func c16GenSyn(rg *Rng, m c16Mode, depth int) *c16Syn {
	s := &c16Syn{neg: rg.Chance(30)}
	n := 1 + rg.Intn(4)
	if rg.Chance(25) {
		n += 3 + rg.Intn(5) // more than four ranges: binary-search path
	}
	var near []rune
	for i := 0; i < n; i++ {
		x := rg.Intn(100)
		switch {
		case x < 30: // single character
			r := c16RandRune(rg, m, near)
			near = append(near, r)
			s.items = append(s.items, c16Item{kind: c16Range, a: r, b: r})
		case x < 62: // range
			var a, b rune
			if m.ci {
				a, b = rune(rg.Intn(128)), rune(rg.Intn(128))
			} else {
				a = c16RandRune(rg, m, near)
				switch rg.Intn(4) {
				case 0:
					b = a + rune(rg.Intn(4))
				case 1:
					b = a + rune(rg.Intn(40))
				default:
					b = c16RandRune(rg, m, near)
				}
				if b > 0x10ffff {
					b = 0x10ffff
				}
			}
			if a > b {
				a, b = b, a
			}
			near = append(near, a, b)
			s.items = append(s.items, c16Item{kind: c16Range, a: a, b: b})
		case x < 68 && (!m.ci || rg.Chance(c16CiComplementPct)): // complement-shaped ranges: exercise canonicalize's normal forms
			g := c16RandRune(rg, m, near)
			if m.ci {
				// IgnoreCase domain: everything but a run of at most three ASCII characters (the range up to U+10FFFF
				// starts at or below U+0080, and 'i' or 'I' stays a member: C16's ci_syn_ok_ext)
				g = rune(rg.Intn(126))
			}
			h := g + rune(rg.Intn(3))
			if h > 0x10ffff {
				h = 0x10ffff
			}
			switch rg.Intn(5) {
			case 0:
				s.items = append(s.items, c16Item{kind: c16Range, a: 0, b: 0x10ffff})
			case 1:
				s.items = append(s.items, c16Item{kind: c16Range, a: 0, b: 0x10fffe})
			case 2:
				s.items = append(s.items, c16Item{kind: c16Range, a: 1, b: 0x10ffff})
			default:
				if g > 0 {
					s.items = append(s.items, c16Item{kind: c16Range, a: 0, b: g - 1})
				}
				if h < 0x10ffff {
					s.items = append(s.items, c16Item{kind: c16Range, a: h + 1, b: 0x10ffff})
				}
				if len(s.items) == 0 {
					s.items = append(s.items, c16Item{kind: c16Range, a: g, b: h})
				}
			}
			near = append(near, g, h)
		case x < 80: // shorthand
			neg := rg.Chance(40)
			if m.ci && (m.ecma || m.re2) {
				neg = false // a negated ASCII-table shorthand is a range up to U+10FFFF: outside the IgnoreCase domain
			}
			s.items = append(s.items, c16Item{kind: c16Digit + rg.Intn(3), neg: neg})
		case x < 92 && !m.ecma: // \p{..}
			name := Pick(rg, c16PropNames)
			// the long aliases name the same tables as Ll/Lu/Lt and share their model ids; a class level keeps one
			// spelling per table (two spellings would only differ in the duplicate-name check of addCategories)
			for _, it := range s.items {
				if it.kind == c16Prop && it.name != name && c16CatID(it.name) == c16CatID(name) {
					name = it.name
				}
			}
			neg := rg.Chance(35)
			if m.ci && neg && c16CatID(name) >= 2 && c16CatID(name) <= 4 && !rg.Chance(15) {
				neg = false // keep the density of the known finding low
			}
			s.items = append(s.items, c16Item{kind: c16Prop, neg: neg, name: name})
		case m.re2: // POSIX name
			neg := rg.Chance(35)
			if m.ci {
				neg = false
			}
			s.items = append(s.items, c16Item{kind: c16Posix, neg: neg, k: rg.Intn(len(c16PosixNames))})
		default:
			r := c16RandRune(rg, m, near)
			near = append(near, r)
			s.items = append(s.items, c16Item{kind: c16Range, a: r, b: r})
		}
	}
	if depth < 3 && rg.Chance(30-5*depth) {
		s.sub = c16GenSyn(rg, m, depth+1)
	}
	return s
}

// ---------------------------------------------------------------- the leg

type c16Engine struct {
	re   [3]*regexp2.Regexp
	desc [3]string
}

func c16Compile(pat string, m c16Mode, bitmap bool) (*c16Engine, error) {
	e := &c16Engine{desc: [3]string{"^" + pat + "$", pat + "+", "x*" + pat}}
	for i, p := range e.desc {
		opts := []regexp2.CompileOption{m.opts}
		if !bitmap {
			opts = append(opts, regexp2.OptionDisableCharClassASCIIBitmap())
		}
		re, err := regexp2.Compile(p, opts...)
		if err != nil {
			return nil, fmt.Errorf("%s: %v", p, err)
		}
		re.MatchTimeout = 5 * time.Second
		e.re[i] = re
	}
	return e, nil
}

func bitsOf(rs []rune, f func(rune) bool) []int64 {
	out := make([]int64, len(rs))
	for i, r := range rs {
		out[i] = b2i(f(r))
	}
	return out
}

func legC16Class(c *Ctx) {
	c16Setup()
	if c.Thorough {
		c16CiComplementPct = 40
	}
	c.Rule("random bracket expressions (1-12 members: characters, ranges, complement-shaped ranges, \\d\\s\\w\\D\\S\\W, \\p{..}/\\P{..} over 40 category/script/property names, POSIX names under RE2, negation, nested subtraction to depth 3) x modes {none, IgnoreCase, ECMAScript, RE2, IgnoreCase+ECMAScript, IgnoreCase+RE2} x ASCII bitmap on/off x runes {U+0000-U+024F, every range endpoint +-1 of the expression and of the parsed class, edge runes, sampled BMP/astral/surrogates, U+10FFFF}; under IgnoreCase ranges have ASCII endpoints or are complement-shaped (everything but a run of 1-3 ASCII characters, [\\x01-\\x{10FFFF}], [\\x00-\\x{10FFFE}], [\\x00-\\x{10FFFF}]: the classes canonicalize rewrites to a negated normal form after case folding; for these the model gets SimpleFold/ToLower of every code point), single members are ASCII or plain upper/lower pairs of ASCII/Latin-1/Greek/Cyrillic; non-trivial = a class with at least two members, negation or subtraction (distinct by pattern text and mode)")
	nClasses := c.N(50, 1250) // per leg and mode family; four legs run in parallel
	nSample := c.N(2000, 10000)
	gates := map[string]bool{}
	if c.Leg == "c16-class-0" {
		c16CheckFoldD(c)
		c16CheckSpaceFacts(c)
		c16CheckOutside(c)
		for _, w := range c16Corpus() {
			c16OneClass(c, w.m, nSample, gates, w.syn)
		}
		c.Flush()
	}
	for i := 0; i < nClasses; i++ {
		for mi, m := range c16Modes {
			if mi >= 4 && i%4 != 0 {
				continue // combined modes at a quarter of the density
			}
			c16OneClass(c, m, nSample, gates, nil)
		}
		c.Flush()
	}
	if c.Leg == "c16-class-0" {
		c.Gate("ci-flipped-after-fold", gates["ci-flipped-after-fold"])
	}
	for _, g := range []string{"binary-search", "subtraction", "nested-subtraction", "negated", "anything", "category", "negated-category", "posix", "bitmap-nonempty", "singleton", "singleton-inverse", "linear-scan"} {
		c.Gate(g, gates[g])
	}
	if c.Leg == "c16-class-0" || c.Thorough {
		// (the quick tier draws few of these at random: the deterministic corpus of leg 0 always has them)
		c.Gate("ci-complement", gates["ci-complement"])
	}
}

func c16OneClass(c *Ctx, m c16Mode, nSample int, gates map[string]bool, syn *c16Syn) {
	rg := c.Rng
	if syn == nil {
		syn = c16GenSyn(rg, m, 0)
	}
	pat := syn.print(rg, m)
	facts := &c16Facts{cats: map[string]bool{}}
	syn.facts(m, facts, 0)
	desc := fmt.Sprintf("class %s mode=%s", pat, m.name)
	key := pat + "|" + m.name
	nontrivial := facts.nItems >= 2 || syn.neg || syn.sub != nil

	var cs *syntax.CharSet
	var perr error
	func() {
		defer func() {
			if r := recover(); r != nil {
				perr = fmt.Errorf("panic: %v", r)
			}
		}()
		var rest int
		cs, rest, perr = syntax.VerifScanCharSet(pat, syntax.RegexOptions(m.opts))
		if perr == nil && rest != 0 {
			perr = fmt.Errorf("%d runes left after the class", rest)
		}
	}()
	if perr != nil {
		c.Add(&Case{Desc: desc, Key: key, Class: m.name, Direct: "generated class does not parse: " + perr.Error()})
		return
	}

	// ---- rune domain
	used := map[string]bool{}
	encPlain := encCls(cs, used)
	for k := range facts.cats {
		used[k] = true
	}
	cats := sortedKeys(used)
	var dom []rune
	for r := rune(0); r <= 0x24f; r++ {
		dom = append(dom, r)
	}
	addEnds := func(r rune) {
		for d := rune(-1); d <= 1; d++ {
			if r+d >= 0 && r+d <= 0x10ffff {
				dom = append(dom, r+d)
			}
		}
	}
	for _, r := range facts.endpoints {
		addEnds(r)
	}
	var walk func(x *syntax.CharSet, depth int)
	walk = func(x *syntax.CharSet, depth int) {
		ranges, xc, sub, negate, anything, _, _ := syntax.VerifCharSetFields(x)
		for _, r := range ranges {
			addEnds(r.First)
			addEnds(r.Last)
		}
		if len(ranges) > 4 {
			gates["binary-search"] = true
		} else if len(ranges) > 0 {
			gates["linear-scan"] = true
		}
		if negate {
			gates["negated"] = true
		}
		if anything {
			gates["anything"] = true
		}
		for _, k := range xc {
			gates["category"] = true
			if k.Negate {
				gates["negated-category"] = true
			}
		}
		if sub != nil {
			gates["subtraction"] = true
			if depth >= 1 {
				gates["nested-subtraction"] = true
			}
			walk(sub, depth+1)
		}
	}
	walk(cs, 0)
	if facts.hasPosix {
		gates["posix"] = true
	}
	if cs.IsSingleton() {
		gates["singleton"] = true
	}
	if cs.IsSingletonInverse() {
		gates["singleton-inverse"] = true
	}
	if m.ci {
		dom = append(dom, c16CaseTab...)
	} else {
		dom = append(dom, c16EdgeRunes...)
		for i := 0; i < nSample; i++ {
			switch rg.Intn(4) {
			case 0:
				dom = append(dom, rune(rg.Intn(0x10000)))
			case 1:
				dom = append(dom, rune(0xd800+rg.Intn(0x800)))
			default:
				dom = append(dom, rune(rg.Intn(0x110000)))
			}
		}
	}
	dom = dedupRunes(dom)
	var caseRunes []rune
	legElab, legDenote := 1602, 1603
	if m.ci {
		caseRunes = c16CaseTab
		if facts.ciBig {
			// the model folds every code point of [..-\x{10FFFF}]: sparse table, fixed points left out
			caseRunes = c16SparseCase()
			legElab, legDenote = 1608, 1609
			gates["ci-complement"] = true
			if _, _, _, negate, _, _, _ := syntax.VerifCharSetFields(cs); negate && !syn.neg {
				gates["ci-flipped-after-fold"] = true
			}
		}
	}
	oracle := c16EncOracle(cats, dom, caseRunes)
	domEnc := encRunes(dom)

	// ---- implementation: CharIn on the parsed class, with and without the ASCII bitmap
	withBM := cs.Copy()
	withBM.VerifPrepareASCIIBitmap()
	encBM := encCls(&withBM, map[string]bool{})
	if _, _, _, _, _, has, bits := syntax.VerifCharSetFields(&withBM); has && (bits[0]|bits[1]) != 0 {
		gates["bitmap-nonempty"] = true
	}
	inBM := bitsOf(dom, withBM.CharIn)
	inPlain := bitsOf(dom, cs.CharIn)
	direct := ""
	for i := range dom {
		if inBM[i] != inPlain[i] {
			direct = fmt.Sprintf("CharIn(%U) = %d with the ASCII bitmap, %d without", dom[i], inBM[i], inPlain[i])
			break
		}
	}
	// ---- the engine: ^[..]$, [..]+, x*[..] on the single rune, bitmap on and off
	for _, bm := range []bool{true, false} {
		if direct != "" {
			break
		}
		eng, err := c16Compile(pat, m, bm)
		if err != nil {
			direct = "does not compile: " + err.Error()
			break
		}
		func() {
			defer func() {
				if r := recover(); r != nil {
					direct = fmt.Sprintf("panic in MatchRunes: %v", r)
				}
			}()
			buf := make([]rune, 1)
			for i, r := range dom {
				buf[0] = r
				for k := 0; k < 3; k++ {
					ok, err := eng.re[k].MatchRunes(buf)
					if err != nil {
						direct = fmt.Sprintf("MatchRunes(%s, %U): %v", eng.desc[k], r, err)
						return
					}
					if b2i(ok) != inPlain[i] {
						direct = fmt.Sprintf("MatchRunes(%s, %U) = %v (bitmap=%v) but CharIn = %d", eng.desc[k], r, ok, bm, inPlain[i])
						return
					}
				}
			}
		}()
	}
	cl := m.name
	// 1601: model char_in on the exported class (bitmap as built by the implementation) and without bitmap
	implOut := append(append(append([]int64{}, inBM...), inPlain...), 1)
	c.Add(&Case{Desc: desc + " [char_in on the exported class]", Key: key, Class: cl, Nontrivial: nontrivial, Direct: direct,
		ModelLeg: 1601, ModelIn: append(append(append([]int64{}, oracle...), encBM...), domEnc...), ImplOut: implOut})
	// 1602: the class the model's parser builds = the exported class
	synEnc := syn.enc(nil)
	in2 := append(append(append([]int64{}, oracle...), m.bits()), synEnc...)
	c.Add(&Case{Desc: desc + " [elab = exported class " + cs.String() + "]", Key: key, Class: cl,
		ModelLeg: legElab, ModelIn: in2, ImplOut: append([]int64{0}, encPlain...)})
	// 1603: set algebra on the generator's expression
	guard := ""
	if facts.ciNegCase {
		guard = "ci_negated_case_category"
	}
	in3 := append(append(append(append([]int64{}, oracle...), m.bits()), synEnc...), domEnc...)
	c.Add(&Case{Desc: desc + " [denote]", Key: key, Class: cl, Guard: guard,
		ModelLeg: legDenote, ModelIn: in3, ImplOut: inPlain})

	// ---- runes that are not code points (only reachable through []rune inputs): the model must agree
	// with the implementation; set algebra is claimed for valid runes only (known finding rune_out_of_range)
	bad := []rune{-1, 0x110000, 0x7fffffff}
	catBad := append([]rune{}, bad...)
	for r := rune(0); r < 128; r++ {
		catBad = append(catBad, r) // the model re-derives the bitmap
	}
	oracleBad := c16EncOracle(cats, catBad, caseRunes)
	badBM := bitsOf(bad, withBM.CharIn)
	badPlain := bitsOf(bad, cs.CharIn)
	directBad := ""
	if eng, err := c16Compile(pat, m, true); err == nil {
		func() {
			defer func() {
				if r := recover(); r != nil {
					directBad = fmt.Sprintf("panic in MatchRunes on an invalid rune: %v", r)
				}
			}()
			for i, r := range bad {
				for k := 0; k < 3; k++ {
					ok, err := eng.re[k].MatchRunes([]rune{r})
					if err != nil || b2i(ok) != badPlain[i] {
						directBad = fmt.Sprintf("MatchRunes(%s, rune %d) = %v, %v but CharIn = %d", eng.desc[k], r, ok, err, badPlain[i])
						return
					}
				}
			}
		}()
	}
	c.Add(&Case{Desc: desc + " [char_in on the exported class, invalid runes -1, 0x110000, 0x7fffffff]", Key: key, Class: cl + "/invalid-runes", Direct: directBad,
		ModelLeg: 1601, ModelIn: append(append(append([]int64{}, oracleBad...), encBM...), encRunes(bad)...),
		ImplOut: append(append(append([]int64{}, badBM...), badPlain...), 1)})
	if !m.ci && rg.Intn(5) == 0 { // guarded cases stay below 5 % of the stream
		c.Add(&Case{Desc: desc + " [denote, invalid runes -1, 0x110000, 0x7fffffff]", Key: key, Class: cl + "/invalid-runes", Guard: "rune_out_of_range",
			ModelLeg: 1603, ModelIn: append(append(append(append([]int64{}, oracleBad...), m.bits()), synEnc...), encRunes(bad)...), ImplOut: badPlain})
	}
}

// ---------------------------------------------------------------- coq/Model/FoldD.v (finite case domain)

// c16FoldDText renders coq/Model/FoldD.v from the running toolchain's unicode tables.
func c16FoldDText() string {
	c16Setup()
	var sb strings.Builder
	sb.WriteString("(* GENERATED by the C16 harness (harness/leg_c16.go, c16FoldDText; regenerate with\n")
	sb.WriteString("   C16_WRITE_FOLDD=1 build/harness -legs c16-class-0 ...) from the unicode tables of the Go toolchain that\n")
	sb.WriteString("   builds /repo.  Leg c16-class-0 fails when this file differs from what the running toolchain yields.\n")
	sb.WriteString("   TODO(lead): belongs in coq/Gen (DESIGN: Gen/FoldD.v); it depends on the Go toolchain, not on /repo.\n")
	sb.WriteString("   pair_dom: letters of ASCII, Latin-1, Greek, Cyrillic that form a plain upper/lower pair\n")
	sb.WriteString("     (SimpleFold orbit = the two of them, ToLower/ToUpper map both to the lower/upper one) and their partners.\n")
	sb.WriteString("   fold_tbl: (x, (SimpleFold x, ToLower x)) for U+0000-U+024F, pair_dom and the ECMAScript \\s characters,\n")
	sb.WriteString("     closed under SimpleFold and ToLower. *)\n")
	sb.WriteString("From Verif Require Import Base.Prelude.\n\n")
	wr := func(name string, xs []rune) {
		sb.WriteString("Definition " + name + " : list Z :=\n  [")
		for i, x := range xs {
			if i > 0 {
				sb.WriteString("; ")
				if i%16 == 0 {
					sb.WriteString("\n   ")
				}
			}
			fmt.Fprintf(&sb, "%d", x)
		}
		sb.WriteString("].\n\n")
	}
	wr("pair_dom", c16D)
	sb.WriteString("Definition fold_tbl : list (Z * (Z * Z)) :=\n  [")
	for i, x := range c16CaseTab {
		if i > 0 {
			sb.WriteString("; ")
			if i%6 == 0 {
				sb.WriteString("\n   ")
			}
		}
		fmt.Fprintf(&sb, "(%d, (%d, %d))", x, unicode.SimpleFold(x), unicode.ToLower(x))
	}
	sb.WriteString("].\n")
	return sb.String()
}

func c16CheckFoldD(c *Ctx) {
	path := filepath.Join(c.OutDir, "coq", "Model", "FoldD.v")
	want := c16FoldDText()
	if os.Getenv("C16_WRITE_FOLDD") != "" {
		os.WriteFile(path, []byte(want), 0o644)
	}
	got, err := os.ReadFile(path)
	cs := &Case{Desc: "coq/Model/FoldD.v equals the table generated from the running Go toolchain (SimpleFold/ToLower on the finite case domain)", Class: "table"}
	if err != nil {
		cs.Direct = "cannot read " + path + ": " + err.Error()
	} else if string(got) != want {
		cs.Direct = "coq/Model/FoldD.v is stale (the closed IgnoreCase theorems are about other tables than the running unicode package)"
	}
	c.Add(cs)
}

// ---------------------------------------------------------------- deterministic corpus: past defects (now fixed in /repo)

type c16Witness struct {
	syn *c16Syn
	m   c16Mode
}

func c16Corpus() []c16Witness {
	ch := func(r rune) c16Item { return c16Item{kind: c16Range, a: r, b: r} }
	rg := func(a, b rune) c16Item { return c16Item{kind: c16Range, a: a, b: b} }
	prop := func(neg bool, n string) c16Item { return c16Item{kind: c16Prop, neg: neg, name: n} }
	none, ci, ecma, re2 := c16Modes[0], c16Modes[1], c16Modes[2], c16Modes[3]
	return []c16Witness{
		// 027bb80: a negated category hid the categories after it: [\P{Lu}\p{L}] on "A"
		{&c16Syn{items: []c16Item{prop(true, "Lu"), prop(false, "L")}}, none},
		{&c16Syn{items: []c16Item{prop(true, "Nd"), {kind: c16Word}, prop(true, "L")}}, none},
		// d71b246: (?i)[a-z-[b]] matched "B"
		{&c16Syn{items: []c16Item{rg('a', 'z')}, sub: &c16Syn{items: []c16Item{ch('b')}}}, ci},
		{&c16Syn{items: []c16Item{rg('A', 'Z')}, sub: &c16Syn{items: []c16Item{rg('a', 'f')}, sub: &c16Syn{items: []c16Item{ch('E')}}}}, ci},
		// 376a621: members added after the class was normalised to a negated form were lost
		{&c16Syn{items: []c16Item{{kind: c16Digit, neg: true}, {kind: c16Digit}}}, ecma},
		{&c16Syn{items: []c16Item{{kind: c16Digit, neg: true}, ch('5')}}, ecma},
		{&c16Syn{items: []c16Item{{kind: c16Digit, neg: true}, ch('_')}}, re2},
		{&c16Syn{items: []c16Item{{kind: c16Posix, neg: true, k: 7}, ch('a')}}, re2},
		{&c16Syn{items: []c16Item{rg(1, 0x10ffff), ch('a')}}, none},
		{&c16Syn{items: []c16Item{rg(0, 0x10fffe), ch('a')}}, none},
		{&c16Syn{items: []c16Item{rg(0, 0x60), rg('b', 0x10ffff), ch('c')}}, none},
		{&c16Syn{items: []c16Item{{kind: c16Digit}, rg(0, 0x60), rg('b', 0x10ffff), ch('5')}}, none},
		{&c16Syn{items: []c16Item{rg(0, 0x60), rg('b', 0x10ffff)}, sub: &c16Syn{items: []c16Item{ch('b')}}}, none},
		// d434c54: RE2 [[:digit:]] and [[:space:]] are the ASCII classes
		{&c16Syn{items: []c16Item{{kind: c16Posix, k: 5}}}, re2},
		{&c16Syn{items: []c16Item{{kind: c16Posix, k: 10}}}, re2},
		{&c16Syn{items: []c16Item{{kind: c16Posix, neg: true, k: 10}, {kind: c16Posix, neg: true, k: 5}}}, re2},
		// the shapes of canonicalize's normal forms, complete classes
		{&c16Syn{items: []c16Item{rg(0, 0x60), rg('b', 0x10ffff)}}, none},
		{&c16Syn{items: []c16Item{rg(0, 0x10ffff)}}, none},
		{&c16Syn{neg: true, items: []c16Item{rg(0, 0x10ffff)}}, none},
		{&c16Syn{items: []c16Item{{kind: c16Space}, {kind: c16Space, neg: true}}}, none},
		{&c16Syn{items: []c16Item{{kind: c16Word}, rg(0, '/'), rg('1', 0x10ffff)}}, none},
		{&c16Syn{items: []c16Item{{kind: c16Space}, rg(0, '/'), rg('1', 0x10ffff)}}, none},
		// IgnoreCase: k, s (three-member orbits), Kelvin sign, long s
		{&c16Syn{items: []c16Item{ch('k'), ch('S')}}, ci},
		{&c16Syn{neg: true, items: []c16Item{rg('j', 'l')}}, ci},
		{&c16Syn{items: []c16Item{prop(false, "Lu")}}, ci},
		// 858f498: the long aliases were not widened under IgnoreCase ((?i)\p{Uppercase_Letter} did not match "a")
		{&c16Syn{items: []c16Item{prop(false, "Uppercase_Letter")}}, ci},
		{&c16Syn{items: []c16Item{prop(false, "Lowercase_Letter"), ch('1')}}, ci},
		{&c16Syn{items: []c16Item{prop(false, "Titlecase_Letter")}, sub: &c16Syn{items: []c16Item{prop(false, "Lu")}}}, ci},
		{&c16Syn{items: []c16Item{prop(false, "Ll"), ch('1')}, sub: &c16Syn{items: []c16Item{rg('A', 'F')}}}, ci},
		// dd13520: the finished class was normalised to a negated form BEFORE case folding; folding the excluded run
		// also excluded the case partner of a member named explicitly: (?i)[\x00-\x60b-\x{10FFFF}] names 'A' but
		// matched neither "a" nor "A"
		{&c16Syn{items: []c16Item{rg(0, 0x60), rg('b', 0x10ffff)}}, ci},
		{&c16Syn{items: []c16Item{rg(0, 'j'), rg('l', 0x10ffff)}}, ci},
		{&c16Syn{items: []c16Item{rg(0, '@'), rg('B', 0x10ffff)}}, ci}, // names 'a' but not 'A': needs addCaseEquivalences (not only addLowercase) before the flip
		{&c16Syn{items: []c16Item{rg(1, 0x10ffff)}}, ci},
		{&c16Syn{items: []c16Item{rg(0, 0x10fffe)}}, ci},
		{&c16Syn{items: []c16Item{rg(0, 'Z'), rg('\\', 0x10ffff)}}, ci},                                                  // flips after folding: [^\x5b]
		{&c16Syn{neg: true, items: []c16Item{rg(0, 0x60), rg('b', 0x10ffff)}}, ci},                                         // [^...] of everything
		{&c16Syn{items: []c16Item{rg('a', 'z')}, sub: &c16Syn{items: []c16Item{rg(0, 0x60), rg('c', 0x10ffff)}}}, ci},     // subtracted class folded three times
		{&c16Syn{items: []c16Item{rg(0, 0x60), rg('b', 0x10ffff)}, sub: &c16Syn{items: []c16Item{ch('B')}}}, ci},
		{&c16Syn{items: []c16Item{rg(0, 0x60), rg('b', 0x10ffff), prop(false, "Nd")}}, c16Modes[5]},                        // IgnoreCase+RE2
		{&c16Syn{items: []c16Item{{kind: c16Digit}, rg(0, '/'), rg('1', 0x10ffff)}}, ci},                                   // third normal form (categories) after folding
	}
}

// the hypothesis outside_ok of C16_char_in_denote_partial_ignorecase (complement-shaped ranges under IgnoreCase), on
// every code point outside the generated table: the SimpleFold orbit closes within orbit_fuel = 8 steps and never
// enters the table
func c16CheckOutside(c *Ctx) {
	c16Setup()
	cs := &Case{Desc: "oracle fact outside_ok: the unicode.SimpleFold orbit of every code point outside the table of coq/Model/FoldD.v closes within 8 steps and stays outside the table (all code points)", Class: "oracle-fact"}
	for r := rune(0); r <= 0x10ffff && cs.Direct == ""; r++ {
		if c16InCaseTab[r] {
			continue
		}
		x, closed := r, false
		for k := 0; k < 8; k++ {
			x = unicode.SimpleFold(x)
			if x == r {
				closed = true
				break
			}
			if x < 0 || x > 0x10ffff || c16InCaseTab[x] {
				cs.Direct = fmt.Sprintf("oracle hypothesis outside_ok violated: the orbit of %U reaches %U", r, x)
				break
			}
		}
		if !closed && cs.Direct == "" {
			cs.Direct = fmt.Sprintf("oracle hypothesis outside_ok violated: the orbit of %U does not close within 8 steps", r)
		}
	}
	c.Add(cs)
}

// the Unicode facts theorem C16_may_overlap_sound assumes (space_facts), on every code point
func c16CheckSpaceFacts(c *Ctx) {
	inTab := func(t [][2]rune, r rune) bool {
		for _, p := range t {
			if r >= p[0] && r <= p[1] {
				return true
			}
		}
		return false
	}
	ecmaWord := [][2]rune{{'0', '9'}, {'A', 'Z'}, {'_', '_'}, {'a', 'z'}}
	cs := &Case{Desc: "oracle fact space_facts: no white space rune and no ECMAScript \\s rune is a decimal digit or a word character (all code points)", Class: "oracle-fact"}
	for r := rune(-1); r <= 0x110000; r++ {
		if unicode.IsSpace(r) || inTab(c16EcmaSpace, r) {
			if unicode.Is(unicode.Nd, r) || syntax.IsWordChar(r) || inTab(ecmaWord, r) {
				cs.Direct = fmt.Sprintf("oracle hypothesis space_facts violated at %U", r)
				break
			}
		}
	}
	c.Add(cs)
}

// ---------------------------------------------------------------- leg c16-ops: the CharSet methods on raw classes

func init() { registerLeg("c16-ops", "C16", legC16Ops) }

type c16Raw struct {
	ranges   []syntax.SingleRange
	cats     []syntax.Category
	sub      *c16Raw
	neg, any bool
}

func (r *c16Raw) build() *syntax.CharSet {
	var sub *syntax.CharSet
	if r.sub != nil {
		sub = r.sub.build()
	}
	return syntax.VerifNewCharSet(r.ranges, r.cats, sub, r.neg, r.any)
}

var c16RawCats = []string{syntax.SpaceCategoryText, syntax.WordCategoryText, "Nd", "L", "Lu", "Ll", "Lt", "P", "Greek", "Latin", "Hex_Digit"}

// small: ranges stay inside U+0000-U+024F / the pair letters with short spans (case operations, enumeration)
func c16GenRaw(rg *Rng, depth int, small bool) *c16Raw {
	r := &c16Raw{neg: rg.Chance(25)}
	if rg.Chance(4) {
		r.any = true
		r.ranges = []syntax.SingleRange{{First: 0, Last: 0x10ffff}}
		return r
	}
	n := rg.Intn(7)
	if rg.Chance(20) {
		n += 4
	}
	var near []rune
	pick := func() rune {
		if small {
			if rg.Chance(70) {
				return rune(rg.Intn(0x250))
			}
			return Pick(rg, c16D)
		}
		return c16RandRune(rg, c16Modes[0], near)
	}
	for i := 0; i < n; i++ {
		a := pick()
		b := a
		switch rg.Intn(4) {
		case 0:
		case 1:
			b = a + rune(rg.Intn(4))
		case 2:
			b = a + rune(rg.Intn(40))
		default:
			if small {
				b = a + rune(rg.Intn(12))
			} else {
				b = pick()
			}
		}
		if a > b {
			a, b = b, a
		}
		if b > 0x10ffff {
			b = 0x10ffff
		}
		if !small && rg.Chance(12) { // complement shapes
			g := pick()
			switch rg.Intn(4) {
			case 0:
				a, b = 0, 0x10ffff
			case 1:
				a, b = 0, 0x10fffe
			case 2:
				a, b = 1, 0x10ffff
			default:
				if g > 0 {
					r.ranges = append(r.ranges, syntax.SingleRange{First: 0, Last: g - 1})
				}
				a, b = g+1, 0x10ffff
				if a > b {
					a = b
				}
			}
		}
		near = append(near, a, b)
		r.ranges = append(r.ranges, syntax.SingleRange{First: a, Last: b})
	}
	for k := rg.Intn(3); k > 0 && rg.Chance(60); k-- {
		name := Pick(rg, c16RawCats)
		dup := false
		for _, c := range r.cats {
			if c.Cat == name {
				dup = true
			}
		}
		if !dup { // addCategories never leaves the same name twice
			r.cats = append(r.cats, syntax.Category{Cat: name, Negate: rg.Chance(35)})
		}
	}
	if depth < 2 && rg.Chance(20) {
		r.sub = c16GenRaw(rg, depth+1, small)
	}
	return r
}

// canonical variant (what every finished class looks like): built through the implementation
func c16GenCanon(rg *Rng, small bool) *syntax.CharSet {
	cs := c16GenRaw(rg, 0, small).build()
	var fix func(x *syntax.CharSet)
	fix = func(x *syntax.CharSet) {
		x.VerifCanonicalize()
		if _, _, sub, _, _, _, _ := syntax.VerifCharSetFields(x); sub != nil {
			fix(sub)
		}
	}
	fix(cs)
	return cs
}

var c16CaseTabOps []rune
var c16OpsOnce sync.Once

func c16OpsSetup() {
	c16Setup()
	c16OpsOnce.Do(func() {
		seen := map[rune]bool{}
		var work []rune
		add := func(r rune) {
			if !seen[r] {
				seen[r] = true
				work = append(work, r)
			}
		}
		for r := rune(0); r <= 0x52f; r++ {
			add(r)
		}
		for _, r := range c16D {
			add(r)
		}
		for i := 0; i < len(work); i++ {
			add(unicode.SimpleFold(work[i]))
			add(unicode.ToLower(work[i]))
		}
		sort.Slice(work, func(i, j int) bool { return work[i] < work[j] })
		c16CaseTabOps = work
	})
}

func c16ClsRunes(cs *syntax.CharSet, all bool, out []rune) []rune {
	ranges, _, sub, _, _, _, _ := syntax.VerifCharSetFields(cs)
	for _, r := range ranges {
		for d := rune(-1); d <= 1; d++ {
			for _, e := range []rune{r.First + d, r.Last + d} {
				if e >= 0 && e <= 0x10ffff {
					out = append(out, e)
				}
			}
		}
		if all && r.Last-r.First <= 4096 {
			for x := r.First; x <= r.Last; x++ {
				out = append(out, x)
			}
		}
	}
	if sub != nil {
		out = c16ClsRunes(sub, all, out)
	}
	return out
}

func encRanges(rs []syntax.SingleRange) []int64 {
	out := []int64{int64(len(rs))}
	for _, r := range rs {
		out = append(out, int64(r.First), int64(r.Last))
	}
	return out
}

func legC16Ops(c *Ctx) {
	c16OpsSetup()
	c.Rule("one CharSet method per case on RAW classes (0-10 unsorted, overlapping, abutting, complement-shaped ranges in [0,0x10FFFF], up to two categories, negation, nested subtraction, rarely the anything flag): canonicalize, addRange, addRanges, addNegativeRanges, addSet, addCategories (with X/not-X clashes), addLowercase and addCaseEquivalences (ranges inside U+0000-U+024F and the pair letters), MayOverlap (canonical classes incl. the \\s \\d \\w constants, equal and complementary pairs; checked against brute force), IsSingleton/IsSingletonInverse/reduceSet, prepareASCIIBitmap; the model must return the identical CharSet; non-trivial = the method changed the class or answered true (distinct by operation and operands)")
	n := c.N(1500, 60000)
	ops := map[int]int{}
	gates := map[string]bool{}
	ascii := make([]rune, 128)
	for i := range ascii {
		ascii[i] = rune(i)
	}
	for i := 0; i < n; i++ {
		rg := c.Rng
		op := 1 + rg.Intn(11)
		small := op == 7 || op == 8 || op == 9
		var a *syntax.CharSet
		if op == 9 || op == 10 || op == 11 {
			a = c16GenCanon(rg, small)
		} else {
			a = c16GenRaw(rg, 0, small).build()
		}
		if op == 10 && rg.Chance(50) {
			x := c16RandRune(rg, c16Modes[0], nil)
			a = syntax.VerifNewCharSet([]syntax.SingleRange{{First: x, Last: x + rune(rg.Intn(10)/9)}}, nil, nil, rg.Bool(), false)
		}
		used := map[string]bool{}
		encA := encCls(a, used)
		before := a.String() + fmt.Sprint(encA)
		runes := c16ClsRunes(a, false, nil)
		var args []int64
		var implOut []int64
		desc := fmt.Sprintf("op %d on %s", op, a.String())
		var caseRunes []rune
		nontrivial := false
		direct := ""
		func() {
			defer func() {
				if r := recover(); r != nil {
					direct = fmt.Sprintf("panic: %v", r)
				}
			}()
			switch op {
			case 1:
				desc = "canonicalize " + a.String()
				a.VerifCanonicalize()
			case 2:
				lo := c16RandRune(rg, c16Modes[0], runes)
				hi := lo + rune(rg.Intn(3))*rune(rg.Intn(50))
				if hi > 0x10ffff {
					hi = 0x10ffff
				}
				desc = fmt.Sprintf("addRange(%U,%U) on %s", lo, hi, a.String())
				args = []int64{int64(lo), int64(hi)}
				runes = append(runes, lo-1, lo, hi, hi+1)
				a.VerifAddRange(lo, hi)
			case 3, 4:
				k := rg.Intn(4)
				var rs []syntax.SingleRange
				cur := rune(rg.Intn(200))
				for j := 0; j < k; j++ {
					w := rune(rg.Intn(30))
					rs = append(rs, syntax.SingleRange{First: cur, Last: cur + w})
					cur += w + 1 + rune(rg.Intn(3))*rune(rg.Intn(100))
				}
				if op == 3 && rg.Chance(30) && len(rs) > 1 {
					rs[0], rs[len(rs)-1] = rs[len(rs)-1], rs[0] // addRanges takes any order
				}
				args = encRanges(rs)
				for _, r := range rs {
					runes = append(runes, r.First-1, r.First, r.Last, r.Last+1)
				}
				if op == 3 {
					desc = fmt.Sprintf("addRanges(%v) on %s", rs, a.String())
					a.VerifAddRanges(rs)
				} else {
					desc = fmt.Sprintf("addNegativeRanges(%v) on %s", rs, a.String())
					a.VerifAddNegativeRanges(rs)
				}
			case 5:
				b := c16GenRaw(rg, 0, false)
				b.sub, b.neg = nil, false // IsMergeable
				bs := b.build()
				if rg.Chance(50) {
					bs.VerifCanonicalize()
				}
				desc = fmt.Sprintf("addSet(%s) on %s", bs.String(), a.String())
				args = encCls(bs, used)
				runes = c16ClsRunes(bs, false, runes)
				a.VerifAddSet(*bs)
			case 6:
				var l []syntax.Category
				for k := 1 + rg.Intn(3); k > 0; k-- {
					l = append(l, syntax.Category{Cat: Pick(rg, c16RawCats), Negate: rg.Chance(40)})
				}
				desc = fmt.Sprintf("addCategories(%v) on %s", l, a.String())
				args = []int64{int64(len(l))}
				for _, k := range l {
					used[k.Cat] = true
					args = append(args, b2i(k.Negate), c16CatID(k.Cat))
				}
				a.VerifAddCategories(l...)
			case 7:
				desc = "addLowercase " + a.String()
				caseRunes = c16CaseTabOps
				a.VerifAddLowercase()
			case 8:
				desc = "addCaseEquivalences " + a.String()
				caseRunes = c16CaseTabOps
				a.VerifAddCaseEquivalences()
			case 9:
				var b *syntax.CharSet
				switch rg.Intn(8) {
				case 0:
					cp := a.Copy()
					b = &cp
				case 1: // complement: same set, other negate flag
					ranges, cats, sub, negate, anything, _, _ := syntax.VerifCharSetFields(a)
					b = syntax.VerifNewCharSet(ranges, cats, sub, !negate, anything)
				case 2:
					b = Pick(rg, []func() *syntax.CharSet{syntax.DigitClass, syntax.WordClass, syntax.ECMADigitClass, syntax.ECMAWordClass, syntax.SpaceClass})()
					if rg.Chance(70) {
						a = Pick(rg, []func() *syntax.CharSet{syntax.SpaceClass, syntax.ECMASpaceClass})()
						encA = encCls(a, used)
					}
					if rg.Chance(50) {
						a, b = b, a
						encA = encCls(a, used)
					}
				default:
					b = c16GenCanon(rg, true)
				}
				if rg.Chance(30) {
					a.VerifPrepareASCIIBitmap()
					encA = encCls(a, used)
				}
				desc = fmt.Sprintf("MayOverlap(%s, %s)", a.String(), b.String())
				args = encCls(b, used)
				runes = c16ClsRunes(a, true, runes)
				runes = c16ClsRunes(b, true, runes)
				got := a.MayOverlap(b)
				implOut = []int64{b2i(got)}
				nontrivial = true
				if !got {
					gates["may-overlap-false"] = true
					// brute force on every rune either class mentions, and a sample
					chk := append(append([]rune{}, runes...), c16EdgeRunes...)
					for r := rune(0); r < 0x300; r++ {
						chk = append(chk, r)
					}
					for _, r := range chk {
						if r >= 0 && a.CharIn(r) && b.CharIn(r) {
							direct = fmt.Sprintf("MayOverlap = false but both classes contain %U", r)
							break
						}
					}
				}
			case 10:
				desc = "IsSingleton/IsSingletonInverse/reduceSet " + a.String()
				kind, ch := int64(0), int64(0)
				if a.IsSingleton() {
					kind, ch = 1, int64(a.SingletonChar())
					gates["singleton"] = true
				} else if a.IsSingletonInverse() {
					kind, ch = 2, int64(a.SingletonChar())
					gates["singleton-inverse"] = true
				}
				implOut = []int64{b2i(a.IsSingleton()), b2i(a.IsSingletonInverse()), 0, kind, ch}
				nontrivial = kind != 0
			case 11:
				desc = "prepareASCIIBitmap " + a.String()
				runes = append(runes, ascii...)
				a.VerifPrepareASCIIBitmap()
			}
		}()
		if op == 8 && direct == "" {
			implOut = append([]int64{0}, encCls(a, used)...)
		} else if implOut == nil {
			implOut = encCls(a, used)
		}
		if op != 9 && op != 10 {
			nontrivial = a.String()+fmt.Sprint(encCls(a, map[string]bool{})) != before
			runes = c16ClsRunes(a, false, runes)
		}
		ops[op]++
		in := c16EncOracle(sortedKeys(used), runes, caseRunes)
		in = append(in, int64(op))
		in = append(in, encA...)
		in = append(in, args...)
		c.Add(&Case{Desc: desc, Class: fmt.Sprintf("op%02d", op), Nontrivial: nontrivial, Direct: direct,
			ModelLeg: 1604, ModelIn: in, ImplOut: implOut})
		if i%200 == 199 {
			c.Flush()
		}
	}
	for _, g := range []string{"may-overlap-false", "singleton", "singleton-inverse"} {
		c.Gate(g, gates[g])
	}
}
