package main

import (
	"fmt"
	"os"
	"path/filepath"
	"sort"
	"strings"
	"sync"
	"time"
	"unicode"

	"github.com/dlclark/regexp2/v2"
	"github.com/dlclark/regexp2/v2/syntax"
)

// Property C16: character-class membership is exact set algebra.
//
// Exported helpers other legs may use:  encCls (wire encoding read by CharClass.d_cls),
// c16CatID (category name -> model id), c16EncOracle (oracle tables read by Drv16.d_oracle).

func init() {
	for i := 0; i < 4; i++ {
		registerLeg(fmt.Sprintf("c16-class-%d", i), "C16", legC16Class)
	}
}

// ---------------------------------------------------------------- category names

var (
	c16Once    sync.Once
	c16Names   []string         // sorted keys of syntax.unicodeCategories
	c16IDs     map[string]int64 // name -> model id
	c16D       []rune           // plain upper/lower pairs (ASCII, Latin-1, Greek, Cyrillic)
	c16InD     map[rune]bool
	c16CaseTab []rune // runes whose SimpleFold/ToLower are shipped with IgnoreCase cases (closed under both)
)

func c16Setup() {
	c16Once.Do(func() {
		c16Names = syntax.VerifCategoryNames()
		c16IDs = map[string]int64{syntax.SpaceCategoryText: 0, syntax.WordCategoryText: 1, "Ll": 2, "Lu": 3, "Lt": 4, "Nd": 5}
		for i, n := range c16Names {
			if _, ok := c16IDs[n]; !ok {
				c16IDs[n] = int64(16 + i)
			}
		}
		c16InD = map[rune]bool{}
		blocks := [][2]rune{{0x41, 0x7a}, {0xc0, 0xff}, {0x370, 0x3ff}, {0x400, 0x4ff}}
		for _, b := range blocks {
			for r := b[0]; r <= b[1]; r++ {
				if o, ok := c16PlainPair(r); ok {
					c16InD[r] = true
					c16InD[o] = true
				}
			}
		}
		for r := range c16InD {
			c16D = append(c16D, r)
		}
		sort.Slice(c16D, func(i, j int) bool { return c16D[i] < c16D[j] })
		// case table: 0..0x24F, D, the ECMAScript space characters, closed under SimpleFold and ToLower
		seen := map[rune]bool{}
		var work []rune
		add := func(r rune) {
			if !seen[r] {
				seen[r] = true
				work = append(work, r)
			}
		}
		for r := rune(0); r <= 0x24f; r++ {
			add(r)
		}
		for _, r := range c16D {
			add(r)
		}
		for _, p := range c16EcmaSpace {
			for r := p[0]; r <= p[1]; r++ {
				add(r)
			}
		}
		for i := 0; i < len(work); i++ {
			add(unicode.SimpleFold(work[i]))
			add(unicode.ToLower(work[i]))
		}
		sort.Slice(work, func(i, j int) bool { return work[i] < work[j] })
		c16CaseTab = work
	})
}

// r and its partner form a plain upper/lower pair: the SimpleFold orbit is exactly the two of them
// and ToLower/ToUpper map both to the lower/upper member.
func c16PlainPair(r rune) (rune, bool) {
	l, u := unicode.ToLower(r), unicode.ToUpper(r)
	if l == u || (r != l && r != u) {
		return 0, false
	}
	o := l
	if r == l {
		o = u
	}
	if unicode.SimpleFold(r) != o || unicode.SimpleFold(o) != r || unicode.ToLower(o) != l || unicode.ToUpper(o) != u {
		return 0, false
	}
	return o, true
}

func c16CatID(name string) int64 {
	c16Setup()
	id, ok := c16IDs[name]
	if !ok {
		panic("c16: unknown category name " + name)
	}
	return id
}

// what charInCategories consults for a category name
func c16CatIn(name string, r rune) bool {
	switch name {
	case syntax.SpaceCategoryText:
		return unicode.IsSpace(r)
	case syntax.WordCategoryText:
		return syntax.IsWordChar(r)
	}
	return unicode.Is(syntax.VerifCategoryTable(name), r)
}

// ---------------------------------------------------------------- encoders

// encCls: flags, [bitmap halves], ranges, categories, [sub]; category names are collected in used.
func encCls(cs *syntax.CharSet, used map[string]bool) []int64 {
	ranges, cats, sub, negate, anything, hasASCII, bits := syntax.VerifCharSetFields(cs)
	fl := b2i(negate) + 2*b2i(anything)
	if sub != nil {
		fl += 4
	}
	if hasASCII {
		fl += 8
	}
	out := []int64{fl}
	if hasASCII {
		out = append(out, int64(bits[0]&0xffffffff), int64(bits[0]>>32), int64(bits[1]&0xffffffff), int64(bits[1]>>32))
	}
	out = append(out, int64(len(ranges)))
	for _, r := range ranges {
		out = append(out, int64(r.First), int64(r.Last))
	}
	out = append(out, int64(len(cats)))
	for _, c := range cats {
		used[c.Cat] = true
		out = append(out, b2i(c.Negate), c16CatID(c.Cat))
	}
	if sub != nil {
		out = append(out, encCls(sub, used)...)
	}
	return out
}

func sortedKeys(m map[string]bool) []string {
	var ks []string
	for k := range m {
		ks = append(ks, k)
	}
	sort.Strings(ks)
	return ks
}

func dedupRunes(rs []rune) []rune {
	seen := make(map[rune]bool, len(rs))
	out := make([]rune, 0, len(rs))
	for _, r := range rs {
		if !seen[r] {
			seen[r] = true
			out = append(out, r)
		}
	}
	return out
}

// c16EncOracle: category ids, (rune, membership mask) for catRunes, (rune, SimpleFold, ToLower) for caseRunes.
func c16EncOracle(cats []string, catRunes []rune, caseRunes []rune) []int64 {
	out := []int64{int64(len(cats))}
	for _, n := range cats {
		out = append(out, c16CatID(n))
	}
	catRunes = dedupRunes(catRunes)
	if len(cats) == 0 {
		catRunes = nil
	}
	out = append(out, int64(len(catRunes)))
	for _, r := range catRunes {
		var mask int64
		for j, n := range cats {
			if c16CatIn(n, r) {
				mask |= 1 << uint(j)
			}
		}
		out = append(out, int64(r), mask)
	}
	out = append(out, int64(len(caseRunes)))
	for _, r := range caseRunes {
		out = append(out, int64(r), int64(unicode.SimpleFold(r)), int64(unicode.ToLower(r)))
	}
	return out
}

// ---------------------------------------------------------------- bracket expressions

const (
	c16Range = iota
	c16Digit
	c16Space
	c16Word
	c16Prop
	c16Posix
)

type c16Item struct {
	kind int
	neg  bool
	a, b rune   // c16Range
	name string // c16Prop: canonical category name
	k    int    // c16Posix: index in c16PosixNames
}

type c16Syn struct {
	neg   bool
	items []c16Item
	sub   *c16Syn
}

var c16PosixNames = []string{"alnum", "alpha", "ascii", "blank", "cntrl", "digit", "graph", "lower", "print", "punct", "space", "upper", "word", "xdigit"}

var c16EcmaSpace = [][2]rune{{9, 13}, {32, 32}, {160, 160}, {0x1680, 0x1680}, {0x2000, 0x200a}, {0x2028, 0x2029}, {0x202f, 0x202f}, {0x205f, 0x205f}, {0x3000, 0x3000}, {0xfeff, 0xfeff}}

// category / script / property names the generator uses with \p{..}
var c16PropNames = []string{"L", "Lu", "Ll", "Lt", "Lm", "Lo", "N", "Nd", "Nl", "No", "P", "Pd", "Ps", "S", "Sm", "Sc", "Z", "Zs", "C", "Cc", "Cs", "M", "Mn",
	"Lu", "Ll", "L", "Greek", "Latin", "Cyrillic", "Han", "Arabic", "Hebrew", "Common", "Inherited", "Armenian",
	"White_Space", "Hex_Digit", "ASCII_Hex_Digit", "Dash", "Uppercase_Letter", "LC", "Letter", "punct", "Word_Break=ALetter", "Sentence_Break=Lower"}

type c16Mode struct {
	name string
	opts regexp2.RegexOptions
	ci   bool
	ecma bool
	re2  bool
}

func (m c16Mode) bits() int64 { return b2i(m.ci) + 2*b2i(m.ecma) + 4*b2i(m.re2) }

var c16Modes = []c16Mode{
	{"none", 0, false, false, false},
	{"ignorecase", regexp2.IgnoreCase, true, false, false},
	{"ecma", regexp2.ECMAScript, false, true, false},
	{"re2", regexp2.RE2, false, false, true},
	{"ignorecase+ecma", regexp2.IgnoreCase | regexp2.ECMAScript, true, true, false},
	{"ignorecase+re2", regexp2.IgnoreCase | regexp2.RE2, true, false, true},
}

func isAlnumASCII(r rune) bool {
	return r >= '0' && r <= '9' || r >= 'A' && r <= 'Z' || r >= 'a' && r <= 'z'
}

// one literal class member as pattern text
func c16Lit(rg *Rng, r rune, m c16Mode) string {
	switch {
	case r < 0x80:
		if isAlnumASCII(r) && rg.Chance(80) {
			return string(r)
		}
		return fmt.Sprintf(`\x%02x`, r)
	case r >= 0xd800 && r <= 0xdfff:
		return fmt.Sprintf(`\u%04X`, r)
	case r <= 0xffff:
		if rg.Chance(50) && unicode.IsPrint(r) {
			return string(r)
		}
		return fmt.Sprintf(`\u%04x`, r)
	default:
		if m.ecma || rg.Chance(50) {
			return string(r)
		}
		return fmt.Sprintf(`\x{%X}`, r)
	}
}

func (s *c16Syn) print(rg *Rng, m c16Mode) string {
	var sb strings.Builder
	sb.WriteByte('[')
	if s.neg {
		sb.WriteByte('^')
	}
	for _, it := range s.items {
		switch it.kind {
		case c16Range:
			sb.WriteString(c16Lit(rg, it.a, m))
			if it.b != it.a {
				sb.WriteByte('-')
				sb.WriteString(c16Lit(rg, it.b, m))
			}
		case c16Digit:
			sb.WriteString(map[bool]string{false: `\d`, true: `\D`}[it.neg])
		case c16Space:
			sb.WriteString(map[bool]string{false: `\s`, true: `\S`}[it.neg])
		case c16Word:
			sb.WriteString(map[bool]string{false: `\w`, true: `\W`}[it.neg])
		case c16Prop:
			sb.WriteString(map[bool]string{false: `\p{`, true: `\P{`}[it.neg] + it.name + "}")
		case c16Posix:
			sb.WriteString(map[bool]string{false: `[:`, true: `[:^`}[it.neg] + c16PosixNames[it.k] + ":]")
		}
	}
	if s.sub != nil {
		sb.WriteByte('-')
		sb.WriteString(s.sub.print(rg, m))
	}
	sb.WriteByte(']')
	return sb.String()
}

func (s *c16Syn) enc(out []int64) []int64 {
	out = append(out, b2i(s.neg), int64(len(s.items)))
	for _, it := range s.items {
		switch it.kind {
		case c16Range:
			out = append(out, 0, int64(it.a), int64(it.b))
		case c16Prop:
			out = append(out, 4, b2i(it.neg), c16CatID(it.name))
		case c16Posix:
			out = append(out, 5, b2i(it.neg), int64(it.k))
		default:
			out = append(out, int64(it.kind), b2i(it.neg), 0)
		}
	}
	if s.sub != nil {
		out = append(out, 1)
		return s.sub.enc(out)
	}
	return append(out, 0)
}

// generator-side facts about an expression (for gates, guards and the rune domain)
type c16Facts struct {
	endpoints  []rune
	cats       map[string]bool
	depth      int
	nItems     int
	ciNegCase  bool // IgnoreCase with \P{Ll|Lu|Lt}: known finding ci_negated_case_category
	hasPosix   bool
	hasShort   bool
	hasProp    bool
	bigRange   bool
}

func (s *c16Syn) facts(m c16Mode, f *c16Facts, depth int) {
	if depth > f.depth {
		f.depth = depth
	}
	for _, it := range s.items {
		f.nItems++
		switch it.kind {
		case c16Range:
			f.endpoints = append(f.endpoints, it.a, it.b)
			if it.b-it.a > 0x1000 {
				f.bigRange = true
			}
		case c16Digit:
			f.hasShort = true
			if !m.ecma && !m.re2 {
				f.cats["Nd"] = true
			}
		case c16Space:
			f.hasShort = true
			if !m.ecma && !m.re2 {
				f.cats[syntax.SpaceCategoryText] = true
			}
		case c16Word:
			f.hasShort = true
			if !m.ecma && !m.re2 {
				f.cats[syntax.WordCategoryText] = true
			}
		case c16Prop:
			f.hasProp = true
			f.cats[it.name] = true
			if m.ci && (it.name == "Ll" || it.name == "Lu" || it.name == "Lt") {
				f.cats["Ll"], f.cats["Lu"], f.cats["Lt"] = true, true, true
				if it.neg {
					f.ciNegCase = true
				}
			}
		case c16Posix:
			f.hasPosix = true
		}
	}
	if s.sub != nil {
		s.sub.facts(m, f, depth+1)
	}
}

var c16EdgeRunes = []rune{0, 1, 9, 10, 13, 32, '-', '0', '9', 'A', 'Z', '[', ']', '^', '_', 'a', 'k', 's', 'z', 0x7f, 0x80, 0xa0, 0xb5, 0xdf, 0xe5, 0xff, 0x100,
	0x130, 0x131, 0x17f, 0x1c4, 0x1c5, 0x1c6, 0x24f, 0x250, 0x345, 0x390, 0x3a3, 0x3c2, 0x3c3, 0x3f4, 0x410, 0x430, 0x660, 0x1680, 0x1e9e, 0x2000, 0x200c,
	0x200d, 0x2028, 0x212a, 0x212b, 0x3000, 0xd7ff, 0xe000, 0xfeff, 0xff10, 0xff21, 0xfffd, 0xffff, 0x10000, 0x10400, 0x1d7ce, 0x1f600, 0xe0001, 0x10fffe, 0x10ffff}

func c16RandRune(rg *Rng, m c16Mode, near []rune) rune {
	if m.ci {
		// IgnoreCase: members are ASCII or letters of D
		if rg.Chance(65) {
			return rune(rg.Intn(128))
		}
		return Pick(rg, c16D)
	}
	switch x := rg.Intn(100); {
	case x < 40:
		return rune(0x20 + rg.Intn(0x5f))
	case x < 50:
		return rune(rg.Intn(0x250))
	case x < 62 && len(near) > 0:
		r := Pick(rg, near) + rune(rg.Intn(5)) - 2
		if r < 0 || r > 0x10ffff {
			r = 'm'
		}
		return r
	case x < 75:
		return Pick(rg, c16EdgeRunes)
	case x < 85:
		return rune(rg.Intn(0x10000))
	case x < 90:
		return rune(0xd800 + rg.Intn(0x800))
	default:
		return rune(0x10000 + rg.Intn(0x100000))
	}
}

func c16GenSyn(rg *Rng, m c16Mode, depth int) *c16Syn {
	s := &c16Syn{neg: rg.Chance(30)}
	n := 1 + rg.Intn(4)
	if rg.Chance(25) {
		n += 3 + rg.Intn(5) // more than four ranges: binary-search path
	}
	var near []rune
	for i := 0; i < n; i++ {
		x := rg.Intn(100)
		switch {
		case x < 30: // single character
			r := c16RandRune(rg, m, near)
			near = append(near, r)
			s.items = append(s.items, c16Item{kind: c16Range, a: r, b: r})
		case x < 62: // range
			var a, b rune
			if m.ci {
				a, b = rune(rg.Intn(128)), rune(rg.Intn(128))
			} else {
				a = c16RandRune(rg, m, near)
				switch rg.Intn(4) {
				case 0:
					b = a + rune(rg.Intn(4))
				case 1:
					b = a + rune(rg.Intn(40))
				default:
					b = c16RandRune(rg, m, near)
				}
				if b > 0x10ffff {
					b = 0x10ffff
				}
			}
			if a > b {
				a, b = b, a
			}
			near = append(near, a, b)
			s.items = append(s.items, c16Item{kind: c16Range, a: a, b: b})
		case x < 68 && !m.ci: // complement-shaped ranges: exercise canonicalize's normal forms
			g := c16RandRune(rg, m, near)
			h := g + rune(rg.Intn(3))
			if h > 0x10ffff {
				h = 0x10ffff
			}
			switch rg.Intn(5) {
			case 0:
				s.items = append(s.items, c16Item{kind: c16Range, a: 0, b: 0x10ffff})
			case 1:
				s.items = append(s.items, c16Item{kind: c16Range, a: 0, b: 0x10fffe})
			case 2:
				s.items = append(s.items, c16Item{kind: c16Range, a: 1, b: 0x10ffff})
			default:
				if g > 0 {
					s.items = append(s.items, c16Item{kind: c16Range, a: 0, b: g - 1})
				}
				if h < 0x10ffff {
					s.items = append(s.items, c16Item{kind: c16Range, a: h + 1, b: 0x10ffff})
				}
				if len(s.items) == 0 {
					s.items = append(s.items, c16Item{kind: c16Range, a: g, b: h})
				}
			}
			near = append(near, g, h)
		case x < 80: // shorthand
			neg := rg.Chance(40)
			if m.ci && (m.ecma || m.re2) {
				neg = false // a negated ASCII-table shorthand is a range up to U+10FFFF: outside the IgnoreCase domain
			}
			s.items = append(s.items, c16Item{kind: c16Digit + rg.Intn(3), neg: neg})
		case x < 92 && !m.ecma: // \p{..}
			name := Pick(rg, c16PropNames)
			neg := rg.Chance(35)
			if m.ci && neg && (name == "Ll" || name == "Lu" || name == "Lt") && !rg.Chance(15) {
				neg = false // keep the density of the known finding low
			}
			s.items = append(s.items, c16Item{kind: c16Prop, neg: neg, name: name})
		case m.re2: // POSIX name
			neg := rg.Chance(35)
			if m.ci {
				neg = false
			}
			s.items = append(s.items, c16Item{kind: c16Posix, neg: neg, k: rg.Intn(len(c16PosixNames))})
		default:
			r := c16RandRune(rg, m, near)
			near = append(near, r)
			s.items = append(s.items, c16Item{kind: c16Range, a: r, b: r})
		}
	}
	if depth < 3 && rg.Chance(30-5*depth) {
		s.sub = c16GenSyn(rg, m, depth+1)
	}
	return s
}

// ---------------------------------------------------------------- the leg

type c16Engine struct {
	re   [3]*regexp2.Regexp
	desc [3]string
}

func c16Compile(pat string, m c16Mode, bitmap bool) (*c16Engine, error) {
	e := &c16Engine{desc: [3]string{"^" + pat + "$", pat + "+", "x*" + pat}}
	for i, p := range e.desc {
		opts := []regexp2.CompileOption{m.opts}
		if !bitmap {
			opts = append(opts, regexp2.OptionDisableCharClassASCIIBitmap())
		}
		re, err := regexp2.Compile(p, opts...)
		if err != nil {
			return nil, fmt.Errorf("%s: %v", p, err)
		}
		re.MatchTimeout = 5 * time.Second
		e.re[i] = re
	}
	return e, nil
}

func bitsOf(rs []rune, f func(rune) bool) []int64 {
	out := make([]int64, len(rs))
	for i, r := range rs {
		out[i] = b2i(f(r))
	}
	return out
}

func legC16Class(c *Ctx) {
	c16Setup()
	c.Rule("random bracket expressions (1-12 members: characters, ranges, complement-shaped ranges, \\d\\s\\w\\D\\S\\W, \\p{..}/\\P{..} over 40 category/script/property names, POSIX names under RE2, negation, nested subtraction to depth 3) x modes {none, IgnoreCase, ECMAScript, RE2, IgnoreCase+ECMAScript, IgnoreCase+RE2} x ASCII bitmap on/off x runes {U+0000-U+024F, every range endpoint +-1 of the expression and of the parsed class, edge runes, sampled BMP/astral/surrogates, U+10FFFF}; under IgnoreCase ranges have ASCII endpoints, single members are ASCII or plain upper/lower pairs of ASCII/Latin-1/Greek/Cyrillic; non-trivial = a class with at least two members, negation or subtraction (distinct by pattern text and mode)")
	if c.Leg == "c16-class-0" {
		c16CheckFoldD(c)
	}
	nClasses := c.N(50, 1250) // per leg and mode family; four legs run in parallel
	nSample := c.N(2000, 20000)
	gates := map[string]bool{}
	for i := 0; i < nClasses; i++ {
		for mi, m := range c16Modes {
			if mi >= 4 && i%4 != 0 {
				continue // combined modes at a quarter of the density
			}
			c16OneClass(c, m, nSample, gates)
		}
		c.Flush()
	}
	for _, g := range []string{"binary-search", "subtraction", "nested-subtraction", "negated", "anything", "category", "negated-category", "posix", "bitmap-nonempty", "singleton", "singleton-inverse", "linear-scan"} {
		c.Gate(g, gates[g])
	}
}

func c16OneClass(c *Ctx, m c16Mode, nSample int, gates map[string]bool) {
	rg := c.Rng
	syn := c16GenSyn(rg, m, 0)
	pat := syn.print(rg, m)
	facts := &c16Facts{cats: map[string]bool{}}
	syn.facts(m, facts, 0)
	desc := fmt.Sprintf("class %s mode=%s", pat, m.name)
	key := pat + "|" + m.name
	nontrivial := facts.nItems >= 2 || syn.neg || syn.sub != nil

	var cs *syntax.CharSet
	var perr error
	func() {
		defer func() {
			if r := recover(); r != nil {
				perr = fmt.Errorf("panic: %v", r)
			}
		}()
		var rest int
		cs, rest, perr = syntax.VerifScanCharSet(pat, syntax.RegexOptions(m.opts))
		if perr == nil && rest != 0 {
			perr = fmt.Errorf("%d runes left after the class", rest)
		}
	}()
	if perr != nil {
		c.Add(&Case{Desc: desc, Key: key, Class: m.name, Direct: "generated class does not parse: " + perr.Error()})
		return
	}

	// ---- rune domain
	used := map[string]bool{}
	encPlain := encCls(cs, used)
	for k := range facts.cats {
		used[k] = true
	}
	cats := sortedKeys(used)
	var dom []rune
	for r := rune(0); r <= 0x24f; r++ {
		dom = append(dom, r)
	}
	addEnds := func(r rune) {
		for d := rune(-1); d <= 1; d++ {
			if r+d >= 0 && r+d <= 0x10ffff {
				dom = append(dom, r+d)
			}
		}
	}
	for _, r := range facts.endpoints {
		addEnds(r)
	}
	var walk func(x *syntax.CharSet, depth int)
	walk = func(x *syntax.CharSet, depth int) {
		ranges, xc, sub, negate, anything, _, _ := syntax.VerifCharSetFields(x)
		for _, r := range ranges {
			addEnds(r.First)
			addEnds(r.Last)
		}
		if len(ranges) > 4 {
			gates["binary-search"] = true
		} else if len(ranges) > 0 {
			gates["linear-scan"] = true
		}
		if negate {
			gates["negated"] = true
		}
		if anything {
			gates["anything"] = true
		}
		for _, k := range xc {
			gates["category"] = true
			if k.Negate {
				gates["negated-category"] = true
			}
		}
		if sub != nil {
			gates["subtraction"] = true
			if depth >= 1 {
				gates["nested-subtraction"] = true
			}
			walk(sub, depth+1)
		}
	}
	walk(cs, 0)
	if facts.hasPosix {
		gates["posix"] = true
	}
	if cs.IsSingleton() {
		gates["singleton"] = true
	}
	if cs.IsSingletonInverse() {
		gates["singleton-inverse"] = true
	}
	if m.ci {
		dom = append(dom, c16CaseTab...)
	} else {
		dom = append(dom, c16EdgeRunes...)
		for i := 0; i < nSample; i++ {
			switch rg.Intn(4) {
			case 0:
				dom = append(dom, rune(rg.Intn(0x10000)))
			case 1:
				dom = append(dom, rune(0xd800+rg.Intn(0x800)))
			default:
				dom = append(dom, rune(rg.Intn(0x110000)))
			}
		}
	}
	dom = dedupRunes(dom)
	var caseRunes []rune
	if m.ci {
		caseRunes = c16CaseTab
	}
	oracle := c16EncOracle(cats, dom, caseRunes)
	domEnc := encRunes(dom)

	// ---- implementation: CharIn on the parsed class, with and without the ASCII bitmap
	withBM := cs.Copy()
	withBM.VerifPrepareASCIIBitmap()
	encBM := encCls(&withBM, map[string]bool{})
	if _, _, _, _, _, has, bits := syntax.VerifCharSetFields(&withBM); has && (bits[0]|bits[1]) != 0 {
		gates["bitmap-nonempty"] = true
	}
	inBM := bitsOf(dom, withBM.CharIn)
	inPlain := bitsOf(dom, cs.CharIn)
	direct := ""
	for i := range dom {
		if inBM[i] != inPlain[i] {
			direct = fmt.Sprintf("CharIn(%U) = %d with the ASCII bitmap, %d without", dom[i], inBM[i], inPlain[i])
			break
		}
	}
	// ---- the engine: ^[..]$, [..]+, x*[..] on the single rune, bitmap on and off
	for _, bm := range []bool{true, false} {
		if direct != "" {
			break
		}
		eng, err := c16Compile(pat, m, bm)
		if err != nil {
			direct = "does not compile: " + err.Error()
			break
		}
		func() {
			defer func() {
				if r := recover(); r != nil {
					direct = fmt.Sprintf("panic in MatchRunes: %v", r)
				}
			}()
			buf := make([]rune, 1)
			for i, r := range dom {
				buf[0] = r
				for k := 0; k < 3; k++ {
					ok, err := eng.re[k].MatchRunes(buf)
					if err != nil {
						direct = fmt.Sprintf("MatchRunes(%s, %U): %v", eng.desc[k], r, err)
						return
					}
					if b2i(ok) != inPlain[i] {
						direct = fmt.Sprintf("MatchRunes(%s, %U) = %v (bitmap=%v) but CharIn = %d", eng.desc[k], r, ok, bm, inPlain[i])
						return
					}
				}
			}
		}()
	}
	cl := m.name
	// 1601: model char_in on the exported class (bitmap as built by the implementation) and without bitmap
	implOut := append(append(append([]int64{}, inBM...), inPlain...), 1)
	c.Add(&Case{Desc: desc + " [char_in on the exported class]", Key: key, Class: cl, Nontrivial: nontrivial, Direct: direct,
		ModelLeg: 1601, ModelIn: append(append(append([]int64{}, oracle...), encBM...), domEnc...), ImplOut: implOut})
	// 1602: the class the model's parser builds = the exported class
	synEnc := syn.enc(nil)
	in2 := append(append(append([]int64{}, oracle...), m.bits()), synEnc...)
	c.Add(&Case{Desc: desc + " [elab = exported class " + cs.String() + "]", Key: key, Class: cl,
		ModelLeg: 1602, ModelIn: in2, ImplOut: append([]int64{0}, encPlain...)})
	// 1603: set algebra on the generator's expression
	guard := ""
	if facts.ciNegCase {
		guard = "ci_negated_case_category"
	}
	in3 := append(append(append(append([]int64{}, oracle...), m.bits()), synEnc...), domEnc...)
	c.Add(&Case{Desc: desc + " [denote]", Key: key, Class: cl, Guard: guard,
		ModelLeg: 1603, ModelIn: in3, ImplOut: inPlain})
}

// ---------------------------------------------------------------- coq/Model/FoldD.v (finite case domain)

// c16FoldDText renders coq/Model/FoldD.v from the running toolchain's unicode tables.
func c16FoldDText() string {
	c16Setup()
	var sb strings.Builder
	sb.WriteString("(* GENERATED by the C16 harness (harness/leg_c16.go, c16FoldDText; regenerate with\n")
	sb.WriteString("   C16_WRITE_FOLDD=1 build/harness -legs c16-class-0 ...) from the unicode tables of the Go toolchain that\n")
	sb.WriteString("   builds /repo.  Leg c16-class-0 fails when this file differs from what the running toolchain yields.\n")
	sb.WriteString("   TODO(lead): belongs in coq/Gen (DESIGN: Gen/FoldD.v); it depends on the Go toolchain, not on /repo.\n")
	sb.WriteString("   pair_dom: letters of ASCII, Latin-1, Greek, Cyrillic that form a plain upper/lower pair\n")
	sb.WriteString("     (SimpleFold orbit = the two of them, ToLower/ToUpper map both to the lower/upper one) and their partners.\n")
	sb.WriteString("   fold_tbl: (x, (SimpleFold x, ToLower x)) for U+0000-U+024F, pair_dom and the ECMAScript \\s characters,\n")
	sb.WriteString("     closed under SimpleFold and ToLower. *)\n")
	sb.WriteString("From Verif Require Import Base.Prelude.\n\n")
	wr := func(name string, xs []rune) {
		sb.WriteString("Definition " + name + " : list Z :=\n  [")
		for i, x := range xs {
			if i > 0 {
				sb.WriteString("; ")
				if i%16 == 0 {
					sb.WriteString("\n   ")
				}
			}
			fmt.Fprintf(&sb, "%d", x)
		}
		sb.WriteString("].\n\n")
	}
	wr("pair_dom", c16D)
	sb.WriteString("Definition fold_tbl : list (Z * (Z * Z)) :=\n  [")
	for i, x := range c16CaseTab {
		if i > 0 {
			sb.WriteString("; ")
			if i%6 == 0 {
				sb.WriteString("\n   ")
			}
		}
		fmt.Fprintf(&sb, "(%d, (%d, %d))", x, unicode.SimpleFold(x), unicode.ToLower(x))
	}
	sb.WriteString("].\n")
	return sb.String()
}

func c16CheckFoldD(c *Ctx) {
	path := filepath.Join(c.OutDir, "coq", "Model", "FoldD.v")
	want := c16FoldDText()
	if os.Getenv("C16_WRITE_FOLDD") != "" {
		os.WriteFile(path, []byte(want), 0o644)
	}
	got, err := os.ReadFile(path)
	cs := &Case{Desc: "coq/Model/FoldD.v equals the table generated from the running Go toolchain (SimpleFold/ToLower on the finite case domain)", Class: "table"}
	if err != nil {
		cs.Direct = "cannot read " + path + ": " + err.Error()
	} else if string(got) != want {
		cs.Direct = "coq/Model/FoldD.v is stale (the closed IgnoreCase theorems are about other tables than the running unicode package)"
	}
	c.Add(cs)
}
