package main

// C20, leg c20-closed: translation validation of the hypothesis of the C20 invariance theorems.
//
// The theorems of Properties/C20.v say: when every character test of a tree respects the relation
// "same letter up to case" (ci_closed sim e t), changing the case of input letters does not change
// what Spec.find returns.  This leg checks the hypothesis on the trees the real parser+optimiser
// builds for IgnoreCase patterns, one pattern at a time, with the PROVED checker ci_closedb running
// inside the extracted model (C20_ci_closed_checker / C20_instance_find_invariant):
//   2001  exported tree + oracle tables on a finite rune universe U + the case pairs inside U
//         -> the model must answer "closed"
//   2002  the single-letter unit (parser.addUnitOne -> nodeWithCaseConversion -> reduce): the leaf the
//         real parser builds must be the leaf Model/CaseLink.v computes (field by field).

import (
	"fmt"
	"sort"
	"strings"
	"unicode"

	"github.com/dlclark/regexp2/v2"
	"github.com/dlclark/regexp2/v2/syntax"
)

func init() {
	registerLeg("c20-closed", "C20", legC20Closed)
}

// the other member of r's mutual simple case pair: ToLower(u) = l and ToUpper(l) = u, l != u
func c20Partner(r rune) (rune, bool) {
	l, u := unicode.ToLower(r), unicode.ToUpper(r)
	if r == l && u != r && unicode.ToLower(u) == r {
		return u, true
	}
	if r == u && l != r && unicode.ToUpper(l) == r {
		return l, true
	}
	return 0, false
}

func c20Orbit(r rune) []rune {
	o := []rune{r}
	for x := unicode.SimpleFold(r); x != r && len(o) < 8; x = unicode.SimpleFold(x) {
		o = append(o, x)
	}
	return o
}

// the claimed domain: ASCII, Latin-1, Greek and Cyrillic blocks (and the partners of their letters)
func c20InDomain(r rune) bool {
	return r < 0x100 || (r >= 0x370 && r <= 0x3ff) || (r >= 0x400 && r <= 0x4ff)
}

type c20Pat struct {
	pat string
	o   Opts
	fam string
}

// hand-written shapes beyond the templates of c20-case: Unicode categories (also the negated cased-letter
// categories of the known finding ci_negated_case_category: they match everything, which IS case-closed),
// word boundaries in both dialects, conditionals, anchors, letters whose fold orbit has a third member
var c20Extra = []string{
	`\p{Lu}`, `\p{Ll}+x`, `\p{Lt}`, `\P{Lu}`, `\P{Ll}a`, `[\p{Lu}a]`, `[^\p{L}]`, `[\P{Lu}-[a]]`, `\p{L}\d`, `[\w-[\p{Lu}]]`,
	`\w+`, `[\W\d]a`, `\bab\b`, `a\Bb`, `\b\w+\b`, `(a)?(?(1)b|c)`, `(?(?=a)ab|c)`, `(?<n>a)b\k<n>`, `(?<n>[a-c])(?(n)é|z)`,
	`^ab$`, `(?m)^a$`, `\Aa\z`, `a\Z`, `\Ga`, `.a`, `(?s).a`, `[^a]`, `[^a]*b`, `a|b|c`, `ab|ac|é`, `12-`, `a1b`, `1-2a`, `a{2}`, `(?:ab){2}c`,
	`k`, `s+`, `[k-s]`, `[^k]`, `ks`, `(k)\1`, `д`, `[а-я]д`, `(д)\1`, `σ`, `[^σ]x`, `β+`, `ǆ`, `[ǆ-ǌ]`, `å`, `ω`,
	`[\s\S-[k]]`, `[a-z-[k-s]]`, `[^a-z-[s]]`, `(?i:a)b`, `(?i:[a-c])\b`,
	// the three runes outside C16's good_dom (lcTable / ToLower leave the fold orbit): membership is off
	// ((?i)[İ] = [Ii], (?i)[À-Þ] contains ÷) but every class stays closed under case
	`İ`, `[İ]`, `[İa]`, `[^İ]`, `×`, `[×-Ø]`, `[À-Þ]`, `[^À-Þ]`, `ẞ`, `[ẞ]`, `[Ḁ-ẞ]`, `ß+`, `[ß-[ẞ]]x`,
}

// regression corpus of the repaired defect e0fcd53: literals that have a case partner but are neither Lu
// nor Ll (titlecase letters, Roman numerals, circled letters) used to stay One nodes ((?i)ᾈ did not match
// "ᾀ", (?i)Ⅰ not "ⅰ"); relation A includes their mutual pairs although they lie outside the four blocks
var c20Titlecase = []string{`ᾈ`, `xᾈ`, `ᾈ+`, `Ⅰ`, `Ⅰ*x`, `Ⓐ`, `aⒶ`, `(ᾈ)\1`, `[ᾈ]`, `[^Ⅰ]`}

// the same defect seen through a fold orbit of three: U+01C5 etc. are related to their partners only by
// the orbit relation B ((?i)ǅ did not match "ǆ")
var c20TitlecaseOrbit = []string{`ǅ`, `xǅ`, `ǅ+`, `ǈ`, `[ǅ]`, `ǲ?a`, `[^ǅ]`}

// regression corpus of repaired defect 858f498: the long aliases of the cased-letter categories were not
// widened to Ll|Lu|Lt under IgnoreCase (addCategory compared the spelling): (?i)\p{Uppercase_Letter} matched
// "A" but not "a"
var c20AliasPats = []string{`\p{Uppercase_Letter}`, `\p{Lowercase_Letter}x`, `[\p{Titlecase_Letter}a]`, `[^\p{Uppercase_Letter}]`, `\P{Lowercase_Letter}`, `[a-z-[\p{Uppercase_Letter}]]`}

var c20OrbitPats = []string{
	`k`, `s+`, `[k-s]`, `[^k]x`, `ks`, `µ`, `[µ]`, `σ`, `ς`, `[σ-ω]`, `θ+`, `д`, `[а-я]`, `[^д]`, `å`, `ω`, `[^ω]`, `ß`, `[ß]`, `ǆ`, `Ǆ`, `[ǆ-ǌ]`,
	`İ`, `[İ]`, `[^İ]x`, `[×-Ø]`, `[À-Þ]`, `ẞ`, `[ẞ]`, `[Ḁ-ẞ]`, `[^ß]`, `[ß-[ẞ]]x`, `ı`, `[ı]`, `i`, `[^i]`,
	`\w`, `\W?k`, `\bk\b`, `[a-z-[k]]`, `[\s\S-[s]]`, `a|k|s`, `(?:k|s)+`, `[^\p{L}]`, `\p{Lu}`, `\P{Ll}`, `ⅰ`, `[Ⅰ]`, `[Ⓐ-Ⓩ]`,
}

func c20TreeStats(n *syntax.RegexNode, hits map[string]int, lits *[]rune) {
	switch int(n.T) {
	case ntOne:
		hits["One"]++
		*lits = append(*lits, n.Ch)
	case ntNotone:
		hits["Notone"]++
		*lits = append(*lits, n.Ch)
	case ntOneloop, ntOnelazy, 43, ntNotoneloop, ntNotonelazy, 44:
		hits["charloop"]++
		*lits = append(*lits, n.Ch)
	case ntSet, ntSetloop, ntSetlazy, 45:
		hits["Set"]++
		if int(n.T) != ntSet {
			hits["setloop"]++
		}
		if n.Set != nil {
			rs, _, sub, neg, _, _, _ := syntax.VerifCharSetFields(n.Set)
			if neg {
				hits["negated class"]++
			}
			if sub != nil {
				hits["subtracted class"]++
			}
			for _, r := range rs {
				if r.Last-r.First < 64 {
					for x := r.First; x <= r.Last; x++ {
						*lits = append(*lits, x)
					}
				} else {
					*lits = append(*lits, r.First, r.Last)
				}
			}
		}
	case ntMulti:
		hits["Multi"]++
		*lits = append(*lits, n.Str...)
	case ntRef:
		hits["Ref"]++
		if n.Options&syntax.IgnoreCase != 0 {
			hits["Ref-I"]++
		}
		if n.Options&syntax.RightToLeft != 0 {
			hits["Ref-RTL"]++
		}
	case ntBoundary, ntNonboundary:
		hits["Boundary"]++
	case ntECMABoundary, ntNonECMABoundary:
		hits["ECMABoundary"]++
	case ntBol, ntEol, ntEndZ:
		hits["newline anchor"]++
	case ntBackRefCond, ntExprCond:
		hits["conditional"]++
	}
	for _, k := range n.Children {
		c20TreeStats(k, hits, lits)
	}
}

// preorder listing "idx:Type" so that the leaf index in the model's answer can be read off the replay text
func c20Preorder(n *syntax.RegexNode, idx *int, sb *strings.Builder) {
	if *idx > 0 {
		sb.WriteByte(' ')
	}
	fmt.Fprintf(sb, "%d:%d", *idx, int(n.T))
	switch int(n.T) {
	case ntOne, ntNotone, ntOneloop, ntOnelazy, 43, ntNotoneloop, ntNotonelazy, 44:
		fmt.Fprintf(sb, "(%U)", n.Ch)
	case ntSet, ntSetloop, ntSetlazy, 45:
		if n.Set != nil {
			fmt.Fprintf(sb, "(%s)", n.Set.String())
		}
	case ntMulti:
		fmt.Fprintf(sb, "(%+q)", string(n.Str))
	case ntRef:
		fmt.Fprintf(sb, "(group %d, opts %d)", n.M, int(n.Options))
	}
	*idx++
	for _, k := range n.Children {
		c20Preorder(k, idx, sb)
	}
}

func c20SortedRunes(m map[rune]bool) []rune {
	out := make([]rune, 0, len(m))
	for r := range m {
		out = append(out, r)
	}
	sort.Slice(out, func(i, j int) bool { return out[i] < out[j] })
	return out
}

var c20Sample = []rune{'a', 'b', 'c', 'e', 'z', 'é', 'ä', 'α', 'λ', 'я', 'ÿ', 'k', 's', 'д', 'σ', 'β', 'ǆ'}
var c20OrbitSample = []rune{'k', 's', 'µ', 'σ', 'ǅ', 'д', 'θ', 'ω', 'å', 'ß', 'i', 'İ', 'ı', '×', '÷'}
var c20Others = []rune{'0', '9', '_', '-', ' ', ',', '\n', '\t', '́', 0x2028, '中'}

func legC20Closed(c *Ctx) {
	c.Rule("IgnoreCase patterns: the templates and the random-AST generator of leg c20-case (literals, classes, negated classes, subtractions, back-references in both directions, lookarounds, atomic groups, anchors; letters of ASCII/Latin-1/Greek/Cyrillic), hand-written shapes with Unicode categories (incl. the negated cased-letter categories of known finding ci_negated_case_category), both word-boundary dialects, conditionals and letters whose fold orbit has a third member (k s д σ β ǆ å ω). Per pattern the REAL parsed+optimised tree is exported with oracle tables (membership in every class of the tree, unicode.ToLower, IsWordChar, IsECMAWordChar) on a finite universe U = letters of the pattern and of the tree (One/Multi runes, members of the exported classes), their case partners, all ASCII letters, a fixed and a random sample of other letters with their partners, digits/punctuation/newline; relation A (every pattern): sim = the mutual simple case pairs {l,u} inside U (ToLower(u)=l, ToUpper(l)=u; contains every letter whose fold orbit is a plain pair; restricted to the claimed domain ASCII/Latin-1/Greek/Cyrillic + partners, U+0130 U+00D7 U+1E9E have no mutual partner and are therefore case-less here); relation B (back-reference-free trees of a hand-written family with K/ſ/µ/ς/ǅ/ᲁ...): sim = all pairs inside a unicode.SimpleFold orbit. The proved checker ci_closedb must accept the tree (model leg 2001; answer [1]; otherwise the replay names preorder index, node type and rune/set of the first rejected leaf). The known-finding shapes are kept in the corpus, not dropped: (?i)\\P{Lu} (ci_negated_case_category: matches everything) and members U+0130 U+00D7 U+1E9E (outside C16's good_dom: (?i)[İ] = [Ii], (?i)[À-Þ] contains ÷) are membership errors that leave every class closed under case, so the checker must accept them too. Regression corpus of repaired defect 858f498: the long aliases \\p{Uppercase_Letter} \\p{Lowercase_Letter} \\p{Titlecase_Letter} must be widened like \\p{Lu} (their negations match everything, as \\P{Lu}: ci_negated_case_category). By design outside the claim: case-sensitive islands (?-i:...), block/script categories (\\p{IsGreek} is not folded), relation B with back-references (ToLower does not identify σ/ς). Regression corpus of repaired defect e0fcd53: literals that have a case partner but are neither Lu nor Ll (titlecase ᾈ ǅ, Roman numerals, circled letters) must be Set nodes now. Second part (model leg 2002): single-letter IgnoreCase patterns x, x*, x+?, x{2} for several hundred runes: the leaf of the real tree (node family, option word, rune or class fields) equals Model/CaseLink.unit_leaf computed from unicode.SimpleFold. Non-trivial = the tree has a leaf whose check consults at least one pair (distinct by pattern, options, relation)")
	c16Setup()
	hits := map[string]int{}

	// Unicode facts behind relation A on the claimed domain
	{
		var bad []string
		n := 0
		for r := rune(0); r <= 0x4ff; r++ {
			if !c20InDomain(r) {
				continue
			}
			p, ok := c20Partner(r)
			if !ok {
				continue
			}
			n++
			orb := c20Orbit(r)
			in := false
			for _, x := range orb {
				in = in || x == p
			}
			if !in {
				bad = append(bad, fmt.Sprintf("%U partner outside fold orbit", r))
			}
			if syntax.IsWordChar(r) != syntax.IsWordChar(p) || syntax.IsECMAWordChar(r) != syntax.IsECMAWordChar(p) || unicode.ToLower(r) != unicode.ToLower(p) {
				bad = append(bad, fmt.Sprintf("%U word/lower differs from partner", r))
			}
		}
		cs := &Case{Desc: fmt.Sprintf("Unicode facts on the claimed domain: %d runes with a mutual case partner share the fold orbit, ToLower and the word-character tests with the partner", n), Nontrivial: true, Class: "facts"}
		if len(bad) > 0 {
			cs.Direct = "fails for " + strings.Join(bad, ", ")
		}
		c.Add(cs)
	}

	var pats []c20Pat
	for _, t := range ciTemplates {
		pats = append(pats, c20Pat{t, Opts{I: true}, "template"}, c20Pat{t, Opts{I: true, RTL: true}, "template"})
	}
	for _, t := range []string{`\1(a)`, `\1b(a)`, `\k<n>(?<n>[a-c])`, `\1+(é)`} {
		pats = append(pats, c20Pat{t, Opts{I: true, RTL: true}, "template"})
	}
	for _, t := range c20Extra {
		pats = append(pats, c20Pat{t, Opts{I: true}, "extra"}, c20Pat{t, Opts{I: true, RTL: true}, "extra"},
			c20Pat{t, Opts{I: true, ECMA: true}, "extra"})
	}
	for _, t := range c20Titlecase {
		pats = append(pats, c20Pat{t, Opts{I: true}, "titlecase"}, c20Pat{t, Opts{I: true, RTL: true}, "titlecase"})
	}
	for _, t := range c20AliasPats {
		pats = append(pats, c20Pat{t, Opts{I: true}, "alias"}, c20Pat{t, Opts{I: true, RTL: true}, "alias"})
	}
	n := c.N(4000, 60000)
	for i := 0; i < n; i++ {
		o := Opts{I: true, RTL: c.Rng.Chance(20), S: c.Rng.Chance(20), M: c.Rng.Chance(20)}
		lits := []rune{Pick(c.Rng, ciLetters), Pick(c.Rng, ciLetters), swapCase(Pick(c.Rng, ciLetters))}
		if c.Rng.Chance(25) {
			lits = append(lits, Pick(c.Rng, []rune{'k', 'S', 'σ', 'Д', 'β', 'Å', 'ω'}))
		}
		cfg := GenCfg{Lits: lits, MaxDepth: 2 + c.Rng.Intn(3), NullableReps: true, Look: true, Behind: true, Backref: true, Atomic: true,
			Cond: c.Rng.Chance(30), Named: c.Rng.Chance(30), Anchors: []string{"^", "$", `\b`, `\B`, `\z`}, Classes: true, Shorthand: true, MaxRep: 3, Opts: o}
		ast := GenAst(c.Rng, cfg)
		pats = append(pats, c20Pat{ast.Pattern(o, nil), o, "random"})
	}

	type job struct {
		p     c20Pat
		orbit bool
	}
	var jobs []job
	for _, p := range pats {
		jobs = append(jobs, job{p, false})
	}
	for _, t := range c20OrbitPats {
		jobs = append(jobs, job{c20Pat{t, Opts{I: true}, "orbit"}, true}, job{c20Pat{t, Opts{I: true, RTL: true}, "orbit"}, true})
	}
	for _, t := range c20TitlecaseOrbit {
		jobs = append(jobs, job{c20Pat{t, Opts{I: true}, "orbit-titlecase"}, true})
	}

	for _, j := range jobs {
		p := j.p
		var tree *syntax.RegexTree
		var re *regexp2.Regexp
		var err error
		crash := ""
		func() {
			defer func() {
				if x := recover(); x != nil {
					crash = fmt.Sprint(x)
				}
			}()
			re, err = regexp2.Compile(p.pat, toRegexOptions(p.o))
			if err == nil {
				tree, err = syntax.Parse(p.pat, syntax.ParseOptions{RegexOptions: syntax.RegexOptions(p.o.bits())})
			}
		}()
		if crash != "" {
			c.Add(&Case{Desc: fmt.Sprintf("pattern %q opts=%s", p.pat, p.o), Direct: "Compile/Parse panicked: " + crash, Class: "crash"})
			continue
		}
		if err != nil {
			if p.fam != "random" {
				c.Add(&Case{Desc: fmt.Sprintf("pattern %q opts=%s", p.pat, p.o), Direct: "hand-written pattern rejected: " + err.Error(), Class: "compile-error"})
			}
			continue
		}
		var lits []rune
		th := map[string]int{}
		c20TreeStats(tree.Root, th, &lits)
		if j.orbit && th["Ref"] > 0 {
			continue
		}
		for k, v := range th {
			hits[k] += v
		}
		if th["Ref"] != th["Ref-I"] {
			hits["Ref without IgnoreCase"]++
		}
		wire := ExportTree(tree, re.VerifCode())

		// the universe
		U := map[rune]bool{}
		add := func(r rune) {
			if r < 0 || r > unicode.MaxRune {
				return
			}
			U[r] = true
			if j.orbit {
				for _, x := range c20Orbit(r) {
					U[x] = true
				}
			} else if q, ok := c20Partner(r); ok {
				U[q] = true
			}
		}
		for _, r := range p.pat {
			if unicode.IsLetter(r) || unicode.SimpleFold(r) != r {
				add(r)
			}
		}
		for _, r := range lits {
			add(r)
		}
		for r := 'a'; r <= 'z'; r++ {
			add(r)
		}
		if j.orbit {
			for _, r := range c20OrbitSample {
				add(r)
			}
		} else {
			for _, r := range c20Sample {
				add(r)
			}
			for k := 0; k < 8; k++ {
				add(Pick(c.Rng, c16D))
			}
		}
		for _, r := range c20Others {
			U[r] = true
		}
		us := c20SortedRunes(U)
		var pairs []int64
		np := 0
		if j.orbit {
			for _, r := range us {
				for _, x := range c20Orbit(r) {
					if r < x && U[x] {
						pairs = append(pairs, int64(r), int64(x))
						np++
					}
				}
			}
		} else {
			for _, r := range us {
				q, ok := c20Partner(r)
				if ok && r == unicode.ToLower(r) && U[q] && (p.fam == "titlecase" || c20InDomain(r) || c20InDomain(q)) {
					pairs = append(pairs, int64(r), int64(q))
					np++
				}
			}
		}
		in := encEnv(us, 0, p.o, wire.Sets, wire.Slots)
		in = append(in, wire.Words...)
		in = append(in, int64(np))
		in = append(in, pairs...)
		var sb strings.Builder
		idx := 0
		c20Preorder(tree.Root, &idx, &sb)
		rel := "mutual case pairs"
		if j.orbit {
			rel = "SimpleFold orbits"
		}
		desc := fmt.Sprintf("pattern %q opts=%s relation=%s: tree (preorder idx:NodeType) %s; |U|=%d, %d pairs; the proved checker must accept it", p.pat, p.o, rel, sb.String(), len(us), np)
		leafy := th["One"]+th["Notone"]+th["charloop"]+th["Set"]+th["Multi"]+th["Ref"]+th["Boundary"]+th["ECMABoundary"]+th["newline anchor"] > 0
		c.Add(&Case{Desc: desc, ModelLeg: 2001, ModelIn: in, ImplOut: []int64{1}, Nontrivial: leafy, Key: p.pat + p.o.String() + rel, Class: p.fam})
	}

	// ---- the single-letter unit ----
	var letters []rune
	for r := rune(1); r < 128; r++ {
		letters = append(letters, r)
	}
	letters = append(letters, c16D...)
	letters = append(letters, 'K', 'ſ', 'µ', 'ς', 'σ', 'Σ', 'ǅ', 'ǆ', 'Ǆ', 'ᲁ', 'θ', 'ϑ', 'Ω', 'Å', 'ß', 'ẞ', 'İ', 'ı', '×', '÷', 'ĸ', 'ª', 'ᾈ', 'ᾀ', 'Ⅰ', 'ⅰ', 'Ⓐ', 'ⓐ', '中', '́', 0x10400, 0x10428, 0x1e921, unicode.MaxRune)
	for k := 0; k < c.N(60, 2000); k++ {
		letters = append(letters, rune(1+c.Rng.Intn(0x2fff)))
	}
	shapes := []string{"%s", "%s*", "%s+?", "%s{2}", "x%s"}
	for li, r := range dedupRunes(letters) {
		for si, sh := range shapes {
			if li%len(shapes) != si && si != 0 && !(r < 128 && unicode.IsLetter(r)) {
				continue // every rune as a bare unit, one quantified/embedded shape each (all shapes for ASCII letters)
			}
			lit := string(r)
			if !unicode.IsLetter(r) && !unicode.IsDigit(r) {
				lit = regexp2.Escape(string(r))
				if r < 128 && lit == string(r) && !unicode.IsSpace(r) && r >= 32 {
					lit = `\` + lit
				}
				if r < 32 || r == 127 {
					lit = fmt.Sprintf(`\x%02x`, r)
				}
			}
			pat := fmt.Sprintf(sh, lit)
			o := Opts{I: true, RTL: c.Rng.Chance(15)}
			tree, err := syntax.Parse(pat, syntax.ParseOptions{RegexOptions: syntax.RegexOptions(o.bits())})
			if err != nil {
				continue
			}
			node := tree.Root
			for len(node.Children) > 0 && (int(node.T) == ntCapture || int(node.T) == ntConcatenate || int(node.T) == ntLoop || int(node.T) == ntLazyloop) {
				node = node.Children[len(node.Children)-1]
				if o.RTL && int(tree.Root.Children[0].T) == ntConcatenate {
					node = tree.Root.Children[0].Children[0]
				}
			}
			var impl []int64
			kind := ""
			switch int(node.T) {
			case ntOne, ntOneloop, ntOnelazy, 43:
				impl = []int64{0, 0, int64(node.Options), int64(node.Ch)}
				kind = "One"
			case ntNotone, ntNotoneloop, ntNotonelazy, 44:
				impl = []int64{0, 1, int64(node.Options), int64(node.Ch)}
				kind = "Notone"
			case ntSet, ntSetloop, ntSetlazy, 45:
				impl = append([]int64{0, 2, int64(node.Options)}, encCls(node.Set, map[string]bool{})...)
				kind = "Set"
			case ntMulti:
				// "x" + caseless rune merged into a Multi: compare the last rune as a One leaf
				if len(node.Str) == 2 && node.Str[0] == 'x' {
					continue // 'x' stays a Set under IgnoreCase, so this cannot happen; defensive
				}
				continue
			default:
				continue
			}
			hits["unit "+kind]++
			var caseRunes []rune
			for _, x := range c20Orbit(r) {
				caseRunes = append(caseRunes, x)
			}
			in := c16EncOracle(nil, nil, dedupRunes(caseRunes))
			in = append(in, 0, int64(o.bits()), int64(r))
			c.Add(&Case{Desc: fmt.Sprintf("single-letter unit: pattern %q opts=%s rune %U -> leaf %s %v", pat, o, r, kind, impl),
				ModelLeg: 2002, ModelIn: in, ImplOut: impl, Nontrivial: unicode.SimpleFold(r) != r, Key: pat + o.String(), Class: "unit-" + kind})
		}
	}

	for _, g := range []string{"One", "Set", "Multi", "Ref", "Boundary", "ECMABoundary", "negated class", "subtracted class", "charloop", "setloop", "Notone", "newline anchor", "conditional", "Ref-RTL", "unit One", "unit Set"} {
		c.Gate("leaf kind exercised: "+g, hits[g] > 0)
	}
	if hits["Ref without IgnoreCase"] > 0 {
		c.Hist("trees with a back-reference lacking the IgnoreCase bit")
	}
}
