package main

// C02: every public entry point reports the same matches (direct observables on the implementation).

import (
	"fmt"
	"strings"
	"time"
	"unicode/utf8"

	"github.com/dlclark/regexp2/v2"
	"github.com/dlclark/regexp2/v2/compat"
)

func init() {
	registerLeg("c02-entry", "C02", legEntry)
}

type canonMatch struct {
	idx, ln int
	groups  [][][2]int // per group: captures (rune index, rune length)
}

func canon(m *regexp2.Match) *canonMatch {
	if m == nil {
		return nil
	}
	c := &canonMatch{idx: m.RuneIndex, ln: m.RuneLength}
	for _, g := range m.Groups() {
		var caps [][2]int
		for _, cp := range g.Captures {
			caps = append(caps, [2]int{cp.RuneIndex, cp.RuneLength})
		}
		c.groups = append(c.groups, caps)
	}
	return c
}

func (c *canonMatch) String() string {
	if c == nil {
		return "nil"
	}
	return fmt.Sprintf("(%d,%d)%v", c.idx, c.ln, c.groups)
}

func canonEq(a, b *canonMatch) bool { return a.String() == b.String() }

// byte offset of every rune index of s (len(runes)+1 entries), invalid bytes count as one rune
func runeByteOffsets(s string) []int {
	var offs []int
	for i := range s {
		offs = append(offs, i)
	}
	return append(offs, len(s))
}

func iterate(re *regexp2.Regexp, first *regexp2.Match, cap int) ([]*canonMatch, string) {
	var out []*canonMatch
	m := first
	for k := 0; m != nil; k++ {
		if k > cap {
			return out, "iteration does not terminate"
		}
		out = append(out, canon(m))
		var err error
		m, err = re.FindNextMatch(m)
		if err != nil {
			return out, "error: " + err.Error()
		}
	}
	return out, ""
}

func seqStr(s []*canonMatch) string {
	var sb strings.Builder
	for _, m := range s {
		sb.WriteString(m.String())
		sb.WriteByte(';')
	}
	return sb.String()
}

var entryInputs = []string{"", "a", "ab", "aba", "abab", "xabc", "aaa", "b\na", "é", "aéb", "a😀b", "\xff", "a\xffb", "\xe2\x82", "ab\xc0\xaf", "\xed\xa0\x80", "日本語", "a b", "AbA", "a1b2", "\n", "ba\naba"}

func legEntry(c *Ctx) {
	c.Rule("patterns: random ASTs over the full generator syntax (nullable loops, \\G, lookaround, backrefs, conditionals, Unicode classes), FindMode shapes, harvested test patterns; x options incl. RightToLeft/ECMAScript/RE2 x compile options (code-gen analysis, ASCII bitmap off); inputs: fixed multi-byte / invalid-UTF-8 strings plus pattern-directed random strings (with invalid bytes spliced in); compared: MatchString/MatchRunes vs find, FindStringMatch vs FindRunesMatch, StartingAt variants at every rune boundary, FindNextMatch sequences from string and rune entry, FindAllStringIndex vs FindAllRunesIndex through the byte map, the adapter's index/submatch methods, the match sequence enumerated by ReplaceFunc, Replace with $& and Split's piece count; results also compared across compile options; non-trivial = at least one match (distinct by pattern,options,input)")
	var pats []patCase
	pats = append(pats, shapePatterns(c.Rng)...)
	pats = append(pats, genPatterns(c.Rng, c.N(700, 15000), true)...)
	for _, h := range harvestedPatterns() {
		pats = append(pats, patCase{pat: h, alpha: []rune("abcxyz01 \n-_@.AZé")})
	}
	// sparse explicit group numbers (number != slot) that the pattern itself refers to: the bool-only and find-all
	// entry points run a capture-pruned program and must keep exactly the groups that are referred to
	for _, s := range []string{`(?<2>a)(?<3>b)\2`, `(?<2>\w)(?<3>\d)?\2`, `(?<7>a)?(?(7)b|c)`, `(?<5>a)(b)\5`, `(?<3>a)(?<x>b)\3\k<x>`, `(?<2>a)(?<4>b)(?<6>c)?\4`, `(?<10>a)(?<20>b)\20\10`, `\2(?<3>b)(?<2>a)`} {
		for _, o := range []Opts{{}, {RTL: true}, {I: true}} {
			pats = append(pats, patCase{pat: s, o: o, alpha: []rune("ab1c")}, patCase{pat: s, o: o, cg: true, alpha: []rune("ab1")})
		}
	}
	// balancing groups whose popped group keeps an earlier capture, in both directions: Replace with ${name} enumerates its
	// matches through its own loop and must report the captures every other entry point reports
	for _, s := range []string{`(?<-o>a)+(?<o>b)+`, `(?<x-o>a)+(?<o>b)+`, `(?<o>b)+(?<-o>a)+`, `(?<o>b)+(?<x-o>a)+c?`, `(?:(?<o>b)|(?<-o>a))+`} {
		for _, o := range []Opts{{}, {RTL: true}} {
			pats = append(pats, patCase{pat: s, o: o, alpha: []rune("ab-")}, patCase{pat: s, o: o, alpha: []rune("abc")})
		}
	}
	classes := map[string]int{}
	for _, p := range pats {
		if c.Rng.Chance(8) {
			p.o.ECMA, p.o.RE2 = true, false
		}
		re, err := p.compile()
		if err != nil {
			continue
		}
		alt, err2 := regexp2.Compile(p.pat, toRegexOptions(p.o), regexp2.OptionDisableCharClassASCIIBitmap())
		var altcg *regexp2.Regexp
		if !p.cg {
			altcg, _ = regexp2.Compile(p.pat, toRegexOptions(p.o), regexp2.OptionIsCodeGen())
		}
		if err2 == nil {
			alt.MatchTimeout = 300 * time.Millisecond
		}
		if altcg != nil {
			altcg.MatchTimeout = 300 * time.Millisecond
		}
		wrapped := compat.Wrap(re)
		var inputs []string
		for k := 0; k < c.N(5, 12); k++ {
			inputs = append(inputs, Pick(c.Rng, entryInputs))
		}
		for k := 0; k < c.N(5, 12); k++ {
			rs := randString(c.Rng, p.alpha, 9)
			s := string(rs)
			if c.Rng.Chance(25) && len(s) > 0 {
				i := c.Rng.Intn(len(s) + 1)
				s = s[:i] + Pick(c.Rng, []string{"\xff", "\xc3", "\xe2\x82", "\xf0\x9f"}) + s[i:]
			}
			inputs = append(inputs, s)
		}
		for _, s := range inputs {
			r := []rune(s)
			offs := runeByteOffsets(s)
			desc := fmt.Sprintf("pattern %q opts=%s cg=%v input %+q", p.pat, p.o, p.cg, s)
			var bad []string
			fail := func(f string, a ...any) { bad = append(bad, fmt.Sprintf(f, a...)) }
			timedOut := false
			chkErr := func(err error) bool {
				if err != nil {
					timedOut = true
					return true
				}
				return false
			}
			mr, e1 := re.FindRunesMatch(r)
			ms, e2 := re.FindStringMatch(s)
			if chkErr(e1) || chkErr(e2) {
				classes["timeout-skipped"]++
				continue
			}
			cr, csm := canon(mr), canon(ms)
			if !canonEq(cr, csm) {
				fail("FindRunesMatch %s != FindStringMatch %s", cr, csm)
			}
			if ok, err := re.MatchString(s); err == nil && ok != (ms != nil) {
				fail("MatchString=%v but FindStringMatch=%s", ok, csm)
			}
			if ok, err := re.MatchRunes(r); err == nil && ok != (mr != nil) {
				fail("MatchRunes=%v but FindRunesMatch=%s", ok, cr)
			}
			// byte ranges of the string match
			if ms != nil {
				bi, bl := ms.ByteRange()
				if bi != offs[ms.RuneIndex] || bi+bl != offs[ms.RuneIndex+ms.RuneLength] {
					fail("ByteRange (%d,%d) is not the byte span of runes [%d,%d)", bi, bl, ms.RuneIndex, ms.RuneIndex+ms.RuneLength)
				}
			}
			// StartingAt variants at every rune boundary, and off-boundary errors
			for k := 0; k <= len(r); k++ {
				a, ea := re.FindRunesMatchStartingAt(r, k)
				b, eb := re.FindStringMatchStartingAt(s, offs[k])
				if ea != nil || eb != nil {
					timedOut = true
					break
				}
				if !canonEq(canon(a), canon(b)) {
					fail("StartingAt rune %d: runes %s != string %s", k, canon(a), canon(b))
				}
			}
			// iteration from both entry points
			if !timedOut {
				seqR, w1 := iterate(re, mr, len(r)+2)
				seqS, w2 := iterate(re, ms, len(r)+2)
				if w1 != "" || w2 != "" {
					if strings.HasPrefix(w1, "error") || strings.HasPrefix(w2, "error") {
						timedOut = true
					} else {
						fail("FindNextMatch: %s %s", w1, w2)
					}
				} else if seqStr(seqR) != seqStr(seqS) {
					fail("FindNextMatch sequence from runes %s != from string %s", seqStr(seqR), seqStr(seqS))
				}
				// find-all: string vs runes through the byte map
				fr, e3 := re.FindAllRunesIndex(r, -1)
				fs, e4 := re.FindAllStringIndex(s, -1)
				if e3 == nil && e4 == nil {
					if len(fr) != len(fs) {
						fail("FindAllRunesIndex has %d matches, FindAllStringIndex %d", len(fr), len(fs))
					} else {
						for i := range fr {
							if offs[fr[i][0]] != fs[i][0] || offs[fr[i][1]] != fs[i][1] {
								fail("find-all match %d: runes %v -> bytes (%d,%d), string call %v", i, fr[i], offs[fr[i][0]], offs[fr[i][1]], fs[i])
							}
						}
					}
					// find-all = iteration minus empty matches adjacent to the previous match's edge
					if w1 == "" {
						var want [][2]int
						prev := -1
						for _, m := range seqR {
							edge := m.idx + m.ln
							if p.o.RTL {
								edge = m.idx
							}
							if m.ln != 0 || m.idx != prev {
								want = append(want, [2]int{m.idx, m.idx + m.ln})
							}
							_ = edge
							if m.ln != 0 || m.idx != prev {
								prev = edge
							}
						}
						if len(want) != len(fr) {
							fail("FindAllRunesIndex %v is not the filtered FindNextMatch sequence %v", fr, want)
						}
					}
				}
				// the match sequence enumerated inside ReplaceFunc, and Replace with $&
				if utf8.ValidString(s) || true {
					var seen []*canonMatch
					_, e5 := re.ReplaceFunc(s, func(m regexp2.Match) string { seen = append(seen, canon(&m)); return "" }, -1, -1)
					if e5 == nil && w2 == "" {
						if p.o.RTL {
							// same sequence, scan order
						}
						if seqStr(seen) != seqStr(seqS) {
							fail("ReplaceFunc enumerated %s, FindNextMatch %s", seqStr(seen), seqStr(seqS))
						}
					}
					// a bool-only call (quick program) immediately followed by Replace with group references:
					// the enumeration inside Replace must see the same captures as ReplaceFunc
					if ms != nil && utf8.ValidString(s) {
						var sb strings.Builder
						ng := len(ms.Groups())
						for g := 1; g < ng; g++ {
							fmt.Fprintf(&sb, "[${%d}]", re.GetGroupNumbers()[g])
						}
						sb.WriteString("<$&>")
						repl := sb.String()
						re.MatchString(s)
						outR, eR := re.Replace(s, repl, -1, -1)
						outF, eF := re.ReplaceFunc(s, func(m regexp2.Match) string {
							var b strings.Builder
							gs := m.Groups()
							for g := 1; g < len(gs); g++ {
								b.WriteString("[" + gs[g].String() + "]")
							}
							b.WriteString("<" + m.String() + ">")
							return b.String()
						}, -1, -1)
						if eR == nil && eF == nil && outR != outF {
							fail("Replace(%q) after MatchString = %+q, ReplaceFunc with the same expansion = %+q", repl, outR, outF)
						}
					}
					if out, e6 := re.Replace(s, "$&", -1, -1); e6 == nil && utf8.ValidString(s) && out != s {
						fail("Replace with $& changed the input to %+q", out)
					}
					if pieces, e7 := re.Split(s, -1); e7 == nil && w2 == "" {
						groups := 0
						if ms != nil {
							groups = len(ms.Groups()) - 1
						}
						if want := 1 + len(seqS)*(1+groups); len(pieces) != want {
							fail("Split returned %d pieces for %d matches and %d groups", len(pieces), len(seqS), groups)
						}
					}
				}
				// the adapter
				if ms != nil || mr == nil {
					loc := wrapped.FindStringSubmatchIndex(s)
					if (loc == nil) != (ms == nil) {
						fail("adapter FindStringSubmatchIndex nil-ness %v vs FindStringMatch %s", loc == nil, csm)
					} else if ms != nil {
						gs := ms.Groups()
						for i, g := range gs {
							if len(g.Captures) == 0 {
								if loc[2*i] != -1 || loc[2*i+1] != -1 {
									fail("adapter pair %d should be -1,-1", i)
								}
								continue
							}
							bi, bl := g.ByteRange()
							if loc[2*i] != bi || loc[2*i+1] != bi+bl {
								fail("adapter pair %d = (%d,%d), group ByteRange (%d,%d)", i, loc[2*i], loc[2*i+1], bi, bi+bl)
							}
						}
					}
					if wrapped.MatchString(s) != (ms != nil) || wrapped.Match([]byte(s)) != (ms != nil) {
						fail("adapter Match/MatchString disagree with FindStringMatch")
					}
					bloc := wrapped.FindIndex([]byte(s))
					if (bloc == nil) != (ms == nil) || (ms != nil && (bloc[0] != offs[ms.RuneIndex] || bloc[1] != offs[ms.RuneIndex+ms.RuneLength])) {
						fail("adapter FindIndex([]byte) %v vs match %s", bloc, csm)
					}
				}
				// compile options must not change results
				for name, o := range map[string]*regexp2.Regexp{"bitmap-off": alt, "codegen-analysis": altcg} {
					if o == nil {
						continue
					}
					if m2, err := o.FindRunesMatch(r); err == nil && !canonEq(canon(m2), cr) {
						fail("compile option %s changes the result: %s vs %s", name, canon(m2), cr)
					}
					if ok, err := o.MatchString(s); err == nil && ok != (ms != nil) {
						fail("compile option %s changes MatchString", name)
					}
				}
			}
			if timedOut {
				classes["timeout-skipped"]++
				continue
			}
			cs := &Case{Desc: desc, Nontrivial: mr != nil, Key: desc, Class: fmt.Sprintf("valid-utf8=%v", utf8.ValidString(s))}
			if len(bad) > 0 {
				cs.Direct = strings.Join(bad, " | ")
			}
			classes[cs.Class]++
			c.Add(cs)
		}
	}
	c.Gate("invalid UTF-8 inputs exercised", classes["valid-utf8=false"] > 0)
	for k, v := range classes {
		c.res.Histogram[k] = v
	}
}
