package main

// leg c19-parse: the literal-fragment parser model (coq/Model/ParseLit.v, model leg 1903) against
// syntax.Parse: error kind vs ok, and the final tree (root capture, Empty / single child /
// Concatenate, every leaf with its options).  The model may answer "outside the fragment"; those
// cases are counted, not compared.

import (
	"errors"
	"fmt"
	"strings"
	"unicode"
	"unicode/utf8"

	"github.com/dlclark/regexp2/v2"
	"github.com/dlclark/regexp2/v2/syntax"
)

func init() {
	registerLeg("c19-parse", "C19", legC19Parse)
}

var c19ParseErrCodes = map[syntax.ErrorCode]int64{
	syntax.ErrIllegalEndEscape:       1,
	syntax.ErrUnrecognizedEscape:     2,
	syntax.ErrMissingControl:         3,
	syntax.ErrUnrecognizedControl:    4,
	syntax.ErrTooFewHex:              5,
	syntax.ErrInvalidHex:             6,
	syntax.ErrMissingBrace:           7,
	syntax.ErrMalformedNameRef:       8,
	syntax.ErrUndefinedBackRef:       9,
	syntax.ErrUndefinedNameRef:       10,
	syntax.ErrCaptureGroupOutOfRange: 11,
}

var c19ParseErrNames = map[int64]string{1: "IllegalEndEscape", 2: "UnrecognizedEscape", 3: "MissingControl", 4: "UnrecognizedControl",
	5: "TooFewHex", 6: "InvalidHex", 7: "MissingBrace", 8: "MalformedNameRef", 9: "UndefinedBackRef", 10: "UndefinedNameRef", 11: "CaptureGroupOutOfRange"}

func c19ParseErrCode(err error) int64 {
	var se *syntax.Error
	if errors.As(err, &se) {
		if c, ok := c19ParseErrCodes[se.Code]; ok {
			return c
		}
	}
	return 99
}

// option sets of the model: every subset of {IgnoreCase, IgnorePatternWhitespace, ECMAScript, RE2, Unicode}
// that the leg draws, plus bits the fragment ignores (they must only show up in the node options)
var c19ParseOptSets = []syntax.RegexOptions{
	0, syntax.IgnorePatternWhitespace, syntax.ECMAScript, syntax.RE2, syntax.IgnoreCase,
	syntax.ECMAScript | syntax.Unicode, syntax.IgnoreCase | syntax.IgnorePatternWhitespace,
	syntax.RE2 | syntax.IgnorePatternWhitespace, syntax.ECMAScript | syntax.IgnoreCase,
	syntax.ECMAScript | syntax.IgnorePatternWhitespace, syntax.RE2 | syntax.IgnoreCase,
	syntax.Multiline | syntax.Singleline | syntax.ExplicitCapture,
	syntax.IgnorePatternWhitespace | syntax.Multiline | syntax.ExplicitCapture,
	syntax.ECMAScript | syntax.Unicode | syntax.IgnoreCase | syntax.IgnorePatternWhitespace,
	syntax.Unicode, syntax.RightToLeft,
}

// ---- oracle rows ----

type c19SetIntern struct {
	ids map[string]int64
}

func (s *c19SetIntern) id(cs *syntax.CharSet) int64 {
	k := setKey(cs)
	if v, ok := s.ids[k]; ok {
		return v
	}
	v := int64(len(s.ids))
	s.ids[k] = v
	return v
}

// the test of nodeWithCaseConversion (tree.go:189)
func c19IsCased(r rune) bool { return unicode.SimpleFold(r) != r }

// participatesInCaseConversion (charclass.go:1358) is unexported; its observable is whether a
// two-rune run of the character becomes a Multi under IgnoreCase
var c19PartCache = map[rune]bool{}

func c19Participates(r rune) bool {
	if v, ok := c19PartCache[r]; ok {
		return v
	}
	v := !unicode.In(r, unicode.Pe, unicode.Pc, unicode.Cc, unicode.Pd, unicode.Nd, unicode.Pf,
		unicode.Pi, unicode.Zl, unicode.Ps, unicode.No, unicode.Po, unicode.Zp, unicode.Zs)
	c19PartCache[r] = v
	return v
}

func c19HexVal(r rune) int {
	switch {
	case r >= '0' && r <= '9':
		return int(r - '0')
	case r >= 'a' && r <= 'f':
		return int(r-'a') + 10
	case r >= 'A' && r <= 'F':
		return int(r-'A') + 10
	}
	return -1
}

// every rune the model can ask an oracle about: the pattern's runes, every value an escape
// starting anywhere in the pattern can denote (hex of 1..8 digits, octal of 1..3 digits, control
// characters, the single-letter escapes), and the lower-case images of all of these
func c19OracleDomain(p []rune) []rune {
	seen := map[rune]bool{}
	var out []rune
	add := func(r rune) {
		if r < 0 || r > unicode.MaxRune || seen[r] {
			return
		}
		seen[r] = true
		out = append(out, r)
	}
	for _, r := range p {
		add(r)
	}
	for _, r := range []rune{7, 8, 27, 12, 10, 13, 9, 11} {
		add(r)
	}
	for i := range p {
		v := 0
		for k := 0; k < 8 && i+k < len(p); k++ {
			d := c19HexVal(p[i+k])
			if d < 0 {
				break
			}
			v = v*16 + d
			if v > unicode.MaxRune {
				break
			}
			add(rune(v))
		}
		v = 0
		for k := 0; k < 3 && i+k < len(p); k++ {
			if p[i+k] < '0' || p[i+k] > '7' {
				break
			}
			v = v*8 + int(p[i+k]-'0')
			add(rune(v & 0xff))
			add(rune(v)) // RE2 keeps the value above \377
		}
		c := p[i]
		if c >= 'a' && c <= 'z' {
			c -= 'a' - 'A'
		}
		if c-'@' >= 0 && c-'@' < ' ' {
			add(c - '@')
		}
	}
	n := len(out)
	for i := 0; i < n; i++ {
		add(unicode.ToLower(out[i]))
	}
	return out
}

func c19OracleRows(dom []rune, in *c19SetIntern) []int64 {
	out := []int64{int64(len(dom))}
	for _, r := range dom {
		single, setid := false, int64(-3)
		if r > 0 && c19IsCased(r) {
			cs := &syntax.CharSet{}
			cs.VerifAddRange(r, r)
			cs.VerifAddCaseEquivalences()
			single = cs.IsSingleton()
			setid = in.id(cs)
		}
		out = append(out, int64(r), b2i(syntax.IsWordChar(r)), int64(unicode.ToLower(r)), b2i(c19IsCased(r)),
			b2i(c19Participates(r)), b2i(single), setid)
	}
	return out
}

// ---- export of the real tree in the model's encoding ----

var c19ClassSets = map[syntax.RegexOptions]map[string]int64{}

// set hash -> -letter for the six class escapes under these options (the set scanBackslash builds)
func c19ClassIDs(o syntax.RegexOptions) map[string]int64 {
	if m, ok := c19ClassSets[o]; ok {
		return m
	}
	m := map[string]int64{}
	for _, l := range "wWsSdD" {
		t, err := syntax.Parse(`\`+string(l), syntax.ParseOptions{RegexOptions: o})
		if err != nil || len(t.Root.Children) != 1 || t.Root.Children[0].Set == nil {
			continue
		}
		m[setKey(t.Root.Children[0].Set)] = -int64(l)
	}
	c19ClassSets[o] = m
	return m
}

func c19EncNode(n *syntax.RegexNode, o syntax.RegexOptions, in *c19SetIntern) []int64 {
	setID := func() int64 {
		if n.Set == nil {
			return -5
		}
		if v, ok := c19ClassIDs(o)[setKey(n.Set)]; ok {
			return v
		}
		return in.id(n.Set)
	}
	switch int(n.T) {
	case ntOne:
		return []int64{9, int64(n.Options), int64(n.Ch)}
	case ntMulti:
		return append([]int64{12, int64(n.Options)}, encRunes(n.Str)...)
	case ntSet:
		return []int64{11, int64(n.Options), setID()}
	case ntSetloop, 45:
		if n.M == n.N {
			return []int64{5, int64(n.Options), setID(), int64(n.M)}
		}
	case ntRef:
		return []int64{13, int64(n.Options), int64(n.M)}
	case ntBoundary, ntNonboundary, ntBeginning, ntStart, ntEndZ, ntEnd, ntECMABoundary, ntNonECMABoundary:
		return []int64{int64(n.T), int64(n.Options)}
	}
	return []int64{1000 + int64(n.T), int64(n.Options), int64(len(n.Children))}
}

func c19EncTree(t *syntax.RegexTree, o syntax.RegexOptions, in *c19SetIntern) []int64 {
	root := t.Root
	if int(root.T) != ntCapture || root.M != 0 || root.N != -1 || len(root.Children) != 1 {
		return []int64{0, -1, 1000 + int64(root.T)}
	}
	out := []int64{0, 0, int64(root.Options)}
	b := root.Children[0]
	switch int(b.T) {
	case ntEmpty:
		return append(out, 0, int64(b.Options))
	case ntConcatenate:
		out = append(out, 2, int64(b.Options), int64(len(b.Children)))
		for _, k := range b.Children {
			out = append(out, c19EncNode(k, o, in)...)
		}
		return out
	}
	return append(append(out, 1), c19EncNode(b, o, in)...)
}

// ---- generators ----

var c19ParseOrdinary = []rune{'a', 'b', 'k', 'z', 'A', 'Z', 'x', 'u', 'c', 'e', '0', '1', '7', '8', '9', '_', '-', ',', '}', ']', '<', '>', '\'', '!', '~', '=', ':',
	'{', '#', ' ', '\t', '\n', 'é', 'É', 'ß', 'ǅ', 'ĸ', 'σ', 'ς', 'Σ', 'K', 'İ', 'ı', 'я', '中', '٣', 0x1F600, 0x10400, 0x10428, 0, 1, 0x7f, 0x85, 0xa0, 0x2028, 0xfffd}

var c19ParseEscTails = []string{
	// character escapes
	"a", "b", "e", "f", "n", "r", "t", "v", "x41", "x4a", "xC9", "x4", "x", "xg1", "x4g", "x{41}", "x{e9}", "x{10FFFF}", "x{110000}", "x{}", "x{4g}", "x{41", "x{", "x{0000041}",
	"u0041", "u00e9", "u00C9", "u004", "u", "uD800", "u{41}", "u{e9}", "u{110000}", "u{}", "u{4g}", "u{41", "u01c5", "u0130", "u212A", "u212a", "u1e9e", "u03f4", "x{130}", "x{212A}",
	"0", "00", "000", "0000", "101", "7", "08", "377", "400", "777", "40", "41", "47", "401", "18", "1", "9", "10", "99", "2147483647", "2147483648", "99999999999",
	"cA", "ca", "cz", "c@", "c_", "c", "c!", "c[", "c\\", "c`", "c{",
	// assertions, classes, properties
	"A", "z", "Z", "G", "B", "w", "W", "s", "S", "d", "D", "pL", "p{L}", "P{Lu}", "p", "p{", "P",
	// back-references
	"k<0>", "k'0'", "k<1>", "k<a>", "k'a'", "k<a", "k<", "k", "ka", "k<0", "k<0x", "k<>", "k<é>", "k<99999999999>", "<0>", "'0'", "<1>", "<a>", "'a'", "<a", "<", "'", "<>", "<0", "<0x", "'0x",
	// escaped punctuation / letters
	"\\", ".", "+", "*", "?", "(", ")", "|", "[", "]", "{", "}", "^", "$", "#", " ", "-", "/", "!", "\t", "\n", "é", "_", "Z", "q", "y", "E", "Q", "i", "中", "_",
}

var c19ParseOutsideChars = []rune{'(', ')', '[', '*', '+', '?', '|', '^', '$', '.'}

func c19ParseRandPattern(r *Rng) []rune {
	var out []rune
	n := 1 + r.Intn(7)
	for i := 0; i < n; i++ {
		switch k := r.Intn(100); {
		case k < 45:
			out = append(out, '\\')
			out = append(out, []rune(Pick(r, c19ParseEscTails))...)
		case k < 85:
			m := 1 + r.Intn(3)
			for j := 0; j < m; j++ {
				out = append(out, Pick(r, c19ParseOrdinary))
			}
		case k < 90:
			out = append(out, []rune(Pick(r, []string{"{1}", "{1,}", "{1,2}", "{,2}", "{a}", "{1", "{1,2", "{12,x}", "{", " {b", "a {1}", "#c\n", " # x\n{"}))...)
		case k < 93:
			out = append(out, Pick(r, c19ParseOutsideChars))
		default:
			out = append(out, Pick(r, c19Interesting))
		}
	}
	if r.Chance(6) {
		out = append(out, '\\')
	}
	for i, c := range out {
		if !utf8.ValidRune(c) {
			out[i] = 'a'
		}
	}
	return out
}

type c19ParseCase struct {
	pat  []rune
	o    syntax.RegexOptions
	kind string // "escape" | "anchored" | "random" | "corpus"
	s    []rune // for escape / anchored: the escaped string
}

// deterministic corpus: one pattern per escape form and per error kind, under the option sets where it differs
var c19ParseCorpus = []string{
	``, `a`, `ab`, `a\.b`, `\a\e\f\n\r\t\v\b`, `\x41\u0042\x{43}\103\cD`, `\x{e0001}`, `\0`, `\08`, `\400`, `\1`, `\10`, `\18`, `\8`, `\9`,
	`\x4`, `\x{}`, `\x{110000}`, `\x{41`, `\u004`, `\c`, `\c!`, `\q`, `\`, `a\`, `\k<0>`, `\k<1>`, `\k<a>`, `\k<a`, `\k`, `\<0>`, `\'0'`, `\<a>`, `\<a`, `\<`, `\k<99999999999>`, `\99999999999`,
	`\A\z\Z\G\b\B`, `\d\d\d`, `\w\W\s\S\d\D`, `\d\w\w\d`, `aa`, `aA`, `a1`, `12`, `\x41a`, `ĸĸ`, `ǅǆ`, `KK`, `σς`, `\u0130`, `\u212A\x{212a}k`, `\u03f4`,
	`a b`, `a #c` + "\n" + `b`, ` {b`, `xa {b`, `a {1}`, `\a {`, `a{`, `a{1`, `a{1}`, `a{,1}`, `{`, `{1}`, `\pL`, `\p{L}`, `\p`, `\P{`,
	`a(`, `\q(`, `\x4(`, `a)`, `a[`, `a*`, `a|b`, `^a$`, `a.`, `\(\)\[\]`, `\#\ `, `# c`, `\u{41}`, `\u{}`, `\x{41}{2`,
}

func legC19Parse(c *Ctx) {
	c.Rule("model parse_lit (countCaptures + scanRegex on ordinary characters, blanks and backslash escapes; tree after reduceConcatenation) vs syntax.Parse: error kind / final tree with node options, under 16 option sets over {IgnoreCase, IgnorePatternWhitespace, ECMAScript, RE2, Unicode, Multiline, Singleline, ExplicitCapture, RightToLeft}; inputs: Escape(s) and \\A+Escape(s)+\\z of random scalar strings, random concatenations of ordinary runes with every backslash escape form incl. malformed ones, a fixed corpus; cases the model declares outside the fragment are counted only; non-trivial = compared and contains a backslash or a blank (distinct by (pattern, options))")
	if unicode.IsPrint('\t') || unicode.IsPrint('\n') || unicode.IsPrint('\v') || unicode.IsPrint('\f') || unicode.IsPrint('\r') {
		c.Add(&Case{Desc: "oracle fact: IsPrint is false on U+0009..U+000D", Direct: "oracle hypothesis of C19_escape_parses_to_literal violated"})
	}
	var cases []c19ParseCase
	for _, o := range c19ParseOptSets {
		for _, p := range c19ParseCorpus {
			cases = append(cases, c19ParseCase{pat: []rune(p), o: o, kind: "corpus"})
		}
	}
	n := c.N(6000, 150000)
	for i := 0; i < n; i++ {
		o := Pick(c.Rng, c19ParseOptSets)
		switch c.Rng.Intn(10) {
		case 0, 1, 2:
			s := c19RandString(c.Rng, 8)
			cases = append(cases, c19ParseCase{pat: []rune(regexp2.Escape(string(s))), o: o, kind: "escape", s: s})
		case 3:
			s := c19RandString(c.Rng, 6)
			cases = append(cases, c19ParseCase{pat: []rune(`\A` + regexp2.Escape(string(s)) + `\z`), o: o, kind: "anchored", s: s})
		default:
			cases = append(cases, c19ParseCase{pat: c19ParseRandPattern(c.Rng), o: o, kind: "random"})
		}
	}

	// first pass: model answers (so that "outside the fragment" is known), in batches
	ins := make([][]int64, len(cases))
	legs := make([]int, len(cases))
	impl := make([][]int64, len(cases))
	perr := make([]error, len(cases))
	for i, cs := range cases {
		in := &c19SetIntern{ids: map[string]int64{}}
		pat := string(cs.pat)
		pr := []rune(pat)
		rows := c19OracleRows(c19OracleDomain(pr), in)
		ins[i] = append(append([]int64{int64(cs.o)}, rows...), encRunes(pr)...)
		legs[i] = 1903
		func() {
			defer func() {
				if r := recover(); r != nil {
					impl[i] = []int64{2, 0}
					perr[i] = fmt.Errorf("panic: %v", r)
				}
			}()
			t, err := syntax.Parse(pat, syntax.ParseOptions{RegexOptions: cs.o})
			if err != nil {
				impl[i] = []int64{1, c19ParseErrCode(err)}
				perr[i] = err
			} else {
				impl[i] = c19EncTree(t, cs.o, in)
			}
		}()
	}
	outs, err := runModel(c.ModelBin, legs, ins)
	if err != nil {
		c.Add(&Case{Desc: "c19-parse: model execution failed: " + err.Error(), Direct: "model execution failed"})
		return
	}
	forms := map[string]bool{}
	errKinds := map[int64]bool{}
	kinds := map[string]int{}
	outside, compared := 0, 0
	for i, cs := range cases {
		pat := string(cs.pat)
		desc := fmt.Sprintf("parse %+q opts=%#x (%s): implementation %s", pat, int(cs.o), cs.kind, c19DescribeImpl(impl[i], perr[i]))
		mo := outs[i]
		if len(mo) == 2 && mo[0] == 0 && mo[1] == 1 {
			outside++
			cl := "outside"
			if cs.kind == "escape" || cs.kind == "anchored" {
				if cs.o&syntax.RightToLeft == 0 {
					// Escape output never leaves the fragment
					c.Add(&Case{Desc: desc, Direct: "the model declares an Escape output outside the literal fragment", Class: cl})
					continue
				}
			}
			c.Add(&Case{Desc: desc, Class: cl})
			continue
		}
		compared++
		kinds[cs.kind]++
		nontrivial := strings.ContainsAny(pat, "\\ \t\n#")
		cse := &Case{Desc: desc, ModelLeg: 1903, ModelIn: ins[i], ImplOut: impl[i], Nontrivial: nontrivial,
			Key: fmt.Sprintf("%q/%d", pat, int(cs.o)), Class: "compared-" + cs.kind}
		if impl[i][0] == 2 {
			cse.Direct = "syntax.Parse panicked: " + perr[i].Error()
		}
		// the property's own observable on the parse result of Escape(s): the tree is the literal s
		if (cs.kind == "escape") && cs.o&(syntax.IgnoreCase|syntax.RightToLeft) == 0 && cse.Direct == "" {
			want := c19LiteralTree(cs.s, cs.o)
			if !eqInts(impl[i], want) {
				cse.Direct = fmt.Sprintf("Parse(Escape(%+q)) is not the literal tree: got %v want %v", string(cs.s), fmtInts(impl[i]), fmtInts(want))
			}
		}
		c.Add(cse)
		if impl[i][0] == 1 {
			errKinds[impl[i][1]] = true
		}
		c19ParseForms(cs.pat, cs.o, impl[i][0] == 0, forms)
	}
	c.Flush()
	c.Hist(fmt.Sprintf("outside=%d compared=%d", outside, compared))
	for code, name := range c19ParseErrNames {
		c.Gate("error kind hit on a compared case: "+name, errKinds[code])
	}
	for _, f := range c19ParseFormNames {
		c.Gate("escape form parsed (compared, no error): "+f, forms[f])
	}
	c.Gate("compared Escape outputs", kinds["escape"] > n/8)
	c.Gate("compared anchored Escape outputs", kinds["anchored"] > n/30)
	c.Gate("compared random patterns", kinds["random"] > n/4)
	c.Gate("some cases outside the fragment", outside > 0)
	c.Gate("most cases inside the fragment", compared > 2*outside)
}

func c19DescribeImpl(out []int64, err error) string {
	if err != nil {
		return "error " + err.Error()
	}
	return "tree " + fmtInts(out)
}

// what the model must produce for a literal s (lit_body of Proofs/ParseLitProofs.v)
func c19LiteralTree(s []rune, o syntax.RegexOptions) []int64 {
	out := []int64{0, 0, int64(o)}
	o1 := int64(o &^ syntax.IgnoreCase)
	switch len(s) {
	case 0:
		return append(out, 0, o1)
	case 1:
		return append(out, 1, 9, o1, int64(s[0]))
	}
	return append(append(out, 1, 12, o1), encRunes(s)...)
}

var c19ParseFormNames = []string{`\a`, `\b`, `\e`, `\f`, `\n`, `\r`, `\t`, `\v`, `\xHH`, `\x{H}`, `\uHHHH`, `\u{H}`, `\0octal`, `\Noctal`, `\cX`,
	`\punct`, `\letter-literal`, `\A`, `\z`, `\Z`, `\G`, `\B`, `\w`, `\W`, `\s`, `\S`, `\d`, `\D`, `\k<0>`, `\<0>`, `\'0'`,
	`x-blank`, `x-comment`, `brace-literal`, `E:\x{-literal`, `E:\u-fallback`, `E:\c-fallback`, `E:\k-literal`, `E:\p-literal`, `ci-set`, `ci-setloop`}

// which escape forms occur in a pattern that parsed without error (a coarse lexer: the position
// after a backslash decides; enough for coverage accounting)
func c19ParseForms(p []rune, o syntax.RegexOptions, ok bool, forms map[string]bool) {
	if !ok {
		return
	}
	e := o&syntax.ECMAScript != 0
	x := o&syntax.IgnorePatternWhitespace != 0
	for i := 0; i < len(p); i++ {
		if p[i] != '\\' {
			if x && (p[i] == ' ' || p[i] == '\n') {
				forms["x-blank"] = true
			}
			if x && p[i] == '#' {
				forms["x-comment"] = true
			}
			if p[i] == '{' {
				forms["brace-literal"] = true
			}
			if o&syntax.IgnoreCase != 0 && c19IsCased(p[i]) {
				forms["ci-set"] = true
				if i+1 < len(p) && p[i+1] == p[i] {
					forms["ci-setloop"] = true
				}
			}
			continue
		}
		if i+1 >= len(p) {
			break
		}
		ch := p[i+1]
		rest := p[i+2:]
		has := func(s string) bool { return strings.HasPrefix(string(rest), s) }
		i++
		switch {
		case strings.ContainsRune("aefnrtv", ch):
			forms[`\`+string(ch)] = true
		case ch == 'b':
			forms[`\b`] = true
		case ch == 'x' && has("{"):
			if e {
				forms[`E:\x{-literal`] = true
			} else {
				forms[`\x{H}`] = true
			}
		case ch == 'x':
			if len(rest) >= 2 && c19HexVal(rest[0]) >= 0 && c19HexVal(rest[1]) >= 0 {
				forms[`\xHH`] = true
			} else if e {
				forms[`E:\u-fallback`] = true
			}
		case ch == 'u' && has("{") && e && o&syntax.Unicode != 0:
			forms[`\u{H}`] = true
		case ch == 'u':
			if len(rest) >= 4 && c19HexVal(rest[0]) >= 0 && c19HexVal(rest[1]) >= 0 && c19HexVal(rest[2]) >= 0 && c19HexVal(rest[3]) >= 0 {
				forms[`\uHHHH`] = true
			} else if e {
				forms[`E:\u-fallback`] = true
			}
		case ch == '0':
			forms[`\0octal`] = true
		case ch >= '1' && ch <= '7':
			forms[`\Noctal`] = true
		case ch == 'c':
			if len(rest) > 0 && ((rest[0] >= '@' && rest[0] <= '_') || (rest[0] >= 'a' && rest[0] <= 'z')) {
				forms[`\cX`] = true
			} else if e {
				forms[`E:\c-fallback`] = true
			}
		case strings.ContainsRune("AzZGB", ch):
			forms[`\`+string(ch)] = true
		case strings.ContainsRune("wWsSdD", ch):
			forms[`\`+string(ch)] = true
		case ch == 'k' && (has("<0>") || has("'0'")):
			forms[`\k<0>`] = true
		case ch == 'k' && e:
			forms[`E:\k-literal`] = true
		case (ch == 'p' || ch == 'P') && e:
			forms[`E:\p-literal`] = true
		case ch == '<' && has("0>"):
			forms[`\<0>`] = true
		case ch == '\'' && has("0'"):
			forms[`\'0'`] = true
		case ch < 128 && !syntax.IsWordChar(ch):
			forms[`\punct`] = true
		case syntax.IsWordChar(ch):
			forms[`\letter-literal`] = true
		}
	}
}
