package main

// C12, error exits: a call that fails half-way (backtracking-stack limit on a later scan of a Replace / find-all
// that had already produced matches) must leave nothing behind — the cached replacement data, the pooled runner and
// the pooled buffers serve the next call exactly like a freshly compiled Regexp.

import (
	"fmt"
	"strings"
	"time"

	"github.com/dlclark/regexp2/v2"
)

func init() { registerLeg("c12-errexit", "C12", legC12ErrExit) }

func legC12ErrExit(c *Ctx) {
	c12PoolMu.Lock()
	defer c12PoolMu.Unlock()
	c.Rule("directed histories on one shared Regexp per (pattern, direction): a Replace / ReplaceFunc / FindAll / Split that matches at least once and then fails with ErrBacktrackingStackLimit on a later scan (limit 65), followed by the same kind of call with the SAME replacement string on benign texts; every result is compared with the same call on a freshly compiled Regexp; patterns `\\d|(?:ab?)*c` left-to-right and `\\d|c(?:ab?)*` right-to-left, replacement strings with several rules; non-trivial = every history")
	type spec struct {
		pat     string
		opts    []regexp2.CompileOption
		errText string
		okTexts []string
	}
	ab := strings.Repeat("ab", 13)
	specs := []spec{
		{`(\d)|(?:ab?)*c`, []regexp2.CompileOption{regexp2.OptionMaxBacktrackingStackSize(65)}, "7 " + ab + "x 8", []string{"x 7, y 8", "1abc2", "", "abc"}},
		{`(\d)|c(?:ab?)*`, []regexp2.CompileOption{regexp2.RightToLeft, regexp2.OptionMaxBacktrackingStackSize(65)}, "8 x" + ab + " 7", []string{"x 7, y 8", "1cab2", "", "cab"}},
	}
	repls := []string{"<$1|y>", "[$&]-", "a$0b$0c", "$`|$'", "($1)($1)x", "-"}
	n := 0
	for _, sp := range specs {
		for _, rp := range repls {
			shared := regexp2.MustCompile(sp.pat, sp.opts...)
			shared.MatchTimeout = 2 * time.Second
			fresh := func() *regexp2.Regexp {
				re := regexp2.MustCompile(sp.pat, sp.opts...)
				re.MatchTimeout = 2 * time.Second
				return re
			}
			n++
			cs := &Case{Desc: fmt.Sprintf("pattern %q opts=%d replacement %q: failing Replace on %q, then calls on %q", sp.pat, len(sp.opts), rp, sp.errText, sp.okTexts), Nontrivial: true, Key: sp.pat + rp, Class: "errexit"}
			fail := func(f string, a ...any) {
				if cs.Direct == "" {
					cs.Direct = fmt.Sprintf(f, a...)
				}
			}
			call := func(re *regexp2.Regexp, kind int, text string) (out string) {
				defer func() {
					if p := recover(); p != nil {
						out = fmt.Sprint("PANIC ", p)
					}
				}()
				switch kind {
				case 0:
					s, err := re.Replace(text, rp, -1, -1)
					return fmt.Sprintf("%q %v", s, err)
				case 1:
					s, err := re.ReplaceFunc(text, func(m regexp2.Match) string { return "<" + m.String() + ">" }, -1, -1)
					return fmt.Sprintf("%q %v", s, err)
				case 2:
					r, err := re.FindAllStringIndex(text, -1)
					return fmt.Sprintf("%v %v", r, err)
				default:
					r, err := re.Split(text, -1)
					return fmt.Sprintf("%q %v", r, err)
				}
			}
			// the failing call: it must fail the same way on both (and have matched once before failing)
			e1, e2 := call(shared, 0, sp.errText), call(fresh(), 0, sp.errText)
			if e1 != e2 {
				fail("the failing Replace differs: shared %s, fresh %s", e1, e2)
			}
			if !strings.Contains(e1, "stack") {
				fail("the history did not produce the intended stack-limit error (got %s): the scenario needs adjusting", e1)
			}
			for round := 0; round < 2; round++ {
				for kind := 0; kind < 4; kind++ {
					for _, t := range sp.okTexts {
						if got, want := call(shared, kind, t), call(fresh(), kind, t); got != want {
							fail("after the failed call, call kind %d on %q: shared Regexp %s, freshly compiled %s", kind, t, got, want)
						}
					}
				}
				// fail again in between (ReplaceFunc / FindAll / Split fail too)
				for kind := 1; kind < 4; kind++ {
					if got, want := call(shared, kind, sp.errText), call(fresh(), kind, sp.errText); got != want {
						fail("failing call kind %d differs: shared %s, fresh %s", kind, got, want)
					}
				}
			}
			c.Add(cs)
		}
	}
	c.Gate("error-exit histories ran", n >= 10)

	// MatchTimeout is an ordinary field of the Regexp: after untimed calls, a Regexp that is given a timeout answers like
	// a freshly compiled one with that timeout (and the other way round) — nothing a pooled runner remembers may decide
	for _, sc := range []struct {
		name          string
		first, second time.Duration
		text          string
		wantTimeout   bool
	}{
		{"untimed calls, then MatchTimeout=40ms on a catastrophic text", regexp2.DefaultMatchTimeout, 40 * time.Millisecond, strings.Repeat("a", 26) + "b", true},
		{"calls under 20ms, then no timeout on a slow but finite text", 20 * time.Millisecond, regexp2.DefaultMatchTimeout, strings.Repeat("a", 19) + "b", false},
		{"calls under 5s, then MatchTimeout=40ms on a catastrophic text", 5 * time.Second, 40 * time.Millisecond, strings.Repeat("a", 26) + "b", true},
	} {
		cs := &Case{Desc: "MatchTimeout changed on a used Regexp `(a+)+!$`: " + sc.name, Nontrivial: true, Key: "mt:" + sc.name, Class: "timeout-field"}
		run := func(re *regexp2.Regexp) string {
			type res struct {
				ok  bool
				err error
			}
			ch := make(chan res, 1)
			go func() {
				ok, err := re.MatchString(sc.text)
				ch <- res{ok, err}
			}()
			select {
			case r := <-ch:
				if r.err != nil {
					return "timeout"
				}
				return fmt.Sprint(r.ok)
			case <-time.After(20 * time.Second):
				return "still running after 20s"
			}
		}
		used := regexp2.MustCompile(`(a+)+!$`)
		used.MatchTimeout = sc.first
		for _, t := range []string{"aa!", "xaab", "", "aaa!"} {
			used.MatchString(t)
			used.FindStringMatch(t)
		}
		used.MatchTimeout = sc.second
		fresh := regexp2.MustCompile(`(a+)+!$`)
		fresh.MatchTimeout = sc.second
		want := "false"
		if sc.wantTimeout {
			want = "timeout"
		}
		gu, gf := run(used), run(fresh)
		if gf != want {
			cs.Direct = fmt.Sprintf("the freshly compiled Regexp answers %s, expected %s (scenario needs adjusting?)", gf, want)
		} else if gu != gf {
			cs.Direct = fmt.Sprintf("the used Regexp answers %s, a freshly compiled one with the same MatchTimeout %s", gu, gf)
		}
		c.Add(cs)
	}
}
