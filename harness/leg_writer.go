package main

import (
	"fmt"
	"sort"

	"github.com/dlclark/regexp2/v2"
	"github.com/dlclark/regexp2/v2/syntax"
)

func init() {
	registerLeg("c01-writer", "C01", legWriter)
}

func encInts(xs []int) []int64 {
	out := []int64{int64(len(xs))}
	for _, x := range xs {
		out = append(out, int64(x))
	}
	return out
}

// encCode: what syntax.Write produced, in run_write's output format
func encCode(code *syntax.Code) []int64 {
	out := encInts(code.Codes)
	out = append(out, int64(len(code.Strings)))
	for _, s := range code.Strings {
		out = append(out, encRunes(s)...)
	}
	out = append(out, int64(code.TrackCount))
	if len(code.QuickCodes) == 0 {
		out = append(out, 0)
	} else {
		out = append(out, 1)
		out = append(out, encInts(code.QuickCodes)...)
	}
	out = append(out, int64(len(code.CaptureSlotInUse)))
	for _, b := range code.CaptureSlotInUse {
		out = append(out, b2i(b))
	}
	return out
}

func encWriteCase(tree *syntax.RegexTree, tw *TreeWire) []int64 {
	in := append([]int64{}, tw.Words...)
	// the writer builds its sparse map from Capnumlist when Captop != len(Capnumlist)
	if tree.Capnumlist == nil || tree.Captop == len(tree.Capnumlist) {
		in = append(in, 0, 0, int64(tree.Captop))
	} else {
		// writer.caps = tree.Caps overwritten with Capnumlist[i] -> i
		m := map[int]int{}
		for k, v := range tree.Caps {
			m[k] = v
		}
		for i, n := range tree.Capnumlist {
			m[n] = i
		}
		keys := make([]int, 0, len(m))
		for k := range m {
			keys = append(keys, k)
		}
		sort.Ints(keys)
		in = append(in, 1, int64(len(keys)))
		for _, k := range keys {
			in = append(in, int64(k), int64(m[k]))
		}
		in = append(in, int64(len(tree.Capnumlist)))
	}
	return in
}

// legWriter: Writer.compile on regexp2's exported (post-rewrite) tree must equal Code.Codes word for word,
// as must the string table, TrackCount, the quick program and CaptureSlotInUse.
func legWriter(c *Ctx) {
	c.Rule("random ASTs over the full generator syntax + sparse/named capture numbering + harvested test patterns; the exported post-rewrite tree is compiled by the model writer and compared word for word with Code.Codes, Strings, TrackCount, QuickCodes, CaptureSlotInUse; non-trivial = program longer than 8 words (distinct by pattern,options)")
	n := c.N(3000, 60000)
	ops := map[int]int{}
	var pats []struct {
		p string
		o Opts
	}
	for i := 0; i < n; i++ {
		o := randOpts(c.Rng, c.Rng.Chance(20))
		if c.Rng.Chance(10) {
			o.ECMA, o.RE2 = true, false
		}
		ast := GenAst(c.Rng, fullCfg(c.Rng, o, 2+c.Rng.Intn(4)))
		pats = append(pats, struct {
			p string
			o Opts
		}{ast.Pattern(o, c.Rng), o})
	}
	for _, p := range []string{`(?<a>x)(?<-a>y)`, `(?<a-b>x)`, `(?<b>q)(?<a-b>x)+`, `(?<5>a)(b)(?<3>c)\5\3`, `(a)(?<n>b)(?<5>c)\k<n>`, `(?<1>a)(?<7>b)(?(7)c|d)`, `(a)|b\1`, `(?n)(a)(?<x>b)`,
		`(?:a{2,5}?b)*`, `(?=a)*b`, `(?>a|ab)c`, `(?<=ab)c`, `(?<!a{2})b`, `\bfoo\b|\Bbar`, `^$`, `a{3}`, `[a-c]{2,}?d`, `.*?x`, `(?i)abc[d-f]`, `(?s).`, `(?m)^a$`} {
		pats = append(pats, struct {
			p string
			o Opts
		}{p, Opts{}})
	}
	for _, p := range harvestedPatterns() {
		pats = append(pats, struct {
			p string
			o Opts
		}{p, Opts{}})
	}
	for _, pp := range pats {
		tree, err := syntax.Parse(pp.p, syntax.ParseOptions{RegexOptions: syntax.RegexOptions(pp.o.bits())})
		if err != nil {
			c.Hist("parse-error")
			continue
		}
		code, err := syntax.Write(tree)
		if err != nil {
			c.Add(&Case{Desc: fmt.Sprintf("pattern %q opts=%s", pp.p, pp.o), Direct: "syntax.Write failed on a parsed tree: " + err.Error()})
			continue
		}
		tw := ExportTree(tree, code)
		for i := 0; i < len(code.Codes); {
			op := code.Codes[i] & 63
			ops[op]++
			sz := 1
			switch {
			case op <= 8 || op == 28 || op == 29 || op == 32 || op >= 43 && op <= 45:
				sz = 3
			case op >= 9 && op <= 13 || op >= 23 && op <= 27 || op == 37 || op == 38 || op == 39:
				sz = 2
			}
			i += sz
		}
		c.Add(&Case{Desc: fmt.Sprintf("write: pattern %q opts=%s -> %d code words", pp.p, pp.o, len(code.Codes)), ModelLeg: 102,
			ModelIn: encWriteCase(tree, tw), ImplOut: encCode(code), Nontrivial: len(code.Codes) > 8,
			Key: pp.p + "|" + pp.o.String(), Class: fmt.Sprintf("quick=%v", len(code.QuickCodes) > 0)})
		c.Hist("programs")
	}
	missing := 0
	for op := 0; op <= 46; op++ {
		if op == 39 { // Prune is never emitted
			continue
		}
		if ops[op] == 0 {
			missing++
			c.Gate(fmt.Sprintf("opcode %d emitted by some generated program", op), false)
		}
	}
	_ = regexp2.None
}
