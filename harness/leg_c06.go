package main

// C06 — RE2-mode adapter agrees with Go's regexp package.
//
// Leg c06-compat: RE2-compatible random ASTs (literals, classes, ., ^ $ \A \z, \b \B, capturing /
// named / non-capturing groups, alternation, greedy and lazy quantifiers over NON-nullable bodies,
// (?i)(?s)(?m)) compiled by Go's regexp and by compat (regexp2.RE2); ASCII, multi-byte and
// invalid-UTF-8 inputs; n in {-1,0,1,2,3,100}.
//
// DIRECT: all 21 methods of compat.Matcher give reflect.DeepEqual results (nil-ness included) on
//   the stdlib and on the adapter.
// MODEL 601: Go.find_all_* of Model/Iter.v (transcription of regexp.go allMatches) fed with the
//   STDLIB's single-match table M(pos) (pattern wrapped as \A(?s:.{j})(?s:.*?)(P)) must reproduce
//   the ADAPTER's outputs  -> stdlib = adapter = specification loop.
// MODEL 602: the adapter's loops of Model/Iter.v fed with regexp2's own anchored-attempt table
//   (\G(?:P) under RE2, with groups) must reproduce the adapter's outputs.

import (
	"errors"
	"fmt"
	"io"
	"reflect"
	"regexp"
	"strings"
	"time"
	"unicode"
	"unicode/utf8"

	"github.com/dlclark/regexp2/v2"
	"github.com/dlclark/regexp2/v2/compat"
	"github.com/dlclark/regexp2/v2/syntax"
)

func init() {
	registerLeg("c06-compat", "C06", legC06Compat)
}

var c06Ns = []int{-1, 0, 1, 2, 3, 100}

// ---- generator ----

type c06Gen struct {
	r      *Rng
	names  int
	hasB   bool // contains \b or \B
	allowB bool
}

var c06Lits = []rune{'a', 'a', 'a', 'b', 'b', 'c', 'x', 'A', 'B', '1', '_', ' ', '-', 'é', 'É', '日', 0x1F600, '.', '+', '(', '['}
var c06Classes = []string{`[ab]`, `[^a]`, `[a-c]`, `[^a-c\n]`, `\d`, `\w`, `\s`, `\D`, `\W`, `\S`, `[\d_]`, `[[:alpha:]]`, `[[:^digit:]]`, `[é日]`, `[^b]`, `[A-Ca]`, `[\w-]`}

func c06Quote(ch rune) string {
	if strings.ContainsRune(`\.+*?()|[]{}^$`, ch) {
		return `\` + string(ch)
	}
	return string(ch)
}

// returns pattern text, whether it can match the empty string, and whether it is a single atom
func (g *c06Gen) atom() (string, bool, bool) {
	k := g.r.Intn(100)
	switch {
	case k < 45:
		if g.r.Chance(1) {
			return string(rune(0xFFFD)), false, true
		}
		return c06Quote(Pick(g.r, c06Lits)), false, true
	case k < 65:
		return Pick(g.r, c06Classes), false, true
	case k < 75:
		return ".", false, true
	case k < 90:
		return Pick(g.r, []string{"^", "$", `\A`, `\z`, "^", "$"}), true, true
	case k < 96 && g.allowB:
		g.hasB = true
		return Pick(g.r, []string{`\b`, `\B`}), true, true
	default:
		return c06Quote(Pick(g.r, c06Lits)), false, true
	}
}

func (g *c06Gen) gen(depth int) (string, bool, bool) {
	if depth <= 0 {
		return g.atom()
	}
	switch g.r.Intn(12) {
	case 0, 1:
		return g.atom()
	case 2, 3, 4:
		n := 2 + g.r.Intn(2)
		var sb strings.Builder
		nullable := true
		for i := 0; i < n; i++ {
			t, nl, _ := g.gen(depth - 1)
			if strings.Contains(t, "|") && !strings.HasPrefix(t, "(") {
				t = "(?:" + t + ")"
			}
			sb.WriteString(t)
			nullable = nullable && nl
		}
		return sb.String(), nullable, false
	case 5, 6:
		n := 2 + g.r.Intn(2)
		parts := make([]string, n)
		nullable := false
		for i := range parts {
			if g.r.Chance(6) {
				parts[i] = ""
				nullable = true
				continue
			}
			t, nl, _ := g.gen(depth - 1)
			parts[i] = t
			nullable = nullable || nl
		}
		return g.group(strings.Join(parts, "|")), nullable, true
	case 7, 8, 9:
		// quantifier over a NON-nullable body
		for try := 0; try < 6; try++ {
			t, nl, single := g.gen(depth - 1)
			if nl {
				continue
			}
			if !single {
				t = g.group(t)
			}
			q := Pick(g.r, []string{"*", "+", "?", "{0,2}", "{1,3}", "{2}", "*?", "+?", "??", "{1,2}?", "*", "+"})
			return t + q, strings.HasPrefix(q, "*") || strings.HasPrefix(q, "?") || strings.HasPrefix(q, "{0"), false
		}
		return g.atom()
	case 10:
		t, nl, _ := g.gen(depth - 1)
		return g.group(t), nl, true
	default:
		t, nl, _ := g.gen(depth - 1)
		f := Pick(g.r, []string{"i", "s", "m", "is", "im"})
		return "(?" + f + ":" + t + ")", nl, true
	}
}

func (g *c06Gen) group(body string) string {
	switch g.r.Intn(5) {
	case 0, 1:
		return "(" + body + ")"
	case 2:
		g.names++
		return fmt.Sprintf("(?P<g%d>%s)", g.names, body)
	default:
		return "(?:" + body + ")"
	}
}

func c06Pattern(r *Rng) (string, bool) {
	g := &c06Gen{r: r, allowB: r.Chance(40)}
	t, _, _ := g.gen(1 + r.Intn(3))
	if r.Chance(25) {
		t = Pick(r, []string{"(?i)", "(?s)", "(?m)", "(?im)", "(?is)"}) + t
	}
	return t, g.hasB
}

var c06Pieces = []string{"a", "a", "a", "b", "b", "c", "x", "A", "B", "1", "_", " ", "-", "\n", ".", "(", "é", "É", "日", "\U0001F600",
	"\xff", "\xc3", "\xe2\x82", "\xf0\x9f\x98", "\xed\xa0\x80", "\xc0\xaf", "�"}

func c06Input(r *Rng) string {
	kind := r.Intn(3) // 0 ASCII, 1 multi-byte, 2 with invalid UTF-8
	lim := 16
	if kind == 1 {
		lim = 20
	}
	if kind == 2 {
		lim = len(c06Pieces)
	}
	n := r.Intn(9)
	var sb strings.Builder
	for i := 0; i < n; i++ {
		sb.WriteString(c06Pieces[r.Intn(lim)])
	}
	return sb.String()
}

// ---- encoders (model output format, see Extract/Drv06.v) ----

func c06EncListOfLists(x [][]int) []int64 {
	if x == nil {
		return []int64{0, -1}
	}
	out := []int64{0, int64(len(x))}
	for _, a := range x {
		out = append(out, int64(len(a)))
		for _, v := range a {
			out = append(out, int64(v))
		}
	}
	return out
}

func c06EncFlat(x []int, res bool) []int64 {
	var out []int64
	if res {
		out = append(out, 0)
	}
	if x == nil {
		return append(out, -1)
	}
	out = append(out, int64(len(x)))
	for _, v := range x {
		out = append(out, int64(v))
	}
	return out
}

// c06Unfactor spells the same pattern with an empty group in front of every alternation branch and group body.
// Go's regexp/syntax factors common leading literals out of alternations and (go1.25) loses the case-folding flag
// while doing so: `A|(?i:a)b` is simplified to `A(?:(?:)|b)`, so stdlib finds no match in "ab", and `(?i:a)b|A`
// becomes `(?i:A)(?:b|(?:))`, which matches "a".  An empty group in front of a branch keeps the factoring away.
// The stdlib is used as the oracle only on (pattern, input) pairs where both spellings give the same answer.
func c06Unfactor(pat string) string {
	rs := []rune(pat)
	var b strings.Builder
	b.WriteString("(?:)")
	for i := 0; i < len(rs); i++ {
		ch := rs[i]
		switch {
		case ch == '\\' && i+1 < len(rs):
			b.WriteRune(ch)
			i++
			b.WriteRune(rs[i])
		case ch == '[':
			// copy the class verbatim
			j := i + 1
			if j < len(rs) && rs[j] == '^' {
				j++
			}
			if j < len(rs) && rs[j] == ']' {
				j++
			}
			for j < len(rs) && rs[j] != ']' {
				if rs[j] == '\\' {
					j++
				} else if rs[j] == '[' && j+1 < len(rs) && rs[j+1] == ':' {
					for j+1 < len(rs) && !(rs[j] == ':' && rs[j+1] == ']') {
						j++
					}
					j++
				}
				j++
			}
			if j >= len(rs) {
				j = len(rs) - 1
			}
			b.WriteString(string(rs[i : j+1]))
			i = j
		case ch == '|':
			b.WriteString("|(?:)")
		case ch == '(':
			j := i + 1
			if j < len(rs) && rs[j] == '?' {
				// (?:  (?P<name>  (?flags:  (?flags)
				j++
				if j < len(rs) && rs[j] == 'P' {
					for j < len(rs) && rs[j] != '>' {
						j++
					}
				} else {
					for j < len(rs) && rs[j] != ':' && rs[j] != ')' {
						j++
					}
				}
				if j >= len(rs) {
					j = len(rs) - 1
				}
				b.WriteString(string(rs[i : j+1]))
				b.WriteString("(?:)")
				i = j
			} else {
				b.WriteString("((?:)")
			}
		default:
			b.WriteRune(ch)
		}
	}
	return b.String()
}

type c06Pair struct {
	go2 *regexp.Regexp // the same pattern spelled so that Go's parser cannot factor alternation prefixes (nil if that does not compile)
	go_ *regexp.Regexp
	ad  *compat.Regexp
	anc *regexp2.Regexp // \G(?:P) under RE2
	pat string
	gw  map[int]*regexp.Regexp // stdlib wrappers per rune offset
}

func c06Compile(pat string) (*c06Pair, string) {
	g, gerr := regexp.Compile(pat)
	var ad *compat.Regexp
	var aerr error
	func() {
		defer func() {
			if p := recover(); p != nil {
				aerr = fmt.Errorf("panic: %v", p)
			}
		}()
		ad, aerr = compat.Compile(pat, regexp2.RE2)
	}()
	if gerr != nil {
		return nil, "" // not in Go's syntax: outside the fragment
	}
	if aerr != nil {
		return nil, fmt.Sprintf("Go's regexp compiles the pattern, the RE2-mode adapter does not: %v", aerr)
	}
	ad.Unwrap().MatchTimeout = 3 * time.Second
	p := &c06Pair{go_: g, ad: ad, pat: pat, gw: map[int]*regexp.Regexp{}}
	if g2, err := regexp.Compile(c06Unfactor(pat)); err == nil && g2.NumSubexp() == g.NumSubexp() {
		p.go2 = g2
	}
	if anc, err := regexp2.Compile(`\G(?:`+pat+`)`, regexp2.RE2); err == nil {
		anc.MatchTimeout = 3 * time.Second
		p.anc = anc
	}
	return p, ""
}

// stdlib single-match function at rune offset j (byte offset off[j]): leftmost match at or after it
func (p *c06Pair) goM(s string, j int) ([]int, bool) {
	w, ok := p.gw[j]
	if !ok {
		var err error
		w, err = regexp.Compile(fmt.Sprintf(`\A(?s:.{%d})(?s:.*?)(%s)`, j, p.pat))
		if err != nil {
			w = nil
		}
		p.gw[j] = w
	}
	if w == nil {
		return nil, false
	}
	a := w.FindStringSubmatchIndex(s)
	if a == nil {
		return nil, true
	}
	return a[2:], true
}

func c06Diff(name string, a, b any) string {
	if reflect.DeepEqual(a, b) {
		return ""
	}
	return fmt.Sprintf("%s: stdlib %#v, adapter %#v", name, a, b)
}

func c06Single(g, a compat.Matcher, s string) []string {
	var d []string
	add := func(x string) {
		if x != "" {
			d = append(d, x)
		}
	}
	b := []byte(s)
	add(c06Diff("Match", g.Match(b), a.Match(b)))
	add(c06Diff("MatchString", g.MatchString(s), a.MatchString(s)))
	add(c06Diff("MatchReader", g.MatchReader(strings.NewReader(s)), a.MatchReader(strings.NewReader(s))))
	add(c06Diff("Find", g.Find(b), a.Find(b)))
	add(c06Diff("FindIndex", g.FindIndex(b), a.FindIndex(b)))
	add(c06Diff("FindReaderIndex", g.FindReaderIndex(strings.NewReader(s)), a.FindReaderIndex(strings.NewReader(s))))
	add(c06Diff("FindReaderSubmatchIndex", g.FindReaderSubmatchIndex(strings.NewReader(s)), a.FindReaderSubmatchIndex(strings.NewReader(s))))
	// a reader that fails after some of the text: every read error is the end of the text, as for regexp
	cut := len(s) / 2
	for cut < len(s) && !utf8.RuneStart(s[cut]) {
		cut++
	}
	er := func() io.RuneReader { return &c06ErrReader{r: strings.NewReader(s[:cut])} }
	add(c06Diff("MatchReader(erroring reader)", g.MatchReader(er()), a.MatchReader(er())))
	add(c06Diff("FindReaderIndex(erroring reader)", g.FindReaderIndex(er()), a.FindReaderIndex(er())))
	add(c06Diff("FindReaderSubmatchIndex(erroring reader)", g.FindReaderSubmatchIndex(er()), a.FindReaderSubmatchIndex(er())))
	add(c06Diff("FindString", g.FindString(s), a.FindString(s)))
	add(c06Diff("FindStringIndex", g.FindStringIndex(s), a.FindStringIndex(s)))
	add(c06Diff("FindStringSubmatch", g.FindStringSubmatch(s), a.FindStringSubmatch(s)))
	add(c06Diff("FindStringSubmatchIndex", g.FindStringSubmatchIndex(s), a.FindStringSubmatchIndex(s)))
	add(c06Diff("FindSubmatch", g.FindSubmatch(b), a.FindSubmatch(b)))
	add(c06Diff("FindSubmatchIndex", g.FindSubmatchIndex(b), a.FindSubmatchIndex(b)))
	// nil byte slice and nil-vs-empty inputs
	add(c06Diff("Find(nil)", g.Find(nil), a.Find(nil)))
	add(c06Diff("FindSubmatch(nil)", g.FindSubmatch(nil), a.FindSubmatch(nil)))
	return d
}

func c06All(g, a compat.Matcher, s string, n int) []string {
	var d []string
	add := func(x string) {
		if x != "" {
			d = append(d, x)
		}
	}
	b := []byte(s)
	t := fmt.Sprintf("(n=%d)", n)
	add(c06Diff("FindAll"+t, g.FindAll(b, n), a.FindAll(b, n)))
	add(c06Diff("FindAllIndex"+t, g.FindAllIndex(b, n), a.FindAllIndex(b, n)))
	add(c06Diff("FindAllString"+t, g.FindAllString(s, n), a.FindAllString(s, n)))
	add(c06Diff("FindAllStringIndex"+t, g.FindAllStringIndex(s, n), a.FindAllStringIndex(s, n)))
	add(c06Diff("FindAllStringSubmatch"+t, g.FindAllStringSubmatch(s, n), a.FindAllStringSubmatch(s, n)))
	add(c06Diff("FindAllStringSubmatchIndex"+t, g.FindAllStringSubmatchIndex(s, n), a.FindAllStringSubmatchIndex(s, n)))
	add(c06Diff("FindAllSubmatch"+t, g.FindAllSubmatch(b, n), a.FindAllSubmatch(b, n)))
	add(c06Diff("FindAllSubmatchIndex"+t, g.FindAllSubmatchIndex(b, n), a.FindAllSubmatchIndex(b, n)))
	return d
}

var c06NegPosix = regexp.MustCompile(`\[:\^(upper|lower|alpha|alnum|word|xdigit|graph|print|punct|ascii):\]`)

func c06Guard(pat string, hasB bool, s string) string {
	// known finding: under IgnoreCase a negated POSIX name is folded AFTER the negation ((?i)[[:^upper:]] holds a, so it
	// matches a and A); Go folds the named class first and negates then. Only texts with letters can tell the two apart.
	if strings.Contains(pat, "(?i") && c06NegPosix.MatchString(pat) {
		for _, r := range s {
			if unicode.IsLetter(r) {
				return "re2-negated-posix-ignorecase"
			}
		}
	}
	if hasB || strings.Contains(pat, `\b`) || strings.Contains(pat, `\B`) {
		for _, r := range s {
			if r >= 0x80 && r != utf8.RuneError && syntax.IsWordChar(r) {
				return "re2-boundary-nonascii"
			}
		}
	}
	return ""
}

// the four methods that return match TEXT of a string input
func c06IsTextDiff(d string) bool {
	for _, m := range []string{"FindString:", "FindStringSubmatch:", "FindAllString(", "FindAllStringSubmatch("} {
		if strings.HasPrefix(d, m) {
			return true
		}
	}
	return false
}

func c06Split(d []string) (other, text []string) {
	for _, x := range d {
		if c06IsTextDiff(x) {
			text = append(text, x)
		} else {
			other = append(other, x)
		}
	}
	return
}

// the text-returning methods carry no extra guard (compat-string-reencoded was fixed in /repo)
func c06TextGuard(guard, s string) string {
	return guard
}

type c06Stats struct {
	ascii, multi, invalid, guarded, units, named, lazy, flags, emptyAdj, unset, nomatch, modelGo, modelCompat int
	abort                                                                                                     bool
}

func c06Unit(c *Ctx, st *c06Stats, p *c06Pair, hasB bool, s string, origin string) {
	desc := fmt.Sprintf("%s RE2 pattern %q input %+q", origin, p.pat, s)
	guard := c06Guard(p.pat, hasB, s)
	if p.go2 != nil {
		// the oracle must agree with itself on an equivalent spelling of the pattern (see c06Unfactor)
		if fmt.Sprint(p.go_.FindAllStringSubmatchIndex(s, -1)) != fmt.Sprint(p.go2.FindAllStringSubmatchIndex(s, -1)) ||
			fmt.Sprint(p.go_.FindStringSubmatchIndex(s)) != fmt.Sprint(p.go2.FindStringSubmatchIndex(s)) {
			c.Hist("stdlib-self-inconsistent")
			return
		}
	}
	st.units++
	if guard != "" {
		st.guarded++
	}
	switch {
	case !utf8.ValidString(s):
		st.invalid++
	case len(s) != utf8.RuneCountInString(s):
		st.multi++
	default:
		st.ascii++
	}
	// single-match methods
	d, err, hung := c07Deadline(10*time.Second, func() ([]string, error) { return c06Single(p.go_, p.ad, s), nil })
	if hung {
		c.Add(&Case{Desc: desc, Direct: "adapter single-match methods did not return within 10s"})
		st.abort = true
		return
	}
	if err != nil {
		if strings.Contains(err.Error(), "timeout") || strings.Contains(err.Error(), "stack size") {
			c.Hist("skipped-engine-error")
			return
		}
		c.Add(&Case{Desc: desc, Direct: "adapter panicked where the stdlib returned: " + err.Error(), Guard: guard})
		return
	}
	dOther, dText := c06Split(d)
	c.Add(&Case{Desc: desc + " single-match methods", Direct: strings.Join(dOther, "; "), Guard: guard, Class: origin,
		Nontrivial: p.go_.MatchString(s), Key: p.pat + "|" + s})
	if len(dText) > 0 {
		c.Add(&Case{Desc: desc + " single-match methods returning text", Direct: strings.Join(dText, "; "), Guard: c06TextGuard(guard, s), Class: "text-diff"})
	}
	if !p.go_.MatchString(s) {
		st.nomatch++
	}

	// tables
	runes := []rune(s)
	L := len(runes)
	var off []int
	for i := range s {
		off = append(off, i)
	}
	off = append(off, len(s))
	// stdlib table
	goOK := true
	var mt []int64
	mt = append(mt, int64(L+1))
	for j := 0; j <= L && goOK; j++ {
		a, ok := p.goM(s, j)
		if !ok {
			goOK = false
			break
		}
		if a == nil {
			mt = append(mt, int64(off[j]), 0, 0)
			continue
		}
		mt = append(mt, int64(off[j]), 1, int64(len(a)))
		for _, v := range a {
			mt = append(mt, int64(v))
			if v < 0 {
				st.unset++
			}
		}
	}
	var wt []int64
	wt = append(wt, int64(L+1))
	for j := 0; j <= L; j++ {
		_, w := utf8.DecodeRuneInString(s[off[j]:])
		wt = append(wt, int64(off[j]), int64(w))
	}
	// regexp2 attempt table
	adOK := p.anc != nil
	var at []int64
	if adOK {
		at = append(at, int64(L+1))
		for q := 0; q <= L; q++ {
			m, e := func() (m *regexp2.Match, e error) {
				defer func() {
					if pp := recover(); pp != nil {
						e = fmt.Errorf("panic: %v", pp)
					}
				}()
				return p.anc.FindRunesMatchStartingAt(runes, q)
			}()
			if e != nil {
				adOK = false
				break
			}
			if m == nil {
				at = append(at, int64(q), 0, 0, 0, 0, 0)
				continue
			}
			gs := m.Groups()
			at = append(at, int64(q), 1, int64(m.RuneIndex), int64(m.RuneLength), int64(m.RuneIndex+m.RuneLength), int64(len(gs)))
			for _, gr := range gs {
				if len(gr.Captures) == 0 {
					at = append(at, 0, 0, 0)
				} else {
					at = append(at, 1, int64(gr.RuneIndex), int64(gr.RuneLength))
				}
			}
		}
	}
	offEnc := []int64{int64(len(off))}
	for _, o := range off {
		offEnc = append(offEnc, int64(o))
	}

	for _, n := range c06Ns {
		type outs struct {
			d                 []string
			sub               [][]int
			idx, sidx         [][]int
			single, singleIdx []int
		}
		o, err, hung := c07Deadline(10*time.Second, func() (outs, error) {
			var o outs
			o.d = c06All(p.go_, p.ad, s, n)
			o.sub = p.ad.FindAllStringSubmatchIndex(s, n)
			o.idx = p.ad.FindAllIndex([]byte(s), n)
			o.sidx = p.ad.FindAllStringIndex(s, n)
			o.single = p.ad.FindStringSubmatchIndex(s)
			o.singleIdx = p.ad.FindStringIndex(s)
			return o, nil
		})
		cdesc := fmt.Sprintf("%s n=%d", desc, n)
		if hung {
			c.Add(&Case{Desc: cdesc, Direct: "adapter FindAll* did not return within 10s (non-terminating iteration)"})
			st.abort = true
			return
		}
		if err != nil {
			if strings.Contains(err.Error(), "timeout") || strings.Contains(err.Error(), "stack size") {
				c.Hist("skipped-engine-error")
				return
			}
			c.Add(&Case{Desc: cdesc, Direct: "adapter panicked where the stdlib returned: " + err.Error(), Guard: guard})
			return
		}
		dOther, dText := c06Split(o.d)
		if len(dText) > 0 {
			c.Add(&Case{Desc: cdesc + " FindAll* methods returning text", Direct: strings.Join(dText, "; "), Guard: c06TextGuard(guard, s), Class: "text-diff"})
		}
		cs := &Case{Desc: cdesc + " FindAll* methods", Direct: strings.Join(dOther, "; "), Guard: guard, Class: fmt.Sprintf("n=%d", n),
			Nontrivial: len(o.sub) >= 2, Key: fmt.Sprintf("%s|%s|%d", p.pat, s, n)}
		if goOK {
			cs.ModelLeg = 601
			cs.ModelIn = append([]int64{int64(len(s)), int64(p.go_.NumSubexp()), int64(n)}, mt...)
			cs.ModelIn = append(cs.ModelIn, wt...)
			var pairsFlat [][]int
			if o.idx != nil {
				pairsFlat = o.idx
			}
			cs.ImplOut = append(c06EncListOfLists(o.sub), c07EncPairs(pairsFlat)...)
			cs.ImplOut = append(cs.ImplOut, c06EncFlat(o.single, false)...)
			cs.ImplOut = append(cs.ImplOut, c06EncFlat(o.singleIdx, false)...)
			st.modelGo++
		}
		c.Add(cs)
		if adOK {
			cs2 := &Case{Desc: cdesc + " adapter loops vs regexp2 attempt table", Guard: "", Class: "compat-model",
				ModelLeg: 602, ModelIn: append(append([]int64{int64(L), int64(n)}, offEnc...), at...)}
			cs2.ImplOut = append(c06EncListOfLists(o.sub), c07EncPairs(o.idx)...)
			cs2.ImplOut = append(cs2.ImplOut, c07EncPairs(o.sidx)...)
			cs2.ImplOut = append(cs2.ImplOut, c06EncFlat(o.single, true)...)
			cs2.ImplOut = append(cs2.ImplOut, c06EncFlat(o.singleIdx, true)...)
			c.Add(cs2)
			st.modelCompat++
		}
		if n == -1 {
			// did the iteration skip an empty match adjacent to the previous one?
			seq, _, _ := c07Sequence(p.ad.Unwrap(), func() (*regexp2.Match, error) { return p.ad.Unwrap().FindStringMatch(s) }, L+2)
			if len(seq) > len(o.sub) {
				st.emptyAdj++
			}
		}
	}
}

// a RuneReader that reports a non-EOF error when its text is exhausted
type c06ErrReader struct{ r *strings.Reader }

func (e *c06ErrReader) ReadRune() (rune, int, error) {
	ch, n, err := e.r.ReadRune()
	if err != nil {
		return 0, 0, errors.New("read failed")
	}
	return ch, n, nil
}

type c06Witness struct{ pat, in string }

var c06Corpus = []c06Witness{
	{`a`, "b"}, {`[ab]c`, "zz"}, // nil-ness of find-all with n>0 (fixed in eb87fbc)
	{`(?P<n>a)(b)`, "ab"}, {`(a)(?P<n>b)(c)`, "abc"}, // named groups numbered by position (fixed in 67ee457)
	{"�", "\xff"}, {`\x{fffd}`, "a\xffb"}, // U+FFFD literal vs invalid byte through the string prefilter (fixed in 6372b22)
	{`\b`, "é\xffa"}, {`\B`, "aé"}, // known finding re2-boundary-nonascii
	{`a*`, "baaab"}, {``, "aé\xff"}, {`a|`, "ba"}, {`(|a)`, "a"}, {`x*`, "\xe9"}, {`^`, ""}, {`(?m)^a$`, "a\r\na"}, {`$`, "a\n"},
	{`(?m)$`, "a\nb\n"}, {`(?m)^`, "a\nb\n"}, {`\z`, "a\n"}, {`a*?`, "aa"}, {`(a|ab)(c|bcd)`, "abcd"}, {`(?:(a)|b)+`, "ab"}, {`(a)|b`, "b"},
	{`.`, "\r\n x\xff"}, {`(?s).`, "\r\n"}, {`[^a]`, "\xffa\n"}, {`(?i)s`, "ſS"}, {`(?i)k`, "KK"}, {`\w+`, "aé_9٣"}, {`\s`, " \v\t\f\r\n "},
	{`.aa`, "aaa"}, {`.aa`, "aaaa"}, {`[^x]aba`, "ababa"}, {`..abab`, "xababab"}, {`.éé`, "ééé"}, {`.\.\.`, "...."}, {`[ab]aa`, "aaab aaa"}, // a self-overlapping literal at a fixed distance: an occurrence too close to the start must not hide the next one
	{`(A|(?i:a)\.*)`, "xaA"}, {`(?i:a)b|A`, "xaA"}, {`A|[Aa]b`, "ab"}, // Go's parser loses the fold flag when it factors these alternations: the oracle disagrees with itself and the pair is skipped
	{`\777`, "ÿǿ"}, {`[\400-\777]+`, "Āǿÿ"}, {`\101\x42\x{43}`, "xABC"}, {`\07`, "\a7"}, {`\a\f\t\n\r\v`, "\a\f\t\n\r\v"}, {`\0`, "\x00"}, {`\377`, "ÿ"}, {`\378`, "\x1f8"}, // escapes: an octal escape keeps its value above \377 (fixed in 533e628)
	{`[[:digit]x]`, "0x] dx]"}, {`[[:foo]x]`, "fx] 0x]"}, {`[a[:digit]+`, "a0:d5"}, {`[[:^alpha]]`, "a] ^] 0]"}, // a POSIX name that is not closed by ":]" is a run of ordinary members (fixed in fde9056)
	{`(?i)[[:^upper:]]`, "a"}, {`(?i)[[:^upper:]]+`, "1-"}, {`(?i)x[[:^alpha:]]`, "xk x1"}, // known finding re2-negated-posix-ignorecase (and a text without letters, where both agree)
	{`..z`, "\x80\x80z"}, {`(.)(.)z`, "\xe2\x82z"}, {`..zq`, "a\x80\x80zq"}, {`.z`, "\xffz"}, {`...z`, "\xf0\x9f\x98z"}, {`..z`, "\xe2\x82z \xe2\x82\xacaz"}, {`.[yz]z`, "\xc3\xc3zz"}, // invalid bytes between the start and a literal at a fixed distance: each is one character
	{`(a)(b)?`, "a"}, {`(?i:a)b`, "Ab AB"}, {`日*`, "日日a"}, {`\d+|\D`, "12ab"}, {`é?`, "éé"},
}

func legC06Compat(c *Ctx) {
	c.Rule("RE2-compatible random ASTs (literals incl. metacharacters and multi-byte, classes, ., ^ $ \\A \\z, \\b \\B in <=30% of patterns, capturing/named/non-capturing groups, alternation with occasional empty branch, greedy and lazy quantifiers over non-nullable bodies, (?i)(?s)(?m) prefixes and scoped) + fixed corpus; inputs of 0-8 pieces: ASCII / multi-byte / with invalid UTF-8 (lone lead bytes, truncated sequences, surrogate, overlong); n in {-1,0,1,2,3,100}; non-trivial = the pattern matches (single) / at least two matches (find-all), distinct by pattern, input, n")
	st := &c06Stats{}
	run := func(pat string, hasB bool, inputs []string, origin string) {
		p, why := c06Compile(pat)
		if p == nil {
			if why != "" {
				c.Add(&Case{Desc: fmt.Sprintf("%s RE2 pattern %q", origin, pat), Direct: why})
			} else {
				c.Hist("not-go-syntax")
			}
			return
		}
		if strings.Contains(pat, "(?P<") {
			st.named++
		}
		if strings.Contains(pat, "*?") || strings.Contains(pat, "+?") || strings.Contains(pat, "??") || strings.Contains(pat, "}?") {
			st.lazy++
		}
		if strings.Contains(pat, "(?i") || strings.Contains(pat, "(?s") || strings.Contains(pat, "(?m") {
			st.flags++
		}
		for _, in := range inputs {
			if st.abort {
				return
			}
			c06Unit(c, st, p, hasB, in, origin)
		}
	}
	for _, w := range c06Corpus {
		run(w.pat, false, []string{w.in}, "corpus")
	}
	np := c.N(1500, 20000)
	for i := 0; i < np && !st.abort; i++ {
		pat, hasB := c06Pattern(c.Rng)
		ins := []string{c06Input(c.Rng), c06Input(c.Rng), c06Input(c.Rng), c06Input(c.Rng)}
		run(pat, hasB, ins, "random")
	}
	if st.abort {
		return
	}
	c.Hist(fmt.Sprintf("guarded-units-%d-of-%d", st.guarded, st.units))
	c.Gate("ASCII inputs", st.ascii > 100)
	c.Gate("multi-byte inputs", st.multi > 100)
	c.Gate("invalid UTF-8 inputs", st.invalid > 100)
	c.Gate("named groups", st.named > 20)
	c.Gate("lazy quantifiers", st.lazy > 20)
	c.Gate("flags", st.flags > 20)
	c.Gate("unset groups (-1 pairs) in the stdlib table", st.unset > 20)
	c.Gate("inputs without a match", st.nomatch > 50)
	c.Gate("iterations where an adjacent empty match was skipped", st.emptyAdj > 20)
	c.Gate("Go-loop model cases", st.modelGo > 1000)
	c.Gate("adapter-loop model cases", st.modelCompat > 1000)
	c.Gate("known-finding guard density <= 5%", st.guarded*20 <= st.units)
}
