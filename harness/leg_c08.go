package main

// C08 — returned matches are well-formed and index conversion is exact.
//
//	c08-utf8        model Base/Utf8.decode / rune_len / encode  vs  Go `range`, utf8.DecodeRune, RuneLen, AppendRune
//	c08-offsets     model rune->byte maps (match.go, regexp.go, compat)  vs  the byte indexes the public API reports
//	c08-wellformed  direct observables on every returned match (no model), plus model new_group on real groups

import (
	"bytes"
	"fmt"
	"go/ast"
	"go/parser"
	"go/token"
	"os"
	"path/filepath"
	"sort"
	"strconv"
	"strings"
	"time"
	"unicode/utf8"

	"github.com/dlclark/regexp2/v2"
	"github.com/dlclark/regexp2/v2/compat"
)

func init() {
	registerLeg("c08-utf8", "C08", legC08Utf8)
	registerLeg("c08-offsets", "C08", legC08Offsets)
	registerLeg("c08-wellformed", "C08", legC08Wellformed)
}

// ---------------------------------------------------------------- shared helpers

func c08BytesToInts(b []byte) []int64 {
	out := make([]int64, 0, len(b)+1)
	out = append(out, int64(len(b)))
	for _, x := range b {
		out = append(out, int64(x))
	}
	return out
}

func c08RunesToInts(rs []rune) []int64 {
	out := make([]int64, 0, len(rs)+1)
	out = append(out, int64(len(rs)))
	for _, x := range rs {
		out = append(out, int64(x))
	}
	return out
}

// what `for i, r := range s` enumerates: runes, widths, byte offset of every rune boundary (n+1 entries)
func c08Range(s string) (rs []rune, ws []int, bnd []int) {
	prev := -1
	for i, r := range s {
		if prev >= 0 {
			ws = append(ws, i-prev)
		}
		prev = i
		rs = append(rs, r)
		bnd = append(bnd, i)
	}
	if prev >= 0 {
		ws = append(ws, len(s)-prev)
	}
	bnd = append(bnd, len(s))
	return
}

// why a width-1 U+FFFD was produced at s[i]
func c08InvalidKind(s string, i int) string {
	b0 := s[i]
	rest := len(s) - i
	switch {
	case b0 < 0xC0:
		return "stray-continuation"
	case b0 == 0xC0 || b0 == 0xC1:
		return "overlong-2"
	case b0 >= 0xF5:
		return "bad-lead"
	}
	need := 2
	if b0 >= 0xE0 {
		need = 3
	}
	if b0 >= 0xF0 {
		need = 4
	}
	if rest >= 2 {
		b1 := s[i+1]
		if b1 >= 0x80 && b1 <= 0xBF {
			switch {
			case b0 == 0xE0 && b1 < 0xA0:
				return "overlong-3"
			case b0 == 0xED && b1 >= 0xA0:
				return "surrogate"
			case b0 == 0xF0 && b1 < 0x90:
				return "overlong-4"
			case b0 == 0xF4 && b1 >= 0x90:
				return "above-max"
			}
		}
	}
	if rest < need {
		return "truncated-at-end"
	}
	return "bad-continuation"
}

// set of event kinds in a string (histogram / coverage gates)
func c08Kinds(s string) []string {
	seen := map[string]bool{}
	rs, ws, bnd := c08Range(s)
	for k, r := range rs {
		switch {
		case ws[k] == 1 && r == utf8.RuneError:
			seen[c08InvalidKind(s, bnd[k])] = true
		case ws[k] == 3 && r == utf8.RuneError:
			seen["literal-fffd"] = true
		case ws[k] == 1:
			seen["ascii"] = true
		default:
			seen[fmt.Sprintf("valid-%d", ws[k])] = true
		}
	}
	var out []string
	for k := range seen {
		out = append(out, k)
	}
	sort.Strings(out)
	return out
}

var c08AllKinds = []string{"ascii", "valid-2", "valid-3", "valid-4", "literal-fffd", "stray-continuation", "overlong-2", "overlong-3",
	"overlong-4", "surrogate", "above-max", "bad-lead", "truncated-at-end", "bad-continuation"}

type c08Cover map[string]int

// counts every kind; returns a coarse histogram bucket
func (cv c08Cover) note(s string) string {
	ks := c08Kinds(s)
	bucket := "ascii"
	for _, k := range ks {
		cv[k]++
		switch {
		case k == "ascii":
		case strings.HasPrefix(k, "valid-") || k == "literal-fffd":
			if bucket == "ascii" {
				bucket = "valid-multibyte"
			}
		default:
			if !strings.HasPrefix(bucket, "invalid:") {
				bucket = "invalid:" + k
			}
		}
	}
	if len(ks) == 0 {
		bucket = "empty"
	}
	return bucket
}

func (cv c08Cover) gates(c *Ctx, leg string) {
	for _, k := range c08AllKinds {
		c.Gate(leg+": no input with "+k, cv[k] > 0)
	}
}

// ---------------------------------------------------------------- leg a: UTF-8 view

// implementation side of model leg 801: [n, r1, w1, ..., valid]; the three stdlib views must agree
func c08DecodeImpl(b []byte) (out []int64, direct string) {
	s := string(b)
	rs, ws, bnd := c08Range(s)
	out = append(out, int64(len(rs)))
	for k, r := range rs {
		out = append(out, int64(r), int64(ws[k]))
		r2, w2 := utf8.DecodeRune(b[bnd[k]:])
		r3, w3 := utf8.DecodeRuneInString(s[bnd[k]:])
		if r2 != r || w2 != ws[k] || r3 != r || w3 != ws[k] {
			direct = fmt.Sprintf("range gives (%#x,%d) at byte %d, DecodeRune (%#x,%d), DecodeRuneInString (%#x,%d)", r, ws[k], bnd[k], r2, w2, r3, w3)
		}
	}
	conv := []rune(s)
	if len(conv) != len(rs) {
		direct = "[]rune(s) and range disagree on the number of runes"
	} else {
		for k := range conv {
			if conv[k] != rs[k] {
				direct = "[]rune(s) and range disagree"
			}
		}
	}
	out = append(out, b2i(utf8.Valid(b)))
	return
}

var c08Reps3 = []byte{0x00, 0x41, 0x7F, 0x80, 0x8F, 0x90, 0x9F, 0xA0, 0xBF, 0xC0, 0xC1, 0xC2, 0xDF, 0xE0, 0xE1, 0xEC, 0xED, 0xEE, 0xEF,
	0xF0, 0xF1, 0xF3, 0xF4, 0xF5, 0xF7, 0xF8, 0xFF}

func legC08Utf8(c *Ctx) {
	c.Rule("byte strings: ALL of length <= 2; all of length 3 over 27 boundary bytes (00 41 7F 80 8F 90 9F A0 BF C0 C1 C2 DF E0 E1 EC ED EE EF F0 F1 F3 F4 F5 F7 F8 FF); " +
		"4-byte lead x second x third x fourth boundary classes; random concatenations of boundary bytes up to length 9; " +
		"thorough: every 3-byte string (256 extensions per (b0,b1) case) and 4-byte strings lead F0..F7 x all x 27 x all; " +
		"runes: every boundary of RuneLen/ValidRune plus random int32; non-trivial = contains a non-ASCII byte (distinct by string)")
	cv := c08Cover{}
	add := func(b []byte) {
		out, direct := c08DecodeImpl(b)
		cls := cv.note(string(b))
		nontriv := false
		for _, x := range b {
			if x >= 0x80 {
				nontriv = true
			}
		}
		c.Add(&Case{Desc: fmt.Sprintf("decode %+q (% x)", string(b), b), ModelLeg: 801, ModelIn: c08BytesToInts(b), ImplOut: out,
			Nontrivial: nontriv, Key: string(b), Class: "len" + strconv.Itoa(len(b)) + ":" + cls, Direct: direct})
	}
	// exhaustive <= 2
	add(nil)
	for a := 0; a < 256; a++ {
		add([]byte{byte(a)})
	}
	for a := 0; a < 256; a++ {
		for b := 0; b < 256; b++ {
			add([]byte{byte(a), byte(b)})
		}
	}
	// length 3 over boundary bytes
	for _, a := range c08Reps3 {
		for _, b := range c08Reps3 {
			for _, d := range c08Reps3 {
				add([]byte{a, b, d})
			}
		}
	}
	// length 4: structured
	lead4 := []byte{0xF0, 0xF1, 0xF3, 0xF4, 0xF5, 0xF7, 0xE0, 0xED, 0xEF, 0xC2, 0x80, 0x41}
	second := []byte{0x7F, 0x80, 0x8F, 0x90, 0x9F, 0xA0, 0xBF, 0xC0}
	tail := []byte{0x41, 0x7F, 0x80, 0xBF, 0xC0}
	for _, a := range lead4 {
		for _, b := range second {
			for _, d := range tail {
				for _, e := range tail {
					add([]byte{a, b, d, e})
				}
			}
		}
	}
	// longer: the loop must resynchronise correctly after every kind of rune
	n := c.N(20000, 1000000)
	for i := 0; i < n; i++ {
		l := 3 + c.Rng.Intn(7)
		b := make([]byte, l)
		for k := range b {
			if c.Rng.Chance(85) {
				b[k] = Pick(c.Rng, c08Reps3)
			} else {
				b[k] = byte(c.Rng.Intn(256))
			}
		}
		add(b)
	}
	// valid strings from random scalars, and one-byte corruptions of them
	for i := 0; i < n/2; i++ {
		var rs []rune
		for k := c.Rng.Intn(5); k >= 0; k-- {
			rs = append(rs, c08RandRune(c.Rng))
		}
		b := []byte(string(rs))
		add(b)
		if len(b) > 0 {
			m := append([]byte(nil), b...)
			switch c.Rng.Intn(3) {
			case 0:
				m[c.Rng.Intn(len(m))] = byte(c.Rng.Intn(256))
			case 1:
				m = m[:c.Rng.Intn(len(m))]
			default:
				k := c.Rng.Intn(len(m))
				m = append(m[:k], m[k+1:]...)
			}
			add(m)
		}
	}
	if c.Thorough {
		// every 3-byte string: one case per (b0,b1), 256 extensions each
		ext := func(p []byte) {
			var out []int64
			for x := 0; x < 256; x++ {
				o, _ := c08DecodeImpl(append(append([]byte(nil), p...), byte(x)))
				out = append(out, o[:len(o)-1]...)
			}
			c.Add(&Case{Desc: fmt.Sprintf("decode (% x)+b for every byte b", p), ModelLeg: 803, ModelIn: c08BytesToInts(p), ImplOut: out,
				Nontrivial: true, Class: "ext" + strconv.Itoa(len(p)+1)})
		}
		for a := 0; a < 256; a++ {
			for b := 0; b < 256; b++ {
				ext([]byte{byte(a), byte(b)})
			}
		}
		for a := 0xF0; a <= 0xF7; a++ {
			for b := 0; b < 256; b++ {
				for _, d := range c08Reps3 {
					ext([]byte{byte(a), byte(b), d})
				}
			}
		}
	}
	cv.gates(c, "c08-utf8")

	// runes: RuneLen, ValidRune, AppendRune
	bnds := []rune{-0x80000000, -2, -1, 0, 1, 0x7F, 0x80, 0x7FF, 0x800, 0xD7FF, 0xD800, 0xDBFF, 0xDC00, 0xDFFF, 0xE000, 0xFFFC, 0xFFFD, 0xFFFE,
		0xFFFF, 0x10000, 0x10FFFF, 0x110000, 0x1FFFFF, 0x200000, 0x7FFFFFFF}
	addRunes := func(rs []rune) {
		var out []int64
		direct := ""
		for _, r := range rs {
			enc := utf8.AppendRune(nil, r)
			out = append(out, int64(utf8.RuneLen(r)), b2i(utf8.ValidRune(r)))
			out = append(out, c08BytesToInts(enc)...)
			if string(enc) != string(r) {
				direct = fmt.Sprintf("string(rune %#x) differs from utf8.AppendRune", r)
			}
		}
		if string(rs) != func() string {
			var b []byte
			for _, r := range rs {
				b = utf8.AppendRune(b, r)
			}
			return string(b)
		}() {
			direct = "string([]rune) differs from concatenated AppendRune"
		}
		c.Add(&Case{Desc: fmt.Sprintf("RuneLen/ValidRune/AppendRune of %x", rs), ModelLeg: 802, ModelIn: c08RunesToInts(rs), ImplOut: out,
			Nontrivial: true, Class: "runes", Direct: direct})
	}
	for _, r := range bnds {
		addRunes([]rune{r})
	}
	for i := 0; i < c.N(3000, 100000); i++ {
		var rs []rune
		for k := c.Rng.Intn(4); k >= 0; k-- {
			switch c.Rng.Intn(4) {
			case 0:
				rs = append(rs, Pick(c.Rng, bnds))
			case 1:
				rs = append(rs, rune(int32(c.Rng.Next())))
			default:
				rs = append(rs, c08RandRune(c.Rng))
			}
		}
		addRunes(rs)
	}
}

func c08RandRune(r *Rng) rune {
	for {
		var x rune
		switch r.Intn(6) {
		case 0:
			x = rune(r.Intn(0x80))
		case 1:
			x = rune(0x80 + r.Intn(0x780))
		case 2:
			x = rune(0x800 + r.Intn(0xF800))
		case 3:
			x = rune(0x10000 + r.Intn(0x100000))
		default:
			x = Pick(r, []rune{0x7F, 0x80, 0x7FF, 0x800, 0xD7FF, 0xE000, 0xFFFD, 0xFFFF, 0x10000, 0x10FFFF, 'a', 'é', '€', 0x1F600})
		}
		if utf8.ValidRune(x) {
			return x
		}
	}
}

// ---------------------------------------------------------------- leg b: offsets through the public API

const c08Timeout = 2 * time.Second

type c08Cache struct {
	m map[string]*regexp2.Regexp
}

func (cc *c08Cache) get(pat string, opts ...regexp2.CompileOption) *regexp2.Regexp {
	key := pat + fmt.Sprint(opts)
	if re, ok := cc.m[key]; ok {
		return re
	}
	re := regexp2.MustCompile(pat, opts...)
	re.MatchTimeout = c08Timeout
	cc.m[key] = re
	return re
}

// fragments the offset strings are built from
var c08Frags = []string{"a", "z", "\n", "\x00", "\x7f", "\u0080", "é", "ß", "\u07ff", "\u0800", "€", "\ud7ff", "\ue000", "\ufffd", "\uffff", "\U00010000", "😀", "\U0010ffff",
	"\xff", "\x80", "\xbf", "\xc0\x80", "\xc1\xbf", "\xe0\x80\x80", "\xe0\x9f\xbf", "\xed\xa0\x80", "\xed\xbf\xbf", "\xf0\x80\x80\x80", "\xf0\x8f\xbf\xbf", "\xf4\x90\x80\x80", "\xf5\x80\x80\x80",
	"\xc3", "\xe2\x82", "\xe2", "\xf0\x9f\x98", "\xf0\x9f", "\xf0", "\xf8\x88\x80\x80\x80"}

func c08RandString(r *Rng, maxRunes int) string {
	for {
		var sb strings.Builder
		k := r.Intn(5)
		for i := 0; i <= k; i++ {
			if r.Chance(35) {
				sb.WriteByte("abz"[r.Intn(3)])
			} else {
				sb.WriteString(Pick(r, c08Frags))
			}
		}
		s := sb.String()
		if utf8.RuneCountInString(s) <= maxRunes {
			return s
		}
	}
}

func c08Pair(m *regexp2.Match, err error) []int64 {
	if err != nil {
		return []int64{-7, -7}
	}
	if m == nil {
		return []int64{-9, -9}
	}
	bi, bl := m.ByteRange()
	return []int64{int64(bi), int64(bi + bl)}
}

func c08Loc(loc []int) []int64 {
	if len(loc) < 2 {
		return []int64{-9, -9}
	}
	return []int64{int64(loc[0]), int64(loc[1])}
}

func c08Locs1(locs [][]int, err error) []int64 {
	if err != nil {
		return []int64{-7, -7}
	}
	if len(locs) != 1 {
		return []int64{-9, int64(len(locs))}
	}
	return c08Loc(locs[0])
}

// runs f under recover; a panic becomes a description
func c08Safe(f func()) (panicked string) {
	defer func() {
		if r := recover(); r != nil {
			panicked = fmt.Sprint(r)
		}
	}()
	f()
	return ""
}

func legC08Offsets(c *Ctx) {
	c.Rule("strings of <= 7 runes concatenated from 1-4 byte scalars (incl. literal U+FFFD, U+0080, U+07FF, U+0800, U+FFFF, U+10000, U+10FFFF), lone invalid bytes, overlong, surrogate, " +
		"above-max and truncated sequences; for EVERY rune span (i,l) the byte pair reported by: Capture.ByteRange via FindStringMatchStartingAt(`(?s)\\G.{l}`, byte i), " +
		"FindAllStringIndex(`(?s)(?<=\\A.{i}).{l}`), compat FindAllIndex([]byte), ByteRange on []rune(s), compat FindReaderIndex; submatch index variants checked directly; " +
		"rune slices with surrogates / out-of-range / negative values: ByteRange at every index; non-trivial = string is not pure ASCII (distinct by string)")
	cc := &c08Cache{m: map[string]*regexp2.Regexp{}}
	cv := c08Cover{}
	spanPat := func(i, l int) string { return fmt.Sprintf(`(?s)(?<=\A.{%d}).{%d}`, i, l) }
	doString := func(s string) {
		rs, _, bnd := c08Range(s)
		n := len(rs)
		var r1, r2, r3, r4, r5 []int64
		direct := ""
		note := func(f string, a ...any) {
			if direct == "" {
				direct = fmt.Sprintf(f, a...)
			}
		}
		p := c08Safe(func() {
			for i := 0; i <= n; i++ {
				for l := 0; i+l <= n; l++ {
					reG := cc.get(fmt.Sprintf(`(?s)\G.{%d}`, l))
					re := cc.get(spanPat(i, l))
					cre := compat.Wrap(re)
					m1, err := reG.FindStringMatchStartingAt(s, bnd[i])
					r1 = append(r1, c08Pair(m1, err)...)
					m1b, err := re.FindStringMatch(s)
					if got := c08Pair(m1b, err); m1 != nil && (got[0] != r1[len(r1)-2] || got[1] != r1[len(r1)-1]) {
						note("span (%d,%d): FindStringMatch ByteRange %v, FindStringMatchStartingAt ByteRange %v", i, l, got, r1[len(r1)-2:])
					}
					if m1 != nil && (m1.RuneIndex != i || m1.RuneLength != l) {
						note("span (%d,%d): FindStringMatchStartingAt(byte %d) matched rune span (%d,%d)", i, l, bnd[i], m1.RuneIndex, m1.RuneLength)
					}
					r2 = append(r2, c08Locs1(re.FindAllStringIndex(s, -1))...)
					r3 = append(r3, c08Locs1(cre.FindAllIndex([]byte(s), -1), nil)...)
					m4, err := re.FindRunesMatch(rs)
					r4 = append(r4, c08Pair(m4, err)...)
					r5 = append(r5, c08Loc(cre.FindReaderIndex(strings.NewReader(s)))...)
					// every other adapter index function must give the same pair
					want := []int{bnd[i], bnd[i+l]}
					for name, got := range map[string][]int{
						"FindIndex":                       cre.FindIndex([]byte(s)),
						"FindStringIndex":                 cre.FindStringIndex(s),
						"FindSubmatchIndex":               cre.FindSubmatchIndex([]byte(s)),
						"FindStringSubmatchIndex":         cre.FindStringSubmatchIndex(s),
						"FindReaderSubmatchIndex(bytes)":  cre.FindReaderSubmatchIndex(bytes.NewReader([]byte(s))),
						"FindAllStringIndex[0]":           c08First(cre.FindAllStringIndex(s, -1)),
						"FindAllSubmatchIndex[0]":         c08First(cre.FindAllSubmatchIndex([]byte(s), -1)),
						"FindAllStringSubmatchIndex[0]":   c08First(cre.FindAllStringSubmatchIndex(s, -1)),
					} {
						if len(got) != 2 || got[0] != want[0] || got[1] != want[1] {
							note("span (%d,%d): compat %s = %v, want %v", i, l, name, got, want)
						}
					}
					if got := cre.Find([]byte(s)); string(got) != s[bnd[i]:bnd[i+l]] {
						note("span (%d,%d): compat Find = %+q, want %+q", i, l, got, s[bnd[i]:bnd[i+l]])
					}
				}
			}
			// groups: (i,l) and the rest, through the submatch index functions
			if n >= 1 {
				i := c.Rng.Intn(n + 1)
				l := c.Rng.Intn(n - i + 1)
				cre := compat.Wrap(cc.get(fmt.Sprintf(`(?s)(?<=\A.{%d})(.{%d})(.*)(x)?`, i, l)))
				want := []int{bnd[i], len(s), bnd[i], bnd[i+l], bnd[i+l], len(s), -1, -1}
				for name, got := range map[string][]int{
					"FindSubmatchIndex":       cre.FindSubmatchIndex([]byte(s)),
					"FindStringSubmatchIndex": cre.FindStringSubmatchIndex(s),
					"FindReaderSubmatchIndex": cre.FindReaderSubmatchIndex(strings.NewReader(s)),
				} {
					if fmt.Sprint(got) != fmt.Sprint(want) {
						note("groups at (%d,%d): compat %s = %v, want %v", i, l, name, got, want)
					}
				}
			}
		})
		if p != "" {
			note("panic: %s", p)
		}
		out := []int64{int64(n)}
		for _, r := range [][]int64{r1, r2, r3, r4, r5} {
			out = append(out, r...)
		}
		cls := cv.note(s)
		c.Add(&Case{Desc: fmt.Sprintf("byte pairs of every rune span of %+q (% x)", s, s), ModelLeg: 804, ModelIn: c08BytesToInts([]byte(s)), ImplOut: out,
			Nontrivial: cls != "ascii" && cls != "empty", Key: s, Class: cls, Direct: direct})
	}
	for _, f := range c08Frags {
		doString(f)
		doString("a" + f)
		doString(f + "a")
		doString(f + f)
	}
	doString("")
	n := c.N(15000, 150000)
	for i := 0; i < n; i++ {
		doString(c08RandString(c.Rng, 7))
	}
	cv.gates(c, "c08-offsets")

	// rune slices that are not the decoding of any string
	weird := []rune{-0x80000000, -1, 0xD800, 0xDFFF, 0x110000, 0x7FFFFFFF, 0xFFFD, 'a', 'é', '€', 0x1F600, 0x7F, 0x80, 0x7FF, 0x800, 0xFFFF, 0x10000}
	empty := cc.get(``)
	nWeird, nAll := 0, 0
	for i := 0; i < c.N(12000, 150000); i++ {
		k := c.Rng.Intn(7)
		rs := make([]rune, k)
		matchable := true
		for j := range rs {
			if c.Rng.Chance(60) {
				rs[j] = Pick(c.Rng, weird)
			} else {
				rs[j] = c08RandRune(c.Rng)
			}
			if rs[j] < 0 || rs[j] > 0x10FFFF {
				matchable = false // `(?s).` does not match these
			}
		}
		mode := int64(0)
		if matchable {
			mode = 1
			nAll++
		} else {
			nWeird++
		}
		var out []int64
		direct := ""
		p := c08Safe(func() {
			for a := 0; a <= k; a++ {
				for l := 0; a+l <= k; l++ {
					if l > 0 && mode == 0 {
						continue
					}
					var m *regexp2.Match
					var err error
					if l == 0 {
						m, err = empty.FindRunesMatchStartingAt(rs, a)
					} else {
						m, err = cc.get(fmt.Sprintf(`(?s)\G.{%d}`, l)).FindRunesMatchStartingAt(rs, a)
					}
					out = append(out, c08Pair(m, err)...)
					if m != nil {
						wantI, wantL := len(string(rs[:a])), len(string(rs[a:a+l]))
						if bi, bl := m.ByteRange(); bi != wantI || bl != wantL {
							direct = fmt.Sprintf("ByteRange of rune span (%d,%d) = (%d,%d), want (%d,%d) = byte span in string(runes)", a, l, bi, bl, wantI, wantL)
						}
					}
				}
			}
		})
		if p != "" {
			direct = "panic: " + p
		}
		whole := []byte(string(rs))
		out = append(out, 0)
		out = append(out, c08BytesToInts(whole)...)
		c.Add(&Case{Desc: fmt.Sprintf("ByteRange on rune slice %x", rs), ModelLeg: 805, ModelIn: append(c08RunesToInts(rs), mode), ImplOut: out,
			Nontrivial: len(whole) != len(rs), Class: fmt.Sprintf("runes-mode%d", mode), Direct: direct})
	}
	c.Gate("c08-offsets: no rune slice with unmatchable runes", nWeird > 0)
	c.Gate("c08-offsets: no rune slice with all spans", nAll > 0)
}

func c08First(x [][]int) []int {
	if len(x) == 0 {
		return nil
	}
	if len(x[0]) > 2 {
		return x[0][:2]
	}
	return x[0]
}

// ---------------------------------------------------------------- leg c: well-formedness of every returned match

// ----- random pattern generator (own small AST -> pattern text)

type c08Gen struct {
	r      *Rng
	groups int      // numbered groups opened so far
	names  []string // named groups opened so far
	used   map[string]bool
}

var c08Lits = []string{"a", "b", "c", "é", "€", "😀", `\x{FFFD}`, "a", "b", "ab", "ba", "é€"}
var c08Classes = []string{".", `\w`, `\W`, `\d`, `\s`, `[ab]`, `[^a]`, `[a-c]`, `[é€]`, `[^\x{FFFD}]`, `\p{L}`, `\P{L}`, `[\s\S]`, `[^é]`, `[b😀]`}

func (g *c08Gen) atom(depth int) string {
	switch g.r.Intn(10) {
	case 0, 1, 2, 3:
		g.used["literal"] = true
		return Pick(g.r, c08Lits)
	case 4, 5:
		g.used["class"] = true
		return Pick(g.r, c08Classes)
	case 6:
		if g.groups > 0 && g.r.Bool() {
			g.used["backref"] = true
			return fmt.Sprintf(`\%d`, 1+g.r.Intn(g.groups))
		}
		if len(g.names) > 0 {
			g.used["backref"] = true
			return fmt.Sprintf(`\k<%s>`, Pick(g.r, g.names))
		}
		return Pick(g.r, c08Lits)
	case 7:
		g.used["anchor"] = true
		return Pick(g.r, []string{"^", "$", `\b`, `\B`, `\G`, `\A`, `\z`, `\Z`})
	default:
		if depth <= 0 {
			return Pick(g.r, c08Lits)
		}
		return g.group(depth - 1)
	}
}

func (g *c08Gen) group(depth int) string {
	switch g.r.Intn(14) {
	case 0, 1, 2:
		g.groups++
		g.used["capture"] = true
		return "(" + g.alt(depth) + ")"
	case 3:
		return "(?:" + g.alt(depth) + ")"
	case 4, 5:
		name := Pick(g.r, []string{"a", "b", "n"})
		g.names = append(g.names, name)
		g.used["named"] = true
		return "(?<" + name + ">" + g.alt(depth) + ")"
	case 6:
		if len(g.names) > 0 {
			g.used["balancing"] = true
			nm := Pick(g.r, g.names)
			if g.r.Bool() {
				return "(?<-" + nm + ">" + g.alt(depth) + ")"
			}
			other := Pick(g.r, []string{"a", "b", "n", "q"})
			g.names = append(g.names, other)
			return "(?<" + other + "-" + nm + ">" + g.alt(depth) + ")"
		}
		g.names = append(g.names, "a")
		g.used["balancing"] = true
		return "(?<a>" + g.alt(depth) + ")" + g.quant("(?<-a>"+g.alt(depth)+")")
	case 7:
		g.used["lookahead"] = true
		return Pick(g.r, []string{"(?=", "(?!"}) + g.alt(depth) + ")"
	case 8, 9:
		g.used["lookbehind"] = true
		inner := g.alt(depth)
		if g.r.Bool() {
			g.groups++
			inner = "(" + inner + ")" + g.seq(depth)
			g.used["lookbehind-capture"] = true
		}
		return Pick(g.r, []string{"(?<=", "(?<=", "(?<!"}) + inner + ")"
	case 10:
		g.used["atomic"] = true
		return "(?>" + g.alt(depth) + ")"
	case 11:
		if g.groups > 0 {
			g.used["conditional"] = true
			return fmt.Sprintf("(?(%d)%s|%s)", 1+g.r.Intn(g.groups), g.seq(depth), g.seq(depth))
		}
		return "(?:" + g.alt(depth) + ")"
	case 12:
		g.used["inline-option"] = true
		return "(?" + Pick(g.r, []string{"i", "s", "m", "i-s", "n", "x"}) + ":" + g.alt(depth) + ")"
	default:
		g.groups++
		g.used["capture"] = true
		return g.quant("(" + g.alt(depth) + ")")
	}
}

func (g *c08Gen) quant(a string) string {
	q := Pick(g.r, []string{"*", "+", "?", "{2}", "{0,2}", "{1,3}", "{2,}", "*", "+"})
	g.used["loop"] = true
	if g.r.Chance(35) {
		q += "?"
		g.used["lazy"] = true
	}
	return a + q
}

func (g *c08Gen) piece(depth int) string {
	a := g.atom(depth)
	if g.r.Chance(35) && !strings.HasPrefix(a, "^") && !strings.HasPrefix(a, "$") && !(strings.HasPrefix(a, `\`) && len(a) == 2 && strings.ContainsAny(a[1:], "bBGAzZ")) {
		if len([]rune(a)) > 1 && !strings.HasPrefix(a, "(") && !strings.HasPrefix(a, "[") && !strings.HasPrefix(a, `\`) {
			a = "(?:" + a + ")"
		}
		return g.quant(a)
	}
	return a
}

func (g *c08Gen) seq(depth int) string {
	var sb strings.Builder
	for k := g.r.Intn(4); k >= 0; k-- {
		sb.WriteString(g.piece(depth))
	}
	return sb.String()
}

func (g *c08Gen) alt(depth int) string {
	s := g.seq(depth)
	for g.r.Chance(25) {
		g.used["alternation"] = true
		s += "|" + g.seq(depth)
	}
	return s
}

// inputs mixing rune widths and invalid bytes over the generator's alphabet
var c08InputFrags = []string{"a", "b", "c", "a", "b", "ab", "ba", "é", "€", "😀", "\ufffd", " ", "\n", "1", "_", "\xff", "\xe2\x82", "\xc0\x80", "\xed\xa0\x80", "\xf0\x9f", "A", "É"}

func c08Input(r *Rng, extra []string) string {
	var sb strings.Builder
	for k := r.Intn(9); k > 0; k-- {
		if len(extra) > 0 && r.Chance(50) {
			sb.WriteString(Pick(r, extra))
		} else {
			sb.WriteString(Pick(r, c08InputFrags))
		}
	}
	return sb.String()
}

// literal pieces of a harvested pattern, to build inputs that have a chance to match it
func c08PatternAlphabet(p string) []string {
	var out []string
	var cur strings.Builder
	flush := func() {
		if cur.Len() > 0 {
			out = append(out, cur.String())
			cur.Reset()
		}
	}
	rs := []rune(p)
	for i := 0; i < len(rs); i++ {
		ch := rs[i]
		switch {
		case ch == '\\' && i+1 < len(rs):
			flush()
			i++
			switch rs[i] {
			case 'd':
				out = append(out, "7", "42")
			case 'w':
				out = append(out, "w", "é")
			case 's':
				out = append(out, " ", "\t")
			case 'n':
				out = append(out, "\n")
			case 't':
				out = append(out, "\t")
			default:
				if !((rs[i] >= 'a' && rs[i] <= 'z') || (rs[i] >= 'A' && rs[i] <= 'Z') || (rs[i] >= '0' && rs[i] <= '9')) {
					out = append(out, string(rs[i]))
				}
			}
		case strings.ContainsRune(`.*+?()[]{}|^$<>=!:#-,`, ch):
			flush()
			if ch == '.' {
				out = append(out, "x", "€")
			}
		default:
			cur.WriteRune(ch)
			if cur.Len() >= 6 {
				flush()
			}
		}
	}
	flush()
	return out
}

// harvest string literals from /repo/*_test.go at run time: arguments of Compile/MustCompile ("direct"),
// and any other literal that looks like a pattern ("table")
func c08Harvest() (direct []string, table []string) {
	files, _ := filepath.Glob(repoPath()+"/*_test.go")
	more, _ := filepath.Glob(repoPath()+"/compat/*_test.go")
	files = append(files, more...)
	sort.Strings(files)
	seenD, seenT := map[string]bool{}, map[string]bool{}
	fset := token.NewFileSet()
	for _, f := range files {
		src, err := os.ReadFile(f)
		if err != nil {
			continue
		}
		af, err := parser.ParseFile(fset, f, src, 0)
		if err != nil {
			continue
		}
		isDirect := map[*ast.BasicLit]bool{}
		ast.Inspect(af, func(n ast.Node) bool {
			call, ok := n.(*ast.CallExpr)
			if !ok || len(call.Args) == 0 {
				return true
			}
			name := ""
			switch fn := call.Fun.(type) {
			case *ast.Ident:
				name = fn.Name
			case *ast.SelectorExpr:
				name = fn.Sel.Name
				if id, ok := fn.X.(*ast.Ident); ok && (id.Name == "regexp" || id.Name == "stdregexp") {
					return true
				}
			}
			if name != "Compile" && name != "MustCompile" {
				return true
			}
			if lit, ok := call.Args[0].(*ast.BasicLit); ok && lit.Kind == token.STRING {
				if s, err := strconv.Unquote(lit.Value); err == nil && !seenD[s] {
					seenD[s] = true
					isDirect[lit] = true
					direct = append(direct, s)
				}
			}
			return true
		})
		ast.Inspect(af, func(n ast.Node) bool {
			lit, ok := n.(*ast.BasicLit)
			if !ok || lit.Kind != token.STRING || isDirect[lit] {
				return true
			}
			s, err := strconv.Unquote(lit.Value)
			if err != nil || len(s) < 3 || len(s) > 120 || seenD[s] || seenT[s] {
				return true
			}
			if strings.ContainsAny(s, `(\[`) && !strings.ContainsAny(s, "%\n") {
				seenT[s] = true
				table = append(table, s)
			}
			return true
		})
	}
	return
}

type c08Stats struct {
	matches, captures, multiCap, balancedGroups, emptyGroups, nonASCIISpans, invalidSpans, timeouts, compileErr, rtl int
}

// checks every observable of one match; returns the first failure
func c08CheckMatch(m *regexp2.Match, runes []rune, bnd []int, strInput *string, st *c08Stats) string {
	n := len(runes)
	groups := m.Groups()
	if len(groups) != m.GroupCount() {
		return fmt.Sprintf("len(Groups())=%d, GroupCount()=%d", len(groups), m.GroupCount())
	}
	if len(groups) == 0 {
		return "no group 0"
	}
	g0 := groups[0]
	if len(g0.Captures) != 1 {
		return fmt.Sprintf("group 0 has %d captures", len(g0.Captures))
	}
	if g0.Captures[0].RuneIndex != m.RuneIndex || g0.Captures[0].RuneLength != m.RuneLength || g0.RuneIndex != m.RuneIndex || g0.RuneLength != m.RuneLength {
		return fmt.Sprintf("group 0 capture (%d,%d) / embedded (%d,%d) differ from the match (%d,%d)", g0.Captures[0].RuneIndex, g0.Captures[0].RuneLength, g0.RuneIndex, g0.RuneLength, m.RuneIndex, m.RuneLength)
	}
	checkCap := func(what string, c *regexp2.Capture) string {
		i, l := c.RuneIndex, c.RuneLength
		if i < 0 || l < 0 || i+l > n {
			return fmt.Sprintf("%s = (%d,%d) is outside the input of %d runes", what, i, l, n)
		}
		want := runes[i : i+l]
		got := c.Runes()
		if len(got) != len(want) {
			return fmt.Sprintf("%s: Runes() has %d runes, span has %d", what, len(got), len(want))
		}
		for k := range got {
			if got[k] != want[k] {
				return fmt.Sprintf("%s: Runes() differs from input[%d:%d]", what, i, i+l)
			}
		}
		if c.String() != string(want) {
			return fmt.Sprintf("%s: String()=%+q, input span is %+q", what, c.String(), string(want))
		}
		bi, bl := c.ByteRange()
		if bi != bnd[i] || bl != bnd[i+l]-bnd[i] {
			return fmt.Sprintf("%s = runes (%d,%d): ByteRange()=(%d,%d), want (%d,%d)", what, i, l, bi, bl, bnd[i], bnd[i+l]-bnd[i])
		}
		if strInput != nil {
			sl := (*strInput)[bi : bi+bl]
			back := []rune(sl)
			if len(back) != len(want) {
				return fmt.Sprintf("%s: input[%d:%d]=%+q decodes to %d runes, span has %d", what, bi, bi+bl, sl, len(back), len(want))
			}
			for k := range back {
				if back[k] != want[k] {
					return fmt.Sprintf("%s: input[%d:%d]=%+q does not decode to the captured runes", what, bi, bi+bl, sl)
				}
			}
			if utf8.ValidString(sl) && sl != c.String() {
				return fmt.Sprintf("%s: String()=%+q but input bytes are %+q", what, c.String(), sl)
			}
			if !utf8.ValidString(sl) {
				st.invalidSpans++
			}
		}
		if bl != l {
			st.nonASCIISpans++
		}
		return ""
	}
	if e := checkCap("match", &m.Capture); e != "" {
		return e
	}
	for gi := range groups {
		g := &groups[gi]
		if len(g.Captures) == 0 {
			st.emptyGroups++
			if g.RuneIndex != 0 || g.RuneLength != 0 {
				return fmt.Sprintf("group %d has no captures but embedded capture (%d,%d)", gi, g.RuneIndex, g.RuneLength)
			}
			if bi, bl := g.ByteRange(); g.String() != "" || len(g.Runes()) != 0 || bl != 0 || bi != bnd[0] {
				return fmt.Sprintf("group %d has no captures but a non-empty embedded capture", gi)
			}
			continue
		}
		last := g.Captures[len(g.Captures)-1]
		if g.RuneIndex != last.RuneIndex || g.RuneLength != last.RuneLength {
			return fmt.Sprintf("group %d embedded capture (%d,%d) is not its last capture (%d,%d)", gi, g.RuneIndex, g.RuneLength, last.RuneIndex, last.RuneLength)
		}
		if e := checkCap(fmt.Sprintf("group %d embedded", gi), &g.Capture); e != "" {
			return e
		}
		if len(g.Captures) > 1 {
			st.multiCap++
		}
		for ci := range g.Captures {
			st.captures++
			if e := checkCap(fmt.Sprintf("group %d capture %d", gi, ci), &g.Captures[ci]); e != "" {
				return e
			}
		}
	}
	return ""
}

// match-time errors are not matches: timeout (C14) and backtracking stack limit (C13) end the case
func c08IsTimeout(err error) bool {
	return err != nil && (strings.Contains(err.Error(), "timeout") || strings.Contains(err.Error(), "backtracking stack"))
}

// expected adapter index row of a match: byte pairs per group, -1 -1 for groups without captures
func c08IndexRow(m *regexp2.Match, bnd []int) []int {
	gs := m.Groups()
	row := make([]int, 0, 2*len(gs))
	for i := range gs {
		if len(gs[i].Captures) == 0 {
			row = append(row, -1, -1)
			continue
		}
		a, b := gs[i].RuneIndex, gs[i].RuneIndex+gs[i].RuneLength
		if a < 0 || b > len(bnd)-1 || a > b {
			row = append(row, -5, -5)
			continue
		}
		row = append(row, bnd[a], bnd[b])
	}
	return row
}

const c08MaxMatches = 40

// The find-all functions report the successive matches minus some empty ones (which ones is the
// iteration rule of C07, not this property): got must be full with only empty matches removed.
func c08SubseqDropEmpty(full, got [][]int) bool {
	j := 0
	for _, row := range full {
		if j < len(got) && fmt.Sprint(got[j]) == fmt.Sprint(row) {
			j++
			continue
		}
		if len(row) < 2 || row[0] != row[1] {
			return false
		}
	}
	return j == len(got)
}

func legC08Wellformed(c *Ctx) {
	c.Rule("patterns: own random generator over literals (1-4 byte), classes, capture/named/non-capturing groups, alternation, greedy and lazy loops, lookahead, lookbehind with captures, " +
		"balancing groups (?<a>..)(?<-a>..) and (?<b-a>..), backreferences, atomic, conditionals, inline options, anchors, under random options {IgnoreCase, Multiline, Singleline, RightToLeft, ExplicitCapture, ECMAScript, RE2}; " +
		"plus every string literal passed to Compile/MustCompile in /repo/*_test.go and pattern-looking table literals (go/parser at run time); inputs mix 1-4 byte runes, U+FFFD, lone/overlong/surrogate/truncated bytes; " +
		"string and rune entry points, FindNextMatch iteration capped at 40; checks on every match: captures in bounds, group 0 = single capture = match, embedded = last capture, String/Runes = slice, " +
		"ByteRange = byte span of the rune span, FindAllStringIndex / compat FindAllStringSubmatchIndex / FindAllIndex([]byte) rows = rows computed from the matches; non-trivial = a match with a capture whose byte span differs from its rune span or a group with >= 2 captures (distinct by pattern+options+input)")
	direct, table := c08Harvest()
	c.Gate("c08-wellformed: harvested fewer than 50 Compile/MustCompile literals from /repo/*_test.go", len(direct) >= 50)
	used := map[string]bool{}
	st := &c08Stats{}
	optChoices := []regexp2.RegexOptions{regexp2.IgnoreCase, regexp2.Multiline, regexp2.Singleline, regexp2.RightToLeft, regexp2.ExplicitCapture}

	run := func(src, pat string, opts regexp2.RegexOptions, inputs []string) {
		var re *regexp2.Regexp
		var err error
		if p := c08Safe(func() { re, err = regexp2.Compile(pat, opts) }); p != "" {
			c.Add(&Case{Desc: fmt.Sprintf("%s pattern %+q opts=%#x", src, pat, int(opts)), Direct: "Compile panicked: " + p, Class: src + ":compile-panic"})
			return
		}
		if err != nil {
			st.compileErr++
			c.Hist(src + ":compile-error")
			return
		}
		c.Hist("programs")
		re.MatchTimeout = 150 * time.Millisecond
		cre := compat.Wrap(re)
		if re.RightToLeft() {
			st.rtl++
		}
		for _, s := range inputs {
			runes, _, bnd := c08Range(s)
			// byte boundaries of the rune input = lengths of string(runes[:k])
			rbnd := make([]int, len(runes)+1)
			for k, r := range runes {
				rbnd[k+1] = rbnd[k] + utf8.RuneLen(r)
			}
			cs := &Case{Desc: fmt.Sprintf("%s pattern %+q opts=%#x input %+q (% x)", src, pat, int(opts), s, s), Class: src}
			fail := func(f string, a ...any) {
				if cs.Direct == "" {
					cs.Direct = fmt.Sprintf(f, a...)
				}
			}
			timedOut := false
			var strRows, runeRows [][]int
			var strPairs, runePairs [][]int
			before := *st
			var groupCases []*Case
			p := c08Safe(func() {
				// ---- string entry point
				m, err := re.FindStringMatch(s)
				for k := 0; m != nil && err == nil && k < c08MaxMatches; k++ {
					st.matches++
					if e := c08CheckMatch(m, runes, bnd, &s, st); e != "" {
						fail("string entry, match %d: %s", k, e)
						return
					}
					strRows = append(strRows, c08IndexRow(m, bnd))
					strPairs = append(strPairs, []int{bnd[m.RuneIndex], bnd[m.RuneIndex+m.RuneLength]})
					if k < 2 {
						groupCases = append(groupCases, c08GroupCases(cs.Desc, k, m)...)
					}
					m, err = re.FindNextMatch(m)
				}
				if c08IsTimeout(err) {
					timedOut = true
					return
				}
				if err != nil {
					fail("string entry: unexpected error %v", err)
					return
				}
				complete := m == nil
				// ---- rune entry point
				m, err = re.FindRunesMatch(runes)
				for k := 0; m != nil && err == nil && k < c08MaxMatches; k++ {
					st.matches++
					if e := c08CheckMatch(m, runes, rbnd, nil, st); e != "" {
						fail("rune entry, match %d: %s", k, e)
						return
					}
					runeRows = append(runeRows, c08IndexRow(m, bnd))
					runePairs = append(runePairs, []int{bnd[m.RuneIndex], bnd[m.RuneIndex+m.RuneLength]})
					m, err = re.FindNextMatch(m)
				}
				if c08IsTimeout(err) {
					timedOut = true
					return
				}
				if err != nil {
					fail("rune entry: unexpected error %v", err)
					return
				}
				completeR := m == nil
				// ---- the find-all and adapter byte pairs must be the pairs of those matches
				if complete {
					all, err := re.FindAllStringIndex(s, -1)
					if c08IsTimeout(err) {
						timedOut = true
						return
					}
					if err != nil || !c08SubseqDropEmpty(strPairs, all) {
						fail("FindAllStringIndex = %v (err %v); byte pairs of the successive string matches = %v", all, err, strPairs)
					}
					if got := cre.FindAllStringIndex(s, -1); !c08SubseqDropEmpty(strPairs, got) {
						fail("compat FindAllStringIndex = %v; byte pairs of the successive string matches = %v", got, strPairs)
					}
					if got := cre.FindAllStringSubmatchIndex(s, -1); !c08SubseqDropEmpty(strRows, got) {
						fail("compat FindAllStringSubmatchIndex = %v; rows computed from the matches = %v", got, strRows)
					}
					if got := cre.FindAllSubmatchIndex([]byte(s), -1); !c08SubseqDropEmpty(strRows, got) {
						fail("compat FindAllSubmatchIndex([]byte) = %v; rows computed from the matches = %v", got, strRows)
					}
					if len(strRows) > 0 {
						if got := cre.FindStringSubmatchIndex(s); fmt.Sprint(got) != fmt.Sprint(strRows[0]) {
							fail("compat FindStringSubmatchIndex = %v; row of the first match = %v", got, strRows[0])
						}
					}
				}
				if completeR {
					if got := cre.FindAllIndex([]byte(s), -1); !c08SubseqDropEmpty(runePairs, got) {
						fail("compat FindAllIndex([]byte) = %v; byte pairs of the successive rune-entry matches = %v", got, runePairs)
					}
					if len(runeRows) > 0 {
						if got := cre.FindReaderSubmatchIndex(strings.NewReader(s)); fmt.Sprint(got) != fmt.Sprint(runeRows[0]) {
							fail("compat FindReaderSubmatchIndex = %v; row of the first rune-entry match = %v", got, runeRows[0])
						}
					}
				}
			})
			if p != "" {
				if strings.Contains(p, "timeout") || strings.Contains(p, "backtracking stack") {
					timedOut = true
				} else {
					fail("panic: %s", p)
				}
			}
			if timedOut {
				st.timeouts++
				c.Hist(src + ":timeout")
				continue
			}
			cs.Nontrivial = st.nonASCIISpans > before.nonASCIISpans || st.multiCap > before.multiCap
			if st.matches == before.matches {
				cs.Class = src + ":no-match"
			}
			c.Add(cs)
			for _, g := range groupCases {
				c.Add(g)
			}
		}
	}

	// harvested patterns
	for hi, list := range [][]string{direct, table} {
		src := []string{"harvest-direct", "harvest-table"}[hi]
		for _, pat := range list {
			alpha := c08PatternAlphabet(pat)
			optsList := []regexp2.RegexOptions{0}
			if hi == 0 || c.Rng.Chance(30) {
				optsList = append(optsList, Pick(c.Rng, []regexp2.RegexOptions{regexp2.RE2, regexp2.IgnoreCase, regexp2.RightToLeft, regexp2.ECMAScript, regexp2.Multiline | regexp2.Singleline}))
			}
			for _, o := range optsList {
				var inputs []string
				for k := 0; k < c.N(3, 8); k++ {
					inputs = append(inputs, c08Input(c.Rng, alpha))
				}
				run(src, pat, o, inputs)
			}
		}
	}
	// balancing groups on every open/close sequence up to a bound (captures that are references to earlier
	// captures, resolved when the match is tidied: sibling pairs nested in an outer pair read through two of them)
	for _, bp := range []struct{ pat, alpha string }{
		{`(?:(?<o>a)|(?<c-o>b))+`, "ab"},
		{`(?:(?<o>a)|(?<-o>b))+`, "ab"},
		{`^(?:(?<o>\()|(?<c-o>\))|[^()])*$`, "()é"},
		{`(?:(?<o>a)|(?<c-o>b)|(?<d-c>x))+`, "abx"},
		{`(?:(?<o>a)|(?<c-o>b))+\k<c>?`, "ab"},
	} {
		var inputs []string
		al := []rune(bp.alpha)
		maxLen := 7
		if len(al) > 2 {
			maxLen = 5
		}
		var rec func(cur []rune)
		rec = func(cur []rune) {
			if len(cur) > 0 {
				inputs = append(inputs, string(cur))
			}
			if len(cur) == maxLen {
				return
			}
			for _, ch := range al {
				rec(append(append([]rune{}, cur...), ch))
			}
		}
		rec(nil)
		for _, o := range []regexp2.RegexOptions{0, regexp2.RightToLeft} {
			run("balancing", bp.pat, o, inputs)
		}
	}
	// random patterns
	n := c.N(40000, 400000)
	for i := 0; i < n; i++ {
		g := &c08Gen{r: c.Rng, used: used}
		pat := g.alt(2)
		var o regexp2.RegexOptions
		for _, b := range optChoices {
			if c.Rng.Chance(15) {
				o |= b
			}
		}
		if c.Rng.Chance(5) {
			o |= regexp2.ECMAScript
			o &^= regexp2.RightToLeft
		} else if c.Rng.Chance(5) {
			o |= regexp2.RE2
		}
		var inputs []string
		for k := 0; k < c.N(3, 5); k++ {
			inputs = append(inputs, c08Input(c.Rng, nil))
		}
		run("random", pat, o, inputs)
	}
	for _, k := range []string{"literal", "class", "capture", "named", "balancing", "lookahead", "lookbehind", "lookbehind-capture", "backref", "atomic", "conditional", "alternation", "loop", "lazy", "anchor", "inline-option"} {
		c.Gate("c08-wellformed: generator never produced "+k, used[k])
	}
	c.Gate("c08-wellformed: no match at all", st.matches > 0)
	c.Gate("c08-wellformed: no group with >= 2 captures seen", st.multiCap > 0)
	c.Gate("c08-wellformed: no capture with a multi-byte span seen", st.nonASCIISpans > 0)
	c.Gate("c08-wellformed: no capture over invalid bytes seen", st.invalidSpans > 0)
	c.Gate("c08-wellformed: no group without captures seen", st.emptyGroups > 0)
	c.Gate("c08-wellformed: no RightToLeft program", st.rtl > 0)
	if c.res.Histogram == nil {
		c.res.Histogram = map[string]int{}
	}
	c.res.Histogram["matches-checked"] = st.matches
	c.res.Histogram["captures-checked"] = st.captures
	c.res.Histogram["groups-with-2+-captures"] = st.multiCap
	c.res.Histogram["captures-multibyte-span"] = st.nonASCIISpans
	c.res.Histogram["captures-over-invalid-bytes"] = st.invalidSpans
	c.res.Histogram["harvested-direct"] = len(direct)
	c.res.Histogram["harvested-table"] = len(table)
}

// model newGroup on the capture words of a real group: the embedded capture and the capture list must come out
func c08GroupCases(desc string, k int, m *regexp2.Match) []*Case {
	var out []*Case
	for gi, g := range m.Groups() {
		if gi == 0 || len(g.Captures) < 1 {
			continue
		}
		var words []int64
		impl := []int64{0, int64(g.RuneIndex), int64(g.RuneLength), int64(len(g.Captures))}
		for _, cp := range g.Captures {
			words = append(words, int64(cp.RuneIndex), int64(cp.RuneLength))
			impl = append(impl, int64(cp.RuneIndex), int64(cp.RuneLength))
		}
		in := append([]int64{int64(len(words))}, words...)
		in = append(in, int64(len(g.Captures)))
		out = append(out, &Case{Desc: fmt.Sprintf("newGroup on group %d of match %d of: %s", gi, k, desc), ModelLeg: 806, ModelIn: in, ImplOut: impl,
			Nontrivial: len(g.Captures) > 1, Class: "newGroup"})
		if len(out) >= 3 {
			break
		}
	}
	return out
}
