package main

// Elaboration of a source AST into the model's tree wire format, independently of regexp2's
// parser (DESIGN §2.3 L-sem), the exporter of regexp2's real trees into the same format, and
// the oracle/env encoders shared by all tree-level legs.

import (
	"fmt"
	"unicode"

	"github.com/dlclark/regexp2/v2/syntax"
)

// node type numbers of the wire format = syntax.NodeType values
const (
	ntOneloop = 3; ntNotoneloop = 4; ntSetloop = 5; ntOnelazy = 6; ntNotonelazy = 7; ntSetlazy = 8
	ntOne = 9; ntNotone = 10; ntSet = 11; ntMulti = 12; ntRef = 13
	ntBol = 14; ntEol = 15; ntBoundary = 16; ntNonboundary = 17; ntBeginning = 18; ntStart = 19; ntEndZ = 20; ntEnd = 21
	ntNothing = 22; ntEmpty = 23; ntAlternate = 24; ntConcatenate = 25; ntLoop = 26; ntLazyloop = 27
	ntCapture = 28; ntGroup = 29; ntPosLook = 30; ntNegLook = 31; ntAtomic = 32; ntBackRefCond = 33; ntExprCond = 34
	ntECMABoundary = 41; ntNonECMABoundary = 42
	inf = 2147483647
)

type setFn func(rune) bool

// TreeWire is a tree in wire format plus what the model needs to interpret it.
type TreeWire struct {
	Words []int64
	Sets  []setFn
	Slots []int64 // slot index -> group number
}

func (t *TreeWire) head(T, opts int, ch rune, m, n int, str []rune, set int, nkids int) {
	t.Words = append(t.Words, int64(T), int64(opts), int64(ch), int64(m), int64(n), int64(len(str)))
	for _, c := range str {
		t.Words = append(t.Words, int64(c))
	}
	t.Words = append(t.Words, int64(set), int64(nkids))
}

func (t *TreeWire) addSet(f setFn) int {
	t.Sets = append(t.Sets, f)
	return len(t.Sets) - 1
}

// ---------- elaboration (the harness's own reading of the documented syntax) ----------

type elabCtx struct {
	t      *TreeWire
	o      Opts
	nums   map[*Ast]int // capturing group -> number
	byName map[string]int
}

// numberGroups assigns group numbers by the documented rule: unnamed groups by '(' order
// (none under ExplicitCapture), then named groups in order of first appearance.
func numberGroups(a *Ast, o Opts) (map[*Ast]int, map[string]int, int) {
	nums := map[*Ast]int{}
	byName := map[string]int{}
	next := 1
	if o.RE2 || o.ECMA {
		// ECMAScript and RE2 keep the order of appearance (parser.go: maintainCaptureOrder): named and
		// unnamed groups are numbered together by their opening parenthesis
		var walkOrdered func(n *Ast, o Opts)
		walkOrdered = func(n *Ast, o Opts) {
			if n.Kind == AOptGroup {
				o = o.apply(n.On, n.Off)
			}
			if n.Kind == AGroup && n.Name == "" && !o.N {
				nums[n] = next
				next++
			}
			if n.Kind == AGroup && n.Name != "" {
				if k, ok := byName[n.Name]; ok {
					nums[n] = k
				} else {
					byName[n.Name] = next
					nums[n] = next
					next++
				}
			}
			for _, k := range n.Kids {
				walkOrdered(k, o)
			}
		}
		walkOrdered(a, o)
		return nums, byName, next
	}
	var walk func(n *Ast, o Opts)
	walk = func(n *Ast, o Opts) {
		if n.Kind == AOptGroup {
			o = o.apply(n.On, n.Off)
		}
		if n.Kind == AGroup && n.Name == "" && !o.N {
			nums[n] = next
			next++
		}
		for _, k := range n.Kids {
			walk(k, o)
		}
	}
	walk(a, o)
	var walk2 func(n *Ast)
	walk2 = func(n *Ast) {
		if n.Kind == AGroup && n.Name != "" {
			if k, ok := byName[n.Name]; ok {
				nums[n] = k
			} else {
				byName[n.Name] = next
				nums[n] = next
				next++
			}
		}
		for _, k := range n.Kids {
			walk2(k)
		}
	}
	walk2(a)
	return nums, byName, next
}

func nodeOpts(o Opts, rtl bool) int {
	b := 0
	if o.I {
		b |= 1
	}
	if rtl {
		b |= 64
	}
	return b
}

func (c *elabCtx) emit(a *Ast, o Opts, rtl bool) {
	t := c.t
	no := nodeOpts(o, rtl)
	switch a.Kind {
	case ALit:
		if o.I && len(caseVariants(a.Ch)) > 1 {
			vs := caseVariants(a.Ch)
			id := t.addSet(func(x rune) bool {
				for _, v := range vs {
					if v == x {
						return true
					}
				}
				return false
			})
			t.head(ntSet, no&^1, 0, 0, 0, nil, id, 0)
		} else {
			t.head(ntOne, no, a.Ch, 0, 0, nil, 0, 0)
		}
	case ADot:
		if o.S {
			id := t.addSet(func(rune) bool { return true })
			t.head(ntSet, no, 0, 0, 0, nil, id, 0)
		} else {
			t.head(ntNotone, no, '\n', 0, 0, nil, 0, 0)
		}
	case AClass:
		items, neg, ci, re2 := a.Items, a.Neg, o.I, o.RE2
		id := t.addSet(func(x rune) bool { return classIn(items, neg, ci, re2, x) })
		t.head(ntSet, no&^1, 0, 0, 0, nil, id, 0)
	case AAnchor:
		k := 0
		switch a.Name {
		case "^":
			k = ntBeginning
			if o.M {
				k = ntBol
			}
		case "$":
			k = ntEndZ
			if o.M {
				k = ntEol
			}
		case `\A`:
			k = ntBeginning
		case `\z`:
			k = ntEnd
		case `\Z`:
			k = ntEndZ
		case `\b`:
			k = ntBoundary
			if o.ECMA {
				k = ntECMABoundary
			}
		case `\B`:
			k = ntNonboundary
			if o.ECMA {
				k = ntNonECMABoundary
			}
		case `\G`:
			k = ntStart
		}
		t.head(k, no, 0, 0, 0, nil, 0, 0)
	case AConcat:
		t.head(ntConcatenate, no, 0, 0, 0, nil, 0, len(a.Kids))
		if rtl {
			for i := len(a.Kids) - 1; i >= 0; i-- {
				c.emit(a.Kids[i], o, rtl)
			}
		} else {
			for _, k := range a.Kids {
				c.emit(k, o, rtl)
			}
		}
	case AAlt:
		t.head(ntAlternate, no, 0, 0, 0, nil, 0, len(a.Kids))
		for _, k := range a.Kids {
			c.emit(k, o, rtl)
		}
	case ARep:
		T := ntLoop
		if a.Lazy {
			T = ntLazyloop
		}
		mx := a.Max
		if mx < 0 {
			mx = inf
		}
		t.head(T, no, 0, a.Min, mx, nil, 0, 1)
		c.emit(a.Kids[0], o, rtl)
	case AGroup:
		if num, ok := c.nums[a]; ok {
			t.head(ntCapture, no, 0, num, -1, nil, 0, 1)
		} else {
			t.head(ntGroup, no, 0, 0, 0, nil, 0, 1)
		}
		c.emit(a.Kids[0], o, rtl)
	case ANonCap:
		t.head(ntGroup, no, 0, 0, 0, nil, 0, 1)
		c.emit(a.Kids[0], o, rtl)
	case AOptGroup:
		t.head(ntGroup, no, 0, 0, 0, nil, 0, 1)
		c.emit(a.Kids[0], o.apply(a.On, a.Off), rtl)
	case ALook:
		T := ntPosLook
		if a.Neg {
			T = ntNegLook
		}
		t.head(T, nodeOpts(o, a.Behind), 0, 0, 0, nil, 0, 1)
		c.emit(a.Kids[0], o, a.Behind)
	case AAtomic:
		t.head(ntAtomic, no, 0, 0, 0, nil, 0, 1)
		c.emit(a.Kids[0], o, rtl)
	case ABackref:
		num := a.Ref
		if a.Name != "" {
			num = c.byName[a.Name]
		}
		t.head(ntRef, no, 0, num, 0, nil, 0, 0)
	case ACondRef:
		num := a.Ref
		if a.Name != "" {
			num = c.byName[a.Name]
		}
		t.head(ntBackRefCond, no, 0, num, 0, nil, 0, len(a.Kids))
		for _, k := range a.Kids {
			c.emit(k, o, rtl)
		}
	case ACondExpr:
		t.head(ntExprCond, no, 0, 0, 0, nil, 0, len(a.Kids))
		// the condition is an explicit lookaround node
		c.emit(a.Kids[0], o, rtl)
		for _, k := range a.Kids[1:] {
			c.emit(k, o, rtl)
		}
	}
}

// Elab builds the model tree for pattern AST a under options o.
func Elab(a *Ast, o Opts) *TreeWire {
	t := &TreeWire{}
	nums, byName, next := numberGroups(a, o)
	c := &elabCtx{t: t, o: o, nums: nums, byName: byName}
	t.head(ntCapture, nodeOpts(o, o.RTL), 0, 0, -1, nil, 0, 1)
	c.emit(a, o, o.RTL)
	for i := 0; i < next; i++ {
		t.Slots = append(t.Slots, int64(i))
	}
	return t
}

// ---------- export of regexp2's real trees ----------

// set ids are interned by content hash in depth-first order: the order in which the writer
// fills Code.Sets, so that a set id in the exported tree is the operand the writer emits
func setKey(cs *syntax.CharSet) string {
	rs, _, sub, _, _, _, _ := syntax.VerifCharSetFields(cs)
	k := string(cs.Hash()) + fmt.Sprint(rs)
	if sub != nil {
		k += "-" + setKey(sub)
	}
	return k
}

func exportNode(t *TreeWire, n *syntax.RegexNode, setIDs map[string]int) {
	set := 0
	if n.Set != nil && (n.T == ntSet || n.T == ntSetloop || n.T == ntSetlazy || n.T == 45) {
		// (the serialised form alone is not enough: it writes surrogate range endpoints as U+FFFD)
		key := setKey(n.Set)
		id, ok := setIDs[key]
		if !ok {
			cs := n.Set
			id = t.addSet(func(r rune) bool { return cs.CharIn(r) })
			setIDs[key] = id
		}
		set = id
	}
	t.head(int(n.T), int(n.Options), n.Ch, n.M, n.N, n.Str, set, len(n.Children))
	for _, k := range n.Children {
		exportNode(t, k, setIDs)
	}
}

func ExportTree(tree *syntax.RegexTree, code *syntax.Code) *TreeWire {
	t := &TreeWire{}
	exportNode(t, tree.Root, map[string]int{})
	// slot -> group number
	if code.Caps == nil {
		for i := 0; i < code.Capsize; i++ {
			t.Slots = append(t.Slots, int64(i))
		}
	} else {
		t.Slots = make([]int64, code.Capsize)
		for num, slot := range code.Caps {
			t.Slots[slot] = int64(num)
		}
	}
	return t
}

// ---------- env encoding ----------

// encEnv: text, textstart, ecma, endz_strict, oracle rows for the distinct runes of the text, slots
func encEnv(text []rune, textstart int, o Opts, sets []setFn, slots []int64) []int64 {
	out := encRunes(text)
	out = append(out, int64(textstart), b2i(o.ECMA), b2i(o.ECMA || o.RE2))
	seen := map[rune]bool{}
	var rows []int64
	n := 0
	for _, r := range text {
		if seen[r] {
			continue
		}
		seen[r] = true
		n++
		rows = append(rows, int64(r), int64(unicode.ToLower(r)), b2i(syntax.IsWordChar(r)), b2i(syntax.IsECMAWordChar(r)), int64(len(sets)))
		for _, f := range sets {
			rows = append(rows, b2i(f(r)))
		}
	}
	out = append(out, int64(n))
	out = append(out, rows...)
	out = append(out, int64(len(slots)))
	out = append(out, slots...)
	return out
}
