package main

// C20: under IgnoreCase the outcome is invariant under case changes of input letters and of pattern
// letters (metamorphic checks on the implementation; letters with a simple upper/lower pair only).

import (
	"fmt"
	"sort"
	"strings"
	"time"
	"unicode"

	"github.com/dlclark/regexp2/v2"
)

func init() {
	registerLeg("c20-case", "C20", legCase)
}

// letters whose case-fold orbit is exactly {lower, upper}
var ciLetters = []rune{'a', 'b', 'c', 'e', 'z', 'é', 'ä', 'α', 'λ', 'я', 'д'}

func swapCase(c rune) rune {
	if unicode.IsLower(c) {
		return unicode.ToUpper(c)
	}
	if unicode.IsUpper(c) {
		return unicode.ToLower(c)
	}
	return c
}

// flipPattern changes the case of literal letters, class members and range endpoints of a pattern
// (both endpoints of a range together); letters of escapes and group syntax are left alone.
func flipPattern(r *Rng, pat string, all bool) string {
	rs := []rune(pat)
	out := make([]rune, len(rs))
	copy(out, rs)
	for i := 0; i < len(rs); i++ {
		c := rs[i]
		if c == '\\' {
			i++ // the escaped character is never flipped
			if i+1 < len(rs) && rs[i] == 'k' && rs[i+1] == '<' {
				for i < len(rs) && rs[i] != '>' {
					i++
				}
			}
			if i+1 < len(rs) && (rs[i] == 'p' || rs[i] == 'P') && rs[i+1] == '{' {
				for i < len(rs) && rs[i] != '}' { // a category name is not a pattern letter
					i++
				}
			}
			continue
		}
		if c == '(' && i+1 < len(rs) && rs[i+1] == '?' {
			// skip the group-syntax letters: (?i:  (?<name>  (?=  (?!  (?>  (?<=  (?<!  (?(
			j := i + 2
			for j < len(rs) && (unicode.IsLetter(rs[j]) || rs[j] == '-' || rs[j] == '<' || rs[j] == '!' || rs[j] == '=' || rs[j] == '>') {
				if rs[j] == '>' || rs[j] == ':' || rs[j] == '=' || rs[j] == '!' {
					j++
					break
				}
				j++
			}
			i = j - 1
			continue
		}
		if c == '-' && i+1 < len(rs) && rs[i+1] != ']' && i > 0 && rs[i-1] != '[' {
			// the upper endpoint of a range whose lower endpoint was not a plain letter: leave it
			if rs[i+1] == '\\' {
				i += 2
			} else {
				i++
			}
			continue
		}
		if !unicode.IsLetter(c) {
			continue
		}
		// a range inside a class: flip both endpoints together, and only when that maps the whole range
		// letter by letter (otherwise the case-changed range denotes a different set)
		if i+2 < len(rs) && rs[i+1] == '-' && rs[i+2] != ']' {
			hi := rs[i+2]
			ok := unicode.IsLetter(hi) && hi >= c && hi-c < 64
			if ok {
				for x := c; x <= hi; x++ {
					if !unicode.IsLetter(x) || swapCase(x) == x || swapCase(x)-swapCase(c) != x-c {
						ok = false
					}
				}
			}
			if ok && (all || r.Bool()) {
				out[i], out[i+2] = swapCase(c), swapCase(hi)
			}
			if hi == '\\' {
				i += 3
			} else {
				i += 2
			}
			continue
		}
		if all || r.Bool() {
			out[i] = swapCase(c)
		}
	}
	return string(out)
}

func flipInput(r *Rng, in []rune, all bool) []rune {
	out := make([]rune, len(in))
	for i, c := range in {
		out[i] = c
		if all || r.Bool() {
			out[i] = swapCase(c)
		}
	}
	return out
}

var ciTemplates = []string{
	`[\s\S-[a]]`, `[\w\W-[b]]+`, `[\d\D-[é]]x`, `[\s\S-[x-z]]`, `[a-z-[\w\W-[e]]]`, `(a)a(?<=\1)`, `(?<=\1b)(a)`, `(é)x(?<=\1x)`, `(a)(?<=\1)b`,
	`[a-z-[b]]`, `[a-c-[b]]+`, `[^a-c-[b]]`, `[a-zé-[e-z]]x`, `[\w-[a-c]]+`, `[a-z-[aeiou]]{2}`, `[a-z-[b-y-[c]]]`,
	`abc`, `a+b`, `(a|B)c`, `[abc]+z`, `[^abc]z`, `é+`, `äb`, `αλ`, `яд`, `[α-λ]`, `[а-я]+`, `(?:ab|AC)z`, `a(?=b)`, `(?<=a)b`, `(?<!a)b`, `a(?!b)`,
	`(a)\1`, `(ab)c\1`, `(?<n>[a-c])\k<n>`, `(é)x\1`, `(a|b)\1+`, `([a-c]+)-\1`,
	`abc\w+`, `abcz\d`, `(?:abc|abe|zzz)\d`, `a.c`, `..ab`, `\w*az`, `[^,]*,a`, `a*b`, `b$`, `^a`, `\Aab`, `ab\z`, `a{2,3}b`, `(?>a+)b`,
	// classes that cover everything but a short run (normalised to a negated form listing the run), with an explicit
	// member whose case partner lies in that run; and categories inside a subtraction (widened under IgnoreCase)
	`[\x00-\x60b-\x{10FFFF}]`, `[\x00-jl-\x{10FFFF}]x`, `[\x00-\x40C-\x{10FFFF}]+`, `[\x01-\x{10FFFF}]a`, `[\x00-дж-\x{10FFFF}]`, `[\w-[\p{Lu}]]`, `[a-z-[\p{Ll}]]x`, `[abc-[\p{Lu}]]`, `[\w$-[\p{Ll}]]`, `[a-z5-[\w-[\p{Lu}]]]`, `[\p{L}-[\p{Uppercase_Letter}]]`,
	// a literal run that starts with a caseless non-ASCII character is still a case-insensitive literal
	`¿que`, `—да`, `«ab»c`, `·αβ`, `²ab`, `¡é!`, ` ab`, `…xy`,
	`\bab\b`, `a\Bb`, `[a-c][e-z]`, `[eéä]+b`, `z[^é]`, `[^a-c][^z]`,
}

// "everything but a short run" classes: the run's letters have their case partners inside the class, so under
// IgnoreCase all of these are the whole universe (or its complement), however the endpoint next to the run is cased
var ciEndpointSpellings = map[string][]string{
	`[\x00-\x60b-\x{10FFFF}]`:              {`[\x00-\x60B-\x{10FFFF}]`},
	`[\x00-jl-\x{10FFFF}]x`:                {`[\x00-jL-\x{10FFFF}]x`},
	`[\x00-дж-\x{10FFFF}]`:                 {`[\x00-дЖ-\x{10FFFF}]`},
	`[^\x00-\x60b-\x{10FFFF}]?x`:           {`[^\x00-\x60B-\x{10FFFF}]?x`},
	`[a-z-[\x00-\x60c-\x{10FFFF}]]?y`:      {`[a-z-[\x00-\x60C-\x{10FFFF}]]?y`},
	`[\x00-\x{042F}\x{0431}-\x{10FFFF}]z?`: {`[\x00-\x{042F}\x{0411}-\x{10FFFF}]z?`},
	// open-ended ranges from the first letter on: on texts without the six characters between Z and a the two spellings agree
	`[a-\x{10FFFF}]`:                     {`[A-\x{10FFFF}]`},
	`^[^a-\x{10FFFF}]?1$`:                {`^[^A-\x{10FFFF}]?1$`},
	`[\x00-\x{10FFFF}-[a-\x{10FFFF}]]?1`: {`[\x00-\x{10FFFF}-[A-\x{10FFFF}]]?1`},
}

// the letters of the excluded run, for directed inputs
var ciEndpointRun = map[string]string{
	`[\x00-\x60b-\x{10FFFF}]`:              "aA",
	`[\x00-jl-\x{10FFFF}]x`:                "kK",
	`[\x00-дж-\x{10FFFF}]`:                 "еЕ",
	`[^\x00-\x60b-\x{10FFFF}]?x`:           "aA",
	`[a-z-[\x00-\x60c-\x{10FFFF}]]?y`:      "abAB",
	`[\x00-\x{042F}\x{0431}-\x{10FFFF}]z?`: "аА",
	`[a-\x{10FFFF}]`:                       "aAzZcC",
	`^[^a-\x{10FFFF}]?1$`:                  "aAzZ",
	`[\x00-\x{10FFFF}-[a-\x{10FFFF}]]?1`:   "aAzZ",
}

func legCase(c *Ctx) {
	c.Rule("patterns compiled with IgnoreCase (option or leading (?i)): templates with literals, classes, negated classes, class subtractions, backreferences and prefix-search shapes over ASCII/Latin-1/Greek/Cyrillic letters with simple upper/lower pairs, plus random ASTs over those letters; x both directions; inputs over the letters (both cases), digits and punctuation; metamorphic checks: result spans are unchanged when input letters change case (random subset and all), and when pattern literals/class members/range endpoints change case; string and rune entry points; non-trivial = some match exists (distinct by pattern,input)")
	type cp struct {
		pat string
		rtl bool
	}
	var pats []cp
	for _, t := range ciTemplates {
		pats = append(pats, cp{t, false}, cp{t, true})
	}
	var spelled []string
	for t := range ciEndpointSpellings {
		spelled = append(spelled, t)
	}
	sort.Strings(spelled) // (map order must not leak into the order of the random draws)
	for _, t := range spelled {
		pats = append(pats, cp{t, false})
	}
	for _, t := range []string{`\1(a)`, `\1b(a)`, `\k<n>(?<n>[a-c])`, `\1+(é)`} {
		pats = append(pats, cp{t, true}) // backreference evaluated right-to-left
	}
	n := c.N(2500, 40000)
	for i := 0; i < n; i++ {
		o := Opts{I: true, RTL: c.Rng.Chance(20), S: c.Rng.Chance(20), M: c.Rng.Chance(20)}
		lits := []rune{Pick(c.Rng, ciLetters), Pick(c.Rng, ciLetters), swapCase(Pick(c.Rng, ciLetters))}
		cfg := GenCfg{Lits: lits, MaxDepth: 2 + c.Rng.Intn(3), NullableReps: true, Look: true, Behind: true, Backref: true, Atomic: true,
			Anchors: []string{"^", "$"}, Classes: true, Shorthand: true, MaxRep: 3, Opts: o}
		ast := GenAst(c.Rng, cfg)
		pats = append(pats, cp{ast.Pattern(o, nil), o.RTL})
	}
	alphabet := append([]rune{}, ciLetters...)
	for _, l := range ciLetters {
		alphabet = append(alphabet, unicode.ToUpper(l))
	}
	alphabet = append(alphabet, '1', '-', ',', ' ', '\n', 'x', 'X')
	hits := map[string]int{}
	for _, p := range pats {
		opts := regexp2.IgnoreCase
		if p.rtl {
			opts |= regexp2.RightToLeft
		}
		re, err := regexp2.Compile(p.pat, opts)
		if err != nil {
			continue
		}
		re.MatchTimeout = 300 * time.Millisecond
		var flipped []*regexp2.Regexp
		var fpats []string
		for k := 0; k < 3; k++ {
			fp := flipPattern(c.Rng, p.pat, k == 0)
			if fp == p.pat {
				continue
			}
			fre, err := regexp2.Compile(fp, opts)
			if err != nil {
				c.Add(&Case{Desc: fmt.Sprintf("pattern %q flipped %q", p.pat, fp), Direct: "case-flipped pattern does not compile: " + err.Error()})
				continue
			}
			fre.MatchTimeout = 300 * time.Millisecond
			flipped = append(flipped, fre)
			fpats = append(fpats, fp)
		}
		// spellings that differ in the case of a range endpoint whose other endpoint is not a letter: the flipper leaves
		// such ranges alone (in general the set changes), these particular ones denote the same set under IgnoreCase
		for _, fp := range ciEndpointSpellings[p.pat] {
			fre, err := regexp2.Compile(fp, opts)
			if err != nil {
				c.Add(&Case{Desc: fmt.Sprintf("pattern %q spelled %q", p.pat, fp), Direct: "case-flipped pattern does not compile: " + err.Error()})
				continue
			}
			fre.MatchTimeout = 300 * time.Millisecond
			flipped = append(flipped, fre)
			fpats = append(fpats, fp)
			hits["endpoint-spelling"]++
		}
		if strings.Contains(p.pat, "-[") {
			hits["subtraction"]++
		}
		if strings.Contains(p.pat, `\1`) || strings.Contains(p.pat, `\k<`) {
			hits["backref"]++
		}
		nIn := c.N(10, 30)
		if len(p.pat) < 16 {
			nIn = c.N(60, 200) // the hand-written templates are few and cheap: many more inputs each
		}
		for k := 0; k < nIn; k++ {
			in := randString(c.Rng, alphabet, 7)
			if run := []rune(ciEndpointRun[p.pat]); len(run) > 0 && k < 8 {
				// texts that begin with (or consist of) a letter of the excluded run, followed by what the template needs
				in = append([]rune{run[k%len(run)]}, []rune(Pick(c.Rng, []string{"", "x", "y", "z", "xx", "1", "1"}))...)
			} else if k%3 == 0 {
				// short inputs made only of the pattern's own letters in both cases
				var ls []rune
				for _, ch := range p.pat {
					if unicode.IsLetter(ch) {
						ls = append(ls, ch, swapCase(ch))
					}
				}
				if len(ls) > 0 {
					in = randString(c.Rng, ls, 5)
				}
			}
			// seed the input with the pattern's own letters so that matches are frequent
			for _, ch := range p.pat {
				if unicode.IsLetter(ch) && c.Rng.Chance(30) && len(in) > 0 {
					in[c.Rng.Intn(len(in))] = ch
				}
			}
			base, err := re.FindRunesMatch(in)
			if err != nil {
				continue
			}
			cb := canon(base)
			desc := fmt.Sprintf("pattern %q rtl=%v input %+q -> %s", p.pat, p.rtl, string(in), cb)
			var bad []string
			for v := 0; v < 3; v++ {
				fin := flipInput(c.Rng, in, v == 0)
				m, err := re.FindRunesMatch(fin)
				if err == nil && !canonEq(canon(m), cb) {
					bad = append(bad, fmt.Sprintf("input with case changed %+q gives %s", string(fin), canon(m)))
				}
				ms, err := re.FindStringMatch(string(fin))
				if err == nil && !canonEq(canon(ms), cb) {
					bad = append(bad, fmt.Sprintf("string entry on case-changed input %+q gives %s", string(fin), canon(ms)))
				}
				if ok, err := re.MatchString(string(fin)); err == nil && ok != (base != nil) {
					bad = append(bad, fmt.Sprintf("MatchString on case-changed input %+q = %v", string(fin), ok))
				}
			}
			for i, fre := range flipped {
				m, err := fre.FindRunesMatch(in)
				if err == nil && !canonEq(canon(m), cb) {
					bad = append(bad, fmt.Sprintf("pattern with case changed %q gives %s", fpats[i], canon(m)))
				}
			}
			cs := &Case{Desc: desc, Nontrivial: base != nil, Key: desc, Class: "case"}
			if len(bad) > 0 {
				cs.Direct = strings.Join(bad, " | ")
			}
			c.Add(cs)
		}
	}
	c.Gate("class subtraction patterns exercised", hits["subtraction"] > 0)
	c.Gate("backreference patterns exercised", hits["backref"] > 0)
	c.Gate("endpoint spellings exercised", hits["endpoint-spelling"] >= 9)
}
