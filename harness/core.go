package main

import (
	"runtime"
	"bufio"
	"crypto/sha256"
	"encoding/hex"
	"encoding/json"
	"fmt"
	"os"
	"os/exec"
	"path/filepath"
	"sort"
	"strconv"
	"strings"
	"sync"
	"time"
)

// ---------- PRNG: every random choice derives from one SplitMix64 state ----------

type Rng struct{ s uint64 }

func NewRng(seed uint64) *Rng { return &Rng{s: seed} }
func (r *Rng) Next() uint64 {
	r.s += 0x9E3779B97F4A7C15
	z := r.s
	z = (z ^ (z >> 30)) * 0xBF58476D1CE4E5B9
	z = (z ^ (z >> 27)) * 0x94D049BB133111EB
	return z ^ (z >> 31)
}
func (r *Rng) Intn(n int) int {
	if n <= 0 {
		return 0
	}
	return int(r.Next() % uint64(n))
}
func (r *Rng) Bool() bool       { return r.Next()&1 == 1 }
func (r *Rng) Chance(p int) bool { return r.Intn(100) < p } // p percent
func (r *Rng) Fork() *Rng       { return NewRng(r.Next()) }
func Pick[T any](r *Rng, xs []T) T { return xs[r.Intn(len(xs))] }

// ---------- cases ----------

// Case is one unit of work of a correspondence leg.
type Case struct {
	Desc       string  // self-contained human-readable description (goes into replay files)
	ModelLeg   int     // model entry point (Driver.run leg number); 0 = no model evaluation
	ModelIn    []int64 // argument list for the model
	ImplOut    []int64 // what the implementation produced, in the model's output encoding
	Nontrivial bool    // counted in distinct_nontrivial (by Key)
	Key        string  // distinctness key (defaults to Desc)
	Direct     string  // non-empty: the property's own observable failed on the implementation
	Guard      string  // non-empty: name of the known-finding guard this case violates (attribution, DESIGN 2.6)
	Class      string  // histogram bucket
}

type Violation struct {
	Leg      string  `json:"leg"`
	Kind     string  `json:"kind"` // "direct" | "model-mismatch" | "obligation"
	Desc     string  `json:"desc"`
	Detail   string  `json:"detail"`
	ModelIn  []int64 `json:"model_in,omitempty"`
	ImplOut  []int64 `json:"impl_out,omitempty"`
	ModelOut []int64 `json:"model_out,omitempty"`
	Known    string  `json:"known,omitempty"` // key of the known finding it was attributed to
	Replay   string  `json:"replay,omitempty"`
	NoInput  bool    `json:"no_failing_input_found,omitempty"`
}

type LegResult struct {
	Leg          string         `json:"leg"`
	Evaluations  int            `json:"evaluations"`
	ModelEvals   int            `json:"model_evaluations"`
	Distinct     int            `json:"distinct_nontrivial"`
	Rule         string         `json:"rule"`
	Samples      []string       `json:"samples"`
	Histogram    map[string]int `json:"histogram"`
	Violations   []Violation    `json:"violations"`
	KnownHits    map[string]int `json:"known_hits"`
	WallS        float64        `json:"wall_s"`
	CoverageFail []string       `json:"coverage_gate_failures,omitempty"`
}

type Ctx struct {
	Leg      string
	Prop     string
	Tier     string
	Seed     uint64
	Rng      *Rng
	ModelBin string
	OutDir   string
	Thorough bool
	cases    []*Case
	res      LegResult
	distinct map[string]bool
	known    map[string]string // key -> description, for this property
}

func (c *Ctx) N(quick, thorough int) int {
	if c.Thorough {
		return thorough
	}
	return quick
}

func (c *Ctx) Add(cs *Case) {
	c.cases = append(c.cases, cs)
	if len(c.cases) >= 20000 {
		c.Flush()
	}
}

func (c *Ctx) Rule(s string) { c.res.Rule = s }
func (c *Ctx) Hist(k string) {
	if c.res.Histogram == nil {
		c.res.Histogram = map[string]int{}
	}
	c.res.Histogram[k]++
}
func (c *Ctx) Gate(name string, ok bool) {
	if !ok {
		c.res.CoverageFail = append(c.res.CoverageFail, name)
	}
}

func fmtInts(xs []int64) string {
	var sb strings.Builder
	for i, x := range xs {
		if i > 0 {
			sb.WriteByte(' ')
		}
		sb.WriteString(strconv.FormatInt(x, 10))
	}
	return sb.String()
}

func eqInts(a, b []int64) bool {
	if len(a) != len(b) {
		return false
	}
	for i := range a {
		if a[i] != b[i] {
			return false
		}
	}
	return true
}

// runModel evaluates a batch of (leg, args) lines on the extracted model, split over several processes.
func runModel(bin string, legs []int, ins [][]int64) ([][]int64, error) {
	const P = 8
	if len(ins) < 64 {
		return runModel1(bin, legs, ins)
	}
	outs := make([][]int64, len(ins))
	errs := make([]error, P)
	var wg sync.WaitGroup
	chunk := (len(ins) + P - 1) / P
	for k := 0; k < P; k++ {
		lo, hi := k*chunk, min((k+1)*chunk, len(ins))
		if lo >= hi {
			continue
		}
		wg.Add(1)
		go func(k, lo, hi int) {
			defer wg.Done()
			o, err := runModel1(bin, legs[lo:hi], ins[lo:hi])
			if err != nil {
				errs[k] = err
				return
			}
			copy(outs[lo:hi], o)
		}(k, lo, hi)
	}
	wg.Wait()
	for _, e := range errs {
		if e != nil {
			return nil, e
		}
	}
	return outs, nil
}

func runModel1(bin string, legs []int, ins [][]int64) ([][]int64, error) {
	// deep fuel values are unary nats: give the extracted code a large native stack
	cmd := exec.Command("sh", "-c", "ulimit -s 8000000 2>/dev/null || ulimit -s unlimited 2>/dev/null; exec \"$0\"", bin)
	stdin, err := cmd.StdinPipe()
	if err != nil {
		return nil, err
	}
	stdout, err := cmd.StdoutPipe()
	if err != nil {
		return nil, err
	}
	cmd.Stderr = os.Stderr
	if err := cmd.Start(); err != nil {
		return nil, err
	}
	go func() {
		w := bufio.NewWriterSize(stdin, 1<<20)
		for i, in := range ins {
			w.WriteString(strconv.Itoa(legs[i]))
			for _, x := range in {
				w.WriteByte(' ')
				w.WriteString(strconv.FormatInt(x, 10))
			}
			w.WriteByte('\n')
		}
		w.Flush()
		stdin.Close()
	}()
	outs := make([][]int64, 0, len(ins))
	sc := bufio.NewScanner(stdout)
	sc.Buffer(make([]byte, 1<<20), 1<<28)
	for sc.Scan() {
		fs := strings.Fields(sc.Text())
		o := make([]int64, len(fs))
		for i, f := range fs {
			v, err := strconv.ParseInt(f, 10, 64)
			if err != nil {
				return nil, fmt.Errorf("model output not an int: %q", f)
			}
			o[i] = v
		}
		outs = append(outs, o)
	}
	if err := cmd.Wait(); err != nil {
		return nil, fmt.Errorf("model process: %v", err)
	}
	if len(outs) != len(ins) {
		return nil, fmt.Errorf("model returned %d lines for %d cases", len(outs), len(ins))
	}
	return outs, nil
}

func (c *Ctx) isKnown(guard string) bool {
	_, ok := c.known[guard]
	return ok
}

func (c *Ctx) violate(v Violation, guard string) {
	if guard != "" && c.isKnown(guard) {
		v.Known = guard
		if c.res.KnownHits == nil {
			c.res.KnownHits = map[string]int{}
		}
		c.res.KnownHits[guard]++
		if c.res.KnownHits[guard] > 1 {
			return // keep one witness per known finding
		}
	}
	if v.Known == "" && len(c.res.Violations) >= 25 {
		return
	}
	h := sha256.Sum256([]byte(v.Leg + v.Desc + v.Detail))
	name := fmt.Sprintf("%s-%s.json", c.Prop, hex.EncodeToString(h[:6]))
	v.Replay = filepath.Join(c.OutDir, "replay", name)
	os.MkdirAll(filepath.Dir(v.Replay), 0o755)
	b, _ := json.MarshalIndent(map[string]any{"property": c.Prop, "leg": c.Leg, "seed": c.Seed, "tier": c.Tier, "violation": v}, "", " ")
	os.WriteFile(v.Replay, b, 0o644)
	c.res.Violations = append(c.res.Violations, v)
}

// Flush evaluates the pending cases on the model and records disagreements.
func (c *Ctx) Flush() {
	cases := c.cases
	c.cases = nil
	var legs []int
	var ins [][]int64
	var idx []int
	for i, cs := range cases {
		c.res.Evaluations++
		key := cs.Key
		if key == "" {
			key = cs.Desc
		}
		if cs.Nontrivial && !c.distinct[key] {
			c.distinct[key] = true
			c.res.Distinct++
		}
		if cs.Class != "" {
			c.Hist(cs.Class)
		}
		if len(c.res.Samples) < 6 && (cs.Nontrivial || len(cases) < 10) && c.Rng.Intn(1+i/4) == 0 {
			c.res.Samples = append(c.res.Samples, cs.Desc)
		}
		if cs.Direct != "" {
			c.violate(Violation{Leg: c.Leg, Kind: "direct", Desc: cs.Desc, Detail: cs.Direct}, cs.Guard)
		}
		if cs.ModelLeg != 0 {
			legs = append(legs, cs.ModelLeg)
			ins = append(ins, cs.ModelIn)
			idx = append(idx, i)
		}
	}
	if len(ins) == 0 {
		return
	}
	outs, err := runModel(c.ModelBin, legs, ins)
	if err != nil {
		c.violate(Violation{Leg: c.Leg, Kind: "obligation", Desc: "model execution failed", Detail: err.Error(), NoInput: true}, "")
		return
	}
	for k, o := range outs {
		cs := cases[idx[k]]
		c.res.ModelEvals++
		if !eqInts(o, cs.ImplOut) {
			c.violate(Violation{Leg: c.Leg, Kind: "model-mismatch", Desc: cs.Desc,
				Detail:  fmt.Sprintf("implementation %v, model %v", fmtInts(cs.ImplOut), fmtInts(o)),
				ModelIn: cs.ModelIn, ImplOut: cs.ImplOut, ModelOut: o}, cs.Guard)
		}
	}
}

// ---------- known findings ----------

// known_findings.txt lines:  known: property=C06 key=<guard> <text>   |   fixed: property=C19 <commit> <text>
func loadKnown(path, prop string) map[string]string {
	out := map[string]string{}
	b, err := os.ReadFile(path)
	if err != nil {
		return out
	}
	for _, ln := range strings.Split(string(b), "\n") {
		ln = strings.TrimSpace(ln)
		if !strings.HasPrefix(ln, "known:") {
			continue
		}
		fs := strings.Fields(ln)
		if len(fs) < 3 || fs[1] != "property="+prop || !strings.HasPrefix(fs[2], "key=") {
			continue
		}
		out[strings.TrimPrefix(fs[2], "key=")] = strings.Join(fs[3:], " ")
	}
	return out
}

type legFunc func(c *Ctx)

var legsRegistry = map[string]struct {
	prop string
	f    legFunc
}{}

func registerLeg(name, prop string, f legFunc) {
	legsRegistry[name] = struct {
		prop string
		f    legFunc
	}{prop, f}
}

func runLeg(name, tier string, seed uint64, modelBin, outDir, knownPath string) LegResult {
	e, ok := legsRegistry[name]
	if !ok {
		fmt.Fprintf(os.Stderr, "unknown leg %s\n", name)
		os.Exit(2)
	}
	// the per-leg stream is derived from the seed and the leg name only
	h := sha256.Sum256([]byte(name))
	var mix uint64
	for i := 0; i < 8; i++ {
		mix = mix<<8 | uint64(h[i])
	}
	c := &Ctx{Leg: name, Prop: e.prop, Tier: tier, Seed: seed, Rng: NewRng(seed ^ mix), ModelBin: modelBin,
		OutDir: outDir, Thorough: tier == "thorough", distinct: map[string]bool{}, known: loadKnown(knownPath, e.prop)}
	c.res.Leg = name
	c.res.Histogram = map[string]int{}
	t0 := time.Now()
	func() {
		// a run-time fault inside a leg is almost always the ENGINE faulting in a call the leg did not guard:
		// it is reported as a violation with its stack, not as a crash of the whole harness
		defer func() {
			if p := recover(); p != nil {
				buf := make([]byte, 1<<16)
				buf = buf[:runtime.Stack(buf, false)]
				st := string(buf)
				if len(st) > 3000 {
					st = st[:3000]
				}
				c.Add(&Case{Desc: "leg " + name + " stopped by a run-time panic", Direct: fmt.Sprintf("panic: %v\n%s", p, st), Class: "panic"})
			}
		}()
		e.f(c)
	}()
	c.Flush()
	c.res.WallS = time.Since(t0).Seconds()
	if c.res.Samples == nil {
		c.res.Samples = []string{}
	}
	if c.res.Violations == nil {
		c.res.Violations = []Violation{}
	}
	return c.res
}

func legNames() []string {
	var ns []string
	for n := range legsRegistry {
		ns = append(ns, n)
	}
	sort.Strings(ns)
	return ns
}
